"""Regression corpus: the minimal programs that demonstrated the repaired defects F1..F10 (corpus/findings/*.cpp).
Each is built against /repo's current headers and run first by the check of every property it belongs to;
exit 0 = the defect is absent.  A defect that returns is reported with the program as the replay."""
import os
from . import common as C

UBSAN = ["-O0", "-fsanitize=undefined", "-fno-sanitize-recover=all"]
CORPUS = {
    "f1_activation_veto.cpp": (("C02", "C03", "C04"), []),
    "f1_veto_round2.cpp": (("C02", "C03", "C04", "C11"), []),
    "f2_isactive0.cpp": (("C06", "C08"), []),
    "f3_copy_history.cpp": (("C17", "C11"), []),
    "f4_bitarray_setall.cpp": (("C20",), []),
    "f5_payload_alignment.cpp": (("C18", "C07"), UBSAN),
    "f6_planexists_uninit.cpp": (("C09", "C17"), []),
    "f7_switch_combo.cpp": (("C19", "C12"), []),
    "f8_taskstatus_alignment.cpp": (("C18",), UBSAN),
    "f9_plan_first_last.cpp": (("C10",), []),
    "f10_const_control_plan.cpp": (("C10", "C06"), []),
}


def run(ctx):
    d = os.path.join(C.VERIF, "corpus", "findings")
    ran = []
    for name in sorted(CORPUS):
        props, flags = CORPUS[name]
        if ctx.prop not in props:
            continue
        path = os.path.join(d, name)
        src = open(path).read()
        exe, log = C.build_harness("corpus_" + name[:-4], src, ["-std=c++11", "-w"] + flags)
        if exe is None:
            err = [l for l in log.split("\n") if "error" in l or "undefined reference" in l][:4]
            ctx.failures.append({"what": "regression program corpus/findings/%s no longer builds against the current headers "
                                         "(the repaired defect it demonstrates is back, or the API it uses changed)" % name,
                                 "program": path, "log": err, "key": "corpus:" + name})
            ran.append((name, "build-failed"))
            continue
        rc, out = C.run([exe], timeout=60)
        ran.append((name, rc))
        if rc != 0:
            ctx.failures.append({"what": "regression program corpus/findings/%s exits %s: the repaired defect it demonstrates is back" % (name, rc),
                                 "program": path, "output": out[-600:], "key": "corpus:" + name})
    ctx.extra["regression_corpus"] = ["%s: %s" % (n, "ok" if r == 0 else r) for n, r in ran]
