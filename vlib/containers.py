"""Container engines (bit stream, bit array, arrays, task list): case generators, the
model-vs-implementation correspondence, and independent Python oracles used to decide whether a
disagreement / broken proof is a concrete violation of the property (search support, not proof)."""
import os, random, time
from . import common as C

QUICK_CAPS = {
    "bitstream": [1, 7, 8, 9, 16, 45, 64, 255],
    "bitarray": [1, 7, 8, 9, 12, 16, 17, 64, 255],
    "static": [1, 2, 8, 17, 255],
    "dynamic": [1, 2, 8, 17, 255],
    "tasklist": [1, 2, 3, 4, 16],
}
THOROUGH_CAPS = {
    "bitstream": list(range(1, 256)),
    "bitarray": list(range(1, 256)),
    "static": [1, 2, 3, 7, 8, 9, 16, 17, 31, 32, 33, 64, 127, 128, 254, 255],
    "dynamic": [1, 2, 3, 7, 8, 9, 16, 17, 31, 32, 33, 64, 127, 128, 254, 255],
    "tasklist": [1, 2, 3, 4, 5, 7, 8, 9, 16, 31, 32, 64, 128, 254, 255],
}


def harness_source(caps):
    tpl = open(os.path.join(C.VERIF, "harness", "containers.cpp.in")).read()
    return tpl.replace("@CAPS@", " ".join("X(%d)" % c for c in sorted(set(caps))))


def build(caps, sanitize=False, tag="containers"):
    flags = ["-std=c++11", "-O1", "-Wall", "-Wextra", "-ftemplate-depth=1024"]
    if sanitize:
        # -O0: g++'s UBSan instruments more at -O0 (e.g. reference binding to a misaligned packed member, F8)
        flags = [f for f in flags if f != "-O1"] + ["-O0", "-g", "-fsanitize=address,undefined", "-fno-sanitize-recover=all"]
    return C.build_harness(tag + ("_san" if sanitize else ""), harness_source(caps), flags)


# ------------------------------------------------------------------------------------- generators
def value_patterns(rng, w):
    m = (1 << w) - 1
    alt = int(("10" * 16)[:w], 2)
    return [0, 1, m, alt, m >> 1 if w > 1 else 1, rng.randrange(m + 1)]


def gen_bitstream(rng, caps, per_cap, exhaustive):
    cases = []
    for cap in caps:
        for _ in range(per_cap):
            fill = rng.choice(["", " 255", " 165", " %d" % rng.randrange(256)])   # prior contents of the buffer
            lines, widths, rem = ["new %d%s" % (cap, fill)], [], cap
            while rem > 0 and (len(widths) < 40):
                w = rng.randint(1, min(32, rem))
                if rng.random() < 0.3:
                    w = min(rem, rng.choice([1, 7, 8, 9, 15, 16, 17, 31, 32]))
                v = rng.choice(value_patterns(rng, w))
                lines.append("w %d %d" % (w, v)); widths.append(w); rem -= w
                if rng.random() < 0.1:
                    break
            lines.append("rr")
            if rng.random() < 0.6:
                for w in widths:
                    lines.append("r %d" % w)
            else:  # re-read with different field boundaries
                rem = sum(widths)
                while rem > 0:
                    w = rng.randint(1, min(32, rem)); lines.append("r %d" % w); rem -= w
            if rng.random() < 0.05:
                lines.append("w 33 0"); lines.append("r 0")            # out-of-contract stream
            cases.append(lines)
        if exhaustive:  # every (offset within a byte, width) with value patterns
            for off in range(8):
                for w in range(1, 33):
                    if off + w > cap:
                        continue
                    for v in value_patterns(rng, w)[:5]:
                        lines = ["new %d%s" % (cap, " 255" if (off + w) % 2 else "")]
                        if off:
                            lines.append("w %d %d" % (off, (1 << off) - 1 if v % 2 == 0 else 0))
                        lines.append("w %d %d" % (w, v)); lines.append("rr")
                        if off:
                            lines.append("r %d" % off)
                        lines.append("r %d" % w)
                        cases.append(lines)
    # bitWidth probes
    lines = ["new %d" % caps[0]]
    for k in range(33):
        for v in (2 ** k - 1, 2 ** k, 2 ** k + 1):
            if 0 <= v < 2 ** 32:
                lines.append("bw %d" % v)
    for _ in range(64):
        lines.append("bw %d" % rng.randrange(2 ** 32))
    for v in range(0, 260):
        lines.append("bw %d" % v)
    cases.append(lines)
    return cases


def boundary_index(rng, cap):
    cands = [0, cap - 1, 7, 8, 15, 16, cap - 2, (cap // 8) * 8, (cap // 8) * 8 - 1, cap // 2]
    cands = [c for c in cands if 0 <= c < cap]
    return rng.choice(cands) if rng.random() < 0.5 else rng.randrange(cap)


def gen_bitarray(rng, caps, per_cap, length):
    cases = []
    for cap in caps:
        for _ in range(per_cap):
            lines = ["new %d" % cap]
            for _ in range(rng.randint(3, length)):
                r = rng.random()
                if r < 0.35: lines.append("set %d" % boundary_index(rng, cap))
                elif r < 0.65: lines.append("clear %d" % boundary_index(rng, cap))
                elif r < 0.75: lines.append("setall")
                elif r < 0.80: lines.append("clearall")
                elif r < 0.92:
                    idx = sorted({boundary_index(rng, cap) for _ in range(rng.randint(0, 6))})
                    lines.append("and %s" % (",".join(map(str, idx)) or "-"))
                elif r < 0.97: lines.append("andall")
                else: lines.append("set %d" % (cap + rng.randint(0, 3)))      # out of contract
            cases.append(lines)
        # the F4 shape: set-all then clear every index
        cases.append(["new %d" % cap, "setall"] + ["clear %d" % i for i in range(cap)])
    return cases


def gen_static(rng, caps, per_cap):
    cases = []
    for cap in caps:
        for ty in ("u8", "i32"):
            for _ in range(per_cap):
                lines = ["new %d %s" % (cap, ty), "iter", "empty"]
                for _ in range(rng.randint(3, 14)):
                    r = rng.random()
                    vmax = 255 if ty == "u8" else 2 ** 31 - 1
                    if r < 0.4: lines.append("put %d %d" % (boundary_index(rng, cap), rng.choice([0, 255, vmax, rng.randrange(vmax + 1)])))
                    elif r < 0.6: lines.append("get %d" % boundary_index(rng, cap))
                    elif r < 0.7: lines.append("fill %d" % rng.choice([0, 255, rng.randrange(vmax + 1)]))
                    elif r < 0.8: lines.append("clear")
                    elif r < 0.9: lines.append("empty")
                    else: lines.append("iter")
                lines.append("iter")
                cases.append(lines)
    return cases


def gen_dynamic(rng, caps, per_cap):
    cases = []
    for cap in caps:
        for _ in range(per_cap):
            lines = ["new %d" % cap]
            n = 0
            for _ in range(rng.randint(3, 20)):
                r = rng.random()
                if r < 0.35: lines.append("emplace %d" % rng.randrange(2 ** 31))
                elif r < 0.42: lines.append("append %d" % rng.randrange(2 ** 31))
                elif r < 0.48: lines.append("appendmv %d" % rng.randrange(2 ** 31))
                elif r < 0.58: lines.append("appendall " + " ".join(str(rng.randrange(2 ** 31)) for _ in range(rng.choice([0, 1, 2, 3, cap, max(0, cap - 1)]))))
                elif r < 0.7: lines.append("get %d" % rng.randrange(cap + 1))
                elif r < 0.78: lines.append("clear")
                elif r < 0.88: lines.append("empty")
                else: lines.append("iter")
            lines.append("iter")
            cases.append(lines)
        cases.append(["new %d" % cap] + ["emplace %d" % (i * 3 + 1) for i in range(cap + 1)] + ["iter", "empty", "clear", "iter", "empty"])
        # batch appends that end exactly at capacity, and one below
        for head in (0, 1, cap // 2):
            if head <= cap:
                cases.append(["new %d" % cap] + ["emplace %d" % (7 + i) for i in range(head)] + ["appendall " + " ".join(str(100 + i) for i in range(cap - head))] + ["iter", "empty"])
                if cap - head >= 1:
                    cases.append(["new %d" % cap] + ["emplace %d" % (7 + i) for i in range(head)] + ["appendall " + " ".join(str(100 + i) for i in range(cap - head - 1))] + ["append 5", "iter", "empty"])
    return cases


def gen_tasklist(rng, caps, per_cap, length):
    cases = []
    for cap in caps:
        for ty in ("void", "pay"):
            for _ in range(per_cap):
                lines = ["new %d %s" % (cap, ty)]
                n = 0
                for _ in range(rng.randint(4, length)):
                    # hover around full capacity
                    p_add = 0.85 if n < cap - 1 else (0.55 if n < cap else 0.25)
                    r = rng.random()
                    if r < 0.03: lines.append("clear"); n = 0
                    elif rng.random() < p_add:
                        o, d = rng.randrange(256), rng.randrange(256)
                        if ty == "pay" and rng.random() < 0.7: lines.append("emplace %d %d %d" % (o, d, rng.randrange(1000)))
                        else: lines.append("emplace %d %d" % (o, d))
                        n = min(cap, n + 1)
                    else:
                        lines.append("removeNth %d" % rng.randrange(64)); n = max(0, n - 1)
                cases.append(lines)
            # fill, drain in three orders, refill (the suite's scenario, for every capacity)
            for order in ("front", "back", "mid"):
                lines = ["new %d %s" % (cap, ty)] + ["emplace %d %d" % (i % 256, (i * 7) % 256) for i in range(cap + 1)]
                for i in range(cap):
                    k = 0 if order == "front" else (cap - 1 - i if order == "back" else (cap - i) // 2)
                    lines.append("removeNth %d" % k)
                lines += ["emplace %d %d" % (i % 256, 5) for i in range(cap + 1)]
                cases.append(lines)
    return cases


# ------------------------------------------------------------------------------------- oracles
# Each oracle takes (case_lines, impl_output_lines) and returns None or a string describing the
# first violation of the *property* (not of the model).

def kv(line):
    d = {}
    for t in line.split():
        if "=" in t:
            k, v = t.split("=", 1); d[k] = v
    return d


def oracle_bitstream(case, out):
    cap, bits, wc, rc = 0, 0, 0, 0
    for op, o in zip(case, out):
        w = op.split()
        if w[0] == "new":
            cap, bits, wc, rc = int(w[1]), 0, 0, 0
        elif w[0] == "w":
            width, v = int(w[1]), int(w[2])
            if width == 0 or width > 32 or wc + width > cap:
                continue
            if v >= 1 << width:
                continue
            bits |= v << wc; wc += width
            d = kv(o)
            nbytes = (cap + 7) // 8
            exp = bits.to_bytes(nbytes, "little").hex()
            if d.get("c") != str(wc):
                return "cursor after write<%d> is %s, expected %d" % (width, d.get("c"), wc)
            if d.get("b") != exp:
                return "buffer after write<%d>(%d) at cursor %d is %s, expected %s (own field only, LSB first, tail zero)" % (width, v, wc - width, d.get("b"), exp)
        elif w[0] == "rr":
            rc = 0
        elif w[0] == "r":
            width = int(w[1])
            if width == 0 or width > 32 or rc + width > cap:
                continue
            exp = (bits >> rc) & ((1 << width) - 1); rc += width
            d = kv(o)
            if d.get("v") != str(exp) or d.get("c") != str(rc):
                return "read<%d> at cursor %d returned v=%s c=%s, expected v=%d c=%d" % (width, rc - width, d.get("v"), d.get("c"), exp, rc)
        elif w[0] == "bw":
            v = int(w[1]); got = int(o.split()[1]) if o.startswith("bw ") else -1
            if got < 0 or v >= (1 << got):
                return "bitWidth(%d) = %d does not suffice" % (v, got)
    return None


def oracle_bitarray(case, out):
    cap, s = 0, set()
    for op, o in zip(case, out):
        w = op.split()
        if w[0] == "new": cap, s = int(w[1]), set()
        elif w[0] in ("set", "clear"):
            i = int(w[1])
            if i >= cap: continue
            (s.add if w[0] == "set" else s.discard)(i)
        elif w[0] == "setall": s = set(range(cap))
        elif w[0] == "clearall": s = set()
        elif w[0] == "and":
            idx = [] if w[1] == "-" else [int(x) for x in w[1].split(",")]
            if any(i >= cap for i in idx): continue
            s &= set(idx)
        elif w[0] == "andall": pass
        else: continue
        d = kv(o)
        expg = "".join("1" if j in s else "0" for j in range(cap))
        if d.get("g") != expg:
            return "get() after '%s' answers %s, set model says %s" % (op, d.get("g"), expg)
        if d.get("e") != ("1" if not s else "0"):
            return "empty() after '%s' is %s, set model has %d elements" % (op, d.get("e"), len(s))
    return None


def oracle_static(case, out):
    items, filler = [], 0
    for op, o in zip(case, out):
        w = op.split()
        if w[0] == "new": items = [0] * int(w[1]); filler = 255 if w[2] == "u8" else 0
        elif w[0] == "put":
            if int(w[1]) < len(items): items[int(w[1])] = int(w[2])
        elif w[0] == "get":
            if int(w[1]) < len(items) and o != "v=%d" % items[int(w[1])]:
                return "a[%s] is %s, last stored %d" % (w[1], o, items[int(w[1])])
        elif w[0] == "fill": items = [int(w[1])] * len(items)
        elif w[0] == "clear": items = [filler] * len(items)
        elif w[0] == "empty":
            if o != "e=%d" % (1 if all(x == filler for x in items) else 0):
                return "empty() is %s for %s" % (o, items[:8])
        elif w[0] == "iter":
            exp = "iter" + "".join(" %d:%d" % (i, x) for i, x in enumerate(items))
            if o != exp:
                return "iteration yields %s expected %s" % (o[:80], exp[:80])
    return None


def oracle_dynamic(case, out):
    items, cap = [], 0
    for op, o in zip(case, out):
        w = op.split()
        if w[0] == "new": items, cap = [], int(w[1])
        elif w[0] == "emplace":
            if len(items) < cap:
                items.append(int(w[1]))
                if o != "i=%d n=%d" % (len(items) - 1, len(items)):
                    return "emplace returned %s expected i=%d n=%d" % (o, len(items) - 1, len(items))
        elif w[0] in ("append", "appendmv"):
            if len(items) < cap:
                items.append(int(w[1]))
                if o != "n=%d" % len(items):
                    return "operator += (item): count is %s expected n=%d" % (o, len(items))
        elif w[0] == "appendall":
            if len(items) + len(w) - 1 <= cap:
                items += [int(x) for x in w[1:]]
                if o != "n=%d" % len(items):
                    return "operator += (array of %d): count is %s expected n=%d" % (len(w) - 1, o, len(items))
        elif w[0] == "get":
            if int(w[1]) < len(items) and o != "v=%d" % items[int(w[1])]:
                return "a[%s] is %s expected %d" % (w[1], o, items[int(w[1])])
        elif w[0] == "clear": items = []
        elif w[0] == "empty":
            if o != "e=%d n=%d" % (0 if items else 1, len(items)): return "empty/count %s expected n=%d" % (o, len(items))
        elif w[0] == "iter":
            exp = "iter" + "".join(" %d:%d" % (i, x) for i, x in enumerate(items))
            if o != exp: return "iteration yields %s expected %s" % (o[:80], exp[:80])
    return None


def parse_occ(s):
    inner = s[s.index("occ=[") + 5:s.index("]")]
    d = {}
    for t in inner.split():
        i, rest = t.split(":", 1)
        d[int(i)] = rest
    return d


def oracle_tasklist(case, out):
    cap, occ = 0, {}
    for op, o in zip(case, out):
        w = op.split()
        if w[0] == "new": cap, occ = int(w[1]), {}
        elif w[0] == "emplace":
            idx = int(kv(o)["i"])
            item = "%s>%s:%s" % (w[1], w[2], w[3] if len(w) > 3 else "-")
            if len(occ) < cap:
                if idx >= cap or idx in occ:
                    return "emplace with %d/%d occupied returned slot %d (invalid or already occupied)" % (len(occ), cap, idx)
                occ[idx] = item
            elif idx != 255:
                return "emplace on a full list returned %d, expected 255" % idx
        elif w[0] == "removeNth":
            if not occ: continue
            i = sorted(occ)[int(w[1]) % len(occ)]
            del occ[i]
        elif w[0] == "clear": occ = {}
        else: continue
        got = parse_occ(o)
        if got != occ:
            return "after '%s' occupied slots are %s, expected %s" % (op, got, occ)
        if kv(o).get("n") != str(len(occ)):
            return "after '%s' count() is %s, expected %d" % (op, kv(o).get("n"), len(occ))
    return None


ORACLES = {"bitstream": oracle_bitstream, "bitarray": oracle_bitarray, "static": oracle_static,
           "dynamic": oracle_dynamic, "tasklist": oracle_tasklist}


# ------------------------------------------------------------------------------------- running
def run_engine(exe, engine, cases):
    lines = [l for c in cases for l in c]
    rc, out = C.run_lines([exe, engine], lines)
    return rc, out


def split_outputs(cases, out):
    res, k = [], 0
    for c in cases:
        res.append(out[k:k + len(c)]); k += len(c)
    return res


def nontrivial(engine, case):
    key = {"bitstream": ("w ",), "bitarray": ("set", "clear", "and"), "static": ("put", "fill", "clear"),
           "dynamic": ("emplace", "clear"), "tasklist": ("emplace", "remove", "clear")}[engine]
    return any(l.startswith(key) for l in case)


def minimise(exe_impl, engine, case, pred):
    """delta-debug `case` (first line is `new`) while pred(case, impl_out) stays true"""
    cur = list(case)
    changed = True
    while changed and len(cur) > 2:
        changed = False
        for i in range(len(cur) - 1, 0, -1):
            cand = cur[:i] + cur[i + 1:]
            try:
                rc, out = run_engine(exe_impl, engine, [cand])
            except Exception:
                continue
            if pred(cand, out):
                cur = cand; changed = True
    return cur


def correspond(engine, cases, impl_exe, stats):
    """returns (disagreements, oracle_failures) — each a list of dicts"""
    t0 = time.time()
    rc_i, out_i = run_engine(impl_exe, engine, cases)
    rc_m, out_m = run_engine(C.DRIVER, engine, cases)
    per_i, per_m = split_outputs(cases, out_i), split_outputs(cases, out_m)
    disagreements, failures = [], []
    total = sum(len(c) for c in cases)
    if rc_i != 0 or len(out_i) != total:
        failures.append({"engine": engine, "what": "implementation harness exited with %d after %d of %d lines (crash / sanitizer abort)" % (rc_i, len(out_i), total),
                         "tail": out_i[-5:]})
    if rc_m != 0 or len(out_m) != total:
        disagreements.append({"engine": engine, "what": "model driver exited with %d after %d of %d lines" % (rc_m, len(out_m), total)})
    oracle = ORACLES[engine]
    seen = set()
    for c, oi, om in zip(cases, per_i, per_m):
        if nontrivial(engine, c):
            seen.add("\n".join(oi))
        v = oracle(c, oi) if len(oi) == len(c) else None
        if v:
            failures.append({"engine": engine, "case": c, "impl": oi, "what": v})
        if oi != om and len(disagreements) < 5:
            k = next((j for j in range(min(len(oi), len(om))) if oi[j] != om[j]), min(len(oi), len(om)))
            disagreements.append({"engine": engine, "case": c, "line": k, "op": c[k] if k < len(c) else None,
                                  "impl": oi[k] if k < len(oi) else None, "model": om[k] if k < len(om) else None})
    stats["evaluations"] += len(cases)
    stats["lines"] += total
    stats["distinct"] |= seen
    stats["engines"][engine] = stats["engines"].get(engine, 0) + len(cases)
    stats["wall_" + engine] = round(time.time() - t0, 2)
    return disagreements, failures
