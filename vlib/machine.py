"""Machine engine: configurations, history/behaviour generators, the model-vs-implementation
correspondence and per-property projections."""
import os, random, re, time
from concurrent.futures import ThreadPoolExecutor
from . import common as C
from . import gen_machine as G

M = G.METHODS
GUARDS = ("entryGuard", "exitGuard")
PHASES_U = ("preUpdate", "update", "postUpdate")
PHASES_R = ("preReact", "react", "postReact")
LIFE = ("enter", "exit", "reenter")


def defines_row(rng, style):
    if style == "all":
        return "1" * 14
    if style == "none":
        return "0" * 14
    return "".join(rng.choice("01") for _ in range(14))


def quick_configs(rng):
    cs = [
        G.Config(3, L=4, cap=3, head=True, payload="d12", ctx="ref"),
        G.Config(2, L=2, cap=1, head=False, manual=True, payload="none", ctx="value", history=False),   # serialization and plans without history
        G.Config(4, L=3, cap=2, head=True, manual=True, payload="u8", ctx="ptr"),
        G.Config(1, L=1, cap=1, head=True, payload="a32", ctx="ref"),
        G.Config(5, L=4, cap=5, head=False, payload="none", verbose=True, ctx="ref",
                 defines=["1" * 14, "0" * 14, "10100100100111", "01011011011000", "1" * 14, "0" * 14]),
        G.Config(3, L=3, cap=4, head=True, manual=True, payload="d12", ctx="ref", inj=[1, 0, 2, 1],
                 defines=["11110111101111", "1" * 14, "1" * 14, "1" * 14]),
        G.Config(2, L=2, cap=6, head=True, manual=True, payload="none", ctx="ref", serial=False),   # task capacity above the state count; payload-free plan with a visible root; no serialization
        G.Config(7, L=8, cap=2, head=True, payload="u8", ctx="value",
                 defines=[defines_row(random.Random(7 + k), "mix") for k in range(7)] + ["1" * 14]),
    ]
    return cs


def thorough_configs(rng):
    cs = quick_configs(rng)
    pl = ["none", "u8", "d12", "a32"]
    for k, n in enumerate([2, 3, 6, 8, 9, 15, 16, 17, 31, 32, 33, 64]):
        r = random.Random(1000 + n)
        cs.append(G.Config(n, L=r.choice([1, 2, 3, 4, 8]), cap=r.choice([1, 2, 3, n, min(255, 2 * n)]), head=bool(k % 2),
                           manual=bool((k // 2) % 2), payload=pl[k % 4], ctx=["ref", "value", "ptr"][k % 3],
                           verbose=(k % 5 == 0),
                           defines=[defines_row(r, r.choice(["all", "all", "mix"])) for _ in range(n)] + ["1" * 14]))
    # feature subsets (history / serialization / plans / logging off)
    cs.append(G.Config(3, L=4, cap=3, head=True, payload="u8", plans=False))
    cs.append(G.Config(3, L=3, cap=3, head=False, payload="u8", history=False))                  # serialization + plans, no history
    cs.append(G.Config(4, L=2, cap=4, head=True, manual=True, payload="none", serial=False))     # plans + history, no serialization
    cs.append(G.Config(2, L=2, cap=2, head=True, manual=True, payload="d12", plans=False, history=False))
    cs.append(G.Config(3, L=4, cap=3, head=True, payload="none", history=False, serial=False))
    cs.append(G.Config(4, L=2, cap=2, head=False, manual=True, payload="d12", log=False))
    cs.append(G.Config(2, L=4, cap=255, head=True, payload="none"))
    return cs


# ------------------------------------------------------------------------------------ behaviour
def rand_target(rng, cfg):
    return rng.randrange(cfg.n) if rng.random() < 0.97 else cfg.n + rng.randrange(3)


def change_action(rng, cfg):
    d = rand_target(rng, cfg)
    if cfg.payload != "none" and rng.random() < 0.5:
        return "changeWith %d %d" % (d, rng.randrange(200))
    return "changeTo %d" % d


def plan_action(rng, cfg):
    r = rng.random()
    if r < 0.75:
        o, d = rand_target(rng, cfg), rand_target(rng, cfg)
        if rng.random() < 0.2: d = o                       # cyclic task
        if cfg.payload != "none" and rng.random() < 0.5:
            return "planAppend %d %d %d" % (o, d, rng.randrange(200))
        return "planAppend %d %d" % (o, d)
    if r < 0.83:
        return "planClear"
    return "planRemove %s" % "".join(rng.choice("01") for _ in range(rng.randint(1, 4)))


def status_action(rng, cfg):
    k = "succeed" if rng.random() < 0.7 else "fail"
    return k if rng.random() < 0.6 else "%s %d" % (k, rand_target(rng, cfg))


def actions_for(rng, cfg, method, bias):
    acts = []
    if method in GUARDS:
        r = rng.random()
        if r < bias.get("pass", 0.40): pass
        elif r < 0.60: acts.append("cancel")
        elif r < 0.82: acts.append(change_action(rng, cfg))
        elif r < 0.93: acts += ["cancel", change_action(rng, cfg)] if rng.random() < 0.5 else [change_action(rng, cfg), "cancel"]
        elif cfg.plans: acts.append(rng.choice([status_action, plan_action])(rng, cfg))
    elif method in LIFE:
        if cfg.plans and rng.random() < 0.6: acts.append(plan_action(rng, cfg))
        if rng.random() < 0.15: acts.append(change_action(rng, cfg))       # not permitted on a PlanControl: both sides skip
    elif method == "query":
        if rng.random() < 0.3: acts.append(change_action(rng, cfg))       # not permitted on a ConstControl
    else:
        k = rng.choice([1, 1, 1, 2, 3])
        for _ in range(k):
            r = rng.random()
            if r < 0.35: acts.append(change_action(rng, cfg))
            elif r < 0.65 and cfg.plans: acts.append(status_action(rng, cfg))
            elif cfg.plans: acts.append(plan_action(rng, cfg))
            else: acts.append(change_action(rng, cfg))
    return acts


def gen_case(rng, cfg, name, nops, bias=None):
    bias = bias or {}
    lines = ["case %s" % name, cfg.cfg_line()]
    ops = []
    exists = {}
    fills = [0, 255, 165, rng.randrange(256)]
    log0 = 1 if (cfg.log or cfg.verbose) and rng.random() < 0.8 else 0
    ops.append("construct 0 %d %d" % (log0, rng.choice(fills)))
    exists[0] = True
    if cfg.manual and rng.random() < 0.9:
        ops.append("enter 0")
    menu = [("update", 30), ("react", 8), ("query", 4), ("changeTo", 8), ("immediateChangeTo", 9), ("succeed", 6), ("fail", 3),
            ("planAppend", 10), ("planClear", 1), ("planRemove", 2), ("save", 2), ("copy", 2), ("load", 3),
            ("replayTransition", 2), ("attachLogger", 2), ("destroy", 1), ("construct", 1)]
    if cfg.payload != "none": menu += [("changeWith", 6), ("immediateChangeWith", 5)]
    if cfg.manual: menu += [("exit", 3), ("enter", 4), ("replayEnter", 2)]
    extra = bias.get("menu", {})
    names = [m for m, _ in menu]
    weights = [extra.get(m, w) for m, w in menu]
    if rng.random() < 0.3:
        # react-flavoured case: update() and react() are separate code paths in the library (R_::update / R_::react and
        # the deepX / wideX families behind them); a third of the cases drives the machine mostly through react()
        iu, ir = names.index("update"), names.index("react")
        weights[iu], weights[ir] = weights[ir], weights[iu]
    for _ in range(nops):
        name_ = rng.choices(names, weights)[0]
        live = [i for i in exists if exists[i]]
        i = rng.choice(live) if live and rng.random() < 0.93 else rng.randrange(4)
        if name_ in ("update", "react", "query", "enter", "exit", "planClear", "save", "destroy"):
            ops.append("%s %d" % (name_, i))
            if name_ == "destroy" and exists.get(i): exists[i] = False
        elif name_ in ("changeTo", "immediateChangeTo"):
            ops.append("%s %d %d" % (name_, i, rand_target(rng, cfg)))
        elif name_ in ("changeWith", "immediateChangeWith"):
            ops.append("%s %d %d %d" % (name_, i, rand_target(rng, cfg), rng.randrange(200)))
        elif name_ in ("succeed", "fail"):
            ops.append("%s %d %d" % (name_, i, rand_target(rng, cfg)))
        elif name_ == "planAppend":
            o, d = rand_target(rng, cfg), rand_target(rng, cfg)
            if rng.random() < 0.2: d = o
            if cfg.payload != "none" and rng.random() < 0.5:
                ops.append("planAppend %d %d %d %d" % (i, o, d, rng.randrange(200)))
            else:
                ops.append("planAppend %d %d %d" % (i, o, d))
        elif name_ == "planRemove":
            ops.append("planRemove %d %s" % (i, "".join(rng.choice("01") for _ in range(rng.randint(1, 4)))))
        elif name_ == "copy":
            free = [j for j in range(4) if not exists.get(j)]
            j = rng.choice(free) if free and rng.random() < 0.9 else rng.randrange(4)
            ops.append("copy %d %d %d" % (j, i, rng.choice(fills)))
            if exists.get(i) and not exists.get(j): exists[j] = True
        elif name_ == "load":
            src = rng.choice(live) if live else 0
            ops.append("load %d %d" % (i, src))
        elif name_ == "replayTransition":
            ops.append("replayTransition %d %d" % (i, rng.choice([rand_target(rng, cfg), rand_target(rng, cfg), 255])))
        elif name_ == "replayEnter":
            ops.append("replayEnter %d %d" % (i, rand_target(rng, cfg)))
        elif name_ == "attachLogger":
            ops.append("attachLogger %d %d" % (i, rng.randrange(2)))
        elif name_ == "construct":
            free = [j for j in range(4) if not exists.get(j)]
            j = rng.choice(free) if free else rng.randrange(4)
            ops.append("construct %d %d %d" % (j, rng.randrange(2), rng.choice(fills)))
            if not exists.get(j): exists[j] = True
    # behaviour table: for every op that can run callbacks, sprinkle actions over the possible keys
    beh = []
    p_act = bias.get("p_act", 0.22)
    for k, op in enumerate(ops):
        w = op.split()
        kind, inst = w[0], int(w[1])
        if kind in ("construct", "enter"): methods = ("entryGuard", "enter")
        elif kind == "update": methods = PHASES_U + GUARDS + LIFE + ("planSucceeded", "planFailed")
        elif kind == "react": methods = PHASES_R + GUARDS + LIFE + ("planSucceeded", "planFailed")
        elif kind in ("immediateChangeTo", "immediateChangeWith"): methods = GUARDS + LIFE
        elif kind in ("load", "replayTransition", "replayEnter"): methods = LIFE + GUARDS
        elif kind in ("exit", "destroy"): methods = ("exit",)
        elif kind == "query": methods = ("query",)
        else: continue
        sids = list(range(cfg.n)) + [255]
        if cfg.n > 6:
            sids = rng.sample(range(cfg.n), 5) + [255, 0]
        for m in methods:
            for sid in sids:
                row = cfg.n if sid == 255 else sid
                layers = ["S"] + ["I%d" % j for j in range(cfg.inj[row])]
                maxocc = cfg.L + 1 if m in GUARDS else 1
                for occ in range(maxocc):
                    for lay in layers:
                        pa = p_act * (1.6 if m in GUARDS else 1.0)
                        if rng.random() < pa:
                            acts = actions_for(rng, cfg, m, bias)
                            if acts:
                                beh.append("beh i%d op%d occ%d %s s%d %s : %s" % (inst, k, occ, m, sid, lay, " ; ".join(acts)))
    return lines + beh + ["op " + o for o in ops]


def pingpong_case(rng, cfg, name):
    """guards that redirect forever between 2 or 3 states, from every request source (C04)"""
    lines = ["case %s" % name, cfg.cfg_line()]
    ops = ["construct 0 1 0"] + (["enter 0"] if cfg.manual else [])
    a, b = rng.randrange(cfg.n), rng.randrange(cfg.n)
    c = rng.randrange(cfg.n)
    cyc = [a, b] if rng.random() < 0.5 else [a, b, c]
    src = rng.choice(["imm", "update", "react", "activate"])
    ops += {"imm": ["immediateChangeTo 0 %d" % cyc[0]], "update": ["changeTo 0 %d" % cyc[0], "update 0"],
            "react": ["react 0"], "activate": []}[src]
    ops += ["update 0", "update 0"]
    beh = []
    for k in range(len(ops)):
        for occ in range(cfg.L + 2):
            for idx, s in enumerate(cyc):
                nxt = cyc[(idx + 1) % len(cyc)]
                # the destination's entry guard always redirects on (the chain never breaks); sometimes the active
                # state's exit guard redirects too (then the entry guard's redirect overwrites it)
                beh.append("beh i0 op%d occ%d entryGuard s%d S : changeTo %d%s" % (k, occ, s, nxt, " ; cancel" if rng.random() < 0.25 else ""))
                if rng.random() < 0.2:
                    beh.append("beh i0 op%d occ%d exitGuard s%d S : changeTo %d" % (k, occ, s, nxt))
        if src == "react":
            beh.append("beh i0 op%d occ0 react s%d S : changeTo %d" % (k, rng.randrange(cfg.n), cyc[0]))
    return lines + beh + ["op " + o for o in ops]


# ------------------------------------------------------------------------------------ running
def build(cfg, sanitize=False, cxx="g++", opt="-O1", memcheck=False):
    flags = ["-std=c++11", opt, "-Wall", "-Wextra", "-ftemplate-depth=2000"]
    if memcheck:
        flags = [f for f in flags if f != opt] + ["-O0", "-g", "-DVERIF_MEMCHECK"]
    if sanitize:
        # -O0: g++'s UBSan instruments more at -O0 (e.g. reference binding to a misaligned packed member, F8)
        flags = [f for f in flags if f != opt] + ["-O0", "-g", "-fsanitize=address,undefined", "-fno-sanitize-recover=all"]
    return C.build_harness("machine" + ("_san" if sanitize else "") + ("_mc" if memcheck else ""), G.source(cfg), flags, cxx=cxx)


def split_cases(out):
    cases, cur = [], None
    for l in out:
        if l.startswith("case "):
            cur = [l]; cases.append(cur)
        elif cur is not None:
            cur.append(l)
    return cases


def run_cases(exe, case_lines_list, timeout=900):
    import subprocess
    lines = [l for c in case_lines_list for l in c]
    try:
        rc_i, out_i = C.run_lines([exe], lines, timeout=timeout)
    except subprocess.TimeoutExpired as e:
        # the implementation did not return: report what it printed so far with a distinctive status
        partial = (e.stdout or b"")
        partial = partial.decode("utf-8", "replace") if isinstance(partial, bytes) else partial
        rc_i, out_i = -999, partial.split("\n")
    rc_m, out_m = C.run_lines([C.DRIVER, "machine"], lines, timeout=timeout)
    return rc_i, split_cases(out_i), rc_m, split_cases(out_m)


def run_impl(exe, case, timeout=60):
    """implementation only, one case: its output lines (None on crash / timeout)"""
    import subprocess
    try:
        rc, out = C.run_lines([exe], list(case), timeout=timeout)
    except subprocess.TimeoutExpired:
        return None
    r = split_cases(out)
    return r[0] if rc == 0 and r else None


# projections: which lines / fields a property speaks about -----------------------------------------
def fields(line):
    head, _, tail = line.partition(" | ")
    return head, {m.group(1): m.group(2) for m in re.finditer(r"(\w+)=(\[[^\]]*\]|\S+)", tail)}


# markers the harness prints when the implementation contradicts itself (two spellings of one query disagree, an object
# is not the one it must be, a payload reads back corrupted): which property each marker speaks about.  C18 / C19 / ALL
# see every marker (any of them may be the visible end of undefined behaviour or of a feature switch changing behaviour).
FAIL_OWNERS = [
    ("callback received an event object", ("C05",)),
    ("control.previousTransitions()", ("C06", "C11")),
    ("control.context()", ("C06",)), ("control._()", ("C06",)), ("context() const", ("C06",)),
    ("control.isActive<TState>()", ("C06", "C14")),
    ("FAIL: isActive<TState>()", ("C01", "C14")),
    ("FAIL:plan-", ("C10",)),
    ("SerialBuffer operator==", ("C12",)),
    ("Transition operator==", ("C07", "C11")),
    ("CORRUPT", ("C07",)),
]
SEE_ALL = ("C18", "C19", "ALL")


def fail_marker(prop, line):
    """the self-contradiction marker in `line` that `prop` speaks about, or None"""
    if "FAIL:" not in line and "CORRUPT" not in line:
        return None
    for pat, owners in FAIL_OWNERS:
        if pat in line:
            return pat if (prop in owners or prop in SEE_ALL) else None
    return "FAIL" if line.startswith("FAIL:") else None     # a marker without an owner entry: everybody's


def clean(lines):
    """the trace without inline markers (what the oracles parse)"""
    if not any(" FAIL:plan-" in l for l in lines):
        return lines
    return [re.sub(r" FAIL:plan-[\w-]+", "", l) for l in lines]


def strip_markers(prop, line):
    """inline markers (inside a plan=[...] field) are removed for the properties that do not own them"""
    if " FAIL:plan-" in line and fail_marker(prop, line) is None:
        line = re.sub(r" FAIL:plan-[\w-]+", "", line)
    return line


def project(prop, line):
    """returns the projected form of a trace line for `prop`, or None if the property does not speak about it"""
    if line.startswith("FAIL:"):
        return line if fail_marker(prop, line) else None
    if line.startswith("bad-"):
        return line
    line = strip_markers(prop, line)
    kind = line.split(" ", 1)[0]
    if prop in ("ALL",):
        return line
    if kind == "rejected":
        return line
    if kind == "cb":
        head, f = fields(line)
        m = head.split()[4]
        if prop == "C01":
            return "%s act=%s mact=%s" % (head, f["act"], f["mact"]) if m in LIFE else "%s act=%s mact=%s" % (head, f["act"], f["mact"])
        if prop in ("C02", "C03", "C04"):
            return "%s mact=%s req=%s cur=%s pend=%s" % (head, f["mact"], f["req"], f["cur"], f["pend"]) if (m in GUARDS or m in LIFE) else "%s mact=%s req=%s" % (head, f["mact"], f["req"])
        if prop == "C05":
            return head if (m in PHASES_U or m in PHASES_R or m == "query" or m in GUARDS or m in LIFE) else None
        if prop == "C06":
            return line
        if prop == "C07":
            return "%s req=%s cur=%s pend=%s plan=%s" % (head, f["req"], f["cur"], f["pend"], f["plan"])
        if prop in ("C08", "C09", "C10"):
            return "%s plan=%s req=%s" % (head, f["plan"], f["req"])
        if prop == "C11":
            return "%s mact=%s cur=%s" % (head, f["mact"], f["cur"]) if (m in LIFE or m in GUARDS) else None
        if prop == "C12":
            return head if (m in LIFE or m in GUARDS) else None
        if prop == "C14":
            return "%s id=%s" % (head, f["id"])
        if prop == "C15":
            return head
        if prop == "C16":
            return head
        return line
    if kind == "do":
        if prop in ("C05", "C12", "C14", "C15"):
            return None
        return line
    if kind == "log":
        if prop == "C16":
            return line
        if prop == "C08" and " trans " in line:
            return line
        return None
    if kind == "api":
        head, f = fields(line)
        if prop in ("C01", "C02", "C03", "C04", "C05", "C14", "C15", "C16"):
            return "%s act=%s isA=%s mact=%s" % (head, f["act"], f["isA"], f["mact"])
        if prop in ("C08", "C09", "C10"):
            return "%s act=%s plan=%s ret=%s" % (head, f["act"], f["plan"], f["ret"])
        if prop == "C11":
            return "%s act=%s prev=%s ret=%s" % (head, f["act"], f["prev"], f["ret"])
        if prop == "C12":
            return "%s act=%s mact=%s bytes=%s" % (head, f["act"], f["mact"], f["bytes"])
        if prop == "C07":
            return "%s prev=%s plan=%s" % (head, f["prev"], f["plan"])
        return line
    return line


def projected(prop, lines):
    out = []
    for l in lines:
        p = project(prop, l)
        if p is not None:
            out.append(p)
    return out


def lifecycle_count(lines):
    return sum(1 for l in lines if l.startswith("cb ") and l.split()[4] in ("enter", "exit", "reenter"))


def distribution(stats, impl_lines):
    d = stats.setdefault("dist", {"ops": {}, "callbacks": {}, "guard_rounds": {}, "vetoes": 0, "tasks_fired": 0,
                                  "plan_outcomes": 0, "rejected": 0, "limit_hits": 0})
    rounds = 0
    for l in impl_lines:
        w = l.split()
        if w[0] == "api":
            d["ops"][w[3]] = d["ops"].get(w[3], 0) + 1
            if rounds:
                d["guard_rounds"][str(rounds)] = d["guard_rounds"].get(str(rounds), 0) + 1
            rounds = 0
        elif w[0] == "cb":
            d["callbacks"][w[4]] = d["callbacks"].get(w[4], 0) + 1
            if w[4] == "exitGuard" or (w[4] == "entryGuard" and w[5] == "s255"):
                rounds += 1
            if w[4] in ("planSucceeded", "planFailed"):
                d["plan_outcomes"] += 1
        elif w[0] == "do" and w[-1] == "cancel":
            d["vetoes"] += 1
        elif w[0] == "rejected":
            d["rejected"] += 1


# ------------------------------------------------------------------------------------ minimisation
def case_parts(case):
    head = case[:2]
    beh = [l for l in case[2:] if l.startswith("beh ")]
    ops = [l for l in case[2:] if l.startswith("op ")]
    return head, beh, ops


def differs(exe, case, prop):
    rc_i, ci, rc_m, cm = run_cases(exe, [case], timeout=120)
    if rc_i != 0 or not ci or not cm:
        return True
    return projected(prop, ci[0]) != projected(prop, cm[0])


def minimise_case(exe, case, prop, pred=None, budget=150):
    """shrink a disagreeing case: cut the history after the first differing op, then drop ops and
    behaviour entries while `pred` (default: projected traces differ) still holds.  Removing an op
    renumbers later ops, so behaviour keys are renumbered with it."""
    pred = pred or (lambda c: differs(exe, c, prop))
    head, beh, ops = case_parts(case)

    def rebuild(beh, ops):
        return head + beh + ops

    def drop_op(beh, ops, k):
        nb = []
        for b in beh:
            w = b.split()
            o = int(w[2][2:])
            if o == k:
                continue
            if o > k:
                w[2] = "op%d" % (o - 1)
            nb.append(" ".join(w))
        return nb, ops[:k] + ops[k + 1:]

    # 1. truncate from the end
    n = 0
    while len(ops) > 1 and n < budget:
        nb, no = drop_op(beh, ops, len(ops) - 1)
        n += 1
        if pred(rebuild(nb, no)):
            beh, ops = nb, no
        else:
            break
    # 2. drop single ops (not the first: construct)
    k = len(ops) - 2
    while k >= 1 and n < budget:
        nb, no = drop_op(beh, ops, k)
        n += 1
        if pred(rebuild(nb, no)):
            beh, ops = nb, no
        k -= 1
    # 3. drop behaviour entries
    k = len(beh) - 1
    while k >= 0 and n < budget * 2:
        nb = beh[:k] + beh[k + 1:]
        n += 1
        if pred(rebuild(nb, ops)):
            beh = nb
        k -= 1
    return rebuild(beh, ops)


def replica_case(rng, cfg, name, nops):
    """C11: authority i0, replica i1 fed with previousTransition().destination after every step;
    the replica's guards are hostile (cancel / redirect) and must never be consulted."""
    lines = ["case %s" % name, cfg.cfg_line()]
    ops = ["construct 0 1 %d" % rng.choice([0, 255]), "construct 1 0 %d" % rng.choice([0, 165])]
    if cfg.manual:
        ops += ["enter 0", "replayEnterFrom 1 0"]
    else:
        ops += ["replayFrom 1 0"]
    for _ in range(nops):
        r = rng.random()
        if r < 0.35: ops.append("update 0")
        elif r < 0.45: ops.append("react 0")
        elif r < 0.70: ops.append("immediateChangeTo 0 %d" % rng.randrange(cfg.n))
        elif r < 0.80 and cfg.payload != "none": ops.append("immediateChangeWith 0 %d %d" % (rng.randrange(cfg.n), rng.randrange(200)))
        elif r < 0.88: ops.append("changeTo 0 %d" % rng.randrange(cfg.n)); continue
        elif r < 0.94 and cfg.plans: ops.append("planAppend 0 %d %d" % (rng.randrange(cfg.n), rng.randrange(cfg.n))); ops.append("succeed 0 %d" % rng.randrange(cfg.n)); continue
        elif r < 0.97: ops.append("replayTransition 1 255")
        else: ops.append("update 0")
        ops.append("replayFrom 1 0")
    beh = []
    for k, op in enumerate(ops):
        w = op.split()
        inst = int(w[1])
        for m in GUARDS + PHASES_U + PHASES_R:
            for sid in list(range(min(cfg.n, 6))) + [255]:
                for occ in range(cfg.L + 1 if m in GUARDS else 1):
                    if inst == 1 and m in GUARDS:
                        if k >= 2:   # hostile replica guards
                            beh.append("beh i1 op%d occ%d %s s%d S : %s" % (k, occ, m, sid, rng.choice(["cancel", "changeTo %d" % rng.randrange(cfg.n), "cancel ; changeTo %d" % rng.randrange(cfg.n)])))
                    elif inst == 0 and rng.random() < 0.3:
                        acts = actions_for(rng, cfg, m, {})
                        if acts:
                            beh.append("beh i0 op%d occ%d %s s%d S : %s" % (k, occ, m, sid, " ; ".join(acts)))
    return lines + beh + ["op " + o for o in ops]


def oracle_replica(impl_lines):
    """C11 (search support): after every replay step the replica's active state equals the authority's,
    and no guard was delivered to the replica while replaying"""
    act = {}
    cur_guard = {}
    for l in impl_lines:
        w = l.split()
        if w[0] == "cb" and w[1] == "i1" and w[4] in GUARDS and w[2] not in ("op1",):
            cur_guard[w[2]] = l
        if w[0] == "api":
            f = fields(l)[1]
            act[w[1]] = f["act"]
            if w[1] == "i1" and w[3] in ("replayTransition", "replayEnter"):
                if w[2] in cur_guard:
                    return "a guard was consulted on the replica during %s: %s" % (w[3], cur_guard[w[2]])
                if "i0" in act and act["i0"] != f["act"] and not (w[3] == "replayTransition" and f["ret"] == "0" and False):
                    return "after %s the replica is in state %s, the authority in %s" % (w[2] + " " + w[3], f["act"], act["i0"])
    return None


def plan_veto_case(rng, cfg, name):
    """C08/C09: a state stays active because its transitions are vetoed, while tasks of that origin are
    appended, reported on, fired, re-appended; cycles with and without fresh reports."""
    lines = ["case %s" % name, cfg.cfg_line()]
    x = rng.randrange(cfg.n)
    ops = ["construct 0 %d %d" % (rng.randrange(2), rng.choice([0, 255]))] + (["enter 0"] if cfg.manual else [])
    ops.append("immediateChangeTo 0 %d" % x)
    first_scripted = len(ops)
    for _ in range(rng.randint(3, 9)):
        for _ in range(rng.randint(0, 3)):
            o = x if rng.random() < 0.75 else rng.randrange(cfg.n)
            d = rng.randrange(cfg.n)
            if cfg.payload != "none" and rng.random() < 0.4:
                ops.append("planAppend 0 %d %d %d" % (o, d, rng.randrange(200)))
            else:
                ops.append("planAppend 0 %d %d" % (o, d))
        r = rng.random()
        if r < 0.55: ops.append("succeed 0 %d" % x)
        elif r < 0.65: ops.append("fail 0 %d" % x)
        elif r < 0.72: ops.append("succeed 0 %d" % rng.randrange(cfg.n))
        if rng.random() < 0.08: ops.append("planRemove 0 %s" % "".join(rng.choice("01") for _ in range(3)))
        ops.append("update 0" if rng.random() < 0.8 else "react 0")
    beh = []
    p_veto = rng.choice([0.5, 0.8, 1.0])
    for k in range(first_scripted, len(ops)):
        if not ops[k].startswith(("update", "react")):
            continue
        for sid in range(cfg.n):
            for occ in range(cfg.L + 1):
                if rng.random() < p_veto:
                    beh.append("beh i0 op%d occ%d %s s%d S : cancel" % (k, occ, rng.choice(["exitGuard", "entryGuard"]), sid))
        if rng.random() < 0.25:
            m = rng.choice(PHASES_U if ops[k].startswith("update") else PHASES_R)
            beh.append("beh i0 op%d occ0 %s s%d S : %s" % (k, m, x, rng.choice(["succeed", "fail", "succeed ; planAppend %d %d" % (x, rng.randrange(cfg.n))])))
        for m in ("planSucceeded", "planFailed"):
            if rng.random() < 0.3:
                beh.append("beh i0 op%d occ0 %s s255 S : %s" % (k, m, rng.choice(["planAppend %d %d" % (x, rng.randrange(cfg.n)), "changeTo %d" % rng.randrange(cfg.n), "succeed %d" % x])))
    return lines + beh + ["op " + o for o in ops]



def statusfirst_case(rng, cfg, name):
    """C08/C09: task statuses reported in cycles *before* any task exists (and again after the plan was consumed or
    cleared), from react() as often as from update(); tasks only appear afterwards.  Nothing may be delivered, fired or
    remembered on the strength of a report that had no plan to refer to."""
    lines = ["case %s" % name, cfg.cfg_line()]
    ops = ["construct 0 %d %d" % (rng.randrange(2), rng.choice([0, 255, 165]))] + (["enter 0"] if cfg.manual else [])
    beh = []
    sids = list(range(min(cfg.n, 6))) + [255]

    def cycle(report):
        k = len(ops)
        fam = PHASES_R if rng.random() < 0.55 else PHASES_U
        ops.append("react 0" if fam is PHASES_R else "update 0")
        if report:
            m = rng.choice(fam)
            what = rng.choice(["fail", "succeed", "fail", "succeed %d" % rng.randrange(cfg.n), "fail %d" % rng.randrange(cfg.n)])
            extra = " ; changeTo %d" % rng.randrange(cfg.n) if rng.random() < 0.35 else ""
            for sid in sids:
                if rng.random() < 0.8:
                    beh.append("beh i0 op%d occ0 %s s%d S : %s%s" % (k, m, sid, what, extra))

    for _ in range(rng.randint(2, 4)):
        for _ in range(rng.randint(1, 2)):
            cycle(True)                                   # reports with no task around
        if rng.random() < 0.3:
            ops.append("changeTo 0 %d" % rng.randrange(cfg.n))
        for _ in range(rng.randint(1, 2)):                # tasks appear afterwards
            o, d = rng.randrange(cfg.n), rng.randrange(cfg.n)
            if cfg.payload != "none" and rng.random() < 0.4:
                ops.append("planAppend 0 %d %d %d" % (o, d, rng.randrange(200)))
            else:
                ops.append("planAppend 0 %d %d" % (o, d))
        for _ in range(rng.randint(1, 3)):
            cycle(rng.random() < 0.4)
        r = rng.random()
        if r < 0.3:
            ops.append("planClear 0")
        elif r < 0.45 and cfg.manual:
            ops += ["exit 0", "enter 0"]
    return lines + beh + ["op " + o for o in ops]

def reactivation_case(rng, cfg, name):
    """C09/C17: a plan is used in one activation, the machine is deactivated (exit / destroy+construct / load) and
    activated again, then statuses are reported with and without new tasks: planSucceeded()/planFailed() must not
    be delivered on the strength of a task of the previous activation."""
    lines = ["case %s" % name, cfg.cfg_line()]
    ops = ["construct 0 %d %d" % (rng.randrange(2), rng.choice([0, 255, 165]))] + (["enter 0"] if cfg.manual else [])
    for round_ in range(rng.randint(2, 4)):
        for _ in range(rng.randint(0, 2)):
            o, d = rng.randrange(cfg.n), rng.randrange(cfg.n)
            if cfg.payload != "none" and rng.random() < 0.4:
                ops.append("planAppend 0 %d %d %d" % (o, d, rng.randrange(200)))
            else:
                ops.append("planAppend 0 %d %d" % (o, d))
        for _ in range(rng.randint(0, 2)):
            r = rng.random()
            k = rng.randrange(cfg.n)
            if r < 0.5: ops.append("succeed 0 %d" % k)
            elif r < 0.8: ops.append("fail 0 %d" % k)
            else: ops.append("changeTo 0 %d" % k)
            if rng.random() < 0.75:     # sometimes the request is still outstanding when the machine is deactivated
                ops.append("update 0" if rng.random() < 0.7 else "react 0")
        r = rng.random()
        if cfg.manual and r < 0.6:
            ops += ["exit 0", "enter 0"]
        elif r < 0.8 and cfg.serial:
            ops += ["save 0", "load 0 0"]
        else:
            ops += ["destroy 0", "construct 0 %d %d" % (rng.randrange(2), rng.choice([0, 255, 90]))] + (["enter 0"] if cfg.manual else [])
        if rng.random() < 0.7:
            # report on whichever state is active now (initial state after enter / construct)
            ops.append("%s 0 %d" % (rng.choice(["succeed", "fail"]), 0 if rng.random() < 0.7 else rng.randrange(cfg.n)))
        ops.append("update 0" if rng.random() < 0.7 else "react 0")
    return lines + ["op " + o for o in ops]
