"""Executed (not proved) parts of C18 and C19: sanitizers, allocation probe, symbol scan, the
256-combination compile matrix, the amalgamation check, feature-neutrality digests."""
import hashlib, itertools, os, shutil, subprocess, tempfile
from concurrent.futures import ThreadPoolExecutor
from . import common as C
from . import gen_machine as G

SWITCHES = ["FFSM2_ENABLE_PLANS", "FFSM2_ENABLE_SERIALIZATION", "FFSM2_ENABLE_TRANSITION_HISTORY", "FFSM2_ENABLE_LOG_INTERFACE",
            "FFSM2_ENABLE_VERBOSE_DEBUG_LOG", "FFSM2_ENABLE_STRUCTURE_REPORT", "FFSM2_ENABLE_DEBUG_STATE_TYPE", "FFSM2_DISABLE_TYPEINDEX"]

COMBO_SRC = r'''
// every switch is given on the command line; this TU instantiates automatic/manual x payload/no-payload machines and the API
#if defined(FFSM2_ENABLE_ALL) || defined(FFSM2_ENABLE_PLANS)
#define HAS_PLANS 1
#else
#define HAS_PLANS 0
#endif
#if defined(FFSM2_ENABLE_ALL) || defined(FFSM2_ENABLE_SERIALIZATION)
#define HAS_SERIAL 1
#else
#define HAS_SERIAL 0
#endif
#if defined(FFSM2_ENABLE_ALL) || defined(FFSM2_ENABLE_TRANSITION_HISTORY)
#define HAS_HISTORY 1
#else
#define HAS_HISTORY 0
#endif
#if defined(FFSM2_ENABLE_LOG_INTERFACE) || defined(FFSM2_ENABLE_VERBOSE_DEBUG_LOG)
#define HAS_LOG 1
#else
#define HAS_LOG 0
#endif
#include <ffsm2/machine.hpp>
struct Ctx { int v; };
struct Pay { double d; int i; };
struct Ev { int e; };
template <typename TConfig, int TAG>
struct Use {
	using M = ffsm2::MachineT<TConfig>;
	struct R; struct A; struct B;
	using FSM = typename M::template Root<R, A, B>;
	struct R : FSM::State {
		void entryGuard(typename FSM::GuardControl& c) { (void) c.pendingTransition(); }
		void update(typename FSM::FullControl& c) { c.template changeTo<B>(); }
#if HAS_PLANS
		void planSucceeded(typename FSM::FullControl& c) { c.plan().clear(); }
		void planFailed(typename FSM::FullControl&) {}
#endif
	};
	struct A : FSM::State {
		void enter(typename FSM::State::PlanControl& c) { (void) c.currentTransition(); }
		void react(const Ev&, typename FSM::FullControl& c) {
#if HAS_PLANS
			c.succeed(); c.plan().template change<A, B>();
#endif
			(void) c;
		}
		void query(Ev&, typename FSM::ConstControl& c) const {
			(void) c.isActive(0); (void) c.template isActive<B>(); (void) c._(); (void) c.request();
#if HAS_PLANS
			auto p = c.plan(); for (auto it = p.begin(); it; ++it) (void) it->origin;
#endif
#if HAS_HISTORY
			(void) c.previousTransitions();
#endif
		}
	};
	struct B : FSM::State { void exitGuard(typename FSM::GuardControl& c) { c.cancelPendingTransition(); } };
	template <typename TInstance> static void common(TInstance& m) {
		Ev e{1};
		m.update(); m.react(e); m.query(e); m.template changeTo<B>(); m.immediateChangeTo(0);
		(void) m.activeStateId(); (void) m.isActive(1);
#if HAS_PLANS
		m.plan().change(0, 1); m.succeed(0); m.fail(1);
		{ const TInstance& cm = m; auto cp = cm.plan(); auto p = m.plan(); if (p && cp) { (void) p.first(); (void) p.last(); (void) cp.first(); (void) cp.last(); } }
		m.template succeed<B>(); m.template fail<B>(); m.plan().template change<A>(1);
		m.plan().clear();
#endif
		(void) m.template isActive<A>(); m.template immediateChangeTo<A>();
#if HAS_HISTORY
		(void) m.previousTransition(); m.replayTransition(1);
#endif
#if HAS_SERIAL
		typename TInstance::SerialBuffer b; m.save(b); m.load(b);
#endif
#if HAS_LOG
		m.attachLogger(nullptr);
#endif
		TInstance copy{m}; (void) copy;
	}
};
// the same through a head-less root (M::PeerRoot): the root region is then an S_<.., EmptyT> with its own code paths
template <typename TConfig, int TAG>
struct UseP {
	using M = ffsm2::MachineT<TConfig>;
	struct A; struct B;
	using FSM = typename M::template PeerRoot<A, B>;
	struct A : FSM::State {
		void update(typename FSM::FullControl& c) {
			c.template changeTo<B>();
#if HAS_PLANS
			c.succeed(); c.fail(); c.plan().template change<A, B>();
#endif
		}
		void react(const Ev&, typename FSM::FullControl&) {}
		void query(Ev&, typename FSM::ConstControl&) const {}
	};
	struct B : FSM::State { void entryGuard(typename FSM::GuardControl& c) { c.cancelPendingTransition(); } };
	static void run() {
		Ctx c{1}; typename FSM::Instance m{c}; Ev e{2};
		m.update(); m.react(e); m.query(e); m.immediateChangeTo(1);
#if HAS_SERIAL
		typename FSM::Instance::SerialBuffer b; m.save(b); m.load(b);
#endif
#if HAS_HISTORY
		(void) m.previousTransition(); m.replayTransition(0);
#endif
#if HAS_LOG
		m.attachLogger(nullptr);
#endif
		typename FSM::Instance copy{m}; (void) copy;
	}
};
template <typename TConfig, int TAG> static void autoUse() { using U = Use<TConfig, TAG>; Ctx c{1}; typename U::FSM::Instance m{c}; U::common(m); }
template <typename TConfig, int TAG> static void manualUse() {
	using U = Use<TConfig, TAG>; Ctx c{1}; typename U::FSM::Instance m{c}; m.enter(); U::common(m);
#if HAS_HISTORY
	typename U::FSM::Instance r{c}; r.replayEnter(1); r.exit();
#endif
	m.exit(); (void) m.isActive();
}
int main() {
	using C0 = ffsm2::Config::ContextT<Ctx&>;
	autoUse<C0, 0>();
	manualUse<C0::ManualActivation, 1>();
	autoUse<C0::PayloadT<Pay>, 2>();
	manualUse<C0::ManualActivation::PayloadT<Pay>, 3>();
	UseP<C0, 4>::run();
	UseP<C0::PayloadT<Pay>, 5>::run();
	return 0;
}
'''


def compile_matrix(compilers, standards, combos=None, jobs=None):
    """-fsyntax-only of COMBO_SRC for every switch combination; returns (n_ok, failures[list of dict])"""
    d = tempfile.mkdtemp(prefix="ffsm2_combo_", dir="/var/tmp")
    src = os.path.join(d, "combo.cpp")
    open(src, "w").write(COMBO_SRC)
    if combos is None:
        combos = [tuple(s for s, bit in zip(SWITCHES, bits) if bit) for bits in itertools.product([0, 1], repeat=8)] + [("FFSM2_ENABLE_ALL",)]
    jobs_list = [(cxx, std, combo) for cxx in compilers for std in standards for combo in combos]

    def one(job):
        cxx, std, combo = job
        cmd = [cxx, "-std=" + std, "-fsyntax-only", "-I", os.path.join(C.REPO, "include")] + ["-D%s=" % s for s in combo] + [src]
        rc, out = C.run(cmd, timeout=300)
        return job, rc, out
    fails, ok = [], 0
    try:
        with ThreadPoolExecutor(max_workers=jobs or C.NCPU) as ex:
            for job, rc, out in ex.map(one, jobs_list):
                if rc == 0:
                    ok += 1
                else:
                    errs = [l for l in out.split("\n") if "error" in l][:3]
                    fails.append({"compiler": job[0], "std": job[1], "switches": list(job[2]), "errors": errs,
                                  "replay_cmd": "%s -std=%s -fsyntax-only -I/repo/include %s combo.cpp" % (job[0], job[1], " ".join("-D%s=" % s for s in job[2]))})
    finally:
        shutil.rmtree(d, ignore_errors=True)
    return ok, fails, len(jobs_list)



def api_complete(thorough=False):
    """corpus/api/api_complete.cpp instantiates, links and runs every public member once; returns list of failures"""
    src = open(os.path.join(C.VERIF, "corpus", "api", "api_complete.cpp")).read()
    kinds = [("Ctx&", "ctx"), ("Ctx", "ctx"), ("Ctx*", "&ctx")]
    tools = [("g++", "c++11"), ("clang++-14", "c++20")] + ([("g++", "c++20"), ("clang++-14", "c++11"), ("g++", "c++17")] if thorough else [])
    jobs = [(k, t) for k in kinds for t in tools]

    def one(job):
        (ctxt, ctxarg), (cxx, std) = job
        exe, log = C.build_harness("api_complete", src, ["-std=" + std, "-w", "-DCTXT=" + ctxt, "-DCTXARG=" + ctxarg], cxx=cxx)
        what = "%s -std=%s context %s" % (cxx, std, ctxt)
        if exe is None:
            errs = [l.strip()[:300] for l in log.split("\n") if "error" in l or "undefined reference" in l][:4]
            return {"what": "a public member of the API cannot be instantiated or linked (corpus/api/api_complete.cpp, %s)" % what, "errors": errs,
                    "replay_cmd": "%s -std=%s '-DCTXT=%s' '-DCTXARG=%s' -I/repo/include /verif/corpus/api/api_complete.cpp" % (cxx, std, ctxt, ctxarg)}
        rc, out = C.run([exe], timeout=60)
        if rc != 0 or "ok" not in out:
            return {"what": "corpus/api/api_complete.cpp (%s) exits %s" % (what, rc), "output": out[-400:]}
        return None
    with ThreadPoolExecutor(max_workers=8) as ex:
        res = list(ex.map(one, jobs))
    return len(jobs), [r for r in res if r]

def join_check():
    """re-runs the repo's own tools/join.py on a scratch copy, byte-compares with include/ffsm2/machine.hpp"""
    d = tempfile.mkdtemp(prefix="ffsm2_join_", dir="/var/tmp")
    try:
        for sub in ("development", "tools"):
            shutil.copytree(os.path.join(C.REPO, sub), os.path.join(d, sub))
        os.makedirs(os.path.join(d, "include", "ffsm2"))
        rc, out = C.run(["python3", "join.py"], cwd=os.path.join(d, "tools"), timeout=120)
        if rc != 0:
            return {"what": "tools/join.py failed", "log": out[-800:]}
        a = open(os.path.join(d, "include", "ffsm2", "machine.hpp"), "rb").read()
        b = open(os.path.join(C.REPO, "include", "ffsm2", "machine.hpp"), "rb").read()
        if a != b:
            import difflib
            diff = list(difflib.unified_diff(b.decode("utf-8", "replace").split("\n"), a.decode("utf-8", "replace").split("\n"),
                                             "include/ffsm2/machine.hpp (shipped)", "amalgamation of development/ (tools/join.py)", lineterm="", n=1))
            return {"what": "include/ffsm2/machine.hpp is not the amalgamation of development/ffsm2 (tools/join.py)", "diff": diff[:60]}
        return None
    finally:
        shutil.rmtree(d, ignore_errors=True)


ALLOC_SRC = r'''
// allocation probe: global operator new/delete and the malloc family are replaced; FFSM2 operations between
// the markers must not reach any of them.  No iostream / containers here on purpose.
#define FFSM2_ENABLE_PLANS
#define FFSM2_ENABLE_SERIALIZATION
#define FFSM2_ENABLE_TRANSITION_HISTORY
#define FFSM2_ENABLE_LOG_INTERFACE
#include <ffsm2/machine.hpp>
#include <cstdio>
#include <cstdlib>
#include <new>
static unsigned long g_allocs = 0;
static bool g_armed = false;
extern "C" void* __real_malloc(size_t); extern "C" void* __real_calloc(size_t, size_t); extern "C" void* __real_realloc(void*, size_t); extern "C" void __real_free(void*);
extern "C" void* __wrap_malloc(size_t n) { if (g_armed) ++g_allocs; return __real_malloc(n); }
extern "C" void* __wrap_calloc(size_t a, size_t b) { if (g_armed) ++g_allocs; return __real_calloc(a, b); }
extern "C" void* __wrap_realloc(void* p, size_t n) { if (g_armed) ++g_allocs; return __real_realloc(p, n); }
extern "C" void __wrap_free(void* p) { if (g_armed && p) ++g_allocs; __real_free(p); }
void* operator new(size_t n) { if (g_armed) ++g_allocs; return __real_malloc(n); }
void* operator new[](size_t n) { if (g_armed) ++g_allocs; return __real_malloc(n); }
void operator delete(void* p) noexcept { if (g_armed && p) ++g_allocs; __real_free(p); }
void operator delete[](void* p) noexcept { if (g_armed && p) ++g_allocs; __real_free(p); }
void operator delete(void* p, size_t) noexcept { if (g_armed && p) ++g_allocs; __real_free(p); }
void operator delete[](void* p, size_t) noexcept { if (g_armed && p) ++g_allocs; __real_free(p); }
struct Ctx { int v; };
struct Pay { double d; int i; };
struct Ev { int e; };
using M = ffsm2::MachineT<ffsm2::Config::ContextT<Ctx&>::ManualActivation::PayloadT<Pay>::TaskCapacityN<4> >;
struct R; struct A; struct B; struct Cc;
using FSM = M::Root<R, A, B, Cc>;
struct R : FSM::State { void planSucceeded(FullControl& c) { c.changeTo<A>(); } void planFailed(FullControl& c) { c.changeTo<B>(); } };
struct A : FSM::State { void update(FullControl& c) { c.succeed(); c.plan().changeWith<A, B>(Pay{1.0, 2}); } void entryGuard(GuardControl& c) { (void) c.pendingTransition(); } };
struct B : FSM::State { void update(FullControl& c) { c.changeWith<Cc>(Pay{2.0, 3}); c.fail(); } void exitGuard(GuardControl& c) { if (c.pendingTransition().destination == 0) c.cancelPendingTransition(); } };
struct Cc : FSM::State { void react(const Ev&, FullControl& c) { c.changeTo<A>(); } void query(Ev&, ConstControl&) const {} };
struct Lg : FSM::Logger {};
int main() {
	Ctx ctx{1}; Lg lg; Ev e{0};
	g_armed = true;
	{
		FSM::Instance m{ctx, &lg};
		m.enter();
		for (int k = 0; k < 50; ++k) {
			m.update(); m.react(e); m.query(e);
			m.plan().change(0, 1); m.plan().changeWith(1, 2, Pay{3.0, 4}); m.succeed(1); m.fail(2);
			m.immediateChangeTo(static_cast<ffsm2::StateID>(k % 3)); m.changeWith<B>(Pay{4.0, 5}); m.update();
			FSM::Instance::SerialBuffer buf; m.save(buf);
			FSM::Instance c{m}; c.load(buf); c.replayTransition(1); (void) c.previousTransition();
			if (k % 7 == 0) { m.plan().clear(); }
			c.exit();
		}
		m.exit();
	}
	g_armed = false;
	std::printf("allocations=%lu\n", g_allocs);
	return g_allocs ? 1 : 0;
}
'''


def alloc_probe():
    flags = ["-std=c++11", "-O0", "-Wl,--wrap=malloc", "-Wl,--wrap=calloc", "-Wl,--wrap=realloc", "-Wl,--wrap=free"]
    exe, logtxt = C.build_harness("alloc_probe", ALLOC_SRC, flags)
    if exe is None:
        return {"what": "allocation probe does not compile", "log": logtxt[-800:]}
    rc, out = C.run([exe], timeout=60)
    if rc != 0 or "allocations=0" not in out:
        return {"what": "FFSM2 operations reached the allocator: " + out.strip()[-200:], "replay": "vlib.platform.ALLOC_SRC"}
    return None


def symbol_scan():
    """compile the probe to an object file and look for allocation symbols among its undefined references
    other than the ones the probe itself defines"""
    d = tempfile.mkdtemp(prefix="ffsm2_nm_", dir="/var/tmp")
    try:
        src = os.path.join(d, "t.cpp")
        # API-instantiating TU without the probe's own allocator overrides
        body = ALLOC_SRC.split("struct Ctx { int v; };", 1)[1]
        open(src, "w").write("#define FFSM2_ENABLE_PLANS\n#define FFSM2_ENABLE_SERIALIZATION\n#define FFSM2_ENABLE_TRANSITION_HISTORY\n"
                             "#define FFSM2_ENABLE_LOG_INTERFACE\n#include <ffsm2/machine.hpp>\n#include <cstdio>\nstatic unsigned long g_allocs = 0; static bool g_armed = false;\n"
                             "struct Ctx { int v; };" + body)
        rc, out = C.run(["g++", "-std=c++11", "-O0", "-c", "-I", os.path.join(C.REPO, "include"), src, "-o", os.path.join(d, "t.o")], timeout=300)
        if rc != 0:
            return {"what": "symbol-scan TU does not compile", "log": out[-600:]}
        rc, out = C.run(["nm", "-u", os.path.join(d, "t.o")])
        bad = [l.split()[-1] for l in out.split("\n") if l.strip() and any(s in l for s in ("_Znw", "_Zna", "_Zdl", "_Zda", " malloc", " calloc", " realloc", " free"))]
        if bad:
            return {"what": "object code instantiating the FFSM2 API references allocation symbols: %s" % bad}
        return None
    finally:
        shutil.rmtree(d, ignore_errors=True)


LAYOUT_SRC = r'''
#define FFSM2_ENABLE_PLANS
#include <ffsm2/machine.hpp>
#include <cstdio>
#include <cstddef>
#include <cstdint>
template <unsigned A, unsigned S> struct alignas(A) P { unsigned char b[S]; };
template <unsigned A, unsigned S> static void row() {
	using T = ffsm2::detail::TransitionT<P<A, S> >;
	using K = ffsm2::detail::TaskT<P<A, S> >;
	static_assert(sizeof(P<A, S>) == S && alignof(P<A, S>) == A, "payload family");
	std::printf("Transition A=%u size=%u off=%zu align=%zu sizeof=%zu\n", A, S, offsetof(T, storage), alignof(T), sizeof(T));
}
template <unsigned A, unsigned S> static void rowK() {
	using K = ffsm2::detail::TaskT<P<A, S> >;
	std::printf("Task A=%u size=%u off=%zu align=%zu sizeof=%zu\n", A, S, offsetof(K, storage), alignof(K), sizeof(K));
}
int main() {
	row<1,1>(); row<2,2>(); row<4,4>(); row<8,16>(); row<16,32>(); row<8,8>(); row<4,12>();
	rowK<1,1>(); rowK<2,2>(); rowK<4,4>(); rowK<8,16>(); rowK<16,32>(); rowK<8,8>(); rowK<4,12>();
	return 0;
}
'''


def layout_check():
    """offsetof / alignof / sizeof of TransitionT<P> and TaskT<P> for a payload family vs the Lean layout model"""
    exe, logtxt = C.build_harness("layout", LAYOUT_SRC, ["-std=c++11", "-O0", "-Wno-invalid-offsetof"])
    if exe is None:
        return {"what": "layout probe does not compile", "log": logtxt[-600:]}, []
    rc, out = C.run([exe])
    rc2, model = C.run([C.DRIVER, "layout"])
    a, b = out.strip().split("\n"), model.strip().split("\n")
    problems = []
    for l in a:
        f = dict(t.split("=") for t in l.split()[1:])
        if int(f["off"]) % int(f["A"]) != 0 or int(f["align"]) % int(f["A"]) != 0:
            return {"what": "payload storage is not aligned for its type: " + l}, a
    if a != b:
        d = [(x, y) for x, y in zip(a, b) if x != y][:3]
        return {"what": "object layout differs from the layout model", "first": d, "disagreement_only": True}, a
    return None, a
