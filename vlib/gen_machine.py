"""Machine correspondence harness generator: emits one C++11 translation unit per configuration.
The TU drives the REAL ffsm2 machine through its public API with the line protocol of
lean/FFSM2/Driver/MachineIO.lean and prints the same `cb` / `do` / `log` / `api` / `rejected` lines."""

METHODS = ["entryGuard", "enter", "reenter", "preUpdate", "update", "postUpdate", "preReact", "react", "postReact",
           "query", "exitGuard", "exit", "planSucceeded", "planFailed"]

CONTROL = {"entryGuard": "GuardControl", "exitGuard": "GuardControl", "enter": "PlanControl", "reenter": "PlanControl",
           "exit": "PlanControl", "query": "ConstControl"}

PAYLOADS = {
    "none": None,
    "u8": ("struct Payload { uint8_t b; };",
           "static Payload mkPayload(unsigned p) { Payload x; x.b = static_cast<uint8_t>(p); return x; }",
           "static int rdPayload(const Payload& x) { return x.b; }"),
    "d12": ("struct Payload { double d; int32_t i; };",
            "static Payload mkPayload(unsigned p) { Payload x; x.d = p * 1.5; x.i = static_cast<int32_t>(p * 7 + 1); return x; }",
            "static int rdPayload(const Payload& x) { int p = (x.i - 1) / 7; return (x.i == p * 7 + 1 && x.d == p * 1.5) ? p : -1; }"),
    "a32": ("struct alignas(16) Payload { unsigned char c[32]; };",
            "static Payload mkPayload(unsigned p) { Payload x; for (int k = 0; k < 32; ++k) x.c[k] = static_cast<unsigned char>(p + 3 * k); return x; }",
            "static int rdPayload(const Payload& x) { int p = x.c[0]; for (int k = 0; k < 32; ++k) if (x.c[k] != static_cast<unsigned char>(p + 3 * k)) return -1; return p; }"),
}


class Config:
    def __init__(self, n, L=4, cap=None, head=False, manual=False, payload="none", plans=True, history=True,
                 serial=True, log=True, verbose=False, defines=None, inj=None, ctx="ref", extra_defs=()):
        self.n, self.L, self.cap = n, L, (cap if cap else n)
        self.head, self.manual, self.payload = head, manual, payload
        self.plans, self.history, self.serial, self.log, self.verbose = plans, history, serial, log, verbose
        # rows: states 0..n-1 then head; each a 14-char 0/1 string over METHODS
        self.defines = defines or ["1" * 14] * (n + 1)
        self.inj = inj or [0] * (n + 1)
        self.ctx = ctx
        self.extra_defs = tuple(extra_defs)
        if not plans:
            self.defines = [d[:12] + "00" for d in self.defines]
        for r in range(n + 1):
            if self.inj[r] >= 2:
                self.defines[r] = "1" * 12 + (self.defines[r][12:] if r < n else ("11" if plans else "00"))

    def cfg_line(self):
        b = lambda x: "1" if x else "0"
        return ("cfg n=%d L=%d cap=%d head=%s manual=%s payload=%s plans=%s history=%s serial=%s log=%s verbose=%s defines=%s inj=%s ptype=%s ctx=%s"
                % (self.n, self.L, self.cap, b(self.head), b(self.manual), b(self.payload != "none"), b(self.plans), b(self.history),
                   b(self.serial), b(self.log), b(self.verbose), ",".join(self.defines), ",".join(map(str, self.inj)), self.payload, self.ctx))

    def key(self):
        return "n%d_L%d_c%d_h%d_m%d_%s_%d%d%d%d%d_%s_%s_%s" % (
            self.n, self.L, self.cap, self.head, self.manual, self.payload, self.plans, self.history, self.serial,
            self.log, self.verbose, self.ctx, "-".join(self.defines)[:0] + str(abs(hash("-".join(self.defines) + str(self.inj))) % 10 ** 8),
            "".join(self.extra_defs))


def callback(m, sid, layer, plans):
    ctl = CONTROL.get(m, "FullControl")
    if m in ("preReact", "react", "postReact"):
        return "\tvoid %s(const Event& e, %s& c) { checkEvent(&e); deliver(M_%s, %s, %s, c); }\n" % (m, ctl, m, sid, layer)
    if m == "query":
        return "\tvoid query(Event& e, ConstControl& c) const { checkEvent(&e); deliver(M_query, %s, %s, c); }\n" % (sid, layer)
    if m in ("planSucceeded", "planFailed") and not plans:
        return ""
    return "\tvoid %s(%s& c) { deliver(M_%s, %s, %s, c); }\n" % (m, ctl, m, sid, layer)



def alt_section(n):
    """definitions of the alternate-form helpers: a switch over the state id picks the state type"""
    if n > 8:
        body = """
template <typename C> static bool altChangeTo(C&, unsigned) { return false; }
template <typename C> static bool altChangeWith(C&, unsigned, unsigned) { return false; }
template <typename C> static bool altImmChangeTo(C&, unsigned) { return false; }
template <typename C> static bool altImmChangeWith(C&, unsigned, unsigned) { return false; }
template <typename C> static bool altStatus(C&, bool, unsigned) { return false; }
template <typename C> static int altIsActive(const C&, unsigned) { return -1; }
template <typename C> static int altStateId(C&, unsigned) { return -1; }
template <typename P> static bool altPlanChange(P&, unsigned, unsigned, bool, bool&) { return false; }
template <typename P> static bool altPlanChangeWith(P&, unsigned, unsigned, unsigned, bool, bool&) { return false; }
"""
        return body
    c1 = "\n".join("\t\tcase %d: Op::template run<S%d>(a...); return true;" % (k, k) for k in range(n))
    c2b = "\n".join("\t\tcase %d: Op::template run<SO, S%d>(a...); return true;" % (k, k) for k in range(n))
    c2 = "\n".join("\t\tcase %d: return forState2b<Op, S%d>(d, a...);" % (k, k) for k in range(n))
    return """
template <typename Op, typename... A> static bool forState(unsigned k, A&... a) {
	switch (k) {
%s
		default: return false;
	}
}
template <typename Op, typename SO, typename... A> static bool forState2b(unsigned k, A&... a) {
	switch (k) {
%s
		default: return false;
	}
}
template <typename Op, typename... A> static bool forState2(unsigned o, unsigned d, A&... a) {
	switch (o) {
%s
		default: return false;
	}
}
struct OpChangeTo { template <typename S, typename C> static void run(C& c) { c.template changeTo<S>(); } };
struct OpImmChangeTo { template <typename S, typename C> static void run(C& c) { c.template immediateChangeTo<S>(); } };
struct OpIsActive { template <typename S, typename C> static void run(const C& c, int& out) { out = c.template isActive<S>() ? 1 : 0; } };
struct OpStateId { template <typename S, typename C> static void run(C&, int& out) { out = static_cast<int>(C::template stateId<S>()); } };
template <typename C> static bool altChangeTo(C& c, unsigned d) { return forState<OpChangeTo>(d, c); }
template <typename C> static bool altImmChangeTo(C& c, unsigned d) { return forState<OpImmChangeTo>(d, c); }
template <typename C> static int altIsActive(const C& c, unsigned k) { int out = -1; forState<OpIsActive>(k, c, out); return out; }
template <typename C> static int altStateId(C& c, unsigned k) { int out = -1; forState<OpStateId>(k, c, out); return out; }
#if CFG_PAYLOAD
struct OpChangeWith { template <typename S, typename C> static void run(C& c, unsigned& p) { c.template changeWith<S>(mkPayload(p)); } };
struct OpImmChangeWith { template <typename S, typename C> static void run(C& c, unsigned& p) { c.template immediateChangeWith<S>(mkPayload(p)); } };
template <typename C> static bool altChangeWith(C& c, unsigned d, unsigned p) { return forState<OpChangeWith>(d, c, p); }
template <typename C> static bool altImmChangeWith(C& c, unsigned d, unsigned p) { return forState<OpImmChangeWith>(d, c, p); }
#else
template <typename C> static bool altChangeWith(C&, unsigned, unsigned) { return false; }
template <typename C> static bool altImmChangeWith(C&, unsigned, unsigned) { return false; }
#endif
#if CFG_PLANS
struct OpSucceed { template <typename S, typename C> static void run(C& c) { c.template succeed<S>(); } };
struct OpFail { template <typename S, typename C> static void run(C& c) { c.template fail<S>(); } };
template <typename C> static bool altStatus(C& c, bool ok, unsigned id) { return ok ? forState<OpSucceed>(id, c) : forState<OpFail>(id, c); }
struct OpPlanChange1 { template <typename SO, typename P> static void run(P& p, unsigned& d, bool& r) { r = p.template change<SO>(static_cast<ffsm2::StateID>(d)); } };
struct OpPlanChange2 { template <typename SO, typename SD, typename P> static void run(P& p, bool& r) { r = p.template change<SO, SD>(); } };
template <typename P> static bool altPlanChange(P& p, unsigned o, unsigned d, bool form2, bool& r) {
	return form2 ? forState2<OpPlanChange2>(o, d, p, r) : forState<OpPlanChange1>(o, p, d, r);
}
#if CFG_PAYLOAD
struct OpPlanChangeWith1 { template <typename SO, typename P> static void run(P& p, unsigned& d, unsigned& pl, bool& r) { r = p.template changeWith<SO>(static_cast<ffsm2::StateID>(d), mkPayload(pl)); } };
struct OpPlanChangeWith2 { template <typename SO, typename SD, typename P> static void run(P& p, unsigned& pl, bool& r) { r = p.template changeWith<SO, SD>(mkPayload(pl)); } };
template <typename P> static bool altPlanChangeWith(P& p, unsigned o, unsigned d, unsigned pl, bool form2, bool& r) {
	return form2 ? forState2<OpPlanChangeWith2>(o, d, p, pl, r) : forState<OpPlanChangeWith1>(o, p, d, pl, r);
}
#else
template <typename P> static bool altPlanChangeWith(P&, unsigned, unsigned, unsigned, bool, bool&) { return false; }
#endif
#else
template <typename C> static bool altStatus(C&, bool, unsigned) { return false; }
template <typename P> static bool altPlanChange(P&, unsigned, unsigned, bool, bool&) { return false; }
template <typename P> static bool altPlanChangeWith(P&, unsigned, unsigned, unsigned, bool, bool&) { return false; }
#endif
""" % (c1, c2b, c2)


def source(cfg):
    n = cfg.n
    defs = []
    if cfg.plans: defs.append("#define FFSM2_ENABLE_PLANS")
    if cfg.history: defs.append("#define FFSM2_ENABLE_TRANSITION_HISTORY")
    if cfg.serial: defs.append("#define FFSM2_ENABLE_SERIALIZATION")
    if cfg.verbose: defs.append("#define FFSM2_ENABLE_VERBOSE_DEBUG_LOG")
    elif cfg.log: defs.append("#define FFSM2_ENABLE_LOG_INTERFACE")
    for d in cfg.extra_defs: defs.append("#define " + d)
    haslog = cfg.log or cfg.verbose
    pay = PAYLOADS[cfg.payload]
    ctx_t = {"value": "Ctx", "ref": "Ctx&", "ptr": "Ctx*"}[cfg.ctx]
    config = "ffsm2::Config::ContextT<%s>" % ctx_t
    if cfg.manual: config += "::ManualActivation"
    config += "::SubstitutionLimitN<%d>" % cfg.L
    if cfg.plans: config += "::TaskCapacityN<%d>" % cfg.cap
    if pay: config += "::PayloadT<Payload>"
    names = ["S%d" % k for k in range(n)]
    root = ("M::Root<H, %s>" % ", ".join(names)) if cfg.head else ("M::PeerRoot<%s>" % ", ".join(names))
    fwd = "".join("struct %s; " % s for s in names) + ("struct H;" if cfg.head else "")
    # state classes
    classes = []
    rows = list(range(n)) + ([n] if cfg.head else [])
    for r in rows:
        sid = 255 if r == n else r
        name = "H" if r == n else "S%d" % r
        k = cfg.inj[r]
        base = "FSM::State" if k == 0 else "FSM::StateT<%s>" % ", ".join("Inj<%d, %d>" % (j, sid) for j in range(k))
        body = ""
        for mi, m in enumerate(METHODS):
            if cfg.defines[r][mi] == "1":
                body += callback(m, sid, -1, cfg.plans)
        classes.append("struct %s : %s {\n%s};\n" % (name, base, body))
    inj_body = "".join(callback(m, "OWNER", "J", cfg.plans) for m in METHODS[:12])
    return TEMPLATE % {
        "defs": "\n".join(defs), "n": n, "L": cfg.L, "cap": cfg.cap, "manual": int(cfg.manual), "plans": int(cfg.plans),
        "history": int(cfg.history), "serial": int(cfg.serial), "haslog": int(haslog), "haspayload": int(bool(pay)),
        "payload_decl": "\n".join(pay) if pay else "", "ctx_kind": {"value": 0, "ref": 1, "ptr": 2}[cfg.ctx],
        "config": config, "fwd": fwd, "root": root, "classes": "\n".join(classes), "inj_body": inj_body,
        "cfgline": cfg.cfg_line(), "alt_defs": alt_section(n).replace("%", "%%") if False else alt_section(n),
    }


TEMPLATE = r'''// GENERATED by vlib/gen_machine.py — machine correspondence harness
// %(cfgline)s
%(defs)s
#include <ffsm2/machine.hpp>
#include <cstdio>
#include <cstdint>
#include <cstring>
#include <cstdlib>
#include <new>
#include <map>
#include <string>
#include <vector>
#include <sstream>
#include <iostream>
#ifdef VERIF_MEMCHECK
// memcheck pass (C18): the bytes an instance is constructed over keep their fill pattern but count as indeterminate,
// so a member the library never initialises and later reads is reported at the read
#include <valgrind/memcheck.h>
#define VERIF_UNDEFINED(p, n) VALGRIND_MAKE_MEM_UNDEFINED(p, n)
#else
#define VERIF_UNDEFINED(p, n) ((void) 0)
#endif

#define N_STATES %(n)d
#define CFG_MANUAL %(manual)d
#define CFG_PLANS %(plans)d
#define CFG_HISTORY %(history)d
#define CFG_SERIAL %(serial)d
#define CFG_LOG %(haslog)d
#define CFG_PAYLOAD %(haspayload)d
#define CTX_KIND %(ctx_kind)d

struct Ctx { int tag; };
struct Event { int v; };
%(payload_decl)s

using M = ffsm2::MachineT<%(config)s>;
%(fwd)s
using FSM = %(root)s;
typedef ffsm2::detail::PlanControlT<FSM::Args> PlanControlX;
typedef FSM::FullControl FullControlX;
typedef FSM::GuardControl GuardControlX;
typedef FSM::ConstControl ConstControlX;
typedef FSM::Transition Transition;
// defined after the state classes (FSM::Instance needs them complete)
static unsigned machActive();
static bool contextIsOwnPtr(const void* ctxObjectOrPointee);
static bool prevMatches(const Transition& t);

enum MethodId { M_entryGuard, M_enter, M_reenter, M_preUpdate, M_update, M_postUpdate, M_preReact, M_react, M_postReact,
	M_query, M_exitGuard, M_exit, M_planSucceeded, M_planFailed };
static const char* const METHOD_NAMES[] = { "entryGuard", "enter", "reenter", "preUpdate", "update", "postUpdate", "preReact", "react",
	"postReact", "query", "exitGuard", "exit", "planSucceeded", "planFailed" };
enum Flavour { F_CONST, F_PLAN, F_FULL, F_GUARD };

static Ctx g_ctx = { 42 };
static unsigned g_inst = 0, g_op = 0;
static const Event* g_event = nullptr;
static std::map<std::string, unsigned> g_occ;
struct Act { std::string kind; std::vector<unsigned> a; std::string mask; };
static std::map<std::string, std::vector<Act> > g_script;

// alternate spellings of the same calls (template forms `x<TState>()`, own-state forms `succeed()` / `fail()`): the protocol
// line does not say which spelling is used — odd (op index + occurrence) picks the alternate, so every run exercises both
static bool g_alt = false;
#define ALT_FORMS (N_STATES <= 8)
template <typename C> static bool altChangeTo(C& c, unsigned d);
template <typename C> static bool altChangeWith(C& c, unsigned d, unsigned p);
template <typename C> static bool altImmChangeTo(C& c, unsigned d);
template <typename C> static bool altImmChangeWith(C& c, unsigned d, unsigned p);
template <typename C> static bool altStatus(C& c, bool ok, unsigned id);
template <typename C> static int altIsActive(const C& c, unsigned k);      // -1: no alternate form compiled in
template <typename C> static int altStateId(C& c, unsigned k);
template <typename P> static bool altPlanChange(P& p, unsigned o, unsigned d, bool form2, bool& r);
template <typename P> static bool altPlanChangeWith(P& p, unsigned o, unsigned d, unsigned pl, bool form2, bool& r);

static void checkEvent(const Event* e) { if (e != g_event) std::printf("FAIL: callback received an event object that is not the caller's\n"); }

//------------------------------------------------------------------------------ printing
static void printPayload(const Transition& t) {
#if CFG_PAYLOAD
	if (t.payload()) { int p = rdPayload(*t.payload()); if (p < 0) std::printf("CORRUPT"); else std::printf("%%d", p); } else std::printf("-");
#else
	(void) t; std::printf("-");
#endif
}
static void printTr(const Transition& t) {
	if (!t) { std::printf("-"); return; }
	std::printf("%%u>%%u:", static_cast<unsigned>(t.origin), static_cast<unsigned>(t.destination)); printPayload(t);
}
#if CFG_PLANS
template <typename TTask>
static std::string taskStr(const TTask& t) {
	char b[64];
	std::snprintf(b, sizeof b, "%%u>%%u:", static_cast<unsigned>(t.origin), static_cast<unsigned>(t.destination));
	std::string s = b;
#if CFG_PAYLOAD
	if (t.payload()) { int p = rdPayload(*t.payload()); if (p < 0) s += "CORRUPT"; else { std::snprintf(b, sizeof b, "%%d", p); s += b; } } else s += "-";
#else
	s += "-";
#endif
	return s;
}
// the plan as its iteration yields it; first() / last() / operator bool must agree with that sequence (C10)
template <typename TPlan>
static std::string planStr(TPlan p) {
	std::string s = "[", firstS, lastS; bool first = true; unsigned guard = 0;
	for (auto it = p.begin(); it && guard < 1000; ++it, ++guard) { std::string t = taskStr(*it); if (first) firstS = t; lastS = t; if (!first) s += " "; first = false; s += t; }
	if (guard >= 1000) s += " FAIL:plan-iteration-does-not-terminate";
	const TPlan& cp = p;
	if (static_cast<bool>(cp) != (guard > 0)) s += " FAIL:plan-bool-disagrees-with-iteration";
	if (guard > 0 && guard < 1000 && static_cast<bool>(cp)) {
		if (taskStr(cp.first()) != firstS || taskStr(p.first()) != firstS) s += " FAIL:plan-first-is-not-the-first-task-iterated";
		if (taskStr(cp.last()) != lastS || taskStr(p.last()) != lastS) s += " FAIL:plan-last-is-not-the-last-task-iterated";
	}
	return s + "]";
}
// iteration through the const overloads (PlanT::CIterator)
template <typename TPlan>
static std::string planStrConst(const TPlan& p) {
	std::string s = "["; bool first = true; unsigned guard = 0;
	for (auto it = p.begin(); it && guard < 1000; ++it, ++guard) { if (!first) s += " "; first = false; s += taskStr(*it); }
	return s + "]";
}
template <typename TPlan>
static void printPlan(TPlan p) { std::printf("%%s", planStr(p).c_str()); }
// a mutable plan view: additionally iterate it through the const overloads
template <typename TPlan>
static void printPlanBoth(TPlan p) {
	std::string a = planStr(p);
	if (planStrConst(p) != a.substr(0, a.find(" FAIL:") == std::string::npos ? a.size() : a.find(" FAIL:")) + (a.find(" FAIL:") == std::string::npos ? "" : "]"))
		a.insert(a.size() - 1, " FAIL:plan-const-iteration-differs");
	std::printf("%%s", a.c_str());
}
#endif

#if CTX_KIND == 2
static bool contextIsOwn(Ctx* const& c) { return contextIsOwnPtr(c); }
#else
static bool contextIsOwn(const Ctx& c) { return contextIsOwnPtr(&c); }
#endif

//------------------------------------------------------------------------------ actions per control flavour
static bool idOk(unsigned k) { return k < N_STATES; }

static bool doChange(ConstControlX&, const Act&) { return false; }
static bool doChange(PlanControlX&, const Act&) { return false; }
static bool permittedChange(const Act& a) { return idOk(a.a[0]) && (a.kind == "changeTo" || CFG_PAYLOAD); }
static bool doChange(FullControlX& c, const Act& a) {
	if (a.kind == "changeTo") { if (!(g_alt && altChangeTo(c, a.a[0]))) c.changeTo(static_cast<ffsm2::StateID>(a.a[0])); return true; }
#if CFG_PAYLOAD
	if (!(g_alt && altChangeWith(c, a.a[0], a.a[1]))) c.changeWith(static_cast<ffsm2::StateID>(a.a[0]), mkPayload(a.a[1]));
	return true;
#else
	return false;
#endif
}
static bool isGuard(ConstControlX&) { return false; }
static bool isGuard(PlanControlX&) { return false; }
static bool isGuard(GuardControlX&) { return true; }
static void doCancel(ConstControlX&) {}
static void doCancel(PlanControlX&) {}
static void doCancel(GuardControlX& c) { c.cancelPendingTransition(); }
static bool isFull(ConstControlX&) { return false; }
static bool isFull(PlanControlX&) { return false; }
static bool isFull(FullControlX&) { return true; }
static bool isConst(ConstControlX&) { return true; }
static bool isConst(PlanControlX&) { return false; }
#if CFG_PLANS
static void doStatus(ConstControlX&, bool, unsigned, bool) {}
static void doStatus(PlanControlX&, bool, unsigned, bool) {}
static void doStatus(FullControlX& c, bool ok, unsigned id, bool own) {
	if (g_alt) {
		if (own) { if (ok) c.succeed(); else c.fail(); return; }     // the calling state's own status
		if (altStatus(c, ok, id)) return;
	}
	if (ok) c.succeed(static_cast<ffsm2::StateID>(id)); else c.fail(static_cast<ffsm2::StateID>(id));
}
static void doPlan(ConstControlX&, const Act&) {}
static void doPlan(PlanControlX& c, const Act& a) {
	auto p = c.plan();
	if (a.kind == "planAppend") {
		bool r = false; const bool f2 = ((a.a[0] + a.a[1]) & 1) != 0;
		if (a.a.size() == 2) { if (!(g_alt && altPlanChange(p, a.a[0], a.a[1], f2, r))) p.change(static_cast<ffsm2::StateID>(a.a[0]), static_cast<ffsm2::StateID>(a.a[1])); }
#if CFG_PAYLOAD
		else { if (!(g_alt && altPlanChangeWith(p, a.a[0], a.a[1], a.a[2], f2, r))) p.changeWith(static_cast<ffsm2::StateID>(a.a[0]), static_cast<ffsm2::StateID>(a.a[1]), mkPayload(a.a[2])); }
#endif
		(void) r;
	} else if (a.kind == "planClear") p.clear();
	else if (a.kind == "planRemove") {
		size_t k = 0; unsigned guard = 0;
		for (auto it = p.begin(); it && guard < 1000; ++it, ++k, ++guard)
			if (k < a.mask.size() && a.mask[k] == '1') it.remove();
	}
}
#endif

static void printAct(const Act& a) {
	std::printf("%%s", a.kind.c_str());
	if (a.kind == "planRemove") { std::printf(" %%s", a.mask.c_str()); return; }
	for (unsigned v : a.a) std::printf(" %%u", v);
}

template <typename TControl> static Flavour flavourOf(TControl& c) { return isConst(c) ? F_CONST : isGuard(c) ? F_GUARD : isFull(c) ? F_FULL : F_PLAN; }

static void printCurrent(ConstControlX&) { std::printf("~"); }
static void printCurrent(PlanControlX& c) { printTr(c.currentTransition()); }
static void printPending(ConstControlX&) { std::printf("~"); }
static void printPending(PlanControlX&) { std::printf("~"); }
static void printPending(GuardControlX& c) { printTr(c.pendingTransition()); }
static std::string machinePlanStr();
static void printCPlan(ConstControlX& c) {
#if CFG_PLANS
	// the read-only view a const control hands out (F10): printed like every other view, and it is the machine's plan
	const std::string s = planStr(c.plan());
	std::printf("%%s", s.c_str());
	if (s != machinePlanStr()) std::printf(" FAIL:plan-const-control-view-differs");
#else
	(void) c; std::printf("~");
#endif
}
static void printCPlan(PlanControlX& c) {
#if CFG_PLANS
	printPlanBoth(c.plan());
#else
	(void) c; std::printf("~");
#endif
}

template <typename TControl>
static void deliver(MethodId m, unsigned sid, int layer, TControl& c) {
	char key[160];
	char lay[16];
	if (layer < 0) std::snprintf(lay, sizeof lay, "S"); else std::snprintf(lay, sizeof lay, "I%%d", layer);
	char base[96];
	std::snprintf(base, sizeof base, "%%s s%%u %%s", METHOD_NAMES[m], sid, lay);
	unsigned occ = g_occ[base]++;
	std::snprintf(key, sizeof key, "i%%u op%%u occ%%u %%s", g_inst, g_op, occ, base);
	const Flavour fl = flavourOf(c);
	g_alt = ((g_op + occ) & 1u) != 0;
	// observation
	std::printf("cb %%s | id=%%u act=", key, static_cast<unsigned>(c.stateId()));
	bool altBad = false;
	for (unsigned j = 0; j < N_STATES; ++j) {
		const bool act = c.isActive(static_cast<ffsm2::StateID>(j));
		std::printf("%%d", act ? 1 : 0);
		const int t = altIsActive(c, j), u = altStateId(c, j);
		if ((t >= 0 && (t != 0) != act) || (u >= 0 && static_cast<unsigned>(u) != j)) altBad = true;
	}
	std::printf(" mact=%%u req=", machActive());
	printTr(c.request());
	std::printf(" cur="); printCurrent(c);
	std::printf(" pend="); printPending(c);
	std::printf(" plan="); printCPlan(c);
	std::printf("\n");
	if (!contextIsOwn(c.context())) std::printf("FAIL: control.context() is not the machine's own context object (%%s)\n", key);
	if (!contextIsOwn(c._())) std::printf("FAIL: control._() is not the machine's own context object (%%s)\n", key);
	if (altBad) std::printf("FAIL: control.isActive<TState>() / stateId<TState>() disagree with the id-based forms (%%s)\n", key);
#if CFG_HISTORY
	if (!prevMatches(c.previousTransitions())) std::printf("FAIL: control.previousTransitions() is not the machine's previousTransition() (%%s)\n", key);
#endif
	// scripted actions
	auto it = g_script.find(key);
	if (it == g_script.end()) return;
	for (const Act& a : it->second) {
		bool ok = false;
		if (a.kind == "changeTo" || a.kind == "changeWith") ok = (fl == F_FULL || fl == F_GUARD) && permittedChange(a);
		else if (a.kind == "cancel") ok = fl == F_GUARD;
		else if (a.kind == "succeed" || a.kind == "fail") ok = CFG_PLANS && (fl == F_FULL || fl == F_GUARD) && idOk(a.a.empty() ? sid : a.a[0]);
		else if (a.kind == "planAppend") ok = CFG_PLANS && fl != F_CONST && idOk(a.a[0]) && idOk(a.a[1]) && (a.a.size() == 2 || CFG_PAYLOAD);
		else if (a.kind == "planClear" || a.kind == "planRemove") ok = CFG_PLANS && fl != F_CONST;
		if (!ok) continue;
		std::printf("do %%s | ", key); printAct(a); std::printf("\n");
		if (a.kind == "changeTo" || a.kind == "changeWith") doChange(c, a);
		else if (a.kind == "cancel") doCancel(c);
#if CFG_PLANS
		else if (a.kind == "succeed" || a.kind == "fail") doStatus(c, a.kind == "succeed", a.a.empty() ? sid : a.a[0], a.a.empty());
		else doPlan(c, a);
#endif
	}
}

//------------------------------------------------------------------------------ states
template <int J, unsigned OWNER>
struct Inj : FSM::State {
%(inj_body)s};

%(classes)s

//------------------------------------------------------------------------------ alternate spellings (template forms)
%(alt_defs)s
//------------------------------------------------------------------------------ machine-side helpers
typedef FSM::Instance Instance;
static Instance* g_cur = nullptr;
static unsigned machActive() { return g_cur ? static_cast<unsigned>(g_cur->activeStateId()) : 999u; }
static std::string machinePlanStr() {
#if CFG_PLANS
	return g_cur ? planStr(g_cur->plan()) : std::string("?");
#else
	return std::string();
#endif
}
static bool prevMatches(const Transition& t) {
#if CFG_HISTORY
	return g_cur && &t == &g_cur->previousTransition();     // the control hands out the machine's own record
#else
	(void) t; return true;
#endif
}
static bool contextIsOwnPtr(const void* p) {
#if CTX_KIND == 0
	return g_cur && p == &g_cur->context();            // the machine's own copy
#elif CTX_KIND == 1
	return g_cur && p == &g_cur->context() && p == &g_ctx;
#else
	return g_cur && p == g_cur->context() && p == &g_ctx;
#endif
}

//------------------------------------------------------------------------------ logger
#if CFG_LOG
struct Logger : FSM::Logger {
	void recordMethod(const Context&, const ffsm2::StateID origin, const ffsm2::Method method) override {
		const char* nm = "?";
		switch (method) {
			case ffsm2::Method::ENTRY_GUARD: nm = "entryGuard"; break; case ffsm2::Method::ENTER: nm = "enter"; break;
			case ffsm2::Method::REENTER: nm = "reenter"; break; case ffsm2::Method::PRE_UPDATE: nm = "preUpdate"; break;
			case ffsm2::Method::UPDATE: nm = "update"; break; case ffsm2::Method::POST_UPDATE: nm = "postUpdate"; break;
			case ffsm2::Method::PRE_REACT: nm = "preReact"; break; case ffsm2::Method::REACT: nm = "react"; break;
			case ffsm2::Method::POST_REACT: nm = "postReact"; break; case ffsm2::Method::QUERY: nm = "query"; break;
			case ffsm2::Method::EXIT_GUARD: nm = "exitGuard"; break; case ffsm2::Method::EXIT: nm = "exit"; break;
			case ffsm2::Method::PLAN_SUCCEEDED: nm = "planSucceeded"; break; case ffsm2::Method::PLAN_FAILED: nm = "planFailed"; break;
			default: break;
		}
		std::printf("log i%%u method %%u %%s\n", g_inst, static_cast<unsigned>(origin), nm);
	}
	void recordTransition(const Context&, const ffsm2::StateID origin, const ffsm2::StateID target) override {
		std::printf("log i%%u trans %%u %%u\n", g_inst, static_cast<unsigned>(origin), static_cast<unsigned>(target));
	}
#if CFG_PLANS
	void recordTaskStatus(const Context&, const ffsm2::StateID origin, const ffsm2::StatusEvent event) override {
		std::printf("log i%%u task %%u %%s\n", g_inst, static_cast<unsigned>(origin), event == ffsm2::StatusEvent::SUCCEEDED ? "S" : "F");
	}
	void recordPlanStatus(const Context&, const ffsm2::StatusEvent) override { std::printf("log i%%u planstatus\n", g_inst); }
#endif
	void recordCancelledPending(const Context&, const ffsm2::StateID origin) override {
		std::printf("log i%%u cancel %%u\n", g_inst, static_cast<unsigned>(origin));
	}
};
static Logger g_logger;
#endif

//------------------------------------------------------------------------------ driver
#define SLOTS 4
alignas(64) static unsigned char g_buf[SLOTS][sizeof(Instance) + 64];
static Instance* g_m[SLOTS] = { nullptr, nullptr, nullptr, nullptr };
#if CFG_SERIAL
static Instance::SerialBuffer g_ser[SLOTS + 1];
static bool g_saved[SLOTS] = { false, false, false, false };
#endif

static std::vector<std::string> splitWords(const std::string& s) { std::vector<std::string> w; std::istringstream in(s); std::string t; while (in >> t) w.push_back(t); return w; }
static unsigned num(const std::string& s) { return static_cast<unsigned>(std::strtoul(s.c_str(), nullptr, 10)); }

static void apiLine(const char* name, Instance* m, int ret, const char* bytesHex) {
	std::printf("api i%%u op%%u %%s | act=%%u isA=", g_inst, g_op, name, static_cast<unsigned>(m->activeStateId()));
	for (unsigned j = 0; j < N_STATES; ++j) std::printf("%%d", m->isActive(static_cast<ffsm2::StateID>(j)) ? 1 : 0);
#if CFG_MANUAL
	std::printf(" mact=%%d", m->isActive() ? 1 : 0);
#else
	std::printf(" mact=~");
#endif
#if CFG_HISTORY
	std::printf(" prev="); printTr(m->previousTransition());
#else
	std::printf(" prev=~");
#endif
#if CFG_PLANS
	std::printf(" plan="); printPlanBoth(m->plan());
	{ const Instance& cm = *m; if (planStr(cm.plan()) != planStr(m->plan())) std::printf(" FAIL:plan-const-view-differs"); }
#else
	std::printf(" plan=~");
#endif
	std::printf(" ret=%%s bytes=%%s\n", ret < 0 ? "~" : (ret ? "1" : "0"), bytesHex);
	{
		const Instance& cm = *m; bool bad = false;
		for (unsigned j = 0; j < N_STATES; ++j) {
			const int t = altIsActive(cm, j), u = altStateId(*m, j);
			if ((t >= 0 && (t != 0) != cm.isActive(static_cast<ffsm2::StateID>(j))) || (u >= 0 && static_cast<unsigned>(u) != j)) bad = true;
		}
		if (bad) std::printf("FAIL: isActive<TState>() / stateId<TState>() disagree with the id-based forms (%%s)\n", name);
		if (&cm.context() != &m->context()) std::printf("FAIL: context() const is not context() (%%s)\n", name);
#if CFG_HISTORY
		{ const Transition& pt = cm.previousTransition(); const Transition none_;
		  if (!(pt == pt) || (pt != pt) || ((pt == none_) != !(pt != none_)))
			std::printf("FAIL: Transition operator== / != are inconsistent on previousTransition() (%%s)\n", name); }
#endif
	}
}
static void deadLine(const char* name) {   // observation of a destroyed (automatic) instance: the canonical inactive view
	std::printf("api i%%u op%%u %%s | act=255 isA=", g_inst, g_op, name);
	for (unsigned j = 0; j < N_STATES; ++j) std::printf("0");
	std::printf(" mact=%%s prev=%%s plan=%%s ret=~ bytes=~\n", CFG_MANUAL ? "0" : "~", CFG_HISTORY ? "-" : "~", CFG_PLANS ? "[]" : "~");
}
static void rejected(const char* name) { std::printf("rejected i%%u op%%u %%s\n", g_inst, g_op, name); }

static Instance* construct(unsigned i, bool logger, int fill) {
	std::memset(g_buf[i], fill, sizeof(g_buf[i]));
	VERIF_UNDEFINED(g_buf[i], sizeof(g_buf[i]));
	g_cur = reinterpret_cast<Instance*>(g_buf[i]);
#if CFG_LOG
	Logger* lg = logger ? &g_logger : nullptr;
#if CTX_KIND == 2
#if CFG_MANUAL
	// pointer context: constructed without one, attached afterwards (nothing runs before enter())
	if (fill & 1) { Instance* m = new (g_buf[i]) Instance{nullptr, lg}; m->setContext(&g_ctx); return m; }
#endif
	return new (g_buf[i]) Instance{&g_ctx, lg};
#elif CTX_KIND == 0
	// context held by value: both constructor overloads (lvalue / rvalue context) must behave alike
	if (fill & 1) return new (g_buf[i]) Instance{Ctx{g_ctx}, lg};
	return new (g_buf[i]) Instance{g_ctx, lg};
#else
	return new (g_buf[i]) Instance{g_ctx, lg};
#endif
#else
	(void) logger;
#if CTX_KIND == 2
#if CFG_MANUAL
	if (fill & 1) { Instance* m = new (g_buf[i]) Instance{}; m->setContext(&g_ctx); return m; }
#endif
	return new (g_buf[i]) Instance{&g_ctx};
#elif CTX_KIND == 0
	if (fill & 1) return new (g_buf[i]) Instance{Ctx{g_ctx}};
	return new (g_buf[i]) Instance{g_ctx};
#else
	return new (g_buf[i]) Instance{g_ctx};
#endif
#endif
}

int main() {
	std::string line;
	unsigned opIndex = 0;
	while (std::getline(std::cin, line)) {
		std::vector<std::string> w = splitWords(line);
		if (w.empty() || w[0][0] == '#') continue;
		if (w[0] == "case") {
			// instances of a finished case are abandoned (no destructor run: nothing is allocated, and their
			// callbacks must not print outside the case); the buffers are re-filled by the next construct
			for (unsigned i = 0; i < SLOTS; ++i) g_m[i] = nullptr;
#if CFG_SERIAL
			for (unsigned i = 0; i < SLOTS; ++i) g_saved[i] = false;
#endif
			g_script.clear(); g_occ.clear(); opIndex = 0;
			std::printf("case %%s\n", w.size() > 1 ? w[1].c_str() : "");
			continue;
		}
		if (w[0] == "cfg") continue;
		if (w[0] == "beh") {
			// beh i0 op5 occ1 entryGuard s2 S : act ; act
			size_t colon = line.find(" : ");
			std::vector<std::string> kw = splitWords(line.substr(3, colon == std::string::npos ? std::string::npos : colon - 3));
			std::string key; for (size_t k = 0; k < kw.size(); ++k) { if (k) key += " "; key += kw[k]; }
			std::vector<Act> acts;
			if (colon != std::string::npos) {
				std::istringstream rest(line.substr(colon + 3)); std::string part;
				while (std::getline(rest, part, ';')) {
					std::vector<std::string> aw = splitWords(part); if (aw.empty()) continue;
					Act a; a.kind = aw[0];
					if (a.kind == "planRemove") a.mask = aw.size() > 1 ? aw[1] : "";
					else for (size_t k = 1; k < aw.size(); ++k) a.a.push_back(num(aw[k]));
					acts.push_back(a);
				}
			}
			if (!g_script.count(key)) g_script[key] = acts;   // first entry for a key wins (same rule as the model driver)
			continue;
		}
		if (w[0] != "op" || w.size() < 3) { std::printf("bad-op %%s\n", line.c_str()); continue; }
		const std::string& name = w[1];
		const unsigned i = num(w[2]);
		g_inst = i; g_op = opIndex++; g_occ.clear();
		const bool altOp = (g_op & 1u) != 0;
		if (i >= SLOTS) { rejected(name.c_str()); continue; }
		Instance* m = g_m[i];
		g_cur = m;
		const bool exists = m != nullptr;
		const bool active = exists && m->activeStateId() != ffsm2::INVALID_STATE_ID;
		if (name == "construct") {
			if (exists) { rejected("construct"); continue; }
			m = g_m[i] = construct(i, w.size() > 3 && w[3] == "1", w.size() > 4 ? static_cast<int>(num(w[4])) : 0);
			apiLine("construct", m, -1, "~");
		} else if (!exists && name != "copy") { rejected(name.c_str());
		} else if (name == "destroy") {
#if CFG_MANUAL
			apiLine("destroy", m, -1, "~"); m->~Instance();
#else
			m->~Instance(); deadLine("destroy");
#endif
			g_m[i] = nullptr;
		} else if (name == "copy") {
			unsigned src = w.size() > 3 ? num(w[3]) : 99;
			if (exists || src >= SLOTS || !g_m[src]) { rejected("copy"); continue; }
			const int fillv = w.size() > 4 ? static_cast<int>(num(w[4])) : 0;
			std::memset(g_buf[i], fillv, sizeof(g_buf[i]));
			VERIF_UNDEFINED(g_buf[i], sizeof(g_buf[i]));
			g_cur = reinterpret_cast<Instance*>(g_buf[i]);
#if CTX_KIND != 1
			// move construction is member-wise in this library (no member owns anything): the new instance must be what a copy
			// would be and the source must stay what it was (reference contexts: the move constructor does not compile, O3)
			if (fillv & 2) m = g_m[i] = new (g_buf[i]) Instance{static_cast<Instance&&>(*g_m[src])};
			else
#endif
			m = g_m[i] = new (g_buf[i]) Instance{*g_m[src]};
			apiLine("copy", m, -1, "~");
		} else if (name == "enter") {
#if CFG_MANUAL
			if (!active) { m->enter(); apiLine("enter", m, -1, "~"); } else rejected("enter");
#else
			rejected("enter");
#endif
		} else if (name == "exit") {
#if CFG_MANUAL
			if (active) { m->exit(); apiLine("exit", m, -1, "~"); } else rejected("exit");
#else
			rejected("exit");
#endif
		} else if (name == "update") { if (active) { m->update(); apiLine("update", m, -1, "~"); } else rejected("update");
		} else if (name == "react") { if (active) { Event e{7}; g_event = &e; m->react(e); g_event = nullptr; apiLine("react", m, -1, "~"); } else rejected("react");
		} else if (name == "query") { if (active) { Event e{9}; g_event = &e; m->query(e); g_event = nullptr; apiLine("query", m, -1, "~"); } else rejected("query");
		} else if (name == "changeTo" || name == "immediateChangeTo") {
			unsigned d = w.size() > 3 ? num(w[3]) : 999;
			if (active && idOk(d)) {
				if (name == "changeTo") { if (!(altOp && altChangeTo(*m, d))) m->changeTo(static_cast<ffsm2::StateID>(d)); }
				else { if (!(altOp && altImmChangeTo(*m, d))) m->immediateChangeTo(static_cast<ffsm2::StateID>(d)); }
				apiLine(name.c_str(), m, -1, "~");
			}
			else rejected(name.c_str());
		} else if (name == "changeWith" || name == "immediateChangeWith") {
#if CFG_PAYLOAD
			unsigned d = w.size() > 3 ? num(w[3]) : 999, p = w.size() > 4 ? num(w[4]) : 0;
			if (active && idOk(d)) {
				if (name == "changeWith") { if (!(altOp && altChangeWith(*m, d, p))) m->changeWith(static_cast<ffsm2::StateID>(d), mkPayload(p)); }
				else { if (!(altOp && altImmChangeWith(*m, d, p))) m->immediateChangeWith(static_cast<ffsm2::StateID>(d), mkPayload(p)); }
				apiLine(name.c_str(), m, -1, "~");
			}
			else rejected(name.c_str());
#else
			rejected(name.c_str());
#endif
		} else if (name == "succeed" || name == "fail") {
#if CFG_PLANS
			unsigned k = w.size() > 3 ? num(w[3]) : 999;
			if (idOk(k)) {
				if (!(altOp && altStatus(*m, name == "succeed", k))) { if (name == "succeed") m->succeed(static_cast<ffsm2::StateID>(k)); else m->fail(static_cast<ffsm2::StateID>(k)); }
				apiLine(name.c_str(), m, -1, "~");
			}
			else rejected(name.c_str());
#else
			rejected(name.c_str());
#endif
		} else if (name == "planAppend") {
#if CFG_PLANS
			unsigned o = w.size() > 3 ? num(w[3]) : 999, d = w.size() > 4 ? num(w[4]) : 999;
			bool hasP = w.size() > 5;
			if (idOk(o) && idOk(d) && (!hasP || CFG_PAYLOAD)) {
				bool r = false; auto pl = m->plan(); const bool f2 = ((o + d) & 1u) != 0;
#if CFG_PAYLOAD
				if (hasP) { if (!(altOp && altPlanChangeWith(pl, o, d, num(w[5]), f2, r))) r = pl.changeWith(static_cast<ffsm2::StateID>(o), static_cast<ffsm2::StateID>(d), mkPayload(num(w[5]))); } else
#endif
				{ if (!(altOp && altPlanChange(pl, o, d, f2, r))) r = pl.change(static_cast<ffsm2::StateID>(o), static_cast<ffsm2::StateID>(d)); }
				apiLine("planAppend", m, r ? 1 : 0, "~");
			} else rejected("planAppend");
#else
			rejected("planAppend");
#endif
		} else if (name == "planClear") {
#if CFG_PLANS
			m->plan().clear(); apiLine("planClear", m, -1, "~");
#else
			rejected("planClear");
#endif
		} else if (name == "planRemove") {
#if CFG_PLANS
			std::string mask = w.size() > 3 ? w[3] : "";
			auto p = m->plan(); size_t k = 0; unsigned guard = 0;
			for (auto it = p.begin(); it && guard < 1000; ++it, ++k, ++guard) if (k < mask.size() && mask[k] == '1') it.remove();
			apiLine("planRemove", m, -1, "~");
#else
			rejected("planRemove");
#endif
		} else if (name == "save") {
#if CFG_SERIAL
			if (CFG_MANUAL || active) {
				std::memset(&g_ser[i].data(), 0xA5 + static_cast<int>(g_op), sizeof(g_ser[i].data()));   // a reused buffer
				m->save(g_ser[i]);
				g_saved[i] = true;
				// SerialBuffer::operator== / != agree with the bytes (C12: "equal buffers iff equal activity")
				for (unsigned j = 0; j < SLOTS; ++j) if (j != i && g_saved[j]) {
					const bool same = std::memcmp(&g_ser[i].data(), &g_ser[j].data(), sizeof(g_ser[i].data())) == 0;
					if ((g_ser[i] == g_ser[j]) != same || (g_ser[i] != g_ser[j]) == same)
						std::printf("FAIL: SerialBuffer operator== / != disagree with the buffers' bytes (save of i%%u vs i%%u)\n", i, j);
				}
				char hexbuf[2 * sizeof(g_ser[i].data()) + 1];
				const unsigned char* b = reinterpret_cast<const unsigned char*>(&g_ser[i].data());
				for (size_t k = 0; k < sizeof(g_ser[i].data()); ++k) std::snprintf(hexbuf + 2 * k, 3, "%%02x", b[k]);
				apiLine("save", m, -1, hexbuf);
			} else rejected("save");
#else
			rejected("save");
#endif
		} else if (name == "load") {
#if CFG_SERIAL
			unsigned src = w.size() > 3 ? num(w[3]) : 99;
			if (src < SLOTS && g_m[src] && (CFG_MANUAL || (active && g_m[src]->activeStateId() != ffsm2::INVALID_STATE_ID))) {
				std::memset(&g_ser[SLOTS].data(), 0x5A + static_cast<int>(g_op), sizeof(g_ser[SLOTS].data()));
				g_m[src]->save(g_ser[SLOTS]);
				m->load(g_ser[SLOTS]); apiLine("load", m, -1, "~");
			} else rejected("load");
#else
			rejected("load");
#endif
		} else if (name == "replayEnter" || name == "replayEnterFrom") {
#if CFG_HISTORY && CFG_MANUAL
			unsigned d = w.size() > 3 ? num(w[3]) : 999;
			if (name == "replayEnterFrom") {
				if (d >= SLOTS || !g_m[d]) { rejected("replayEnter"); continue; }
				const Transition& pt = g_m[d]->previousTransition();
				d = pt ? static_cast<unsigned>(pt.destination) : 0u;
			}
			if (!active && idOk(d)) { m->replayEnter(static_cast<ffsm2::StateID>(d)); apiLine("replayEnter", m, -1, "~"); } else rejected("replayEnter");
#else
			rejected("replayEnter");
#endif
		} else if (name == "replayTransition" || name == "replayFrom") {
#if CFG_HISTORY
			unsigned d = w.size() > 3 ? num(w[3]) : 999;
			if (name == "replayFrom") {
				if (d >= SLOTS || !g_m[d]) { rejected("replayTransition"); continue; }
				d = static_cast<unsigned>(g_m[d]->previousTransition().destination);
			}
			if (active && (idOk(d) || d == 255)) { bool r = m->replayTransition(static_cast<ffsm2::StateID>(d)); apiLine("replayTransition", m, r ? 1 : 0, "~"); } else rejected("replayTransition");
#else
			rejected("replayTransition");
#endif
		} else if (name == "attachLogger") {
#if CFG_LOG
			m->attachLogger(w.size() > 3 && w[3] == "1" ? &g_logger : nullptr); apiLine("attachLogger", m, -1, "~");
#else
			rejected("attachLogger");
#endif
		} else std::printf("bad-op %%s\n", line.c_str());
	}
	std::fflush(stdout);
	std::_Exit(0);   // instances still alive are abandoned: their destructors would print outside any case
}
'''
