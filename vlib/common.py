"""Shared machinery for check.py: paths, locking, translator, lake build, axiom audit, harness
build cache, evidence and violation reporting."""
import fcntl, hashlib, json, os, re, shutil, subprocess, sys, tempfile, time

VERIF = os.path.dirname(os.path.dirname(os.path.abspath(__file__)))
REPO = os.environ.get("REPO", "/repo")
LEAN = os.path.join(VERIF, "lean")
CACHE = os.path.join(VERIF, ".cache")
EVID = os.path.join(VERIF, "evidence")
REPLAYS = os.path.join(VERIF, "replays")
DRIVER = os.path.join(LEAN, ".lake", "build", "bin", "driver")
ALLOWED_AXIOMS = {"propext", "Quot.sound", "Classical.choice"}
NCPU = os.cpu_count() or 4

TRUSTED_BASE = [
    "Lean 4.33.0 kernel (thorough tier: re-checked with leanchecker)",
    "axioms: at most propext, Quot.sound, Classical.choice (printed per theorem on every run); no native_decide, no bv_decide, no own axioms, no sorry",
    "hand-written Lean model of the C++ (lean/FFSM2/*.lean): fidelity CHECKED by the correspondence harness on the inputs generated this run, not proved",
    "tools/translate.py (regex + small expression parser) for the generated definitions in lean/FFSM2/Gen/Consts.lean",
    "harness/*.cpp.in, gen scripts, check.py/vlib (diffing, projections, oracles), Python 3, g++ 12 / clang++ 14, sanitizer runtimes",
]


def log(*a):
    print(*a, flush=True)


def run(cmd, cwd=None, timeout=None, input=None, env=None):
    p = subprocess.run(cmd, cwd=cwd, stdout=subprocess.PIPE, stderr=subprocess.STDOUT, timeout=timeout,
                       input=input, env=env, text=True, errors="replace")
    return p.returncode, p.stdout


class Lock:
    def __enter__(self):
        os.makedirs(CACHE, exist_ok=True)
        self.f = open(os.path.join(CACHE, "lock"), "w")
        fcntl.flock(self.f, fcntl.LOCK_EX)
        return self

    def __exit__(self, *a):
        fcntl.flock(self.f, fcntl.LOCK_UN)
        self.f.close()


# ---------------------------------------------------------------------------------- source hashing
_DIGEST = None


def headers_digest():
    global _DIGEST
    if _DIGEST is None:
        _DIGEST = _headers_digest()
    return _DIGEST


def _headers_digest():
    h = hashlib.sha256()
    for root in (os.path.join(REPO, "include"), os.path.join(REPO, "development")):
        for d, _, fs in sorted(os.walk(root)):
            for f in sorted(fs):
                p = os.path.join(d, f)
                h.update(p.encode())
                with open(p, "rb") as fh:
                    h.update(fh.read())
    return h.hexdigest()


# ---------------------------------------------------------------------------------- translate + lake
def translate(force_fallback=()):
    """regenerates lean/FFSM2/Gen/Consts.lean from /repo; returns dict group -> failure message.
    `force_fallback`: groups that keep the definitions recorded when the model was last validated."""
    cmd = [sys.executable, os.path.join(VERIF, "tools", "translate.py")]
    if force_fallback:
        cmd.append("--force-fallback=" + ",".join(sorted(force_fallback)))
    rc, out = run(cmd)
    st = os.path.join(LEAN, "FFSM2", "Gen", "status.json")
    if rc != 0 or not os.path.exists(st):
        return {"*": "translator crashed: " + out.strip()[-500:]}
    return json.load(open(st)).get("failed", {})


def translate_status():
    st = os.path.join(LEAN, "FFSM2", "Gen", "status.json")
    try:
        return json.load(open(st))
    except Exception:
        return {"failed": {}, "changed": [], "forced": []}


def fingerprints():
    """static tie of the hand-written model to the source: units of include/ffsm2/machine.hpp whose hash differs
    from the one recorded when the model was validated; returns dict property -> [unit, ...] (or {"*": msg})"""
    rc, out = run([sys.executable, os.path.join(VERIF, "tools", "fingerprint.py")])
    try:
        return json.loads(out.strip().split("\n")[-1])
    except Exception:
        return {"error": "fingerprint tool failed: " + out.strip()[-400:], "props": {}}


def lake_build(target, timeout=1800):
    rc, out = run(["lake", "build", target], cwd=LEAN, timeout=timeout)
    return rc == 0, out


def ensure_driver():
    ok, out = lake_build("driver")
    if not ok or not os.path.exists(DRIVER):
        return False, out
    return True, out


def strip_lean_comments(text):
    # nested block comments
    out, i, depth = [], 0, 0
    while i < len(text):
        if text.startswith("/-", i):
            depth += 1; i += 2; continue
        if text.startswith("-/", i) and depth:
            depth -= 1; i += 2; continue
        if depth == 0:
            if text.startswith("--", i):
                j = text.find("\n", i)
                i = len(text) if j < 0 else j
                continue
            out.append(text[i])
        i += 1
    return "".join(out)


FORBIDDEN = re.compile(r"\bsorry\b|\badmit\b|^\s*axiom\s|\bnative_decide\b|\bbv_decide\b|\bimplemented_by\b|\bunsafe\s|maxHeartbeats\s+0|\bpartial\s+def\b", re.M)


def grep_forbidden():
    """stranger's audit: scan every library file (comments stripped)"""
    hits = []
    for d, _, fs in os.walk(os.path.join(LEAN, "FFSM2")):
        for f in fs:
            if f.endswith(".lean"):
                p = os.path.join(d, f)
                t = strip_lean_comments(open(p).read())
                for m in FORBIDDEN.finditer(t):
                    hits.append("%s: %s" % (os.path.relpath(p, LEAN), m.group(0).strip()))
    return hits


def theorem_names(module_rel):
    """names of the property theorems (`theorem Cxx_...`) declared in lean/<module_rel>"""
    t = strip_lean_comments(open(os.path.join(LEAN, module_rel)).read())
    return re.findall(r"^theorem\s+(C\d+_\w+)", t, re.M)


def audit_axioms(module, names, namespace="FFSM2"):
    """runs `#print axioms` for each theorem; returns dict name -> list of axioms, or None if it failed"""
    os.makedirs(CACHE, exist_ok=True)
    fd, path = tempfile.mkstemp(suffix=".lean", prefix="audit_", dir=CACHE)
    with os.fdopen(fd, "w") as f:
        f.write("import %s\n" % module)
        for n in names:
            f.write("#print axioms %s.%s\n" % (namespace, n))
    rc, out = run(["lake", "env", "lean", path], cwd=LEAN, timeout=900)
    os.unlink(path)
    res = {}
    # output: "'FFSM2.C13_x' depends on axioms: [propext, Quot.sound]" or "... does not depend on any axioms"
    for m in re.finditer(r"'%s\.(\w+)' (?:depends on axioms: \[([^\]]*)\]|does not depend on any axioms)" % re.escape(namespace), out.replace("\n", " ")):
        res[m.group(1)] = [a.strip() for a in (m.group(2) or "").split(",") if a.strip()]
    return res, out


def leanchecker(module):
    rc, out = run(["lake", "env", "leanchecker", module], cwd=LEAN, timeout=1800)
    return rc == 0, out


def check_proofs(prop, module, tier, only_prefix=None):
    """Build the property's theorem module, audit it. Returns dict describing the obligations."""
    module_rel = module.replace(".", "/") + ".lean"
    names = theorem_names(module_rel)
    if only_prefix:
        names = [n for n in names if n.startswith(only_prefix)]
    res = {"module": module, "theorems": names, "obligations": len(names), "discharged": 0, "axioms": {}, "broken": [], "notes": []}
    ok, out = lake_build(module)
    if not ok:
        # which theorems fail? lake prints "error: file:line:col"; map lines to the enclosing theorem
        src = open(os.path.join(LEAN, module_rel)).read().split("\n")
        bad = set()
        errs = re.findall(r"error: ([\w/\.]+\.lean):(\d+):\d+:(.*)", out)
        for f, ln, msg in errs:
            if f.endswith(module_rel):
                ln = int(ln)
                for k in range(min(ln, len(src)) - 1, -1, -1):
                    m = re.match(r"theorem\s+(\w+)", src[k])
                    if m:
                        bad.add(m.group(1)); break
            else:
                bad.add("<dependency %s:%s %s>" % (f, ln, msg.strip()[:80]))
        res["broken"] = sorted(bad) or ["<build failed>"]
        res["build_log"] = out[-4000:]
        return res
    forb = grep_forbidden()
    if forb:
        res["broken"] = ["<forbidden construct: %s>" % h for h in forb]
        return res
    ax, out = audit_axioms(module, names)
    for n in names:
        a = ax.get(n)
        if a is None:
            res["broken"].append(n + " <no #print axioms output>")
        elif not set(a) <= ALLOWED_AXIOMS:
            res["broken"].append(n + " <axioms %s>" % a)
        else:
            res["discharged"] += 1
        res["axioms"][n] = a
    if tier == "thorough" and not res["broken"]:
        ok, out = leanchecker(module)
        res["leanchecker"] = "ok" if ok else out[-2000:]
        if not ok:
            res["broken"].append("<leanchecker rejected %s>" % module)
    return res


# ---------------------------------------------------------------------------------- harness builds
def build_harness(name, source_text, flags, cxx="g++", extra_key=""):
    """compile source_text against /repo's current headers; cached by content hash. returns (path|None, log)"""
    os.makedirs(CACHE, exist_ok=True)
    key = hashlib.sha256((headers_digest() + source_text + " ".join(flags) + cxx + extra_key).encode()).hexdigest()[:24]
    exe = os.path.join(CACHE, "%s_%s" % (name, key))
    if os.path.exists(exe):
        return exe, "cached"
    import threading
    uniq = "%d_%d" % (os.getpid(), threading.get_ident())
    src = "%s.%s.cpp" % (exe, uniq)
    tmp = "%s.%s.tmp" % (exe, uniq)
    with open(src, "w") as f:
        f.write(source_text)
    cmd = [cxx] + flags + ["-I", os.path.join(REPO, "include"), src, "-o", tmp]
    rc, out = run(cmd, timeout=3600)
    try:
        os.unlink(src)
    except OSError:
        pass
    if rc != 0:
        return None, out
    os.replace(tmp, exe)
    return exe, out


def prune_cache(limit=800 * 1024 * 1024):
    fs = []
    for f in os.listdir(CACHE):
        p = os.path.join(CACHE, f)
        if os.path.isfile(p) and f != "lock":
            st = os.stat(p)
            fs.append((st.st_atime, st.st_size, p))
    total = sum(s for _, s, _ in fs)
    for _, s, p in sorted(fs):
        if total <= limit:
            break
        try:
            os.unlink(p); total -= s
        except OSError:
            pass


def run_lines(exe_args, lines, timeout=600):
    rc, out = run(exe_args, input="\n".join(lines) + "\n", timeout=timeout)
    return rc, out.split("\n")[:-1] if out.endswith("\n") else out.split("\n")


# ---------------------------------------------------------------------------------- reporting
def known_findings():
    known = []
    p = os.path.join(VERIF, "known_findings.txt")
    if os.path.exists(p):
        for line in open(p):
            m = re.match(r"known:\s*property=(\w+)\s+key=(\S+)\s*(.*)", line.strip())
            if m:
                known.append((m.group(1), m.group(2), m.group(3)))
    return known


def write_replay(prop, payload):
    os.makedirs(REPLAYS, exist_ok=True)
    base = "%s_%d" % (prop, int(time.time() * 1000) % 10 ** 10)
    path, k = os.path.join(REPLAYS, base + ".json"), 0
    while os.path.exists(path):
        k += 1
        path = os.path.join(REPLAYS, "%s_%d.json" % (base, k))
    with open(path, "w") as f:
        json.dump(payload, f, indent=1)
    return path


def write_evidence(prop, tier, seed, level, coverage, wall, violations, assumptions=None):
    os.makedirs(EVID, exist_ok=True)
    ev = {"property_id": prop, "tier": tier, "seed": seed, "level": level, "coverage": coverage,
          "assumptions": assumptions or [], "wall_s": round(wall, 2), "violations": violations}
    with open(os.path.join(EVID, prop + ".json"), "w") as f:
        json.dump(ev, f, indent=1)
    return ev


class Outcome:
    """collects what a check run found; decides exit code and prints VIOLATION / KNOWN-FINDING lines"""

    def __init__(self, prop):
        self.prop = prop
        self.violations = []   # (payload, concrete: bool, key)
        self.known_hits = []

    def violation(self, payload, concrete, key=None):
        self.violations.append((payload, concrete, key))

    def finish(self):
        known = known_findings()
        rc = 0
        n = 0
        for payload, concrete, key in self.violations:
            hit = [k for k in known if k[0] == self.prop and key and k[1] == key]
            if hit:
                log("KNOWN-FINDING: property=%s %s" % (self.prop, hit[0][2]))
                continue
            payload = dict(payload)
            payload["property"] = self.prop
            payload["concrete_failing_input"] = bool(concrete)
            path = write_replay(self.prop, payload)
            n += 1
            log("VIOLATION property=%s replay=%s%s" % (self.prop, path, "" if concrete else " no-failing-input-found"))
            rc = 1
        return rc, n
