"""Property oracles over the IMPLEMENTATION's trace (search support: they decide whether a broken
proof / correspondence comes with a concrete failing history; they never stand in for a theorem).
Each oracle is written from the property text, reads only what user code can observe, and is
sound: it returns a finding only when the printed trace itself contradicts the property."""
import re

LIFE = ("enter", "exit", "reenter")
GUARDS = ("entryGuard", "exitGuard")
M_INDEX = {m: i for i, m in enumerate(["entryGuard", "enter", "reenter", "preUpdate", "update", "postUpdate", "preReact", "react",
                                       "postReact", "query", "exitGuard", "exit", "planSucceeded", "planFailed"])}
FIELD = re.compile(r"(\w+)=(\[[^\]]*\]|\S+)")


class E:
    __slots__ = ("kind", "inst", "op", "occ", "method", "sid", "layer", "f", "name", "text", "raw")

    def __init__(self, line):
        self.raw = line
        w = line.split()
        self.kind = w[0]
        self.f, self.text = {}, ""
        self.inst = self.op = self.occ = self.sid = -1
        self.method = self.layer = self.name = ""
        head, _, tail = line.partition(" | ")
        hw = head.split()
        if self.kind in ("cb", "do"):
            self.inst, self.op, self.occ = int(hw[1][1:]), int(hw[2][2:]), int(hw[3][3:])
            self.method, self.sid, self.layer = hw[4], int(hw[5][1:]), hw[6]
            if self.kind == "cb":
                self.f = dict(FIELD.findall(tail))
            else:
                self.text = tail
        elif self.kind == "api":
            self.inst, self.op, self.name = int(hw[1][1:]), int(hw[2][2:]), hw[3]
            self.f = dict(FIELD.findall(tail))
        elif self.kind == "log":
            self.inst = int(hw[1][1:])
            self.text = " ".join(hw[2:])
        elif self.kind == "rejected":
            self.inst, self.op, self.name = int(hw[1][1:]), int(hw[2][2:]), hw[3]


def parse(lines):
    return [E(l) for l in lines if l and l.split()[0] in ("cb", "do", "api", "log", "rejected")]


class Cfg:
    def __init__(self, cfg_line):
        f = dict(t.split("=", 1) for t in cfg_line.split()[1:])
        self.n, self.L, self.cap = int(f["n"]), int(f["L"]), int(f["cap"])
        self.head, self.manual = f["head"] == "1", f["manual"] == "1"
        self.payload, self.plans, self.history = f["payload"] == "1", f["plans"] == "1", f["history"] == "1"
        self.serial, self.log, self.verbose = f["serial"] == "1", f["log"] == "1", f["verbose"] == "1"
        self.defines = f["defines"].split(",")
        self.inj = [int(x) for x in f["inj"].split(",")]
        self.ptype = f.get("ptype", "none")

    def defined(self, sid, m):
        if sid == 255:
            return self.head and self.defines[self.n][M_INDEX[m]] == "1"
        return self.defines[sid][M_INDEX[m]] == "1"

    def all_defined(self, methods, include_head=False):
        rows = range(self.n + 1) if include_head and self.head else range(self.n)
        return all(self.defines[r][M_INDEX[m]] == "1" for r in rows for m in methods)


def ops_of(events):
    """group events by (inst, op) in order of appearance; returns list of (key, [events]).  Log records carry no
    op number: one written after an op's closing `api` / `rejected` line belongs to the next op."""
    out, cur, key, pending, closed = [], None, None, [], True
    for e in events:
        if e.kind == "log":
            if cur is None or closed:
                pending.append(e)
            else:
                cur.append(e)
            continue
        k = (e.inst, e.op)
        if k != key:
            cur = pending
            pending = []
            key = k
            out.append((k, cur))
        elif pending:
            cur.extend(pending)
            pending = []
        cur.append(e)
        closed = e.kind in ("api", "rejected")
    if pending:
        out.append(((pending[0].inst, -1), pending))
    return out


# ------------------------------------------------------------------------------------------ C01
def c01(cfg, events):
    v = initial_state(cfg, events)
    if v:
        return v
    if not cfg.all_defined(LIFE) or (cfg.head and not all(cfg.defined(255, m) for m in ("enter", "exit"))):
        return None
    state = {}          # inst -> active id or None (inactive) ; absent = no instance
    pending_exit = {}   # inst -> sid just exited (between exit and enter)
    for e in events:
        i = e.inst
        if e.kind == "cb" and e.layer == "S" and e.method in LIFE:
            st = state.get(i, None)
            if e.method == "reenter":
                if st != e.sid:
                    return "reenter() delivered to state %d while the entered-and-not-exited state is %s: %s" % (e.sid, st, e.raw)
            elif e.method == "exit":
                if e.sid == 255:
                    if i not in pending_exit:
                        return "root exit() without a preceding exit of the active state: " + e.raw
                    del pending_exit[i]
                    state[i] = None
                else:
                    if st != e.sid:
                        return "exit() delivered to state %d but the state whose enter() ran last is %s: %s" % (e.sid, st, e.raw)
                    pending_exit[i] = e.sid
                    state[i] = "between"
            elif e.method == "enter":
                if e.sid == 255:
                    if st not in (None,):
                        return "root enter() while a state is active: " + e.raw
                    state[i] = "entering"
                else:
                    if st not in ("between", "entering") and not (st is None and not cfg.head):
                        return "enter() of state %d while %s is entered and not exited: %s" % (e.sid, st, e.raw)
                    pending_exit.pop(i, None)
                    state[i] = e.sid
        elif e.kind == "api":
            act = int(e.f["act"])
            if e.name == "copy":
                state[i] = None if act == 255 else act
                continue
            if e.name == "destroy":
                st = state.pop(i, None)
                continue
            st = state.get(i)
            if st == "between" and not cfg.head and act == 255:
                # without a root head the deactivation's root exit() is not observable
                st = state[i] = None
                pending_exit.pop(i, None)
            exp = 255 if st is None else st
            if isinstance(exp, int) and act != exp:
                return "after %s activeStateId() is %d but the state entered and not exited is %s: %s" % (e.name, act, st, e.raw)
            if not isinstance(exp, int):
                return "API call %s returned with an enter() left pending (%s): %s" % (e.name, st, e.raw)
            isa = e.f["isA"]
            if isa.count("1") != (0 if act == 255 else 1) or (act != 255 and isa[act] != "1"):
                return "isActive() answers %s while activeStateId() is %d: %s" % (isa, act, e.raw)
            if e.f.get("mact", "~") != "~" and (e.f["mact"] == "1") != (act != 255):
                return "manual isActive() disagrees with activeStateId(): " + e.raw
    return None


# ------------------------------------------------------------------------------------------ rounds
def rounds_of(cfg, evs, activation=False):
    """guard rounds of one op (every state defines both guards, no injections).  Processing: a round starts at each
    exitGuard delivery (always delivered, to the active state).  Activation: at the root's entryGuard when the root
    defines it, else at every entryGuard.  A round is vetoed iff one of its guards called cancelPendingTransition().
    Returns list of dict(pend, cur, cancelled, made)."""
    rounds, cur = [], None
    head_guard = cfg.head and cfg.defined(255, "entryGuard")
    last_delivery = None
    for e in evs:
        start = False
        if e.kind == "cb":
            # a delivery = the callbacks of all layers (injections first, then the state's own) with one (method, state, occurrence)
            delivery = (e.method, e.sid, e.occ)
            fresh = delivery != last_delivery
            last_delivery = delivery
            if fresh:
                if not activation:
                    start = e.method == "exitGuard"
                else:
                    start = e.method == "entryGuard" and (e.sid == 255 if head_guard else True)
        if start:
            cur = {"pend": e.f.get("pend"), "cur": e.f.get("cur"), "cancelled": False, "views": []}
            rounds.append(cur)
        if e.kind == "cb" and e.method in GUARDS and cur is not None:
            cur["views"].append((e.f.get("pend"), e.f.get("cur"), e.raw))
        elif e.kind == "do" and e.method in GUARDS and e.text == "cancel" and cur is not None:
            cur["cancelled"] = True
        elif e.kind == "do" and e.method in GUARDS and cur is not None and e.text.split()[0] in ("changeTo", "changeWith"):
            t = e.text.split()
            cur["made"] = "%d>%s:%s" % (e.sid, t[1], t[2] if t[0] == "changeWith" else "-")
    return rounds


def redirects_evaluated(cfg, op, api_name, evs, activation=False):
    """a request made by a guard is evaluated in the next round (unless the substitution limit is reached, or it
    repeats an accepted external payload-free request to the same destination, which the library drops); every
    guard of a round is shown that round's pending transition and the transition accepted so far as current"""
    rounds = rounds_of(cfg, evs, activation)
    limit = cfg.L + 1 if activation else cfg.L      # activation: one evaluation outside the loop
    current, iters = None, 0
    for k, r in enumerate(rounds):
        iters += 1
        exp_cur = "-" if current is None else current
        for (pv, cv, raw) in r["views"]:
            if pv != r["pend"]:
                return "op%d (%s): guards of round %d are shown different pending transitions (%s / %s): %s" % (op, api_name, k + 1, r["pend"], pv, raw)
            if cv is not None and cv != "~" and cv != exp_cur:
                return "op%d (%s): in round %d the transition accepted so far is %s, but the guard sees %s as the current transition: %s" % (op, api_name, k + 1, exp_cur, cv, raw)
        if not r["cancelled"] and r["pend"] not in ("-", None):
            current = r["pend"]
        made = r.get("made")
        nxt = rounds[k + 1] if k + 1 < len(rounds) else None
        if made is None:
            continue
        if iters >= limit:
            continue
        if current is not None and current == "255>%s:-" % made.split(">")[1].split(":")[0]:
            continue
        if nxt is None:
            return "op%d (%s): a guard of round %d requested %s and the substitution limit (%d) was not reached, but the request was never evaluated" % (op, api_name, k + 1, made, cfg.L)
        if nxt["pend"] != made:
            return "op%d (%s): a guard of round %d requested %s, but round %d evaluates %s" % (op, api_name, k + 1, made, k + 2, nxt["pend"])
    return None


def leftover_request(cfg, evs):
    """the request left outstanding by a processing op that ran into the substitution limit (None if none / unknown)"""
    rounds = rounds_of(cfg, evs)
    if len(rounds) < cfg.L or not rounds:
        return None
    current = None
    for r in rounds:
        if not r["cancelled"] and r["pend"] not in ("-", None):
            current = r["pend"]
    made = rounds[-1].get("made")
    if made is None:
        return None
    if current is not None and current == "255>%s:-" % made.split(">")[1].split(":")[0]:
        return None
    return made


def life_of(evs):
    return [(e.method, e.sid) for e in evs if e.kind == "cb" and e.layer == "S" and e.method in LIFE and e.sid != 255]


def tr_dest(t):
    return None if t in ("-", "~", None) else int(t.split(">")[1].split(":")[0])


PROCESSING = ("update", "react", "immediateChangeTo", "immediateChangeWith")


def c02(cfg, events, case=None):
    v = c02_outcome(cfg, events)
    if v or not case:
        return v
    return latest_request(cfg, events, case)


def c02_outcome(cfg, events):
    """outcome = destination of the last request that survived its guards (needs every guard and
    lifecycle callback visible)"""
    if not cfg.all_defined(GUARDS + LIFE):
        return None
    last_act = {}
    for (inst, op), evs in ops_of(events):
        api = next((e for e in evs if e.kind == "api"), None)
        if api is None:
            continue
        before = last_act.get(inst)
        last_act[inst] = int(api.f["act"])
        if api.name in ("construct", "enter") and not any(e.kind == "rejected" for e in evs):
            v = redirects_evaluated(cfg, op, api.name, evs, activation=True)
            if v:
                return v
        if api.name not in PROCESSING or before is None:
            continue
        rounds = rounds_of(cfg, evs)
        v = redirects_evaluated(cfg, op, api.name, evs)
        if v:
            return v
        surv = None
        for r in rounds:
            if not r["cancelled"] and r["pend"] not in ("-", None):
                surv = r["pend"]
        life = life_of(evs)
        after = int(api.f["act"])
        if surv is None:
            if life or after != before:
                return "no request survived its guards in op%d (%s) but lifecycle %s ran / active went %d -> %d" % (op, api.name, life, before, after)
            if cfg.history and api.f.get("prev") not in (None, "~", "-"):
                return "op%d (%s) applied no transition but previousTransition() is %s" % (op, api.name, api.f["prev"])
        else:
            d = tr_dest(surv)
            exp = [("reenter", before)] if d == before else [("exit", before), ("enter", d)]
            if life != exp or after != d:
                return "op%d (%s): last surviving request is %s, expected lifecycle %s and active %d; observed %s and active %d" % (op, api.name, surv, exp, d, life, after)
            if cfg.history and api.f.get("prev") not in (None, "~") and api.f["prev"] != surv:
                return "op%d (%s): previousTransition() is %s but the applied transition was %s" % (op, api.name, api.f["prev"], surv)
    return None


def c04(cfg, events):
    for (inst, op), evs in ops_of(events):
        api = next((e for e in evs if e.kind == "api"), None)
        if api is None:
            continue
        n_exit = sum(1 for e in evs if e.kind == "cb" and e.method == "exitGuard" and e.layer == "S")
        n_entry = sum(1 for e in evs if e.kind == "cb" and e.method == "entryGuard" and e.layer == "S" and e.sid != 255)
        activation = api.name in ("construct", "enter")
        bound = cfg.L + (1 if activation else 0)
        if n_exit > cfg.L or n_entry > bound:
            return "op%d (%s) evaluated %d exit-guard / %d entry-guard rounds, the substitution limit is %d" % (op, api.name, n_exit, n_entry, cfg.L)
    return None


def c05(cfg, events):
    last_act = {}
    for (inst, op), evs in ops_of(events):
        api = next((e for e in evs if e.kind == "api"), None)
        if api is None:
            continue
        before = last_act.get(inst)
        last_act[inst] = int(api.f["act"])
        if api.name not in ("update", "react", "query") or before is None:
            continue
        fam = {"update": ("preUpdate", "update", "postUpdate"), "react": ("preReact", "react", "postReact")}.get(api.name)
        cbs = [e for e in evs if e.kind == "cb" and e.layer == "S"]
        if api.name == "query":
            exp = [("query", s) for s in (255, before) if cfg.defined(s, "query")]
            got = [(e.method, e.sid) for e in cbs]
            if got != exp:
                return "query() delivered %s, expected %s" % (got, exp)
            continue
        exp = []
        for k, m in enumerate(fam):
            order = (255, before) if k < 2 else (before, 255)
            exp += [(m, s) for s in order if cfg.defined(s, m)]
        got = [(e.method, e.sid) for e in cbs[:len(exp)]]
        phase_all = [(e.method, e.sid) for e in cbs if e.method in fam]
        if got != exp or phase_all != exp:
            return "op%d %s() with state %d active delivered phase callbacks %s, expected exactly %s first" % (op, api.name, before, phase_all, exp)
        # injected bases of the root head and of the active state: every layer gets every phase callback exactly once,
        # and no layer of any other state gets one
        want = {}
        for s_ in ([255] if cfg.head else []) + ([before] if before != 255 else []):
            row = cfg.n if s_ == 255 else s_
            for j in range(cfg.inj[row]):
                for m in fam:
                    want[(m, s_, "I%d" % j)] = 1
        seen = {}
        for e in evs:
            if e.kind == "cb" and e.layer != "S" and e.method in fam:
                seen[(e.method, e.sid, e.layer)] = seen.get((e.method, e.sid, e.layer), 0) + 1
        if seen != want:
            bad = sorted(k_ for k_ in set(seen) | set(want) if seen.get(k_, 0) != want.get(k_, 0))
            return "op%d %s() with state %d active: the injected bases received phase callbacks %s times instead of once each (method, state, layer: %s)" % (
                op, api.name, before, [seen.get(k_, 0) for k_ in bad], bad)
    return None


def c06(cfg, events, case=None):
    for e in events:
        if e.kind != "cb":
            continue
        if int(e.f["id"]) != e.sid:
            return "control.stateId() is %s inside a callback of state %d: %s" % (e.f["id"], e.sid, e.raw)
        mact = int(e.f["mact"])
        for j, ch in enumerate(e.f["act"]):
            if (ch == "1") != (mact == j):
                return "control.isActive(%d) is %s but the machine reports state %d active: %s" % (j, ch, mact, e.raw)
    # in guards: the pending transition being evaluated and the transition accepted so far in this processing step
    if cfg.all_defined(GUARDS + LIFE):
        for (inst, op), evs in ops_of(events):
            api = next((e for e in evs if e.kind == "api"), None)
            if api is not None and api.name in ("construct", "enter") + PROCESSING and not any(e.kind == "rejected" for e in evs):
                v = redirects_evaluated(cfg, op, api.name, evs, activation=api.name in ("construct", "enter"))
                if v:
                    return v
    # a request made through a control records the calling state as its origin; the request shown is the one waiting
    if not case:
        return None
    return provenance(cfg, events, case) or latest_request(cfg, events, case) or shown_request_is_waiting(cfg, events, case)


def shown_request_is_waiting(cfg, events, case):
    """"the request currently waiting to be processed": what enter() / exit() / reenter() / query() — callbacks that
    cannot request anything — are shown at the end of one call is still what the first callback of the instance's
    next update() / react() / query() is shown, when nothing in between made, processed or discarded a request"""
    ops = case_ops(case)
    carried = {}        # inst -> (request string, description of the callback that showed it)
    transparent = ("save", "succeed", "fail", "planAppend", "planClear", "planRemove", "attachLogger")
    for (inst, op), evs in ops_of(events):
        if op < 0 or op >= len(ops):
            continue
        w = ops[op]
        rejected = any(e.kind == "rejected" for e in evs)
        cbs = [e for e in evs if e.kind == "cb" and e.f.get("req") not in (None, "~")]
        if inst in carried and cbs and not rejected and w[0] in ("update", "react", "query") and cbs[0].method in PHASE_FAM.get(w[0], ("query",)):
            r, who = carried[inst]
            if cbs[0].f["req"] != r:
                return "%s was shown %s as the request waiting to be processed; nothing processed, replaced or discarded it, yet the next callback sees %s: %s" % (
                    who, r, cbs[0].f["req"], cbs[0].raw)
        if w[0] in transparent or rejected:
            continue
        carried.pop(inst, None)
        if w[0] == "copy":
            continue
        last = None
        for e in evs:
            if e.kind == "cb":
                last = e
            elif e.kind == "do" and e.text.split()[0] in ("changeTo", "changeWith"):
                last = None
        if last is not None and (last.method in LIFE or last.method == "query") and last.f.get("req") not in (None, "~") and w[0] not in ("exit", "destroy"):
            carried[inst] = (last.f["req"], "%s() of state %d in op%d (%s)" % (last.method, last.sid, op, w[0]))
    return None


def c11(cfg, events, case=None):
    """C02's outcome / history rule, plus the replay calls themselves: replayTransition(d) / replayEnter(d) run exactly
    the lifecycle of a change to `d` (reenter alone when `d` is already active), end in `d`, consult no guard and leave
    `d` in previousTransition(); replayTransition(INVALID) returns false and runs nothing"""
    v = c02(cfg, events, case)
    if not v and case and cfg.history:
        # origin and payload of the recorded transition are those of a request somebody made / a task somebody appended
        v = provenance(cfg, events, case)
    if v or not case or not cfg.history or not cfg.all_defined(LIFE):
        return v
    ops = case_ops(case)
    last = {}
    for (inst, op), evs in ops_of(events):
        api = next((e for e in evs if e.kind == "api"), None)
        if api is None or op < 0 or op >= len(ops):
            continue
        w = ops[op]
        prev_api = last.get(inst)
        last[inst] = api
        if w[0] not in ("replayTransition", "replayFrom", "replayEnter", "replayEnterFrom") or any(e.kind == "rejected" for e in evs):
            continue
        if w[0] in ("replayTransition", "replayEnter"):
            d = int(w[2])
        else:
            sp = last.get(int(w[2])) if int(w[2]) != inst else prev_api
            if sp is None or sp.f.get("prev") in (None, "~"):
                continue
            d = tr_dest(sp.f["prev"])
            d = (255 if w[0] == "replayFrom" else 0) if d is None else d
        if prev_api is None:
            continue
        before, after = int(prev_api.f["act"]), int(api.f["act"])
        life = life_of(evs)
        g = next((e for e in evs if e.kind == "cb" and e.method in GUARDS), None)
        if g is not None:
            return "op%d %s(%d): a guard was consulted while replaying: %s" % (op, api.name, d, g.raw)
        if w[0] in ("replayTransition", "replayFrom"):
            if d == 255:
                if life or after != before or api.f.get("ret") != "0":
                    return "op%d replayTransition(INVALID) ran %s, active %d -> %d, returned %s; it must return false and change nothing" % (op, life, before, after, api.f.get("ret"))
                continue
            exp = [("reenter", before)] if d == before else [("exit", before), ("enter", d)]
        else:
            exp = [("enter", d)]
        if life != exp or after != d:
            return "op%d %s(%d) with state %d active ran %s and ended in state %d; replaying that transition means %s and state %d" % (op, api.name, d, before, life, after, exp, d)
        if api.f.get("prev") not in (None, "~") and api.f["prev"] != "255>%d:-" % d:
            return "op%d %s(%d): previousTransition() is %s afterwards, the replayed transition is 255>%d:-" % (op, api.name, d, api.f["prev"], d)
    return None


def c12(cfg, events, case=None):
    if not cfg.serial:
        return None
    bw = max(cfg.n.bit_length(), 0)
    nbytes = (1 + bw + 7) // 8
    for e in events:
        if e.kind != "api":
            continue
        if e.name == "save" and e.f.get("bytes", "~") != "~":
            act = int(e.f["act"])
            bits = 0 if act == 255 else (1 | (act << 1))
            exp = bits.to_bytes(nbytes, "little").hex()
            if e.f["bytes"] != exp:
                return "save() of a machine with active state %d wrote %s, the canonical encoding is %s" % (act, e.f["bytes"], exp)
    if not case:
        return None
    # load(): the loader ends with the saver's activity, by exactly the lifecycle needed, consulting no guard
    ops = case_ops(case)
    act = {}
    for (inst, op), evs in ops_of(events):
        api = next((e for e in evs if e.kind == "api"), None)
        if api is None or op < 0 or op >= len(ops):
            continue
        w = ops[op]
        if w[0] == "load" and not any(e.kind == "rejected" for e in evs):
            src = int(w[2])
            before, saver = act.get(inst), act.get(src)
            if before is not None and saver is not None:
                after = int(api.f["act"])
                if after != saver:
                    return "op%d load(): the saver (instance %d) has activity %d, the loader had %d and ends with %d" % (op, src, saver, before, after)
                g = next((e for e in evs if e.kind == "cb" and e.method in GUARDS), None)
                if g is not None:
                    return "op%d load(): a guard was consulted: %s" % (op, g.raw)
                if cfg.all_defined(LIFE):
                    if before != 255 and saver != 255:
                        exp = [("reenter", before)] if saver == before else [("exit", before), ("enter", saver)]
                    elif before != 255:
                        exp = [("exit", before)]
                    elif saver != 255:
                        exp = [("enter", saver)]
                    else:
                        exp = []
                    life = life_of(evs)
                    if life != exp:
                        return "op%d load(): loader in %d, saver in %d: expected lifecycle %s, observed %s" % (op, before, saver, exp, life)
        act[inst] = int(api.f["act"])
    return None


# ------------------------------------------------------------------------------------------ helpers (plans / requests)
PHASE_FAM = {"update": ("preUpdate", "update", "postUpdate"), "react": ("preReact", "react", "postReact")}
PLAN_METHODS = ("planSucceeded", "planFailed")


def case_ops(case):
    """op lines of a case as word lists; index = op number"""
    return [l.split()[1:] for l in (case or []) if l.startswith("op ")]


def parse_plan(s):
    if s in (None, "~"):
        return None
    return s.strip("[]").split()


def t_origin(t):
    return int(t.split(">")[0])


def t_dest(t):
    return int(t.split(">")[1].split(":")[0])


def eff_cap(cfg):
    # Q8: TaskCapacityN<255> is the "not configured" sentinel, the capacity is then the state count
    return cfg.n if cfg.cap == 255 else cfg.cap


def remove_masked(plan, mask):
    out = []
    for k, t in enumerate(plan):
        if k < len(mask) and mask[k] == "1":
            continue
        out.append(t)
    return out


def apply_plan_edit(cfg, plan, words):
    """effect of a planAppend / planClear / planRemove (words after the instance id, if any) on the abstract plan"""
    if words[0] == "planAppend":
        t = "%s>%s:%s" % (words[1], words[2], words[3] if len(words) > 3 else "-")
        return plan + [t] if len(plan) < eff_cap(cfg) else plan
    if words[0] == "planClear":
        return []
    if words[0] == "planRemove":
        return remove_masked(plan, words[1])
    return plan


def is_change(e):
    return e.kind == "do" and e.text.split()[0] in ("changeTo", "changeWith")


def split_cycle(cfg, api_name, evs):
    """events of one update()/react() op split at the plan step: (phase part, firings [(o, d)], rest)"""
    fam = PHASE_FAM[api_name]
    k = 0
    n = len(evs)
    while k < n:
        e = evs[k]
        if e.kind == "cb" and e.method not in fam:
            break
        if e.kind == "api" or e.kind == "rejected":
            break
        if e.kind == "log":
            w = e.text.split()
            if w[0] == "method" and w[2] not in fam:
                break
            if w[0] == "trans" and not (k > 0 and is_change(evs[k - 1])):
                break
        k += 1
    fires = []
    j = k
    while j < n and evs[j].kind == "log" and evs[j].text.split()[0] == "trans":
        w = evs[j].text.split()
        fires.append((int(w[1]), int(w[2])))
        j += 1
    return evs[:k], fires, evs[j:]


def expected_run(plan, a):
    """the tasks FullControlT::updatePlan fires when the active state `a` has a success outstanding: every
    task from the front whose origin is `a`, up to the first one of another origin, stopping to fire after
    a cyclic task (its success is consumed on the spot).  Returns (fired indices)"""
    fired, live = [], True
    for k, t in enumerate(plan):
        if t_origin(t) != a:
            break
        if live:
            fired.append(k)
            if t_dest(t) == a:
                live = False
    return fired


class PlanTracker:
    """per-instance bookkeeping shared by the plan oracles, driven by the events of one case in order"""

    def __init__(self, cfg, case):
        self.cfg, self.ops = cfg, case_ops(case)
        self.act = {}          # inst -> active id after the last API call
        self.plan = {}         # inst -> last known plan (list) or None

    def op_words(self, op):
        return self.ops[op] if 0 <= op < len(self.ops) else []


# ------------------------------------------------------------------------------------------ C07
def provenance(cfg, events, case):
    """every transition shown to user code was requested by somebody with exactly that origin, destination and
    payload; every task shown in a plan was appended like that"""
    ops = case_ops(case)
    made, tasks = set(), set()
    done_ops = -1
    replay_any = any(w and w[0] in ("replayFrom", "replayEnterFrom") for w in ops)
    if replay_any:
        for d in range(cfg.n):
            made.add("255>%d:-" % d)
    for e in events:
        if e.kind in ("cb", "do", "api", "rejected") and e.op > done_ops:
            for k in range(done_ops + 1, min(e.op, len(ops) - 1) + 1):
                w = ops[k]
                if w[0] in ("changeTo", "immediateChangeTo", "replayTransition", "replayEnter"):
                    made.add("255>%s:-" % w[2])
                elif w[0] in ("changeWith", "immediateChangeWith"):
                    made.add("255>%s:%s" % (w[2], w[3]))
                elif w[0] == "planAppend":
                    t = "%s>%s:%s" % (w[2], w[3], w[4] if len(w) > 4 else "-")
                    tasks.add(t)
                    made.add(t)
            done_ops = max(done_ops, e.op)
        if e.kind == "do":
            w = e.text.split()
            if w[0] == "changeTo":
                made.add("%d>%s:-" % (e.sid, w[1]))
            elif w[0] == "changeWith":
                made.add("%d>%s:%s" % (e.sid, w[1], w[2]))
            elif w[0] == "planAppend":
                t = "%s>%s:%s" % (w[1], w[2], w[3] if len(w) > 3 else "-")
                tasks.add(t)
                made.add(t)
        elif e.kind in ("cb", "api"):
            for fld in ("req", "cur", "pend", "prev"):
                v = e.f.get(fld)
                if v in (None, "-", "~"):
                    continue
                if v not in made:
                    return "%s shows the transition %s, but no request with that origin, destination and payload was ever made: %s" % (fld, v, e.raw)
            pl = parse_plan(e.f.get("plan"))
            for t in pl or []:
                if t not in tasks:
                    return "the plan shows the task %s, but no such task (origin, destination, payload) was ever appended: %s" % (t, e.raw)
    return None


def latest_request(cfg, events, case):
    """a request replaces the outstanding one at once: the next callback of the same phase sees exactly the
    request just made (caller as origin, its destination, its payload) as the machine's outstanding request,
    and the first callback of update()/react() sees the request made from outside since the last processing"""
    ops = case_ops(case)
    ext = {}        # inst -> the external request outstanding (set by an accepted changeTo/changeWith call)
    neutral = ("query", "save", "succeed", "fail", "planAppend", "planClear", "planRemove", "attachLogger", "changeTo", "changeWith")
    for (inst, op), evs in ops_of(events):
        if op < 0 or op >= len(ops):
            continue
        w = ops[op]
        rejected = any(e.kind == "rejected" for e in evs)
        if w[0] in ("changeTo", "changeWith") and not rejected:
            ext[inst] = "255>%s:%s" % (w[2], w[3] if w[0] == "changeWith" else "-")
            continue
        last = ext.get(inst) if w[0] in ("update", "react") and not rejected else None
        if w[0] not in neutral or w[0] in ("copy",):
            ext.pop(inst, None)
        if w[0] in PROCESSING and not rejected and cfg.all_defined(GUARDS):
            lo = leftover_request(cfg, evs)
            if lo is not None:
                ext[inst] = lo      # never vetoed, never replaced: it stays outstanding for the next processing call
        if w[0] == "copy" and not rejected and len(w) > 2 and int(w[2]) in ext:
            ext[inst] = ext[int(w[2])]
        if w[0] not in PHASE_FAM:
            continue
        fam = PHASE_FAM[w[0]]
        for e in evs:
            if e.kind == "cb":
                if e.method not in fam:
                    break       # plan step / processing begins: the request is consumed or overridden from here on
                shown = e.f.get("req")
                if last is not None and shown not in (None, "~") and shown != last:
                    return "op%d: the outstanding request should be %s (the most recent one made), but %s() of state %d sees %s: %s" % (op, last, e.method, e.sid, shown, e.raw)
            elif e.kind == "do":
                t = e.text.split()
                if t[0] == "changeTo":
                    last = "%d>%s:-" % (e.sid, t[1])
                elif t[0] == "changeWith":
                    last = "%d>%s:%s" % (e.sid, t[1], t[2])
    return None


def c07(cfg, events, case=None):
    """payload integrity: provenance of every shown transition / task, the most recent request is the one
    outstanding, the lifecycle callbacks see the request that survived the guards as current"""
    if not cfg.payload:
        return None
    v = provenance(cfg, events, case) or latest_request(cfg, events, case)
    if v:
        return v
    # the surviving request is what enter()/reenter()/exit() see as current
    if cfg.all_defined(GUARDS + LIFE):
        for (inst, op), evs in ops_of(events):
            api = next((e for e in evs if e.kind == "api"), None)
            if api is not None and api.name in ("construct", "enter") + PROCESSING and not any(e.kind == "rejected" for e in evs):
                v = redirects_evaluated(cfg, op, api.name, evs, activation=api.name in ("construct", "enter"))
                if v:
                    return v
            if api is None or api.name not in PROCESSING:
                continue
            surv = None
            for r in rounds_of(cfg, evs):
                if not r["cancelled"] and r["pend"] not in ("-", None):
                    surv = r["pend"]
            for e in evs:
                if e.kind == "cb" and e.layer == "S" and e.method in LIFE and surv is not None and e.f.get("cur") not in (None, "~") and e.f["cur"] != surv:
                    return "op%d: the request that survived its guards is %s but %s() of state %d sees %s as the current transition" % (op, surv, e.method, e.sid, e.f["cur"])
    return None


# ------------------------------------------------------------------------------------------ C08 / C09 / C10 (plan oracles)
def plan_walk(cfg, events, case, want):
    """one pass over the trace with the bookkeeping the plan oracles need; `want` selects the checks:
    "C08" firing discipline, "C09" plan outcome callbacks, "C10" the plan as a list with capacity"""
    if not cfg.plans:
        return None
    ops = case_ops(case)
    act, known = {}, {}
    consumed = {}          # inst -> {origin: op in which a task of that origin last fired, no success report since}
    outst = {}             # inst -> {state: a success report is outstanding (True) / certainly not (False)}; absent = unknown
    fail_out, succ_out = {}, {}    # inst -> a failure / success report happened since the statuses were last wiped
    fail_ever = {}
    fbit = {}              # inst -> {state: its failure bit is set (True) / certainly clear (False)}; absent = unknown
    appended = {}          # inst -> a task was appended since activation (None = unknown)
    head_pf = cfg.head and cfg.defined(255, "planFailed")
    head_ps = cfg.head and cfg.defined(255, "planSucceeded")

    def wipe_status(inst):
        outst[inst] = {k_: False for k_ in range(cfg.n)}
        fbit[inst] = {k_: False for k_ in range(cfg.n)}

    def report(inst, target, ok):
        if ok:
            succ_out[inst] = True
            consumed.setdefault(inst, {}).pop(target, None)
            outst.setdefault(inst, {})[target] = True
        else:
            fail_out[inst] = True
            fail_ever[inst] = True
            fbit.setdefault(inst, {})[target] = True

    for (inst, op), evs in ops_of(events):
        if op < 0:
            continue
        w = ops[op] if op < len(ops) else []
        api = next((e for e in evs if e.kind == "api"), None)
        name = w[0] if w else (api.name if api else "")
        rejected = any(e.kind == "rejected" for e in evs)
        # ---- effect of the op itself on the bookkeeping (before its events)
        if not rejected:
            if name == "construct":
                wipe_status(inst)
                consumed[inst], fail_out[inst], succ_out[inst], fail_ever[inst] = {}, False, False, False
                appended[inst] = False
                known[inst] = []
            elif name == "copy":
                src = int(w[2]) if len(w) > 2 else None
                consumed[inst] = dict(consumed.get(src, {}))
                outst[inst] = dict(outst.get(src, {}))
                fbit[inst] = dict(fbit.get(src, {}))
                for d_ in (fail_out, succ_out, fail_ever, appended):
                    d_[inst] = d_.get(src)
                known[inst] = list(known[src]) if known.get(src) is not None else None
            elif name in ("enter", "exit", "load", "destroy"):
                consumed[inst] = {}
                if name in ("load", "destroy"):
                    outst[inst] = {}
                    fbit[inst] = {}
                    appended[inst] = None
                    known[inst] = None
            elif name in ("succeed", "fail") and len(w) > 2:
                report(inst, int(w[2]), name == "succeed")
            elif name in ("planAppend", "planClear", "planRemove"):
                if name == "planAppend":
                    appended[inst] = True
                    # the result of append: true exactly when there was room
                    if want == "C10" and known.get(inst) is not None and api is not None and api.f.get("ret") in ("0", "1"):
                        room = len(known[inst]) < eff_cap(cfg)
                        if (api.f["ret"] == "1") != room:
                            return "op%d: plan().change…() returned %s with %d task(s) in a plan of capacity %d; appending succeeds exactly when fewer than capacity tasks are present" % (
                                op, "true" if api.f["ret"] == "1" else "false", len(known[inst]), eff_cap(cfg))
                if known.get(inst) is not None:
                    known[inst] = apply_plan_edit(cfg, known[inst], [name] + w[2:])
                if name == "planClear":
                    wipe_status(inst)
        cyc = api is not None and api.name in PHASE_FAM and not rejected
        a = act.get(inst)
        if cyc:
            phase, fires, rest = split_cycle(cfg, api.name, evs)
        else:
            phase, fires, rest = evs, [], []
        delivered = []
        # ---- walk: phase part
        def see(e):
            """an observation of the plan; compares with what the list-with-capacity predicts"""
            pl = parse_plan(e.f.get("plan"))
            if pl is None:
                return None
            k = known.get(inst)
            if want == "C10" and k is not None and pl != k:
                return "the plan holds %s, but the appends / removals made so far give %s (capacity %d): %s" % (pl, k, eff_cap(cfg), e.raw)
            known[inst] = pl
            return None

        def act_on(e):
            t = e.text.split()
            if t[0] in ("succeed", "fail"):
                report(inst, int(t[1]) if len(t) > 1 else e.sid, t[0] == "succeed")
            elif t[0] in ("planAppend", "planClear", "planRemove"):
                if t[0] == "planAppend":
                    appended[inst] = True
                if known.get(inst) is not None:
                    known[inst] = apply_plan_edit(cfg, known[inst], t)
                if t[0] == "planClear":
                    wipe_status(inst)

        active_failed = succ_now = False
        for e in phase:
            if e.kind == "api" and name in ("exit", "load", "destroy"):
                known[inst] = None      # the plan is wiped after the callbacks of these calls
            if e.kind in ("cb", "api"):
                v = see(e)
                if v:
                    return v
            elif e.kind == "do":
                act_on(e)
                t = e.text.split()
                if cyc and t[0] == "fail" and e.method in PHASE_FAM[api.name] and (int(t[1]) if len(t) > 1 else e.sid) == a and e.sid == a:
                    active_failed = True
                if cyc and t[0] == "succeed" and (int(t[1]) if len(t) > 1 else e.sid) == a:
                    succ_now = True
                if t[0] == "planClear":
                    active_failed = succ_now = False     # clear() wipes every status bit
        if cyc:
            before = known.get(inst)
            outst_before = dict(outst.get(inst, {}))      # outstanding successes as the plan step finds them
            fbit_before = dict(fbit.get(inst, {}))
            # ---- the plan step
            if want == "C08":
                for (o, d) in fires:
                    if o != a:
                        return "op%d: a task %d>%d fired while the active state is %s" % (op, o, d, a)
                    if outst.get(inst, {}).get(o) is False:
                        return "op%d: a task %d>%d fired although no success report of state %d is outstanding (none was made since the state was last exited / its last report was consumed / the plan was cleared)" % (op, o, d, o)
                    j = consumed.get(inst, {}).get(o)
                    if j is not None and j != op:
                        return "op%d: a task with origin %d fired, but the success report of state %d was already consumed by the task fired in op%d and no new report was made" % (op, o, o, j)
                if before is not None and a is not None and a != 255:
                    idx = expected_run(before, a)
                    exp = [(t_origin(before[k]), t_dest(before[k])) for k in idx]
                    if fires and fires != exp:
                        return "op%d: with plan %s and state %d active the tasks fired are %s; the plan order allows exactly %s" % (op, before, a, fires, exp)
            if want == "C09" and fires and any(e.kind == "cb" and e.method == "planFailed" for e in rest):
                return "op%d: tasks %s fired in a cycle that delivers planFailed()" % (op, fires)
            for o, _ in fires:
                consumed.setdefault(inst, {})[o] = op
                outst.setdefault(inst, {})[o] = False
            # ---- after the step
            first_obs = next((e for e in rest if e.kind in ("cb", "api") and parse_plan(e.f.get("plan")) is not None), None)
            npf = [e for e in rest if e.kind == "cb" and e.layer == "S" and e.sid == 255 and e.method in PLAN_METHODS]
            if before is not None and first_obs is not None and a is not None and a != 255:
                after = parse_plan(first_obs.f.get("plan"))
                idx = expected_run(before, a)
                kept = [t for k, t in enumerate(before) if k not in idx]
                allowed = [before, kept, []]
                if want == "C08" and after not in allowed:
                    return "op%d: the plan was %s before the plan step and is %s after it (state %d active): fired tasks must be removed, the others must stay in order (%s)" % (op, before, after, a, kept)
                if want == "C08" and fires and after != kept:
                    return "op%d: tasks %s fired but the plan went from %s to %s" % (op, fires, before, after)
                # converse: first task's origin active and reporting success, no failure reported so far
                if want == "C08" and before and t_origin(before[0]) == a and succ_now and not fail_ever.get(inst) and after == before and not npf:
                    return "op%d: the first task %s has the active state as origin and the state reported success in this cycle without any failure report, but no task fired (plan still %s)" % (op, before[0], after)
                if want == "C09" and before and active_failed and head_pf and not any(e.method == "planFailed" for e in npf):
                    return "op%d: the plan is %s and the active state %d reported failure in this cycle, but planFailed() was not delivered" % (op, before, a)
            known[inst] = None
            # ---- outcome callbacks and the rest of the op
            n_out = 0
            wipe = False
            for k, e in enumerate(rest):
                if wipe and e.kind not in ("do", "log"):
                    known[inst] = []        # PlanT::clear() right after the outcome callback returned
                    wipe = False
                if e.kind == "cb" and e.layer == "S" and e.sid == 255 and e.method in PLAN_METHODS:
                    wipe = True
                    n_out += 1
                    if want == "C09":
                        if appended.get(inst) is False:
                            return "op%d: %s() delivered on a machine to which no task has been added since activation: %s" % (op, e.method, e.raw)
                        if n_out > 1:
                            return "op%d: more than one plan outcome callback in one cycle: %s" % (op, e.raw)
                        if e.method == "planFailed" and fail_out.get(inst) is False:
                            return "op%d: planFailed() delivered but no failure was reported since the statuses were last cleared: %s" % (op, e.raw)
                        if e.method == "planFailed" and a is not None and a != 255:
                            failed_now = any(x.kind == "do" and x.text.split()[0] == "fail" for x in phase)
                            if not failed_now and fbit_before.get(a) is False:
                                return "op%d: planFailed() delivered, but nobody reported a failure in this cycle and the failure bit of the active state %d is clear (it was never set, or the state was exited / the plan was cleared since): %s" % (op, a, e.raw)
                        if e.method == "planSucceeded":
                            reported_now = any(x.kind == "do" and x.text.split()[0] == "succeed" for x in phase)
                            if a is not None and outst_before.get(a) is False and not reported_now:
                                return "op%d: planSucceeded() delivered although the success report of the active state %d was already consumed / cleared and nobody reported success in this cycle: %s" % (op, a, e.raw)
                            if succ_out.get(inst) is False:
                                return "op%d: planSucceeded() delivered but no success was reported since the statuses were last cleared: %s" % (op, e.raw)
                            if parse_plan(e.f.get("plan")):
                                return "op%d: planSucceeded() delivered while tasks remain: %s" % (op, e.raw)
                        # after the callback returns the plan is empty (unless the callback itself appends)
                        nxt = next((x for x in rest[k + 1:] if x.kind in ("cb", "api") and parse_plan(x.f.get("plan")) is not None), None)
                        if nxt is not None and parse_plan(nxt.f.get("plan")):
                            return "op%d: the plan is %s after %s() returned: %s" % (op, nxt.f.get("plan"), e.method, nxt.raw)
                    fail_out[inst] = succ_out[inst] = False
                    consumed[inst] = {}
                    # PlanT::clear() after the callback returns wipes every status bit (reports made inside the
                    # callback included); unknown until then
                    outst[inst] = {}
                    fbit[inst] = {}
                if e.kind in ("cb", "api"):
                    v = see(e)
                    if v:
                        return v
                elif e.kind == "do":
                    act_on(e)
        if api is not None:
            before_act = act.get(inst)
            act[inst] = int(api.f["act"])
            if before_act is not None and before_act != 255 and before_act != act[inst]:
                outst.setdefault(inst, {})[before_act] = False      # S_::deepExit clears the exited state's statuses
                fbit.setdefault(inst, {})[before_act] = False
            if api.name in ("exit",) and not rejected:
                appended[inst] = False
                wipe_status(inst)
    return None


def c08(cfg, events, case=None):
    return plan_walk(cfg, events, case, "C08")


def c09(cfg, events, case=None):
    return plan_walk(cfg, events, case, "C09")


def c10(cfg, events, case=None):
    return plan_walk(cfg, events, case, "C10")


# ------------------------------------------------------------------------------------------ C16
def c16(cfg, events, case=None):
    """log faithfulness on the implementation's own trace: a delivery to a state that defines the callback is
    announced by exactly its method record right before the user code; every request / cancellation / task
    report made by user code is followed by its record; nothing is recorded while no logger is attached"""
    if not cfg.log:
        return None
    ops = case_ops(case)
    attached = {}
    for (inst, op), evs in ops_of(events):
        if op < 0:
            continue
        w = ops[op] if op < len(ops) else []
        name = w[0] if w else ""
        rejected = any(e.kind == "rejected" for e in evs)
        if not rejected:
            if name == "construct":
                attached[inst] = w[2] == "1"
            elif name == "copy":
                attached[inst] = attached.get(int(w[2]))
            elif name == "attachLogger":
                attached[inst] = w[2] == "1"
        on = attached.get(inst)
        if on is None:
            continue
        if not on:
            bad = next((e for e in evs if e.kind == "log" and e.inst == inst), None)
            if bad:
                return "op%d: a record is written although no logger is attached to instance %d: %s" % (op, inst, bad.raw)
            continue
        for k, e in enumerate(evs):
            nxt = evs[k + 1] if k + 1 < len(evs) else None
            if e.kind == "do":
                t = e.text.split()
                exp = None
                if t[0] in ("changeTo", "changeWith"):
                    exp = "trans %d %s" % (e.sid, t[1])
                elif t[0] == "cancel":
                    exp = "cancel %d" % e.sid
                elif t[0] in ("succeed", "fail"):
                    exp = "task %s %s" % (t[1] if len(t) > 1 else e.sid, "S" if t[0] == "succeed" else "F")
                if exp and not (nxt is not None and nxt.kind == "log" and nxt.text == exp):
                    return "op%d: the action '%s' of state %d is not followed by its record '%s' (next line: %s)" % (op, e.text, e.sid, exp, nxt.raw if nxt else "end of the call")
            elif e.kind == "cb" and e.layer == "S" and cfg.defined(e.sid, e.method):
                # first printed line of this delivery: walk back over the injection layers of the same delivery
                j = k - 1
                while j >= 0 and evs[j].kind in ("cb", "do", "log") and not (evs[j].kind == "log" and evs[j].text.startswith("method ")) and \
                        (evs[j].kind != "cb" or (evs[j].sid == e.sid and evs[j].method == e.method and evs[j].layer != "S")):
                    j -= 1
                rec = evs[j] if j >= 0 else None
                if not (rec is not None and rec.kind == "log" and rec.text == "method %d %s" % (e.sid, e.method)):
                    return "op%d: %s() of state %d runs without its method record right before it: %s" % (op, e.method, e.sid, e.raw)
            elif e.kind == "log":
                t = e.text.split()
                if t[0] == "method" and cfg.all_defined(list(M_INDEX), include_head=True) and cfg.head and not any(cfg.inj):
                    if not (nxt is not None and nxt.kind == "cb" and nxt.sid == int(t[1]) and nxt.method == t[2]):
                        return "op%d: the record '%s' is not followed by that delivery (next line: %s)" % (op, e.text, nxt.raw if nxt else "end of the call")
    # verbose: a planSucceeded record while tasks remain and nothing fired cannot be a delivery that happened
    v = None
    if cfg.plans and cfg.verbose:
        v = plan_records(cfg, events, case)
    return v


def plan_records(cfg, events, case):
    ops = case_ops(case)
    known = {}
    for (inst, op), evs in ops_of(events):
        api = next((e for e in evs if e.kind == "api"), None)
        if api is None or api.name not in PHASE_FAM:
            continue
        phase, fires, rest = split_cycle(cfg, api.name, evs)
        obs = [e for e in phase if e.kind == "cb" and parse_plan(e.f.get("plan")) is not None]
        if not obs:
            continue
        last = obs[-1]
        tail = phase[phase.index(last) + 1:]
        if any(e.kind == "do" and e.text.split()[0].startswith("plan") for e in tail):
            continue
        before = parse_plan(last.f.get("plan"))
        recs = [e for e in rest if e.kind == "log" and e.text.startswith("method 255 plan")]
        for r in recs:
            if r.text.endswith("planSucceeded") and before and not fires:
                return "op%d: the log records planSucceeded() for the root although the plan still holds %s and no task fired in this cycle" % (op, before)
            break
    return None


# ------------------------------------------------------------------------------------------ C17 (observational equality at the moment of copying)
def c17(cfg, events, case=None):
    ops = case_ops(case)
    last_api = {}
    for e in events:
        if e.kind != "api":
            continue
        if e.name == "copy" and e.op < len(ops):
            src = int(ops[e.op][2])
            s = last_api.get(src)
            if s is not None:
                for fld in ("act", "isA", "prev", "plan", "mact"):
                    if s.f.get(fld) != e.f.get(fld):
                        return "op%d: the copy of instance %d differs from it at the moment of copying: %s is %s in the original and %s in the copy" % (e.op, src, fld, s.f.get(fld), e.f.get(fld))
        if e.name == "destroy":
            last_api.pop(e.inst, None)
        else:
            last_api[e.inst] = e
    return None


# ------------------------------------------------------------------------------------------ C14 (machine level)
def initial_state(cfg, events, case=None):
    """activation (automatic construction, or enter() under manual activation) enters the first declared state
    unless an entry guard of that very call redirected it"""
    for (inst, op), evs in ops_of(events):
        api = next((e for e in evs if e.kind == "api"), None)
        if api is None or any(e.kind == "rejected" for e in evs):
            continue
        if not (api.name == "enter" or (api.name == "construct" and not cfg.manual)):
            continue
        redirected = any(e.kind == "do" and e.method == "entryGuard" and e.text.split()[0] in ("changeTo", "changeWith") for e in evs)
        if not redirected and int(api.f["act"]) != 0:
            return "op%d: %s() activated state %s although no entry guard redirected the activation: the first declared state (0) is the initial state" % (op, api.name, api.f["act"])
    return None


def c14(cfg, events, case=None):
    v = initial_state(cfg, events, case)
    if v:
        return v
    for e in events:
        if e.kind == "cb" and int(e.f["id"]) != e.sid:
            return "a callback of state %d runs with a control whose stateId() is %s: %s" % (e.sid, e.f["id"], e.raw)
    return None


# ------------------------------------------------------------------------------------------ C15 (machine level)
def expected_layers(cfg, sid, m):
    row = cfg.n if sid == 255 else sid
    k = cfg.inj[row] if row < len(cfg.inj) else 0
    inj = ["I%d" % i for i in range(k)]
    if m in ("entryGuard", "enter", "reenter", "preUpdate", "update", "preReact", "react"):
        seq = inj + ["S"]
    elif m in ("postUpdate", "postReact", "exit"):
        seq = ["S"] + inj[::-1]
    elif m == "exitGuard":
        seq = inj[::-1] + ["S"]
    elif m == "query":
        seq = ["S"] + inj
    else:
        seq = ["S"]
    if not cfg.defined(sid, m):
        seq = [x for x in seq if x != "S"]
    return seq


def c15(cfg, events, case=None):
    """every delivery reaches each injection and the state's own callback exactly once, in the documented order:
    injections first (declaration order) for the entering / pre / main callbacks, the state first and the
    injections in reverse for exit / postUpdate / postReact"""
    cur, layers, first = None, [], None
    def check():
        if cur is None:
            return None
        exp = expected_layers(cfg, cur[4], cur[3])
        if layers != exp:
            return "op%d: %s of state %d reached the layers %s, expected %s: %s" % (cur[1], cur[3], cur[4], layers, exp, first)
        return None
    for e in events:
        if e.kind != "cb":
            if e.kind in ("api", "rejected"):
                v = check()
                if v:
                    return v
                cur, layers = None, []
            continue
        key = (e.inst, e.op, e.occ, e.method, e.sid)
        if key != cur:
            v = check()
            if v:
                return v
            cur, layers, first = key, [], e.raw
        layers.append(e.layer)
    return check()


# ------------------------------------------------------------------------------------------ metamorphic twins (implementation only)
def strip_logs(lines):
    return [l for l in lines if not l.startswith("log ")]


def twin_nolog(case):
    """the same case with no logger ever attached"""
    out = []
    for l in case:
        w = l.split()
        if l.startswith("op construct ") and len(w) >= 4:
            w[3] = "0"
        elif l.startswith("op attachLogger "):
            w[3] = "0"
        out.append(" ".join(w) if l.startswith("op ") else l)
    return out


def twin_fill(case, byte):
    out = []
    for l in case:
        w = l.split()
        if l.startswith("op construct ") and len(w) == 5:
            w[4] = str(byte)
        elif l.startswith("op copy ") and len(w) == 5:
            w[4] = str(byte)
        out.append(" ".join(w) if l.startswith("op ") else l)
    return out


def twin_copy(case, impl_lines=()):
    """for the first `copy j src` of the case: the history in which, instead of copying, the original itself
    receives what the copy receives afterwards.  Returns (twin case, j, src, op index of the copy, last compared op) or None"""
    idx = [k for k, l in enumerate(case) if l.startswith("op ")]
    ops = [case[k].split()[1:] for k in idx]
    rej = {int(l.split()[2][2:]) for l in impl_lines if l.startswith("rejected ")}
    kc = next((k for k, w in enumerate(ops) if w[0] == "copy" and k not in rej), None)
    if kc is None:
        return None
    j, src = int(ops[kc][1]), int(ops[kc][2])
    if j == src:
        return None
    two_inst = ("copy", "load", "replayFrom", "replayEnterFrom")
    new_ops, last = [list(w) for w in ops], kc
    new_ops[kc] = ["query", "99"]
    stop = False
    for k in range(kc + 1, len(ops)):
        w = ops[k]
        tgt = int(w[1])
        if stop:
            new_ops[k] = ["query", "99"]
            continue
        if tgt == j:
            if w[0] in two_inst or w[0] in ("construct", "destroy"):
                stop = True
                new_ops[k] = ["query", "99"]
                continue
            new_ops[k] = [w[0], str(src)] + w[2:]
            last = k
        elif tgt == src:
            new_ops[k] = ["query", "99"]
        elif w[0] in two_inst and len(w) > 2 and int(w[2]) in (j, src):
            new_ops[k] = ["query", "99"]
    if last == kc:
        return None
    out, opn = [], 0
    for l in case:
        if l.startswith("op "):
            out.append("op " + " ".join(new_ops[opn]))
            opn += 1
        elif l.startswith("beh "):
            w = l.split()
            bi, bo = int(w[1][1:]), int(w[2][2:])
            if bo > kc and bi == src:
                continue
            if bo > kc and bi == j:
                w[1] = "i%d" % src
                out.append(" ".join(w))
            else:
                out.append(l)
        else:
            out.append(l)
    return out, j, src, kc, last


def inst_view(lines, inst, lo, hi, rename=None):
    out = []
    for l in lines:
        w = l.split()
        if len(w) < 3 or w[0] not in ("cb", "do", "api", "rejected", "log"):
            continue
        if w[1] != "i%d" % inst:
            continue
        if w[0] == "log":
            continue
        o = int(w[2][2:])
        if lo < o <= hi:
            if rename is not None:
                w[1] = "i%d" % rename
            out.append(" ".join(w))
    return out


def twin_cases(prop, case, impl_lines):
    """the implementation-only twins of one case: list of (tag, twin case, meta)"""
    out = []
    if prop == "C16":
        if any(l.startswith("log ") for l in impl_lines):
            out.append(("nolog", twin_nolog(case), None))
    elif prop == "C17":
        for byte in (0, 255, 90):
            tc = twin_fill(case, byte)
            if tc != case:
                out.append(("fill", tc, byte))
                break       # one differing fill pattern per case (the case's own fills already vary)
        tw = twin_copy(case, impl_lines)
        if tw:
            out.append(("copy", tw[0], tw[1:]))
    return out


def twin_verdict(prop, tag, meta, case, impl_lines, t):
    if t is None:
        return None
    if tag == "nolog":
        a, b = strip_logs(impl_lines[1:]), strip_logs(t[1:])
        if a != b:
            k = next((q for q in range(min(len(a), len(b))) if a[q] != b[q]), min(len(a), len(b)))
            return "the same history runs differently with and without a logger attached; first difference: with logger '%s', without '%s'" % (
                a[k] if k < len(a) else "<end>", b[k] if k < len(b) else "<end>")
    elif tag == "fill":
        if t[1:] != impl_lines[1:]:
            k = next((q for q in range(1, min(len(t), len(impl_lines))) if t[q] != impl_lines[q]), min(len(t), len(impl_lines)))
            return "the same history behaves differently when the storage is pre-filled with byte %d; first difference: '%s' vs '%s'" % (
                meta, impl_lines[k] if k < len(impl_lines) else "<end>", t[k] if k < len(t) else "<end>")
    elif tag == "copy":
        j, src, kc, last = meta
        a = inst_view(impl_lines, j, kc, last, rename=src)
        b = inst_view(t, src, kc, last)
        if a != b:
            k = next((q for q in range(min(len(a), len(b))) if a[q] != b[q]), min(len(a), len(b)))
            return "after op%d (copy %d <- %d) the copy does not respond like the original would to the same calls; first difference: copy '%s', original '%s'" % (
                kc, j, src, a[k] if k < len(a) else "<end>", b[k] if k < len(b) else "<end>")
    return None


def metamorphic(prop, case, impl_lines, rerun):
    """implementation-only twins: returns a finding text or None"""
    if rerun is None:
        return None
    for tag, tc, meta in twin_cases(prop, case, impl_lines):
        v = twin_verdict(prop, tag, meta, case, impl_lines, rerun(tc))
        if v:
            return v
    return None


ORACLES = {"C01": c01, "C02": c02, "C03": c02, "C04": c04, "C05": c05, "C06": c06, "C11": c11, "C12": c12,
           "C14": c14, "C15": c15, "C07": c07, "C08": c08, "C09": c09, "C10": c10, "C16": c16, "C17": c17}
NEEDS_CASE = ("C02", "C03", "C06", "C07", "C08", "C09", "C10", "C11", "C12", "C14", "C15", "C16", "C17")


def run(prop, case, impl_lines, rerun=None):
    """`case`: the case's lines (or just its cfg line for the oracles that need nothing else)"""
    f = ORACLES.get(prop)
    if not f:
        return None
    try:
        if isinstance(case, str):
            cfg_line, case = case, None
        else:
            cfg_line = case[1]
        cfg, evs = Cfg(cfg_line), parse(impl_lines)
        if prop in NEEDS_CASE:
            if case is None and prop not in ("C02", "C03", "C06", "C11", "C12", "C14", "C15"):
                return None
            v = f(cfg, evs, case)
            return v or metamorphic(prop, case, impl_lines, rerun)
        return f(cfg, evs)
    except Exception as ex:   # an oracle crash must never become a false alarm
        import os
        if os.environ.get("VERIF_ORACLE_DEBUG"):
            raise
        return None
