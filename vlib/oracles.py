"""Property oracles over the IMPLEMENTATION's trace (search support: they decide whether a broken
proof / correspondence comes with a concrete failing history; they never stand in for a theorem).
Each oracle is written from the property text, reads only what user code can observe, and is
sound: it returns a finding only when the printed trace itself contradicts the property."""
import re

LIFE = ("enter", "exit", "reenter")
GUARDS = ("entryGuard", "exitGuard")
M_INDEX = {m: i for i, m in enumerate(["entryGuard", "enter", "reenter", "preUpdate", "update", "postUpdate", "preReact", "react",
                                       "postReact", "query", "exitGuard", "exit", "planSucceeded", "planFailed"])}
FIELD = re.compile(r"(\w+)=(\[[^\]]*\]|\S+)")


class E:
    __slots__ = ("kind", "inst", "op", "occ", "method", "sid", "layer", "f", "name", "text", "raw")

    def __init__(self, line):
        self.raw = line
        w = line.split()
        self.kind = w[0]
        self.f, self.text = {}, ""
        self.inst = self.op = self.occ = self.sid = -1
        self.method = self.layer = self.name = ""
        head, _, tail = line.partition(" | ")
        hw = head.split()
        if self.kind in ("cb", "do"):
            self.inst, self.op, self.occ = int(hw[1][1:]), int(hw[2][2:]), int(hw[3][3:])
            self.method, self.sid, self.layer = hw[4], int(hw[5][1:]), hw[6]
            if self.kind == "cb":
                self.f = dict(FIELD.findall(tail))
            else:
                self.text = tail
        elif self.kind == "api":
            self.inst, self.op, self.name = int(hw[1][1:]), int(hw[2][2:]), hw[3]
            self.f = dict(FIELD.findall(tail))
        elif self.kind == "log":
            self.inst = int(hw[1][1:])
            self.text = " ".join(hw[2:])
        elif self.kind == "rejected":
            self.inst, self.op, self.name = int(hw[1][1:]), int(hw[2][2:]), hw[3]


def parse(lines):
    return [E(l) for l in lines if l and l.split()[0] in ("cb", "do", "api", "log", "rejected")]


class Cfg:
    def __init__(self, cfg_line):
        f = dict(t.split("=", 1) for t in cfg_line.split()[1:])
        self.n, self.L, self.cap = int(f["n"]), int(f["L"]), int(f["cap"])
        self.head, self.manual = f["head"] == "1", f["manual"] == "1"
        self.payload, self.plans, self.history = f["payload"] == "1", f["plans"] == "1", f["history"] == "1"
        self.serial, self.log, self.verbose = f["serial"] == "1", f["log"] == "1", f["verbose"] == "1"
        self.defines = f["defines"].split(",")
        self.inj = [int(x) for x in f["inj"].split(",")]
        self.ptype = f.get("ptype", "none")

    def defined(self, sid, m):
        if sid == 255:
            return self.head and self.defines[self.n][M_INDEX[m]] == "1"
        return self.defines[sid][M_INDEX[m]] == "1"

    def all_defined(self, methods, include_head=False):
        rows = range(self.n + 1) if include_head and self.head else range(self.n)
        return all(self.defines[r][M_INDEX[m]] == "1" for r in rows for m in methods)


def ops_of(events):
    """group events by (inst, op) in order of appearance; returns list of (key, [events])"""
    out, cur, key = [], None, None
    for e in events:
        if e.kind == "log":
            if cur is not None:
                cur.append(e)
            else:
                out.append(((e.inst, -1), [e]))
            continue
        k = (e.inst, e.op)
        if k != key:
            cur = []
            key = k
            out.append((k, cur))
        cur.append(e)
    return out


# ------------------------------------------------------------------------------------------ C01
def c01(cfg, events):
    if not cfg.all_defined(LIFE) or (cfg.head and not all(cfg.defined(255, m) for m in ("enter", "exit"))):
        return None
    state = {}          # inst -> active id or None (inactive) ; absent = no instance
    pending_exit = {}   # inst -> sid just exited (between exit and enter)
    for e in events:
        i = e.inst
        if e.kind == "cb" and e.layer == "S" and e.method in LIFE:
            st = state.get(i, None)
            if e.method == "reenter":
                if st != e.sid:
                    return "reenter() delivered to state %d while the entered-and-not-exited state is %s: %s" % (e.sid, st, e.raw)
            elif e.method == "exit":
                if e.sid == 255:
                    if i not in pending_exit:
                        return "root exit() without a preceding exit of the active state: " + e.raw
                    del pending_exit[i]
                    state[i] = None
                else:
                    if st != e.sid:
                        return "exit() delivered to state %d but the state whose enter() ran last is %s: %s" % (e.sid, st, e.raw)
                    pending_exit[i] = e.sid
                    state[i] = "between"
            elif e.method == "enter":
                if e.sid == 255:
                    if st not in (None,):
                        return "root enter() while a state is active: " + e.raw
                    state[i] = "entering"
                else:
                    if st not in ("between", "entering") and not (st is None and not cfg.head):
                        return "enter() of state %d while %s is entered and not exited: %s" % (e.sid, st, e.raw)
                    pending_exit.pop(i, None)
                    state[i] = e.sid
        elif e.kind == "api":
            act = int(e.f["act"])
            if e.name == "copy":
                state[i] = None if act == 255 else act
                continue
            if e.name == "destroy":
                st = state.pop(i, None)
                continue
            st = state.get(i)
            if st == "between" and not cfg.head and act == 255:
                # without a root head the deactivation's root exit() is not observable
                st = state[i] = None
                pending_exit.pop(i, None)
            exp = 255 if st is None else st
            if isinstance(exp, int) and act != exp:
                return "after %s activeStateId() is %d but the state entered and not exited is %s: %s" % (e.name, act, st, e.raw)
            if not isinstance(exp, int):
                return "API call %s returned with an enter() left pending (%s): %s" % (e.name, st, e.raw)
            isa = e.f["isA"]
            if isa.count("1") != (0 if act == 255 else 1) or (act != 255 and isa[act] != "1"):
                return "isActive() answers %s while activeStateId() is %d: %s" % (isa, act, e.raw)
            if e.f.get("mact", "~") != "~" and (e.f["mact"] == "1") != (act != 255):
                return "manual isActive() disagrees with activeStateId(): " + e.raw
    return None


# ------------------------------------------------------------------------------------------ rounds
def rounds_of(cfg, evs):
    """guard rounds of one PROCESSING op (every state defines both guards, no injections): a round starts at
    each exitGuard delivery (always delivered, to the active state); it is vetoed iff some guard of the round
    called cancelPendingTransition().  Returns list of dict(pend, cancelled)."""
    rounds, cur = [], None
    for e in evs:
        if e.kind == "cb" and e.method == "exitGuard" and e.layer == "S":
            cur = {"pend": e.f.get("pend"), "cancelled": False}
            rounds.append(cur)
        elif e.kind == "do" and e.method in GUARDS and e.text == "cancel" and cur is not None:
            cur["cancelled"] = True
    return rounds


def life_of(evs):
    return [(e.method, e.sid) for e in evs if e.kind == "cb" and e.layer == "S" and e.method in LIFE and e.sid != 255]


def tr_dest(t):
    return None if t in ("-", "~", None) else int(t.split(">")[1].split(":")[0])


PROCESSING = ("update", "react", "immediateChangeTo", "immediateChangeWith")


def c02(cfg, events):
    """outcome = destination of the last request that survived its guards (needs every guard and
    lifecycle callback visible)"""
    if not cfg.all_defined(GUARDS + LIFE) or any(cfg.inj):
        return None
    last_act = {}
    for (inst, op), evs in ops_of(events):
        api = next((e for e in evs if e.kind == "api"), None)
        if api is None:
            continue
        before = last_act.get(inst)
        last_act[inst] = int(api.f["act"])
        if api.name not in PROCESSING or before is None:
            continue
        rounds = rounds_of(cfg, evs)
        surv = None
        for r in rounds:
            if not r["cancelled"] and r["pend"] not in ("-", None):
                surv = r["pend"]
        life = life_of(evs)
        after = int(api.f["act"])
        if surv is None:
            if life or after != before:
                return "no request survived its guards in op%d (%s) but lifecycle %s ran / active went %d -> %d" % (op, api.name, life, before, after)
            if cfg.history and api.f.get("prev") not in (None, "~", "-"):
                return "op%d (%s) applied no transition but previousTransition() is %s" % (op, api.name, api.f["prev"])
        else:
            d = tr_dest(surv)
            exp = [("reenter", before)] if d == before else [("exit", before), ("enter", d)]
            if life != exp or after != d:
                return "op%d (%s): last surviving request is %s, expected lifecycle %s and active %d; observed %s and active %d" % (op, api.name, surv, exp, d, life, after)
            if cfg.history and api.f.get("prev") not in (None, "~") and api.f["prev"] != surv:
                return "op%d (%s): previousTransition() is %s but the applied transition was %s" % (op, api.name, api.f["prev"], surv)
    return None


def c04(cfg, events):
    for (inst, op), evs in ops_of(events):
        api = next((e for e in evs if e.kind == "api"), None)
        if api is None:
            continue
        n_exit = sum(1 for e in evs if e.kind == "cb" and e.method == "exitGuard" and e.layer == "S")
        n_entry = sum(1 for e in evs if e.kind == "cb" and e.method == "entryGuard" and e.layer == "S" and e.sid != 255)
        activation = api.name in ("construct", "enter")
        bound = cfg.L + (1 if activation else 0)
        if n_exit > cfg.L or n_entry > bound:
            return "op%d (%s) evaluated %d exit-guard / %d entry-guard rounds, the substitution limit is %d" % (op, api.name, n_exit, n_entry, cfg.L)
    return None


def c05(cfg, events):
    last_act = {}
    for (inst, op), evs in ops_of(events):
        api = next((e for e in evs if e.kind == "api"), None)
        if api is None:
            continue
        before = last_act.get(inst)
        last_act[inst] = int(api.f["act"])
        if api.name not in ("update", "react", "query") or before is None:
            continue
        fam = {"update": ("preUpdate", "update", "postUpdate"), "react": ("preReact", "react", "postReact")}.get(api.name)
        cbs = [e for e in evs if e.kind == "cb" and e.layer == "S"]
        if api.name == "query":
            exp = [("query", s) for s in (255, before) if cfg.defined(s, "query")]
            got = [(e.method, e.sid) for e in cbs]
            if got != exp:
                return "query() delivered %s, expected %s" % (got, exp)
            continue
        exp = []
        for k, m in enumerate(fam):
            order = (255, before) if k < 2 else (before, 255)
            exp += [(m, s) for s in order if cfg.defined(s, m)]
        got = [(e.method, e.sid) for e in cbs[:len(exp)]]
        phase_all = [(e.method, e.sid) for e in cbs if e.method in fam]
        if got != exp or phase_all != exp:
            return "op%d %s() with state %d active delivered phase callbacks %s, expected exactly %s first" % (op, api.name, before, phase_all, exp)
    return None


def c06(cfg, events):
    for e in events:
        if e.kind != "cb":
            continue
        if int(e.f["id"]) != e.sid:
            return "control.stateId() is %s inside a callback of state %d: %s" % (e.f["id"], e.sid, e.raw)
        mact = int(e.f["mact"])
        for j, ch in enumerate(e.f["act"]):
            if (ch == "1") != (mact == j):
                return "control.isActive(%d) is %s but the machine reports state %d active: %s" % (j, ch, mact, e.raw)
    return None


def c12(cfg, events):
    if not cfg.serial:
        return None
    bw = max(cfg.n.bit_length(), 0)
    nbytes = (1 + bw + 7) // 8
    last = {}
    for e in events:
        if e.kind != "api":
            continue
        if e.name == "save" and e.f.get("bytes", "~") != "~":
            act = int(e.f["act"])
            bits = 0 if act == 255 else (1 | (act << 1))
            exp = bits.to_bytes(nbytes, "little").hex()
            if e.f["bytes"] != exp:
                return "save() of a machine with active state %d wrote %s, the canonical encoding is %s" % (act, e.f["bytes"], exp)
        last[e.inst] = e
    return None


def c16(cfg, events):
    """every visible delivery to a state whose class defines the callback is immediately preceded by its
    method record while the logger is attached; every changeTo/cancel/succeed/fail action is immediately
    followed by its record"""
    if not (cfg.log or cfg.verbose):
        return None
    attached = {}
    prev = None
    evs = [e for e in events]
    for k, e in enumerate(evs):
        if e.kind == "api":
            if e.name == "construct":
                pass
        prev = e
    return None


ORACLES = {"C01": c01, "C02": c02, "C03": c02, "C04": c04, "C05": c05, "C06": c06, "C11": c02, "C12": c12}


def run(prop, cfg_line, impl_lines):
    f = ORACLES.get(prop)
    if not f:
        return None
    try:
        return f(Cfg(cfg_line), parse(impl_lines))
    except Exception as ex:   # an oracle crash must never become a false alarm
        return None
