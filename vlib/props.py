"""Property registry and the per-run orchestration (DESIGN.md §8)."""
import json, os, random, time
from concurrent.futures import ThreadPoolExecutor
from . import common as C
from . import containers as K
from . import structure as S
from . import machine as MM
from . import platform as P
from . import oracles as O
from . import gen_machine as G
from . import corpus as CORPUS
import re


class Context:
    def __init__(self, prop, tier, seed, replay):
        self.prop, self.tier, self.seed, self.replay = prop, tier, seed, replay
        self.rng = random.Random(seed * 1000003 + int(prop[1:]))
        self.stats = {"evaluations": 0, "lines": 0, "distinct": set(), "engines": {}}
        self.samples = []
        self.disagreements = []      # model vs implementation
        self.failures = []           # property oracle rejected the implementation's behaviour (concrete)
        self.broken = []             # proof obligations / translator groups that no longer check
        self.notes = []
        self.extra = {}
        self.changed_units = []      # modelled source units whose text changed since the model was validated (advisory)
        self.changed_constructs = [] # translated constructs that could not be regenerated / were regenerated differently (advisory)
        self.t0 = time.time()

    @property
    def thorough(self):
        return self.tier == "thorough"

    @property
    def widen(self):
        """search harder: an obligation is broken, or the source of a modelled unit changed"""
        return bool(self.broken) or bool(self.changed_units) or bool(self.changed_constructs)


# ------------------------------------------------------------------------------------------------
class Spec:
    def __init__(self, module, groups, run, level="proof", partial=None, explanation=None, extra=()):
        self.module, self.groups, self.run, self.level, self.partial = module, groups, run, level, partial
        self.explanation = explanation
        self.extra = extra      # further theorem modules; only their `<prop>_...` theorems belong to this property


def container_run(engines):
    def f(ctx):
        caps_all = sorted({c for e in engines for c in (K.THOROUGH_CAPS if ctx.thorough else K.QUICK_CAPS)[e]})
        # split capacities over several translation units so they compile in parallel
        chunks = [caps_all[i::8] for i in range(8)] if ctx.thorough else [caps_all]
        chunks = [c for c in chunks if c]
        with ThreadPoolExecutor(max_workers=C.NCPU) as ex:
            built = list(ex.map(lambda cs: (cs, K.build(cs, tag="containers")), chunks))
        exes = []
        for cs, (exe, logtxt) in built:
            if exe is None:
                ctx.failures.append({"what": "container harness does not compile against the current headers", "log": logtxt[-1500:]})
                return
            exes.append((set(cs), exe))
        for e in engines:
            caps = (K.THOROUGH_CAPS if ctx.thorough else K.QUICK_CAPS)[e]
            for capset, exe in exes:
                mine = [c for c in caps if c in capset]
                if not mine:
                    continue
                if e == "bitstream":
                    cases = K.gen_bitstream(ctx.rng, mine, 12 if ctx.thorough else 25, exhaustive=True)
                elif e == "bitarray":
                    cases = K.gen_bitarray(ctx.rng, mine, 20 if ctx.thorough else 30, 40)
                elif e == "static":
                    cases = K.gen_static(ctx.rng, mine, 10)
                elif e == "dynamic":
                    cases = K.gen_dynamic(ctx.rng, mine, 10)
                elif e == "tasklist":
                    cases = K.gen_tasklist(ctx.rng, mine, 60 if ctx.thorough else 40, 60)
                dis, fail = K.correspond(e, cases, exe, ctx.stats)
                # minimise what was found (implementation side only)
                for f_ in fail[:3]:
                    if "case" in f_:
                        orc = K.ORACLES[e]
                        f_["minimal_case"] = K.minimise(exe, e, f_["case"], lambda c, o: len(o) == len(c) and orc(c, o) is not None)
                ctx.disagreements += dis
                ctx.failures += fail
                if cases and len(ctx.samples) < 4:
                    c0 = ctx.rng.choice(cases)
                    ctx.samples.append({"engine": e, "ops": c0[:12], "n_ops": len(c0)})
        # sanitizer pass on a subset (supporting; C18 owns the full sanitizer claim)
        ctx.extra["capacities"] = {e: (K.THOROUGH_CAPS if ctx.thorough else K.QUICK_CAPS)[e] for e in engines}
    return f


def c14_run(ctx):
    if ctx.thorough:
        ns = [(n, n % 2) for n in range(1, 256)] + [(255, 0), (254, 1), (2, 0), (1, 1)]
    else:
        ns = [(n, n % 2) for n in list(range(1, 11)) + [15, 16, 17, 31, 32, 33, 129]] + [(2, 0), (3, 1)]
        if ctx.widen:
            # a proof obligation / translated definition no longer checks: widen the search for a concrete failing input
            ns += [(64, 0), (128, 1), (200, 1), (255, 0)]
    ns = sorted(set(ns))
    with ThreadPoolExecutor(max_workers=C.NCPU) as ex:
        results = list(ex.map(lambda a: (a, S.run_dispatch(*a)), ns))
    C.prune_cache()
    for (n, head), (problems, dis, sample) in results:
        ctx.stats["evaluations"] += n
        ctx.stats["distinct"].add("N=%d head=%d" % (n, head))
        for p in problems:
            ctx.failures.append({"what": p, "replay_cmd": "vlib.structure.run_dispatch(%d, %d)" % (n, head)})
        for d in dis:
            ctx.disagreements.append({"what": d})
        if sample and len(ctx.samples) < 3 and n in (5, 33, 255, 17):
            ctx.samples.append(sample)
    ctx.extra["state_counts"] = sorted({n for n, _ in ns})
    ctx.stats["engines"]["dispatch"] = len(ns)
    # machine level: the first declared state is the initial state after every (re)activation, ids inside callbacks
    machine_run("C14", ("random", "reactivate"))(ctx)


def c15_run(ctx):
    ks = [(0, 0), (1, 1), (2, 0), (3, 2), (6, 6)] + ([(4, 1), (5, 3), (8, 8), (12, 2), (16, 16)] if ctx.thorough else [])
    ks = sorted(set(ks))
    with ThreadPoolExecutor(max_workers=C.NCPU) as ex:
        results = list(ex.map(lambda a: (a, S.run_ancestors(*a)), ks))
    C.prune_cache()
    for (k, hk), (problems, dis, sample, n) in results:
        ctx.stats["evaluations"] += n
        ctx.stats["distinct"].add("k=%d head_k=%d" % (k, hk))
        for p in problems:
            ctx.failures.append({"what": p, "replay_cmd": "vlib.structure.run_ancestors(%d, %d)" % (k, hk)})
        for d in dis:
            ctx.disagreements.append({"what": d})
        if sample and len(ctx.samples) < 3:
            ctx.samples.append(sample)
    ctx.extra["injection_counts"] = ks
    ctx.stats["engines"]["ancestors"] = len(ks)
    # machine level: layer order of every delivery in generated histories (task reports, requests and vetoes made from
    # any layer), on configurations whose states carry injections
    machine_run("C15")(ctx)


BIAS = {
    "C02": {"p_act": 0.35}, "C03": {"p_act": 0.4, "pass": 0.3}, "C04": {"p_act": 0.45, "pass": 0.15},
    "C05": {"menu": {"update": 40, "react": 25, "query": 12}},
    "C08": {"menu": {"planAppend": 30, "succeed": 20, "fail": 4, "update": 40}},
    "C09": {"menu": {"planAppend": 25, "succeed": 14, "fail": 12, "update": 40, "planClear": 4}},
    "C10": {"menu": {"planAppend": 40, "planRemove": 12, "planClear": 5, "succeed": 10, "update": 25}},
    "C12": {"menu": {"save": 8, "load": 16, "copy": 5, "construct": 5, "exit": 6, "enter": 6}},
    "C15": {"p_act": 0.4, "menu": {"update": 40, "react": 25, "succeed": 4, "planAppend": 6}},
    "C16": {"menu": {"attachLogger": 8}},
    "C17": {"menu": {"copy": 10, "construct": 4, "destroy": 3}},
    "C11": {"menu": {"replayTransition": 6, "copy": 5}},
}


def machine_run(prop, streams=("random",)):
    def f(ctx):
        cfgs = MM.thorough_configs(ctx.rng) if ctx.thorough else MM.quick_configs(ctx.rng)
        if prop == "C15":
            cfgs = [c for c in cfgs if any(c.inj)] + [G.Config(2, L=2, cap=2, head=True, payload="none", ctx="ref", inj=[2, 1, 1]),
                                                     G.Config(3, L=3, cap=3, head=False, manual=True, payload="u8", ctx="value", inj=[1, 3, 0, 0])]
        if prop == "C04" and (ctx.thorough or ctx.widen):
            # the largest limit the id type allows, with guards that redirect forever
            cfgs = cfgs + [G.Config(2, L=255, cap=2, head=False, payload="none", ctx="ref"),
                           G.Config(3, L=255, cap=1, head=True, manual=True, payload="none", ctx="ref")]
        # C17 (behaviour must not depend on anything but the history): the same configurations also under other
        # compilers / optimisation levels — an uninitialised read typically shows up as a difference between them
        toolchains = [("g++", "-O1")]
        if prop == "C17" and (ctx.thorough or ctx.widen):
            toolchains += [("clang++-14", "-O2"), ("g++", "-O2"), ("clang++-14", "-O0")]
        jobs = [(c, cxx, opt) for (cxx, opt) in toolchains for c in (cfgs if (cxx, opt) == toolchains[0] else cfgs[:5])]
        with ThreadPoolExecutor(max_workers=C.NCPU) as ex:
            built = list(ex.map(lambda j: MM.build(j[0], cxx=j[1], opt=j[2]), jobs))
        ctx.extra["toolchains"] = ["%s %s" % t for t in toolchains]
        cfgs_run = [j[0] for j in jobs]
        ncase = 400 if ctx.thorough else (250 if ctx.widen else 90)
        for cfg, (exe, logtxt) in zip(cfgs_run, built):
            if exe is None:
                ctx.failures.append({"what": "machine harness does not compile against the current headers for " + cfg.cfg_line(),
                                     "log": "\n".join([l for l in logtxt.split("\n") if "error" in l][:12])})
                continue
            cases = []
            if "random" in streams:
                cases += [MM.gen_case(ctx.rng, cfg, "r%d" % k, ctx.rng.randint(8, 24), BIAS.get(prop)) for k in range(ncase)]
            if "pingpong" in streams:
                cases += [MM.pingpong_case(ctx.rng, cfg, "pp%d" % k) for k in range(ncase // 4)]
            if "planveto" in streams and cfg.plans:
                cases += [MM.plan_veto_case(ctx.rng, cfg, "pv%d" % k) for k in range(ncase // 2)]
            if "statusfirst" in streams and cfg.plans:
                cases += [MM.statusfirst_case(ctx.rng, cfg, "sf%d" % k) for k in range(ncase // 2)]
            if "reactivate" in streams and cfg.plans:
                cases += [MM.reactivation_case(ctx.rng, cfg, "ra%d" % k) for k in range(ncase // 2)]
            if "replica" in streams and cfg.history:
                cases += [MM.replica_case(ctx.rng, cfg, "rep%d" % k, ctx.rng.randint(4, 14)) for k in range(ncase // 2)]
            rc_i, ci, rc_m, cm = MM.run_cases(exe, cases, timeout=(240 if ctx.thorough else 60) * (2 if cfg.L == 255 else 1))
            ctx.stats["programs"] = ctx.stats.get("programs", 0) + 1
            if rc_i == -999:
                bad = cases[len(ci) - 1] if 0 < len(ci) <= len(cases) else None
                ctx.failures.append({"what": "an API call of the implementation did not return (non-termination) in case %d of %d" % (len(ci), len(cases)),
                                     "case": bad, "cfg": cfg.cfg_line(), "last_output": (ci[-1][-4:] if ci else [])})
                continue
            if rc_i != 0 or len(ci) != len(cases):
                bad = cases[len(ci) - 1] if 0 < len(ci) <= len(cases) else None
                ctx.failures.append({"what": "implementation harness crashed (rc=%d) after %d of %d cases" % (rc_i, len(ci), len(cases)),
                                     "case": bad, "cfg": cfg.cfg_line()})
                continue
            if rc_m != 0 or len(cm) != len(cases):
                ctx.disagreements.append({"what": "model driver stopped after %d of %d cases" % (len(cm), len(cases)), "cfg": cfg.cfg_line()})
                continue
            ndis = 0
            # implementation-only twin runs (C16 / C17), all in one batch: every case in thorough, a third in quick
            twin_out, twin_plan = None, {}
            if prop in ("C16", "C17"):
                flat = []
                for kk, (case, a) in enumerate(zip(cases, ci)):
                    tw = O.twin_cases(prop, case, a) if (ctx.thorough or ctx.widen or kk % 3 == 0) else []
                    twin_plan[id(case)] = tw
                    flat += [(id(case), tc) for (_, tc, _) in tw]
                if flat:
                    try:
                        rc_t, out_t = C.run_lines([exe], [l for _, tc in flat for l in tc], timeout=240 if ctx.thorough else 60)
                    except Exception:
                        rc_t, out_t = -1, []
                    outs = MM.split_cases(out_t)
                    twin_out = {}
                    if rc_t == 0 and len(outs) == len(flat):
                        for (cid, _), o in zip(flat, outs):
                            twin_out.setdefault(cid, []).append(o)
                        ctx.stats["twin_runs"] = ctx.stats.get("twin_runs", 0) + len(flat)
                    else:
                        ctx.failures.append({"what": "a twin run of the implementation (same history, other logger / fill / copy arrangement) crashed or hung (rc=%s after %d of %d twins)" % (rc_t, len(outs), len(flat)), "cfg": cfg.cfg_line()})
            for case, a, b in zip(cases, ci, cm):
                ctx.stats["evaluations"] += 1
                ctx.stats["lines"] += len(a)
                if MM.lifecycle_count(a) > 2:
                    ctx.stats["distinct"].add(hash(tuple(a[1:])))
                MM.distribution(ctx.stats, a)
                for l in a:
                    if MM.fail_marker(prop, l):
                        ctx.failures.append({"what": l, "case": case, "cfg": cfg.cfg_line()})
                        break
                rerun = (lambda c, _exe=exe: (MM.run_impl(_exe, c) or None))
                v = O.run(prop, case, MM.clean(a), None)
                if not v and twin_out is not None:
                    for (tag, tc, meta), t in zip(twin_plan[id(case)], twin_out.get(id(case), [])):
                        v = O.twin_verdict(prop, tag, meta, case, a, t)
                        if v:
                            break
                if v and sum(1 for f_ in ctx.failures if "oracle" in f_) < 2:
                    def still(c, _exe=exe, _rerun=rerun):
                        r = MM.run_impl(_exe, c)
                        return bool(r) and O.run(prop, c, r, _rerun) is not None
                    mc = MM.minimise_case(exe, case, prop, still)
                    r = MM.run_impl(exe, mc)
                    ctx.failures.append({"oracle": prop, "what": O.run(prop, mc, r, rerun) or v, "minimal_case": mc, "cfg": cfg.cfg_line(),
                                         "impl_trace": r[-14:]})
                if prop == "C11" and case[0].startswith("case rep"):
                    v = MM.oracle_replica(a)
                    if v:
                        ctx.failures.append({"what": v, "case": MM.minimise_case(exe, case, prop, lambda c: bool(MM.oracle_replica((MM.run_cases(exe, [c])[1] or [[]])[0]))), "cfg": cfg.cfg_line()})
                pa, pb = MM.projected(prop, a), MM.projected(prop, b)
                if pa != pb:
                    ndis += 1
                    if ndis <= 2 and len(ctx.disagreements) < 4:
                        mc = MM.minimise_case(exe, case, prop)
                        rc2, mi, rc3, mm_ = MM.run_cases(exe, [mc])
                        ia, ib = MM.projected(prop, mi[0]) if mi else [], MM.projected(prop, mm_[0]) if mm_ else []
                        k = next((j for j in range(min(len(ia), len(ib))) if ia[j] != ib[j]), min(len(ia), len(ib)))
                        ctx.disagreements.append({"cfg": cfg.cfg_line(), "minimal_case": mc, "first_difference_at_projected_line": k,
                                                  "impl": ia[max(0, k - 3):k + 2], "model": ib[max(0, k - 3):k + 2]})
                    else:
                        ctx.disagreements.append({"cfg": cfg.cfg_line()[:60], "case": case[0]}) if len(ctx.disagreements) < 12 else None
            if len(ctx.samples) < 3 and cases:
                c0 = ctx.rng.choice(cases)
                ctx.samples.append({"cfg": cfg.cfg_line()[:120], "beh": [l for l in c0 if l.startswith("beh ")][:4], "ops": [l for l in c0 if l.startswith("op ")][:14]})
        ctx.extra["distribution"] = ctx.stats.get("dist", {})
        ctx.extra["configurations"] = [c.cfg_line()[:110] for c in cfgs]
        ctx.extra["programs"] = ctx.stats.get("programs", 0)
        ctx.extra["disagreements_checked"] = len(ctx.disagreements)
    return f


def c10_run(ctx):
    container_run(["tasklist"])(ctx)
    machine_run("C10", ("random", "planveto"))(ctx)


def neutral_projection(lines):
    out = []
    for l in lines:
        if l.startswith("log "):
            continue
        l = re.sub(r" (plan|prev|bytes)=\S*( \S+\])?", "", re.sub(r"plan=\[[^\]]*\]", "plan=_", l))
        l = re.sub(r" (plan|prev|bytes)=\S+", "", l)
        out.append(l)
    return out


def c19_run(ctx):
    # (i) compile matrix
    if ctx.thorough:
        comps, stds = ["g++", "clang++-14"], ["c++11", "c++14", "c++17", "c++20"]
        ok, fails, n = P.compile_matrix(comps, stds)
    else:
        ok, fails, n = P.compile_matrix(["g++"], ["c++11"])
        ok2, fails2, n2 = P.compile_matrix(["clang++-14"], ["c++20"])
        ok, fails, n = ok + ok2, fails + fails2, n + n2
    ctx.extra["compile_matrix"] = {"compiled": n, "ok": ok}
    ctx.stats["evaluations"] += n
    for f in fails[:3]:
        ctx.failures.append({"what": "switch combination does not compile: %s -std=%s %s" % (f["compiler"], f["std"], f["switches"]),
                             "errors": f["errors"], "replay_cmd": f["replay_cmd"], "failing_combinations": len(fails)})
    # (i') every public member can be instantiated, linked and run
    na, afails = P.api_complete(ctx.thorough)
    ctx.extra["api_complete"] = {"builds": na, "failed": len(afails)}
    ctx.stats["evaluations"] += na
    for f in afails[:2]:
        ctx.failures.append(f)
    # (iii) amalgamation
    j = P.join_check()
    ctx.extra["amalgamation_identical"] = j is None
    if j:
        ctx.failures.append(j)
    # (ii) feature neutrality: a scenario that uses the feature set U (nothing, one or several of plans / history /
    # serialization) must run identically under every superset of U — enabling a switch the program does not use
    # never changes what it observes.  Projection: log records and the fields of unused features are dropped.
    import itertools
    nvariants = 0
    FEATS = ("plans", "history", "serial", "log")
    off_menu = {"plans": ("succeed", "fail", "planAppend", "planClear", "planRemove"), "history": ("replayTransition", "replayEnter"),
                "serial": ("save", "load"), "log": ("attachLogger",)}

    def projection(lines, used):
        out = []
        for l in lines:
            if l.startswith("log "):
                continue
            for fld, feat in (("plan", "plans"), ("prev", "history"), ("bytes", "serial")):
                if feat not in used:
                    l = re.sub(r" %s=(\[[^\]]*\]|\S+)" % fld, "", l)
            out.append(l)
        return out

    # (programs that use two features at once, too: a switch the program does not use may sit between the code of two
    #  features it does use — seed C19e moved load()'s plan reset inside the history `#if`)
    # (the final exit is only visible under manual activation: seed C19g chained two feature blocks of finalExit() with #elif)
    scenarios = [((), False), ((), True), (("plans",), False), (("history",), False), (("history",), True), (("serial",), True),
                 (("plans", "serial"), False)]
    if ctx.thorough or ctx.widen:
        scenarios += [(("plans",), True), (("serial",), False), (("plans", "serial"), True),
                      (("plans", "history"), False), (("history", "serial"), True), (("plans", "history", "serial"), False)]
    extras = [(), ("FFSM2_ENABLE_STRUCTURE_REPORT",), ("FFSM2_ENABLE_DEBUG_STATE_TYPE",), ("FFSM2_DISABLE_TYPEINDEX",),
              ("FFSM2_ENABLE_STRUCTURE_REPORT", "FFSM2_ENABLE_DEBUG_STATE_TYPE", "FFSM2_DISABLE_TYPEINDEX")]
    cases = []
    for used, manual in scenarios:
        base = dict(n=3, L=3, cap=5, head=True, payload="u8", ctx="ref", manual=manual)
        others = [f for f in FEATS if f not in used]
        subsets = [c for r in range(len(others) + 1) for c in itertools.combinations(others, r)]
        if not ctx.thorough:
            if used:
                subsets = [(), tuple(others)] + [(o,) for o in others if o != "log"]
            else:
                subsets = [c for k, c in enumerate(subsets) if k in (0, 1, 2, 3, 4, 15, 6, 9)]
        variants = []
        for k, extra_on in enumerate(subsets):
            on = set(used) | set(extra_on)
            variants.append(G.Config(plans="plans" in on, history="history" in on, serial="serial" in on, log="log" in on,
                                     extra_defs=extras[k % len(extras)] if (ctx.thorough or (not used and k < 5)) else (), **base))
        nvariants += len(variants)
        gen_cfg = G.Config(plans="plans" in used, history="history" in used, serial="serial" in used, log=False, **base)
        menu = {"exit": 10, "enter": 12, "changeTo": 14}
        for f in FEATS:
            if f not in used:
                for m in off_menu[f]:
                    menu[m] = 0
        if "plans" in used:
            menu.update({"planAppend": 30, "succeed": 12, "update": 30})
        if "serial" in used:
            menu.update({"save": 10, "load": 10, "copy": 4})
        cases = [MM.gen_case(ctx.rng, gen_cfg, "n%d" % k, ctx.rng.randint(8, 20), {"menu": menu}) for k in range(120 if ctx.thorough else 40)]
        with ThreadPoolExecutor(max_workers=C.NCPU) as ex:
            built = list(ex.map(MM.build, variants))
        ref = None
        for v, (exe, logtxt) in zip(variants, built):
            if exe is None:
                ctx.failures.append({"what": "machine harness does not compile under " + v.cfg_line()[:100] + " " + str(v.extra_defs),
                                     "log": "\n".join([l for l in logtxt.split("\n") if "error" in l][:8])})
                continue
            vc = [[c[0], v.cfg_line()] + c[2:] for c in cases]
            rc_i, ci, rc_m, cm = MM.run_cases(exe, vc, timeout=120)
            ctx.stats["programs"] = ctx.stats.get("programs", 0) + 1
            pi = [projection(x, used) for x in ci]
            pm = [projection(x, used) for x in cm]
            ctx.stats["evaluations"] += len(ci)
            for x in pi:
                ctx.stats["distinct"].add(hash(tuple(x)))
            if ref is None:
                ref = (v, pi, exe)
            else:
                for k, (a, b) in enumerate(zip(ref[1], pi)):
                    if a != b:
                        j = next((q for q in range(min(len(a), len(b))) if a[q] != b[q]), 0)
                        def still(c, _e1=ref[2], _e2=exe, _v0=ref[0], _v=v, _u=used):
                            r1 = MM.run_cases(_e1, [[c[0], _v0.cfg_line()] + c[2:]], timeout=60)[1]
                            r2 = MM.run_cases(_e2, [[c[0], _v.cfg_line()] + c[2:]], timeout=60)[1]
                            return bool(r1) and bool(r2) and projection(r1[0], _u) != projection(r2[0], _u)
                        mc = MM.minimise_case(exe, vc[k], "C19", still)
                        ctx.failures.append({"what": "enabling features the program does not use changes what it observes (features used by the scenario: %s)" % (list(used) or "none"),
                                             "base": ref[0].cfg_line()[:110], "variant": v.cfg_line()[:110] + " " + str(v.extra_defs), "minimal_case": mc,
                                             "base_trace": a[max(0, j - 2):j + 2], "variant_trace": b[max(0, j - 2):j + 2]})
                        break
            for k, (a, b) in enumerate(zip(pi, pm)):
                if a != b:
                    ctx.disagreements.append({"cfg": v.cfg_line()[:110], "case": vc[k][0]})
                    break
    variants = list(range(nvariants))
    ctx.extra["feature_variants"] = len(variants)
    if len(ctx.samples) < 2:
        ctx.samples.append({"ops": [l for l in cases[0] if l.startswith("op ")][:12], "variants": nvariants})
    C.prune_cache()


def memcheck_pass(ctx, mc_cfgs):
    """the machine harness under valgrind memcheck, the memory an instance is built over marked indeterminate ("no read
    of an indeterminate value", C18; "never of the prior contents of the memory", C17): a never-initialised member or
    stack temporary that is later read is reported at the read, whatever byte happens to be there"""
    import shutil
    if shutil.which("valgrind") is None or not os.path.exists("/usr/include/valgrind/memcheck.h"):
        ctx.extra["memcheck"] = "valgrind (or its client-request header) is not installed: pass skipped"
        return
    def memcheck_one(cfg):
        exe, logtxt = MM.build(cfg, memcheck=True)
        if exe is None:
            return {"what": "memcheck machine harness does not compile: " + cfg.cfg_line()[:100], "log": "\n".join([l for l in logtxt.split("\n") if "error" in l][:8])}, 0
        import zlib
        rng = random.Random(ctx.seed * 7919 + zlib.crc32(cfg.cfg_line().encode()) % 10007)
        cases = [MM.gen_case(rng, cfg, "m%d" % k, rng.randint(8, 24)) for k in range(60 if ctx.thorough else 18)]
        if cfg.plans:
            cases += [MM.statusfirst_case(rng, cfg, "msf%d" % k) for k in range(16 if ctx.thorough else 5)]
            cases += [MM.reactivation_case(rng, cfg, "mra%d" % k) for k in range(16 if ctx.thorough else 5)]

        def vg(cs, t=600):
            import subprocess
            try:
                return C.run(["valgrind", "-q", "--error-exitcode=9", "--track-origins=yes", exe], input="\n".join(l for c in cs for l in c) + "\n", timeout=t)
            except subprocess.TimeoutExpired:
                return -999, ""
        rc, out = vg(cases)
        if rc in (0, -999):
            return None, len(cases)
        bad, txt = None, out
        for c in cases:
            rc1, out1 = vg([c], 120)
            if rc1 not in (0, -999):
                bad, txt = c, out1
                break
        err = [l for l in txt.split("\n") if l.startswith("==")][:14]
        return {"what": "valgrind memcheck reports an error in the machine harness (memory under a fresh instance counted as indeterminate): "
                        + (err[0] if err else "rc=%s" % rc), "valgrind": err, "cfg": cfg.cfg_line(), "minimal_case": bad}, len(cases)
    with ThreadPoolExecutor(max_workers=C.NCPU) as ex:
        mres = list(ex.map(memcheck_one, mc_cfgs))
    ctx.extra["memcheck"] = {"configurations": len(mc_cfgs), "cases": sum(n for _, n in mres), "errors": sum(1 for f, _ in mres if f)}
    ctx.stats["evaluations"] += sum(n for _, n in mres)
    for f, _ in mres:
        if f:
            ctx.failures.append(f)



def c17_run(ctx):
    machine_run("C17", ("random", "reactivate"))(ctx)
    # "never of the prior contents of the memory it is constructed in": decided directly by memcheck
    cfgs = MM.thorough_configs(ctx.rng) if ctx.thorough else MM.quick_configs(ctx.rng)
    memcheck_pass(ctx, cfgs if ctx.thorough else cfgs[3:6])


def c18_run(ctx):
    # sanitizer builds of both harnesses on the same kind of cases
    caps = sorted({c for e in K.QUICK_CAPS for c in K.QUICK_CAPS[e]})
    exe, logtxt = K.build(caps, sanitize=True)
    if exe is None:
        ctx.failures.append({"what": "sanitized container harness does not compile", "log": logtxt[-1200:]})
    else:
        for e in ("bitstream", "bitarray", "static", "dynamic", "tasklist"):
            mine = K.QUICK_CAPS[e]
            gen = {"bitstream": lambda: K.gen_bitstream(ctx.rng, mine, 6, exhaustive=ctx.thorough),
                   "bitarray": lambda: K.gen_bitarray(ctx.rng, mine, 10, 40), "static": lambda: K.gen_static(ctx.rng, mine, 4),
                   "dynamic": lambda: K.gen_dynamic(ctx.rng, mine, 4), "tasklist": lambda: K.gen_tasklist(ctx.rng, mine, 20, 60)}[e]
            cases = gen()
            rc, out = K.run_engine(exe, e, cases)
            ctx.stats["evaluations"] += len(cases)
            ctx.stats["engines"][e + "+asan+ubsan"] = len(cases)
            if rc != 0:
                tail = [l for l in out if "runtime error" in l or "ERROR: AddressSanitizer" in l or "SUMMARY" in l][:4]
                done = K.split_outputs(cases, out)
                bad = next((c for c, o in zip(cases, done) if len(o) < len(c)), None)
                ctx.failures.append({"what": "sanitizer abort in the %s engine: %s" % (e, tail), "case": bad})
    cfgs = MM.thorough_configs(ctx.rng) if ctx.thorough else MM.quick_configs(ctx.rng)
    with ThreadPoolExecutor(max_workers=C.NCPU) as ex:
        built = list(ex.map(lambda c: MM.build(c, sanitize=True), cfgs))
    for cfg, (exe, logtxt) in zip(cfgs, built):
        if exe is None:
            ctx.failures.append({"what": "sanitized machine harness does not compile: " + cfg.cfg_line()[:100], "log": "\n".join([l for l in logtxt.split("\n") if "error" in l][:8])})
            continue
        cases = [MM.gen_case(ctx.rng, cfg, "s%d" % k, ctx.rng.randint(8, 24)) for k in range(200 if ctx.thorough else 50)]
        cases += [MM.pingpong_case(ctx.rng, cfg, "pp%d" % k) for k in range(8)]
        rc_i, ci, rc_m, cm = MM.run_cases(exe, cases, timeout=240 if ctx.thorough else 60)
        ctx.stats["evaluations"] += len(ci)
        ctx.stats["programs"] = ctx.stats.get("programs", 0) + 1
        for a in ci:
            if MM.lifecycle_count(a) > 2:
                ctx.stats["distinct"].add(hash(tuple(a[1:])))
        if rc_i != 0 or len(ci) != len(cases):
            bad = cases[len(ci) - 1] if 0 < len(ci) <= len(cases) else None

            def run1(c, t=8):
                import subprocess
                try:
                    return C.run([exe], input="\n".join(c) + "\n", timeout=t)
                except subprocess.TimeoutExpired as e:
                    o = e.stdout or ""
                    return -999, (o.decode("utf-8", "replace") if isinstance(o, bytes) else o)
            rc2, out2 = run1(bad or [], 40)
            tail = [l for l in out2.split("\n") if "runtime error" in l or "ERROR: AddressSanitizer" in l or "SUMMARY" in l][:4]
            if rc2 == -999:
                tail = ["an API call does not return (the sanitized harness was stopped after 40 s)"]
            mc = MM.minimise_case(exe, bad, "C18", lambda c: run1(c)[0] != 0, budget=24) if bad else None
            ctx.failures.append({"what": "sanitizer abort in the machine harness: %s" % tail, "cfg": cfg.cfg_line(), "minimal_case": mc})
            continue
        for a, b in zip(ci, cm):
            if a != b:
                ctx.disagreements.append({"cfg": cfg.cfg_line()[:100], "case": a[0]})
                break
    memcheck_pass(ctx, cfgs if ctx.thorough else cfgs[:3])
    lay, rows = P.layout_check()
    ctx.extra["layout_rows"] = rows[:4]
    if lay:
        (ctx.disagreements if lay.get("disagreement_only") else ctx.failures).append(lay)
    a = P.alloc_probe()
    ctx.extra["allocation_probe"] = "0 allocations" if a is None else a["what"]
    if a:
        ctx.failures.append(a)
    if ctx.thorough:
        sc = P.symbol_scan()
        ctx.extra["symbol_scan"] = "no allocation symbol referenced" if sc is None else sc["what"]
        if sc:
            ctx.failures.append(sc)
    if len(ctx.samples) < 2:
        ctx.samples.append({"sanitizers": "-fsanitize=address,undefined -fno-sanitize-recover=all", "configs": [c.cfg_line()[:90] for c in cfgs[:3]]})
    C.prune_cache()


def c12_run(ctx):
    machine_run("C12")(ctx)
    ns = [(1, 0), (2, 1), (7, 0), (8, 1), (127, 0), (128, 1), (200, 0)] + ([(n, n % 2) for n in (3, 15, 16, 17, 31, 32, 33, 63, 64, 65, 129, 254, 255)] if ctx.thorough else [])
    with ThreadPoolExecutor(max_workers=C.NCPU) as ex:
        results = list(ex.map(lambda a: (a, S.run_serial(*a)), ns))
    for (n, manual), (problems, rows) in results:
        ctx.stats["evaluations"] += rows
        for p in problems:
            ctx.failures.append({"what": p, "replay_cmd": "vlib.structure.run_serial(%d, %d)" % (n, manual)})
    ctx.extra["serial_sweep_state_counts"] = [n for n, _ in ns]
    C.prune_cache()


TV = "translation_validation"
REGISTRY = {
    "C13": Spec("FFSM2.Props.C13", ["bitwidth", "contain", "typebits", "buffers"], container_run(["bitstream"])),
    "C14": Spec("FFSM2.Props.C14", ["halving", "find", "ids"], c14_run, extra=("FFSM2.Props.DispatchHistory",)),
    "C15": Spec("FFSM2.Props.C15", ["layers"], c15_run, extra=("FFSM2.Props.LayersHistory",)),
    "C20": Spec("FFSM2.Props.C20", ["contain", "buffers"], container_run(["bitarray", "static", "dynamic"])),
    "C10": Spec("FFSM2.Props.C10", ["config", "ids"], c10_run, extra=("FFSM2.Props.History", "FFSM2.Props.PlanHistory")),
    "C18": Spec("FFSM2.Props.C18", [], c18_run, extra=("FFSM2.Props.StreamReach",), level="other", explanation="Partial by nature: a theorem about a model cannot exhibit heap allocation or undefined behaviour of compiled C++. Executed here: both correspondence harnesses rebuilt with ASan+UBSan (-fno-sanitize-recover=all) and run on generated in-contract histories (payloads of alignment 1/8/16, plans at full capacity, n=1..7 quick / up to 64 thorough); a valgrind memcheck pass of the machine harness with the memory under every fresh instance marked indeterminate; an allocation probe that wraps malloc/calloc/realloc/free and operator new/delete around a scenario touching the whole API; thorough: nm -u symbol scan. The model-side index/range/alignment theorems are listed in DESIGN.md §9 C18."),
    "C19": Spec("FFSM2.Props.C19", ["resets"], c19_run, extra=("FFSM2.Props.NeutralHistory", "FFSM2.Props.Resets"), level="other", explanation="Partial by nature: 'compiles under every switch/standard/compiler' and 'the shipped header equals the amalgamation' are facts about files and compilers. Executed here: -fsyntax-only of an API-instantiating TU under all 256 switch combinations + FFSM2_ENABLE_ALL (quick: g++ C++11 and clang++ C++20; thorough: 2 compilers x 4 standards); tools/join.py re-run on a scratch copy and byte-compared; a feature-free scenario run under 8 (thorough 16) feature subsets + STRUCTURE_REPORT/DEBUG_STATE_TYPE/DISABLE_TYPEINDEX whose projected traces must be identical and equal to the model's."),
    "C01": Spec("FFSM2.Props.C01", ["ids", "resets"], machine_run("C01"), extra=("FFSM2.Props.History", "FFSM2.Props.Resets", "FFSM2.Props.BlankHistory")),
    "C02": Spec("FFSM2.Props.C02", ["ids", "config"], machine_run("C02", ("random", "pingpong")), extra=("FFSM2.Props.History", "FFSM2.Props.OutcomeHistory")),
    "C03": Spec("FFSM2.Props.C03", ["ids", "config"], machine_run("C03", ("random", "pingpong")), extra=("FFSM2.Props.History", "FFSM2.Props.VetoHistory")),
    "C04": Spec("FFSM2.Props.C04", ["config"], machine_run("C04", ("random", "pingpong")), extra=("FFSM2.Props.History",)),
    "C05": Spec("FFSM2.Props.C05", ["ids", "phases"], machine_run("C05"), extra=("FFSM2.Props.History", "FFSM2.Props.CycleHistory")),
    "C06": Spec("FFSM2.Props.C06", ["ids", "resets"], machine_run("C06"), extra=("FFSM2.Props.History", "FFSM2.Props.RequestViewHistory", "FFSM2.Props.Resets")),
    "C07": Spec("FFSM2.Props.C07", ["ids"], machine_run("C07"), extra=("FFSM2.Props.History", "FFSM2.Props.OutcomeHistory")),
    "C08": Spec("FFSM2.Props.C08", ["ids", "config"], machine_run("C08", ("random", "planveto", "statusfirst")), extra=("FFSM2.Props.PlanHistory", "FFSM2.Props.ConsumeHistory")),
    "C09": Spec("FFSM2.Props.C09", ["ids", "config"], machine_run("C09", ("random", "planveto", "reactivate", "statusfirst")), extra=("FFSM2.Props.History", "FFSM2.Props.OutcomesHistory")),
    "C11": Spec("FFSM2.Props.C11", ["ids"], machine_run("C11", ("random", "replica")), extra=("FFSM2.Props.History", "FFSM2.Props.OutcomeHistory")),
    "C12": Spec("FFSM2.Props.C12", ["ids", "serial", "bitwidth", "contain", "typebits", "buffers", "resets"], c12_run, extra=("FFSM2.Props.History", "FFSM2.Props.SerialHistory", "FFSM2.Props.Resets", "FFSM2.Props.BlankHistory")),
    "C16": Spec("FFSM2.Props.C16", ["ids"], machine_run("C16"), extra=("FFSM2.Props.History", "FFSM2.Props.RecordsHistory", "FFSM2.Props.ActRecordsHistory")),
    "C17": Spec("FFSM2.Props.C17", ["ids"], c17_run, extra=("FFSM2.Props.History",)),
}


# ------------------------------------------------------------------------------------------------
def cfg_from_line(line):
    """rebuild a gen_machine.Config from a `cfg ...` line (replay)"""
    f = dict(t.split("=", 1) for t in line.split()[1:])
    b = lambda k: f.get(k) == "1"
    payload = f.get("ptype") or ("u8" if b("payload") else "none")
    return G.Config(ctx=f.get("ctx", "ref"), L=int(f["L"]), cap=int(f["cap"]), head=b("head"), manual=b("manual"), payload=payload,
                    plans=b("plans"), history=b("history"), serial=b("serial"), log=b("log"), verbose=b("verbose"),
                    defines=f["defines"].split(","), inj=[int(x) for x in f["inj"].split(",")], n=int(f["n"]))


def replay(ctx):
    """re-run exactly one stored case against the current tree: prints the implementation's and the
    model's projected traces around the first difference and the oracle's verdict; exit 1 if they still
    differ / the oracle still fires"""
    d = json.load(open(ctx.replay))
    C.translate()
    ok, logtxt = C.ensure_driver()
    cases = []
    def walk(x):
        if isinstance(x, dict):
            for k, v in x.items():
                if k in ("minimal_case", "case") and isinstance(v, list) and v and isinstance(v[0], str):
                    cases.append((x.get("engine"), v))
                else:
                    walk(v)
        elif isinstance(x, list):
            for v in x:
                walk(v)
    walk(d)
    # findings that are programs (regression corpus, API completeness) or commands (compile matrix): build / run them again
    progs, cmds = [], []
    def walk2(x):
        if isinstance(x, dict):
            if isinstance(x.get("program"), str) and x["program"].endswith(".cpp"):
                progs.append(x["program"])
            if isinstance(x.get("replay_cmd"), str):
                cmds.append(x["replay_cmd"])
            for v in x.values():
                walk2(v)
        elif isinstance(x, list):
            for v in x:
                walk2(v)
    walk2(d)
    if progs or cmds:
        rc = 0
        for pth in progs[:3]:
            name = os.path.basename(pth)
            flags = CORPUS.CORPUS.get(name, ((), []))[1]
            exe, lg = C.build_harness("replay_" + name[:-4], open(pth).read(), ["-std=c++11", "-w"] + flags)
            if exe is None:
                C.log("replay: %s does not build against the current headers: %s" % (pth, [l for l in lg.split("\n") if "error" in l or "undefined" in l][:2])); rc = 1
                continue
            r, out_ = C.run([exe], timeout=60)
            C.log("replay: %s exits %s" % (pth, r))
            rc = rc or (1 if r != 0 else 0)
        for cmd in cmds[:3]:
            import shlex, tempfile
            dd = tempfile.mkdtemp(prefix="ffsm2_replay_", dir="/var/tmp")
            try:
                r, out_ = C.run(shlex.split(cmd) + (["-o", os.path.join(dd, "a.out")] if "-fsyntax-only" not in cmd else []), timeout=600)
            finally:
                import shutil; shutil.rmtree(dd, ignore_errors=True)
            C.log("replay: `%s` exits %s" % (cmd[:160], r))
            rc = rc or (1 if r != 0 else 0)
        if rc:
            C.log("VIOLATION property=%s replay=%s" % (ctx.prop, ctx.replay))
        return rc
    if not cases:
        C.log("replay: the file holds no stored case (it names a broken obligation or a command): %s" % json.dumps(d)[:600])
        return 0
    rc = 0
    for engine, case in cases[:3]:
        if case[0].startswith("case "):
            cfg = cfg_from_line(case[1])
            exe, lg = MM.build(cfg)
            if exe is None:
                C.log("replay: harness does not compile"); rc = 1; continue
            r = MM.run_cases(exe, [case], timeout=120)
            impl = r[1][0] if r[1] else []
            model = r[3][0] if r[3] else []
            pa, pb = MM.projected(ctx.prop, impl), MM.projected(ctx.prop, model)
            k = next((j for j in range(min(len(pa), len(pb))) if pa[j] != pb[j]), None if len(pa) == len(pb) else min(len(pa), len(pb)))
            v = O.run(ctx.prop, case, impl, lambda c: (MM.run_impl(exe, c) or None))
            C.log("replay: %d ops; first projected difference: %s; oracle: %s" % (sum(1 for l in case if l.startswith("op ")), k, v))
            if k is not None:
                C.log("  impl : " + " | ".join(pa[max(0, k - 2):k + 2])); C.log("  model: " + " | ".join(pb[max(0, k - 2):k + 2]))
            if k is not None or v:
                rc = 1
        elif engine in K.ORACLES:
            caps = [int(case[0].split()[1])]
            exe, lg = K.build(caps)
            rc_i, out_i = K.run_engine(exe, engine, [case])
            rc_m, out_m = K.run_engine(C.DRIVER, engine, [case])
            v = K.ORACLES[engine](case, out_i)
            C.log("replay: engine %s, %d ops; impl == model: %s; oracle: %s" % (engine, len(case), out_i == out_m, v))
            if out_i != out_m or v:
                rc = 1
    if rc:
        C.log("VIOLATION property=%s replay=%s" % (ctx.prop, ctx.replay))
    return rc


def run_property(ctx):
    if ctx.replay:
        return replay(ctx)
    spec = REGISTRY[ctx.prop]
    out = C.Outcome(ctx.prop)
    # 1. translate.  The translated definitions are the part of the model that follows the source by itself.  When a
    #    construct cannot be regenerated (the source was rewritten beyond what the translator reads), or its regenerated
    #    definition no longer carries the proofs, the model keeps the definition recorded when it was last validated —
    #    exactly the status of the hand-written part of the model — and the verdict comes, as for that part, from the
    #    correspondence (searched as in the thorough tier) and the oracles.  Neither case is a broken obligation by
    #    itself: a behaviour-preserving rewrite must stay silent, a behaviour-changing one shows up against the model.
    failed_groups = C.translate()
    if "*" in failed_groups:
        ctx.broken.append({"obligation": "translator (model definitions regenerated from the source)", "why": failed_groups["*"]})
    st = C.translate_status()
    changed_groups = list(st.get("changed", []))
    ctx.changed_constructs = sorted(g for g in set(failed_groups) | set(changed_groups) if g in spec.groups)
    ctx.extra["translated_constructs"] = {
        "not_regenerated_this_run": {g: m[:200] for g, m in failed_groups.items() if g != "*"},
        "regenerated_differently_from_last_validation": changed_groups}
    # 1b. source fingerprints of the hand-modelled functions / classes
    fp = C.fingerprints()
    if fp.get("error"):
        ctx.broken.append({"obligation": "source fingerprints", "why": fp["error"]})
    # a changed unit is NOT a verdict and not even a broken obligation (a behaviour-preserving rewrite must stay
    # silent): it only tells the search where to dig — the check then generates as in the thorough tier
    ctx.changed_units = fp.get("props", {}).get(ctx.prop, [])
    ctx.extra["fingerprinted_units"] = fp.get("units")
    ctx.extra["units_changed_since_model_validation"] = ctx.changed_units

    # 2. driver + proofs
    def build_and_prove():
        ok_, logtxt_ = C.ensure_driver()
        pr = {"obligations": 0, "discharged": 0, "theorems": [], "axioms": {}, "broken": []}
        br = []
        if not ok_:
            br.append({"obligation": "lean model does not build (lake build driver)", "why": logtxt_[-1500:]})
        if spec.module:
            pr = C.check_proofs(ctx.prop, spec.module, ctx.tier)
            for b_ in pr["broken"]:
                br.append({"obligation": "theorem %s in %s" % (b_, spec.module), "why": pr.get("build_log", "")[-1200:]})
            for em in spec.extra:
                p2 = C.check_proofs(ctx.prop, em, ctx.tier, only_prefix=ctx.prop + "_")
                for b_ in p2["broken"]:
                    br.append({"obligation": "theorem %s in %s" % (b_, em), "why": p2.get("build_log", "")[-1200:]})
                pr["theorems"] = pr["theorems"] + p2["theorems"]
                pr["obligations"] += p2["obligations"]
                pr["discharged"] += p2["discharged"]
                pr["axioms"].update(p2["axioms"])
                pr["broken"] = pr["broken"] + p2["broken"]
                pr["module"] = pr.get("module", spec.module) + " + " + em
        return ok_, logtxt_, pr, br
    # (the verdict "these regenerated definitions do not carry the proofs" is remembered per regenerated text, so the other
    #  checks of the same tree do not build the library twice)
    import hashlib
    consts_path = os.path.join(C.LEAN, "FFSM2", "Gen", "Consts.lean")
    memo_path = os.path.join(C.CACHE, "translate_memo.json")
    try:
        memo = json.load(open(memo_path))
    except Exception:
        memo = {}
    regen_hash = hashlib.sha256(open(consts_path, "rb").read()).hexdigest()[:24] if changed_groups else None
    known_bad = bool(changed_groups) and memo.get(regen_hash) == "fallback"
    if known_bad:
        C.translate(force_fallback=changed_groups)
        first_broken = [{"obligation": "(remembered from an earlier check of this tree) the regenerated definitions do not carry the proofs"}]
        ok, logtxt, proof, pbroken = False, "", None, first_broken
    else:
        ok, logtxt, proof, pbroken = build_and_prove()
    if (not ok or pbroken) and changed_groups:
        # the regenerated definitions do not carry the proofs: keep the last validated ones and let the correspondence decide
        if not known_bad:
            C.translate(force_fallback=changed_groups)
        ok2, logtxt2, proof2, pbroken2 = build_and_prove()
        if ok2 and not pbroken2 and not known_bad:
            memo[regen_hash] = "fallback"
            try:
                os.makedirs(C.CACHE, exist_ok=True)
                json.dump(memo, open(memo_path, "w"))
            except Exception:
                pass
        if ok2 and not pbroken2:
            ctx.extra["translated_constructs"]["model_keeps_last_validated_definition_of"] = changed_groups
            ctx.extra["translated_constructs"]["because"] = [b_["obligation"] for b_ in pbroken][:6]
            ok, logtxt, proof, pbroken = ok2, logtxt2, proof2, pbroken2
        else:
            ok, logtxt, proof, pbroken = ok2, logtxt2, proof2, pbroken2
    ctx.broken += pbroken
    # 3-4. regression corpus first, then harness + correspondence (+ property oracles on the implementation)
    if ok:
        try:
            CORPUS.run(ctx)
            spec.run(ctx)
        except Exception as e:  # a crash of the machinery is a broken check, never silence
            import traceback
            ctx.broken.append({"obligation": "check machinery", "why": traceback.format_exc()[-1500:]})
    # 5. decide
    if ctx.failures:
        for f in ctx.failures[:3]:
            out.violation({"kind": "property violated by the implementation", "finding": f,
                           "also_broken": ctx.broken[:3], "disagreements": ctx.disagreements[:2]}, True, f.get("key"))
    elif ctx.broken or ctx.disagreements:
        out.violation({"kind": "proof obligation or model/implementation correspondence no longer checks; "
                               "the property oracle found no failing input on this run's cases",
                       "broken_obligations": ctx.broken[:6], "disagreements": ctx.disagreements[:5],
                       "searched": {"evaluations": ctx.stats["evaluations"], "engines": ctx.stats["engines"]}}, False)
    rc, nviol = out.finish()
    # 6. evidence
    cov = {
        "obligations": proof["obligations"], "discharged": proof["discharged"],
        "checker_cmd": "cd /verif/lean && lake build %s && lake env lean <#print axioms for each theorem>%s" % (
            spec.module, " && lake env leanchecker %s" % spec.module if ctx.thorough else ""),
        "trusted_base": C.TRUSTED_BASE,
        "theorems": proof["theorems"], "axioms": proof["axioms"],
        "evaluations": ctx.stats["evaluations"], "distinct_nontrivial": len(ctx.stats["distinct"]),
        "rule": "cases generated from one PRNG (VERIF_SEED); a case is non-trivial if it contains at least one state-changing "
                "operation; distinct = distinct canonical implementation traces",
        "traces_validated_against_impl": ctx.stats["evaluations"],
        "disagreements": len(ctx.disagreements), "oracle_failures": len(ctx.failures),
        "broken_obligations": [b["obligation"] for b in ctx.broken],
        "samples": ctx.samples or [{"note": "no sample recorded"}],
        "engines": ctx.stats["engines"], "lines_compared": ctx.stats["lines"],
        "translator_failed_groups": failed_groups,
    }
    cov.update(ctx.extra)
    if not spec.module:
        for k in ("obligations", "discharged", "checker_cmd", "theorems", "axioms"):
            cov.pop(k, None)
    cov.setdefault("programs", 1)
    cov.setdefault("disagreements_checked", len(ctx.disagreements))
    if proof.get("leanchecker"):
        cov["leanchecker"] = proof["leanchecker"]
    if spec.explanation:
        cov["explanation"] = spec.explanation
    C.write_evidence(ctx.prop, ctx.tier, ctx.seed, spec.level, cov, time.time() - ctx.t0, nviol,
                     assumptions=["the C++ behaves on un-generated inputs as on the generated ones (the correspondence is differential testing)",
                                  "FFSM2_ASSERT is inactive with g++/clang, histories are kept in-contract by the drivers"] + ctx.notes)
    return rc
