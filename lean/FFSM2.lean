import FFSM2.Gen.Consts
import FFSM2.BitStream
import FFSM2.Lemmas.BitStream
import FFSM2.Props.C13
import FFSM2.BitArray
import FFSM2.Arrays
import FFSM2.Lemmas.BitArray
import FFSM2.Props.C20
