import FFSM2.Gen.Consts
import FFSM2.BitStream
import FFSM2.Lemmas.BitStream
import FFSM2.Props.C13
