import FFSM2.Gen.Consts
import FFSM2.Ancestors
import FFSM2.BitStream
/-
  FFSM2.Machine — the machine model (C01–C09, C11, C12, C16, C17, C19): a literal, executable port of

    root_0.inl   : update react query succeed fail changeTo immediateChangeTo replayTransition
                   initialEnter finalExit processRequest processTransitions applyRequest
                   cancelledByEntryGuards cancelledByGuards save load
    root_1.inl   : RV_ automatic ctor/dtor/copy, manual enter exit isActive save load replayEnter loadEnter
    root_2.inl   : changeWith immediateChangeWith
    structure/composite.inl : C_::deep*  (head/sub order, status accumulation, deepChangeToRequested,
                   deepSaveActive / deepLoadRequested)
    structure/state_1.inl, state_2.inl : S_::deep* (log record, ScopedOrigin, wide/own order, clearTaskStatus)
    root/control_*.{hpp,inl} : what each control flavour lets a callback do / see; updatePlan
    root/plan_1.inl, plan_2.inl, plan_data.inl : at the level of the abstract plan `List Task` with a
                   capacity (the concrete TaskListT/PlanT containers are the subject of C10, which
                   proves they refine exactly this list-with-capacity)
    root/core.inl : copy

  after the seven `fix:` commits (F1–F7), including the quirks Q1–Q7 of DESIGN.md §2.

  User callbacks are a universally quantified function `beh : Key → List Action`: what the code of
  the callback delivered under `Key` does with its control object.  Every delivery emits a `cb`
  event carrying what that callback can observe; every action it performs emits an `act` event.

  Conventions: ids are `Nat` with 255 = INVALID; every id stored stays < 256 (C18_no_wrap).
  `headStatus` is write-only in the C++ (never read) and is omitted.
-/
namespace FFSM2
open Ancestors

/-- `TransitionT<Payload>`: `{origin, destination, payload()}` (`method` is always NONE). -/
structure Tr where
  origin : Nat := 255
  dest : Nat := 255
  payload : Option Nat := none
  deriving DecidableEq, Repr, Inhabited

namespace Tr
/-- `explicit operator bool` -/
def valid (t : Tr) : Bool := t.dest != 255
/-- `clear()`: resets the destination only -/
def clear (t : Tr) : Tr := { t with dest := 255 }
/-- `operator !=` : origin, destination and `payloadSet` (not the payload value) -/
def ne (a b : Tr) : Bool := a.origin != b.origin || a.dest != b.dest || a.payload.isSome != b.payload.isSome
/-- canonical form for observation: an empty transition shows nothing of its stale fields -/
def canon (t : Tr) : Tr := if t.valid then t else {}
end Tr

/-- `TaskT<Payload>` as the plan's users see it -/
structure Task where
  origin : Nat
  dest : Nat
  payload : Option Nat := none
  deriving DecidableEq, Repr, Inhabited

/-- `TaskStatus::Result` -/
inductive Status where
  | none | success | failure
  deriving DecidableEq, Repr, Inhabited

namespace Status
def rank : Status → Nat
  | .none => 0 | .success => 1 | .failure => 2
/-- `operator |` : the larger of the two -/
def or (a b : Status) : Status := if a.rank > b.rank then a else b
end Status

/-- which control type a callback receives -/
inductive Flavour where
  | const | plan | full | guard
  deriving DecidableEq, Repr

def Method.flavour : Method → Flavour
  | .query => .const
  | .enter | .reenter | .exit => .plan
  | .entryGuard | .exitGuard => .guard
  | _ => .full

/-- what user code can do with a control object -/
inductive Action where
  | changeTo (d : Nat)
  | changeWith (d p : Nat)
  | cancel                                  -- cancelPendingTransition()
  | succeed (id : Option Nat)               -- succeed() / succeed(id)
  | fail (id : Option Nat)
  | planAppend (o d : Nat) (p : Option Nat) -- plan().change / changeWith
  | planClear                               -- plan().clear()
  | planRemove (mask : List Bool)           -- for (it = plan().begin(); it; ++it) if (mask) it.remove()
  deriving DecidableEq, Repr

/-- identifies one delivery of one callback layer -/
structure Key where
  inst : Nat
  op : Nat          -- index of the API call in the history
  occ : Nat         -- how many times (method, sid, layer) was already delivered within this API call
  method : Method
  sid : Nat         -- 255 = root head
  layer : Layer
  deriving DecidableEq, Repr

abbrev Beh := Key → List Action

structure Cfg where
  n : Nat
  L : Nat
  cap : Nat
  hasHead : Bool := false
  manual : Bool := false
  hasPayload : Bool := false
  plans : Bool := true
  history : Bool := true
  serialization : Bool := true
  logging : Bool := true
  verbose : Bool := false
  defines : Nat → Method → Bool := fun _ _ => true
  injections : Nat → Nat := fun _ => 0

/-- well-formed configurations: the ranges the C++ accepts -/
structure Cfg.WF (cfg : Cfg) : Prop where
  n_pos : 1 ≤ cfg.n
  n_le : cfg.n ≤ 255
  L_pos : 1 ≤ cfg.L
  cap_pos : 1 ≤ cfg.cap
  cap_le : cfg.cap ≤ 255

/-- `CoreT` (context omitted: it is the user's own object) -/
structure Core where
  active : Nat := 255
  requested : Nat := 255
  request : Tr := {}
  prev : Tr := {}
  plan : List Task := []
  planExists : Bool := false
  succ : List Bool := []        -- tasksSuccesses, length n
  fail : List Bool := []        -- tasksFailures
  subStatus : Status := .none
  logger : Bool := false
  deriving DecidableEq, Repr

/-- what a callback can read from its control -/
structure Obs where
  stateId : Nat
  ctlActive : List Bool
  machActive : Nat
  request : Tr
  current : Option Tr
  pending : Option Tr
  plan : Option (List Task)
  deriving DecidableEq, Repr

inductive LogRec where
  | method (sid : Nat) (m : Method)
  | transition (origin target : Nat)
  | taskStatus (sid : Nat) (succeeded : Bool)
  | cancelled (origin : Nat)
  deriving DecidableEq, Repr

/-- observation at an API boundary -/
structure ApiObs where
  active : Nat
  isActive : List Bool
  mactive : Option Bool
  prev : Option Tr
  plan : Option (List Task)
  ret : Option Bool := none
  bytes : Option (List Nat) := none
  deriving DecidableEq, Repr

inductive Ev where
  | cb (k : Key) (vis : Bool) (o : Obs)   -- `vis = false`: the library's empty default ran (no user code there)
  | act (k : Key) (a : Action)
  | log (inst : Nat) (r : LogRec)
  | api (inst op : Nat) (name : String) (o : ApiObs)
  | rejected (inst op : Nat) (name : String)
  deriving DecidableEq, Repr

/-- threaded state of one API call: the core, the control-local registers (`_taskStatus`,
    `_cancelled`) and the deliveries made so far in this call -/
structure St where
  core : Core
  ts : Status := .none
  cancelled : Bool := false
  seen : List (Method × Nat × Layer) := []

abbrev Step := St → St × List Ev

namespace Step
def skip : Step := fun s => (s, [])
def seq (f g : Step) : Step := fun s =>
  let r1 := f s
  let r2 := g r1.1
  (r2.1, r1.2 ++ r2.2)
infixl:60 " ⋙ " => seq
def modify (f : St → St) : Step := fun s => (f s, [])
def modifyCore (f : Core → Core) : Step := fun s => ({ s with core := f s.core }, [])
def emit (e : St → List Ev) : Step := fun s => (s, e s)
def cond (c : St → Bool) (t e : Step) : Step := fun s => if c s then t s else e s
def seqList : List Step → Step
  | [] => skip
  | f :: fs => f ⋙ seqList fs
end Step
open Step

/-- read-only parameters of an API call -/
structure Env where
  cfg : Cfg
  beh : Beh
  inst : Nat
  op : Nat

def setBit (l : List Bool) (i : Nat) (v : Bool) : List Bool := l.set i v
def getBit (l : List Bool) (i : Nat) : Bool := l.getD i false

/-- `ControlT::isActive(id)` → `Registry::isActive(id)` (post-F2) — and `ConstControlT::isActive` -/
def ctlIsActive (c : Core) (id : Nat) : Bool := c.active == id

/-- Q7: does a delivery of `m` to `sid` produce a method record (logger attached)? -/
def recorded (cfg : Cfg) (sid : Nat) (m : Method) : Bool :=
  if cfg.verbose then true
  else if sid == 255 && !cfg.hasHead then false
  else if cfg.injections sid ≥ 1 then true
  else match m with
    | .preReact | .react | .postReact | .query => true
    | _ => cfg.defines sid m

/-- is there user code at this layer (otherwise the library's empty default runs) -/
def observable (cfg : Cfg) (sid : Nat) (m : Method) : Layer → Bool
  | .inj _ => true
  | .own => (sid != 255 || cfg.hasHead) && cfg.defines sid m

def idOk (cfg : Cfg) (id : Nat) : Bool := id < cfg.n

/-- may code holding a control of this flavour perform the action (API surface of the control type;
    out-of-contract arguments are rejected identically by both drivers, Q5) -/
def permitted (cfg : Cfg) (fl : Flavour) (sid : Nat) : Action → Bool
  | .changeTo d => (fl == .full || fl == .guard) && idOk cfg d
  | .changeWith d _ => (fl == .full || fl == .guard) && idOk cfg d && cfg.hasPayload
  | .cancel => fl == .guard
  | .succeed id | .fail id =>
      (fl == .full || fl == .guard) && cfg.plans && idOk cfg (id.getD sid)
  | .planAppend o d p => fl != .const && cfg.plans && idOk cfg o && idOk cfg d && (p.isNone || cfg.hasPayload)
  | .planClear => fl != .const && cfg.plans
  | .planRemove _ => fl != .const && cfg.plans

/-- `for (it = plan.begin(); it; ++it) if (mask[k]) it.remove();` on the abstract plan -/
def removeMasked : List Task → List Bool → List Task
  | [], _ => []
  | t :: ts, [] => t :: ts
  | t :: ts, m :: ms => if m then removeMasked ts ms else t :: removeMasked ts ms

/-- `PlanT::clear()`: all tasks and every state's success/failure bit -/
def planClearCore (c : Core) : Core :=
  { c with plan := [], succ := c.succ.map (fun _ => false), fail := c.fail.map (fun _ => false) }

def logEv (env : Env) (c : Core) (r : LogRec) : List Ev :=
  if env.cfg.logging && c.logger then [.log env.inst r] else []

/-- effect of one permitted action performed by the callback of `sid` (origin id) -/
def applyAction (env : Env) (sid : Nat) (a : Action) : Step := fun s =>
  let c := s.core
  match a with
  | .changeTo d =>
      ({ s with core := { c with request := ⟨sid, d, none⟩ } }, logEv env c (.transition sid d))
  | .changeWith d p =>
      ({ s with core := { c with request := ⟨sid, d, some p⟩ } }, logEv env c (.transition sid d))
  | .cancel => ({ s with cancelled := true }, logEv env c (.cancelled sid))
  | .succeed id =>
      let i := id.getD sid
      ({ s with ts := .success, core := { c with succ := setBit c.succ i true } }, logEv env c (.taskStatus i true))
  | .fail id =>
      let i := id.getD sid
      ({ s with ts := .failure, core := { c with fail := setBit c.fail i true } }, logEv env c (.taskStatus i false))
  | .planAppend o d none =>
      -- PlanT::append: capacity test first
      if c.plan.length < env.cfg.cap then
        ({ s with core := { c with plan := c.plan ++ [⟨o, d, none⟩], planExists := true } }, [])
      else (s, [])
  | .planAppend o d (some p) =>
      -- PayloadPlanT::append: planExists first, then emplace/linkTask reject when full
      let c1 := { c with planExists := true }
      if c.plan.length < env.cfg.cap then
        ({ s with core := { c1 with plan := c.plan ++ [⟨o, d, some p⟩] } }, [])
      else ({ s with core := c1 }, [])
  | .planClear => ({ s with core := planClearCore c }, [])
  | .planRemove mask => ({ s with core := { c with plan := removeMasked c.plan mask } }, [])

def observe (env : Env) (fl : Flavour) (sid : Nat) (current pending : Tr) (c : Core) : Obs :=
  { stateId := sid
    ctlActive := (List.range env.cfg.n).map (ctlIsActive c)
    machActive := c.active
    request := c.request.canon
    current := if fl == .const then none else some current.canon
    pending := if fl == .guard then some pending.canon else none
    plan := if !env.cfg.plans then none else some c.plan }

def occOf (seen : List (Method × Nat × Layer)) (k : Method × Nat × Layer) : Nat :=
  (seen.filter (· == k)).length

/-- run the actions of one layer's callback -/
def runActions (env : Env) (fl : Flavour) (sid : Nat) (key : Key) : List Action → Step
  | [] => skip
  | a :: as =>
    (if permitted env.cfg fl sid a then
        (emit fun _ => [.act key a]) ⋙ applyAction env sid a
      else skip) ⋙ runActions env fl sid key as

/-- one layer of a delivery: `cb` event with the observation, then the callback's actions -/
def deliverLayer (env : Env) (m : Method) (sid : Nat) (current pending : Tr) (layer : Layer) : Step := fun s =>
  let fl := m.flavour
  let occ := occOf s.seen (m, sid, layer)
  let key : Key := ⟨env.inst, env.op, occ, m, sid, layer⟩
  let s1 := { s with seen := (m, sid, layer) :: s.seen }
  let vis := observable env.cfg sid m layer
  ((emit fun st => [.cb key vis (observe env fl sid current pending st.core)]) ⋙
    (if vis then runActions env fl sid key (env.beh key) else skip)) s1

/-- `S_::deepX`: log record, then the layers in the order of `Ancestors.deep` -/
def deliver (env : Env) (m : Method) (sid : Nat) (current pending : Tr) : Step :=
  (emit fun s => if recorded env.cfg sid m then logEv env s.core (.method sid m) else []) ⋙
  seqList ((deep (env.cfg.injections sid) m).map (deliverLayer env m sid current pending))

/-- `PlanDataT::clearTaskStatus(id)` (called from `S_::deepExit`) -/
def clearTaskStatus (cfg : Cfg) (id : Nat) (c : Core) : Core :=
  if cfg.plans && id != 255 then { c with succ := setBit c.succ id false, fail := setBit c.fail id false } else c

/-! ### enter / exit / change -/

/-- `C_::deepEnter` -/
def deepEnter (env : Env) (current : Tr) : Step :=
  modifyCore (fun c => { c with active := c.requested, requested := 255 }) ⋙
  deliver env .enter 255 current {} ⋙
  (fun s => deliver env .enter s.core.active current {} s)

/-- `C_::deepExit` -/
def deepExit (env : Env) (current : Tr) : Step :=
  (fun s => (deliver env .exit s.core.active current {} ⋙
             modifyCore (clearTaskStatus env.cfg s.core.active)) s) ⋙
  deliver env .exit 255 current {} ⋙
  modifyCore (fun c => { c with active := 255 }) ⋙
  modifyCore (fun c => if env.cfg.plans then planClearCore c else c)

/-- `C_::deepChangeToRequested` -/
def changeToRequested (env : Env) (current : Tr) : Step := fun s =>
  if s.core.requested != s.core.active then
    ((deliver env .exit s.core.active current {} ⋙
      modifyCore (clearTaskStatus env.cfg s.core.active)) ⋙
     modifyCore (fun c => { c with active := c.requested, requested := 255 }) ⋙
     (fun s' => deliver env .enter s'.core.active current {} s')) s
  else
    (modifyCore (fun c => { c with requested := 255 }) ⋙
     deliver env .reenter s.core.active current {}) s

/-! ### guards and request processing -/

/-- `R_::applyRequest`: returns whether the request is to be evaluated -/
def applyRequest (current : Tr) (destination : Nat) (c : Core) : Core × Bool :=
  if current.ne ⟨255, destination, none⟩ then ({ c with requested := destination }, true) else (c, false)

/-- `R_::cancelledByGuards`: fresh GuardControl; exit guard of the active state, then — unless it
    cancelled — entry guard of the requested state.  Result in `St.cancelled`. -/
def guardRound (env : Env) (current pending : Tr) : Step :=
  modify (fun s => { s with ts := .none, cancelled := false }) ⋙
  (fun s => deliver env .exitGuard s.core.active current pending s) ⋙
  (fun s => if s.cancelled then (s, []) else deliver env .entryGuard s.core.requested current pending s)

/-- `R_::cancelledByEntryGuards` (activation): root head's entry guard, then — unless it cancelled —
    the requested state's -/
def entryGuardRound (env : Env) (current pending : Tr) : Step :=
  modify (fun s => { s with ts := .none, cancelled := false }) ⋙
  deliver env .entryGuard 255 current pending ⋙
  (fun s => if s.cancelled then (s, []) else deliver env .entryGuard s.core.requested current pending s)

/-- number of iterations the loop header `for (Long i = start; i < / <= SUBSTITUTION_LIMIT && request; ++i)`
    allows; `start` and the comparison are translated from the source on every run -/
def substFuel (L : Nat) : Nat :=
  if Gen.substLoopInclusive then L + 1 - Gen.substLoopStart else L - Gen.substLoopStart

/-- does that header terminate in `Long = uint8_t` arithmetic when the request never goes away?
    (`i <= 255` is always true for a `uint8_t`) -/
def substLoopTerminates (L : Nat) : Bool :=
  !(Gen.substLoopInclusive && L + 1 ≥ 2 ^ Gen.bitsLong)

/-- the `for (i < SUBSTITUTION_LIMIT && request)` loop shared by `processTransitions`
    (`round = guardRound`) and `initialEnter` (`round = entryGuardRound`); threads `current` -/
def substLoop (round : Tr → Tr → Step) : Nat → Tr → St → (St × Tr) × List Ev
  | 0, current, s => ((s, current), [])
  | fuel + 1, current, s =>
    if s.core.request.valid then
      let ar := applyRequest current s.core.request.dest s.core
      if ar.2 then
        let pending := s.core.request
        let s1 := { s with core := { ar.1 with request := ar.1.request.clear } }
        let r := round current pending s1
        let current' := if r.1.cancelled then current else pending
        let rest := substLoop round fuel current' r.1
        (rest.1, r.2 ++ rest.2)
      else
        substLoop round fuel current { s with core := { s.core with request := s.core.request.clear } }
    else ((s, current), [])

/-- `if (currentTransition) { registry.requested = destination (F1 repair); deepChangeToRequested }` -/
def applySurvivor (env : Env) (current : Tr) : Step := fun s =>
  if current.valid then
    (modifyCore (fun c => { c with requested := current.dest }) ⋙ changeToRequested env current) s
  else (s, [])

/-- `registry.clearRequests()` and `previousTransition = currentTransition` -/
def finishProcessing (env : Env) (current : Tr) : Step :=
  modifyCore (fun c => { c with requested := 255, prev := if env.cfg.history then current else c.prev })

/-- `R_::processRequest` / `R_::processTransitions` -/
def processRequest (env : Env) : Step := fun s =>
  if s.core.request.valid then
    let r := substLoop (guardRound env) (substFuel env.cfg.L) {} s
    let r2 := (applySurvivor env r.1.2 ⋙ finishProcessing env r.1.2) r.1.1
    (r2.1, r.2 ++ r2.2)
  else finishProcessing env {} s

/-- tail of `R_::initialEnter`: history, the F1 repair of `requested`, `deepEnter`, `clearRequests` -/
def enterSurvivor (env : Env) (current : Tr) : Step :=
  modifyCore (fun c => { c with prev := if env.cfg.history then current else c.prev,
                                requested := if current.valid then current.dest else 0 }) ⋙
  deepEnter env current ⋙
  modifyCore (fun c => { c with requested := 255 })

/-- `R_::initialEnter` -/
def initialEnter (env : Env) : Step := fun s =>
  let s0 := { s with core := (applyRequest {} 0 s.core).1 }
  let r0 := entryGuardRound env {} {} s0          -- result ignored
  let r := substLoop (entryGuardRound env) (substFuel env.cfg.L) {} r0.1
  let r3 := enterSurvivor env r.1.2 r.1.1
  (r3.1, r0.2 ++ r.2 ++ r3.2)

/-- `PlanDataT::clear()` -/
def planDataClear (c : Core) : Core :=
  { c with plan := [], planExists := false, succ := c.succ.map (fun _ => false),
           fail := c.fail.map (fun _ => false), subStatus := .none }

/-- `R_::finalExit` -/
def finalExit (env : Env) : Step :=
  deepExit env {} ⋙
  modifyCore (fun c =>
    let c1 := { c with requested := 255, active := 255, request := c.request.clear }
    let c2 := if env.cfg.plans then planDataClear c1 else c1
    if env.cfg.history then { c2 with prev := c2.prev.clear } else c2)

/-! ### update / react / query -/

/-- one phase of `C_::deepPreUpdate / deepUpdate / …` (`headFirst = false` for the post phases):
    status accumulation exactly as in composite.inl, `ScopedRegion` resets `_taskStatus` at the end -/
def phase (env : Env) (m : Method) (headFirst : Bool) : Step := fun s =>
  let a := s.core.active
  let sub : Step := deliver env m a {} {} ⋙
    modify (fun s => { s with core := { s.core with subStatus := s.core.subStatus.or s.ts } })
  let head : Step := deliver env m 255 {} {}
  ((if headFirst then head ⋙ sub else sub ⋙ head) ⋙ modify (fun s => { s with ts := .none })) s

/-- `S_::deepUpdatePlans` of the active state -/
def stateStatus (c : Core) : Status :=
  if getBit c.fail c.active then .failure else if getBit c.succ c.active then .success else .none

/-- the loop of `FullControlT::updatePlan` over the front of the plan (fuel = plan length):
    returns the tasks kept, the `successesToClear` set (as the list of origins to clear) and fires -/
def firePlan (env : Env) : List Task → St → List Nat → (St × List Task × List Nat) × List Ev
  | [], s, clr => ((s, [], clr), [])
  | t :: ts, s, clr =>
    if ctlIsActive s.core t.origin then
      if getBit s.core.succ t.origin then
        -- Origin{*this, it->origin}; changeWith / changeTo(it->destination)
        let c := s.core
        let c1 := { c with request := ⟨t.origin, t.dest, t.payload⟩ }
        let ev := logEv env c (.transition t.origin t.dest)
        let cyclic := t.origin == t.dest
        let c2 := if cyclic then { c1 with succ := setBit c1.succ t.origin false } else c1
        let clr' := if cyclic then clr else t.origin :: clr
        let r := firePlan env ts { s with core := c2 } clr'
        (r.1, ev ++ r.2)
      else
        let r := firePlan env ts s clr
        ((r.1.1, t :: r.1.2.1, r.1.2.2), r.2)
    else ((s, t :: ts, clr), [])

/-- `C_::deepUpdatePlans` + `FullControlT::updatePlan` + `clearRegionStatuses` -/
def planStep (env : Env) : Step := fun s =>
  let st := s.core.subStatus.or (stateStatus s.core)
  let r : St × List Ev :=
    if st != .none && s.core.planExists then
      match st with
      | .failure =>
        (modify (fun s => { s with ts := .failure }) ⋙ deliver env .planFailed 255 {} {} ⋙
          modifyCore planClearCore) s
      | _ =>
        if !s.core.plan.isEmpty then
          let f := firePlan env s.core.plan s []
          let s1 := f.1.1
          let kept := f.1.2.1
          let clr := f.1.2.2
          let succ' := clr.foldl (fun acc o => setBit acc o false) s1.core.succ
          ({ s1 with core := { s1.core with plan := kept, succ := succ' } }, f.2)
        else
          (modify (fun s => { s with ts := .success }) ⋙ deliver env .planSucceeded 255 {} {} ⋙
            modifyCore planClearCore) s
    else (s, [])
  ({ r.1 with core := { r.1.core with subStatus := .none } }, r.2)

/-- does `C_::deepX` run the root head before the active sub-state?  **Translated from the source on every run**
    (`Gen.headFirstCodes`). -/
def headFirst (m : Method) : Bool := Gen.headFirstCodes.contains m.code

def cycle (env : Env) (pre mid post : Method) : Step :=
  modify (fun s => { s with ts := .none }) ⋙
  phase env pre (headFirst pre) ⋙ phase env mid (headFirst mid) ⋙ phase env post (headFirst post) ⋙
  (if env.cfg.plans then planStep env else skip) ⋙
  processRequest env

def update (env : Env) : Step := cycle env .preUpdate .update .postUpdate
def react (env : Env) : Step := cycle env .preReact .react .postReact

/-- `R_::query`: head then active state; nothing is written -/
def query (env : Env) : Step := fun s =>
  (if headFirst .query then deliver env .query 255 {} {} ⋙ deliver env .query s.core.active {} {}
   else deliver env .query s.core.active {} {} ⋙ deliver env .query 255 {} {}) s

/-! ### external requests, task reports, plan edits -/

def extChange (env : Env) (d : Nat) (p : Option Nat) : Step := fun s =>
  ({ s with core := { s.core with request := ⟨255, d, p⟩ } }, logEv env s.core (.transition 255 d))

def extStatus (env : Env) (id : Nat) (ok : Bool) : Step := fun s =>
  let c := s.core
  ({ s with core := if ok then { c with succ := setBit c.succ id true } else { c with fail := setBit c.fail id true } },
   logEv env c (.taskStatus id ok))

/-! ### history replay -/

/-- `R_::replayTransition` (d ≠ 255 branch) -/
def replayTransition (env : Env) (d : Nat) : Step :=
  modifyCore (fun c => { c with prev := c.prev.clear }) ⋙
  modifyCore (fun c => { (applyRequest {} d c).1 with prev := ⟨255, d, none⟩ }) ⋙
  changeToRequested env {} ⋙
  modifyCore (fun c => { c with requested := 255 })

/-- `RV_<Manual>::replayEnter` -/
def replayEnter (env : Env) (d : Nat) : Step :=
  modifyCore (fun c => { (applyRequest {} d c).1 with prev := ⟨255, d, none⟩ }) ⋙
  deepEnter env {} ⋙
  modifyCore (fun c => { c with requested := 255 })

/-! ### serialization -/

def serialBits (cfg : Cfg) : Nat := Gen.serialBits cfg.n

/-- `RV_::save(SerialBuffer&)` for both activation modes -/
def save (cfg : Cfg) (c : Core) : List Nat :=
  let buf0 := BitStream.clearBuf (serialBits cfg)
  if cfg.manual && c.active == 255 then
    (BitStream.write 1 buf0 0 0).1
  else
    let w1 := BitStream.write 1 buf0 0 1
    (BitStream.write (Gen.widthBits cfg.n) w1.1 w1.2 c.active).1

/-- `R_::load(ReadStream&)` -/
def loadActive (env : Env) (requested : Nat) : Step :=
  modifyCore (fun c =>
    let c1 := { c with requested := requested, request := c.request.clear }
    let c2 := if env.cfg.plans then planDataClear c1 else c1
    if env.cfg.history then { c2 with prev := c2.prev.clear } else c2) ⋙
  changeToRequested env {}

/-- `RV_::load(const SerialBuffer&)` for both activation modes -/
def load (env : Env) (buf : List Nat) : Step := fun s =>
  let r1 := BitStream.read 1 buf 0
  if r1.1 != 0 then
    let r2 := BitStream.read (Gen.widthBits env.cfg.n) buf r1.2
    if s.core.active != 255 then loadActive env r2.1 s
    else if env.cfg.manual then
      -- loadEnter
      (modifyCore (fun c => { c with requested := r2.1 }) ⋙ deepEnter env {}) s
    else (s, [])
  else
    if env.cfg.manual && s.core.active != 255 then finalExit env s else (s, [])

/-! ### API-boundary observation and the top-level step -/

def apiObs (cfg : Cfg) (c : Core) (ret : Option Bool := none) (bytes : Option (List Nat) := none) : ApiObs :=
  { active := c.active
    isActive := (List.range cfg.n).map (fun j => c.active == j)
    mactive := if cfg.manual then some (c.active != 255) else none
    prev := if cfg.history then some c.prev.canon else none
    plan := if cfg.plans then some c.plan else none
    ret := ret, bytes := bytes }

def initCore (cfg : Cfg) (logger : Bool) : Core :=
  { succ := List.replicate cfg.n false, fail := List.replicate cfg.n false, logger := logger }

inductive Op where
  | construct (inst : Nat) (logger : Bool)
  | destroy (inst : Nat)
  | copy (inst src : Nat)
  | enter (inst : Nat)
  | exit (inst : Nat)
  | update (inst : Nat)
  | react (inst : Nat)
  | query (inst : Nat)
  | changeTo (inst d : Nat)
  | changeWith (inst d p : Nat)
  | immediateChangeTo (inst d : Nat)
  | immediateChangeWith (inst d p : Nat)
  | succeed (inst id : Nat)
  | fail (inst id : Nat)
  | planAppend (inst o d : Nat) (p : Option Nat)
  | planClear (inst : Nat)
  | planRemove (inst : Nat) (mask : List Bool)
  | save (inst : Nat)
  | load (inst src : Nat)
  | replayEnter (inst d : Nat)
  | replayTransition (inst d : Nat)
  | attachLogger (inst : Nat) (on : Bool)
  | replayFrom (inst src : Nat)        -- replica.replayTransition(authority.previousTransition().destination)
  | replayEnterFrom (inst src : Nat)   -- replica.replayEnter(authority's redirect destination, or 0)
  deriving DecidableEq, Repr

def Op.inst : Op → Nat
  | .construct i _ | .destroy i | .copy i _ | .enter i | .exit i | .update i | .react i | .query i
  | .changeTo i _ | .changeWith i _ _ | .immediateChangeTo i _ | .immediateChangeWith i _ _
  | .succeed i _ | .fail i _ | .planAppend i _ _ _ | .planClear i | .planRemove i _ | .save i
  | .load i _ | .replayEnter i _ | .replayTransition i _ | .attachLogger i _
  | .replayFrom i _ | .replayEnterFrom i _ => i

def Op.name : Op → String
  | .construct .. => "construct" | .destroy .. => "destroy" | .copy .. => "copy" | .enter .. => "enter"
  | .exit .. => "exit" | .update .. => "update" | .react .. => "react" | .query .. => "query"
  | .changeTo .. => "changeTo" | .changeWith .. => "changeWith" | .immediateChangeTo .. => "immediateChangeTo"
  | .immediateChangeWith .. => "immediateChangeWith" | .succeed .. => "succeed" | .fail .. => "fail"
  | .planAppend .. => "planAppend" | .planClear .. => "planClear" | .planRemove .. => "planRemove"
  | .save .. => "save" | .load .. => "load" | .replayEnter .. => "replayEnter"
  | .replayTransition .. => "replayTransition" | .attachLogger .. => "attachLogger"
  | .replayFrom .. => "replayTransition" | .replayEnterFrom .. => "replayEnter"

/-- the instances that exist (slot → core); a destroyed / never constructed slot is `none` -/
abbrev World := List (Option Core)

def World.get (w : World) (i : Nat) : Option Core := (w.getD i none)
def World.put (w : World) (i : Nat) (c : Option Core) : World :=
  (if i < w.length then w else w ++ List.replicate (i + 1 - w.length) none).set i c

/-- run a `Step` on the core of instance `i` and append the API observation -/
def onCore (cfg : Cfg) (w : World) (i opIdx : Nat) (name : String) (c : Core) (f : Step)
    (ret : Core → Option Bool := fun _ => none) : World × List Ev :=
  let r := f { core := c }
  (w.put i (some r.1.core), r.2 ++ [.api i opIdx name (apiObs cfg r.1.core (ret r.1.core))])

/-- one API call.  Out-of-contract calls (Q5) are rejected without touching anything. -/
def step (cfg : Cfg) (beh : Beh) (w : World) (opIdx : Nat) (op : Op) : World × List Ev :=
  let i := op.inst
  let env : Env := ⟨cfg, beh, i, opIdx⟩
  let rej : World × List Ev := (w, [.rejected i opIdx op.name])
  let active (c : Core) : Bool := c.active != 255
  match op, w.get i with
  | .construct _ lg, none =>
      let c := initCore cfg (lg && cfg.logging)
      if cfg.manual then onCore cfg w i opIdx op.name c skip
      else onCore cfg w i opIdx op.name c (initialEnter env)
  | .construct .., some _ => rej
  | _, none => rej
  | .destroy _, some c =>
      -- automatic: the destructor runs finalExit; manual: destruction of an active machine runs nothing
      if cfg.manual then (w.put i none, [.api i opIdx op.name (apiObs cfg c)])
      else
        let r := finalExit env { core := c }
        (w.put i none, r.2 ++ [.api i opIdx op.name (apiObs cfg r.1.core)])
  | .copy _ src, some _ => let _ := src; rej
  | .enter _, some c => if cfg.manual && !active c && !c.request.valid then onCore cfg w i opIdx op.name c (initialEnter env) else rej
  | .exit _, some c => if cfg.manual && active c then onCore cfg w i opIdx op.name c (finalExit env) else rej
  | .update _, some c => if active c then onCore cfg w i opIdx op.name c (update env) else rej
  | .react _, some c => if active c then onCore cfg w i opIdx op.name c (react env) else rej
  | .query _, some c => if active c then onCore cfg w i opIdx op.name c (query env) else rej
  | .changeTo _ d, some c => if active c && idOk cfg d then onCore cfg w i opIdx op.name c (extChange env d none) else rej
  | .changeWith _ d p, some c =>
      if active c && idOk cfg d && cfg.hasPayload then onCore cfg w i opIdx op.name c (extChange env d (some p)) else rej
  | .immediateChangeTo _ d, some c =>
      if active c && idOk cfg d then onCore cfg w i opIdx op.name c (extChange env d none ⋙ processRequest env) else rej
  | .immediateChangeWith _ d p, some c =>
      if active c && idOk cfg d && cfg.hasPayload then
        onCore cfg w i opIdx op.name c (extChange env d (some p) ⋙ processRequest env) else rej
  | .succeed _ id, some c => if cfg.plans && idOk cfg id then onCore cfg w i opIdx op.name c (extStatus env id true) else rej
  | .fail _ id, some c => if cfg.plans && idOk cfg id then onCore cfg w i opIdx op.name c (extStatus env id false) else rej
  | .planAppend _ o d p, some c =>
      if permitted cfg .plan 0 (.planAppend o d p) then
        onCore cfg w i opIdx op.name c (applyAction env 255 (.planAppend o d p))
          (ret := fun c' => some (c'.plan.length != c.plan.length))
      else rej
  | .planClear _, some c => if cfg.plans then onCore cfg w i opIdx op.name c (applyAction env 255 .planClear) else rej
  | .planRemove _ mask, some c =>
      if cfg.plans then onCore cfg w i opIdx op.name c (applyAction env 255 (.planRemove mask)) else rej
  | .save _, some c =>
      if cfg.serialization && (cfg.manual || active c) then
        (w, [.api i opIdx op.name (apiObs cfg c none (some (save cfg c)))])
      else rej
  | .load _ src, some c =>
      match w.get src with
      | some sc =>
        if cfg.serialization && (cfg.manual || (active c && active sc)) then
          onCore cfg w i opIdx op.name c (load env (save cfg sc))
        else rej
      | none => rej
  | .replayEnter _ d, some c =>
      if cfg.history && cfg.manual && !active c && !c.request.valid && !c.prev.valid && idOk cfg d then
        onCore cfg w i opIdx op.name c (replayEnter env d) else rej
  | .replayTransition _ d, some c =>
      if cfg.history && active c && (idOk cfg d || d == 255) then
        if d == 255 then
          onCore cfg w i opIdx op.name c (modifyCore (fun c => { c with prev := c.prev.clear })) (ret := fun _ => some false)
        else onCore cfg w i opIdx op.name c (replayTransition env d) (ret := fun _ => some true)
      else rej
  | .attachLogger _ on, some c =>
      if cfg.logging then onCore cfg w i opIdx op.name c (modifyCore (fun c => { c with logger := on })) else rej
  | .replayFrom .., some _ => rej          -- resolved by `stepAll`
  | .replayEnterFrom .., some _ => rej     -- resolved by `stepAll`

/-- copy construction needs the source instance: handled before `step` -/
def stepAll (cfg : Cfg) (beh : Beh) (w : World) (opIdx : Nat) (op : Op) : World × List Ev :=
  match op with
  | .copy i src =>
    match w.get i, w.get src with
    | none, some sc => (w.put i (some sc), [.api i opIdx "copy" (apiObs cfg sc)])
    | _, _ => (w, [.rejected i opIdx "copy"])
  | .replayFrom i src =>
    match w.get src with
    | some sc => step cfg beh w opIdx (.replayTransition i (if cfg.history then sc.prev.canon.dest else 255))
    | none => (w, [.rejected i opIdx "replayTransition"])
  | .replayEnterFrom i src =>
    match w.get src with
    | some sc => step cfg beh w opIdx (.replayEnter i (if cfg.history && sc.prev.valid then sc.prev.dest else 0))
    | none => (w, [.rejected i opIdx "replayEnter"])
  | _ => step cfg beh w opIdx op

def runFrom (cfg : Cfg) (beh : Beh) : World → Nat → List Op → World × List Ev
  | w, _, [] => (w, [])
  | w, k, op :: ops =>
    let r := stepAll cfg beh w k op
    let rest := runFrom cfg beh r.1 (k + 1) ops
    (rest.1, r.2 ++ rest.2)

/-- the whole history from the empty world -/
def run (cfg : Cfg) (beh : Beh) (ops : List Op) : World × List Ev := runFrom cfg beh [] 0 ops

end FFSM2
