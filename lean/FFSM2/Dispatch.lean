import FFSM2.Gen.Consts
/-
  FFSM2.Dispatch — port of the compile-time structure that maps state ids to state objects (C14):
    shared/type_list.hpp : LowerT / UpperT (LHalfTypes / RHalfTypes), FindImpl / Find / index<>()
    structure/forward.hpp : LHalfCST / RHalfCST (id and prong offsets), CSI_ (state list merge)
    structure/composite_sub_1.{hpp,inl}, composite_sub_2.* : CS_::wide*(control, prong)
  The arithmetic (`sizeof...(Ts) / 2`, offsets, `prong < R_PRONG`) is NOT written here: it is
  regenerated from the C++ source on every run into `FFSM2/Gen/Consts.lean`.
-/
namespace FFSM2
namespace Dispatch

variable {α : Type}

/-- `LowerT<NHalf, NIndex, Ts...>` -/
def lower (half : Nat) : Nat → List α → List α
  | _, [] => []
  | idx, x :: xs => if Gen.lowerKeeps idx half then x :: lower half (idx + 1) xs else lower half (idx + 1) xs

/-- `UpperT<NHalf, NIndex, Ts...>` -/
def upper (half : Nat) : Nat → List α → List α
  | _, [] => []
  | idx, x :: xs => if Gen.upperSkips idx half then upper half (idx + 1) xs else x :: xs

def lHalf (l : List α) : List α := lower (Gen.halfL l.length) 0 l
def rHalf (l : List α) : List α := upper (Gen.halfR l.length) 0 l

/-- the materialised `CS_` hierarchy -/
inductive Tree (α : Type) where
  | leaf (stateId prong : Nat) (state : α)
  | node (rProng : Nat) (l r : Tree α)
  | stuck                                   -- fuel exhausted / empty list: never reached for fuel ≥ length ≥ 1

/-- `CS_<NStateId, Args, NProng, TL_<TStates...>>` (fuel = number of states) -/
def cs : Nat → List α → Nat → Nat → Tree α
  | 0, _, _, _ => .stuck
  | _ + 1, [], _, _ => .stuck
  | _ + 1, [x], base, prong => .leaf base prong x
  | fuel + 1, l, base, prong =>
    let n := l.length
    .node (Gen.rProng prong n)
      (cs fuel (lHalf l) (Gen.lStateId base n) (Gen.lProngIndex prong n))
      (cs fuel (rHalf l) (Gen.rStateId base n) (Gen.rProngIndex prong n))

/-- `CS_::wide*(control, prong)`: which state object receives the call -/
def wide : Tree α → Nat → Option (Nat × α)
  | .leaf sid _ s, _ => some (sid, s)
  | .node rProng l r, prong => if Gen.goesLeft prong rProng then wide l prong else wide r prong
  | .stuck, _ => none

/-- `FindImpl<N, T, Ts...>` -/
def findImpl [DecidableEq α] (x : α) : Nat → List α → Nat
  | _, [] => Gen.findMiss
  | i, y :: ys => if x = y then Gen.findHit i else findImpl x (Gen.findStep i) ys

/-- `index<StateList, T>()` -/
def index [DecidableEq α] (l : List α) (x : α) : Nat := findImpl x Gen.findStart l

/-- `CSI_<TL_<TI, TR...>>::StateList = Merge<Initial::StateList, Remaining::StateList>`,
    `SI_<T>::StateList = TL_<T>` -/
def stateList : List α → List α
  | [] => []
  | x :: xs => [x] ++ stateList xs

end Dispatch
end FFSM2
