/-
  FFSM2.TaskList — literal port of development/ffsm2/detail/features/task_list.{hpp,inl}
  (`TaskListT<TPayload, NCapacity>`) and features/task.hpp (`TaskBase`, the origin/prev and
  destination/next unions), C10.

  `Item.a` is the `origin / prev` union, `Item.b` the `destination / next` union, `Item.p` the payload
  (`none` = `payloadSet == false`; payload values are abstract naturals).  `Index = Long = uint8_t`,
  `INVALID = 255`.
-/
namespace FFSM2
namespace TaskList

structure Item where
  a : Nat
  b : Nat
  p : Option Nat
  deriving DecidableEq, Repr, Inhabited

/-- `TaskBase()`: `origin = destination = INVALID_STATE_ID`, no payload -/
def Item.vacant : Item := ⟨255, 255, none⟩

structure TL where
  cap   : Nat
  head  : Nat          -- _vacantHead
  tail  : Nat          -- _vacantTail
  last  : Nat          -- _last
  count : Nat          -- _count
  items : List Item    -- _items[CAPACITY]
  deriving DecidableEq, Repr

def at' (items : List Item) (i : Nat) : Item := items.getD i Item.vacant

/-- `item.prev = v` -/
def setA (items : List Item) (i v : Nat) : List Item := items.set i { at' items i with a := v }
/-- `item.prev = va; item.next = vb` -/
def setAB (items : List Item) (i va vb : Nat) : List Item := items.set i { at' items i with a := va, b := vb }

/-- default member initialisers -/
def init (cap : Nat) : TL := ⟨cap, 0, 0, 0, 0, List.replicate cap Item.vacant⟩

/-- `clear()`: resets the four indices only (items keep their bytes) -/
def clear (s : TL) : TL := { s with head := 0, tail := 0, last := 0, count := 0 }

/-- `emplace(args...)` — returns the new list and the index (255 = INVALID when full) -/
def emplace (s : TL) (t : Item) : TL × Nat :=
  if s.count < s.cap then
    let index := s.head
    let s1 : TL :=
      if s.head ≠ s.tail then
        -- recycle
        let h' := (at' s.items index).b
        { s with head := h', items := setA s.items h' 255 }
      else if s.last < s.cap - 1 then
        -- grow
        let l' := s.last + 1
        { s with last := l', head := l', tail := l', items := setAB s.items l' 255 255 }
      else
        -- last
        { s with last := s.cap, head := 255, tail := 255 }
    ({ s1 with items := s1.items.set index t, count := s.count + 1 }, index)
  else
    (s, 255)

/-- `remove(i)` -/
def remove (s : TL) (i : Nat) : TL :=
  if s.count < s.cap then
    let items1 := setAB s.items i 255 s.head
    let items2 := setA items1 s.head i
    { s with items := items2, head := i, count := s.count - 1 }
  else
    { s with items := setAB s.items i 255 255, head := i, tail := i, count := s.count - 1 }

end TaskList
end FFSM2
