/-
  FFSM2.Arrays — port of development/ffsm2/detail/containers/array.{hpp,inl} and
  shared/iterator.hpp: `StaticArrayT<T, N>`, `DynamicArrayT<T, N>`, `IteratorT` (C20).
-/
namespace FFSM2
namespace Arrays

/-! ### StaticArrayT -/
namespace Static
variable {α : Type}

/-- `Item _items[CAPACITY] {}` -/
def init (cap : Nat) (dflt : α) : List α := List.replicate cap dflt
/-- `operator[]` read -/
def get (items : List α) (dflt : α) (i : Nat) : α := items.getD i dflt
/-- `operator[]` write (`a[i] = v`) -/
def put (items : List α) (i : Nat) (v : α) : List α := items.set i v
/-- `fill(filler)` -/
def fill (items : List α) (v : α) : List α := items.map (fun _ => v)
/-- `clear()` = `fill(filler<Item>())` -/
def clear (items : List α) (filler : α) : List α := fill items filler
/-- `empty()` -/
def empty [BEq α] (items : List α) (filler : α) : Bool := items.all (· == filler)

/-- `for (it = begin(); it != end(); ++it)`: `first() = 0`, `next(i) = i + 1`, `limit() = CAPACITY`;
    fuel = CAPACITY.  Returns the visited (index, item) pairs in order. -/
def iterLoop (items : List α) (dflt : α) (limit : Nat) : Nat → Nat → List (Nat × α)
  | 0, _ => []
  | fuel + 1, cursor =>
    if cursor != limit then (cursor, items.getD cursor dflt) :: iterLoop items dflt limit fuel (cursor + 1)
    else []

def iterate (items : List α) (dflt : α) : List (Nat × α) :=
  iterLoop items dflt items.length items.length 0

end Static

/-! ### DynamicArrayT -/
namespace Dynamic
variable {α : Type}

structure Arr (α : Type) where
  cap   : Nat
  count : Nat
  items : List α

def init (cap : Nat) (dflt : α) : Arr α := ⟨cap, 0, List.replicate cap dflt⟩
/-- `emplace(args...)` / `operator +=`: in contract only while `count < CAPACITY`
    (`FFSM2_ASSERT(_count < CAPACITY)`); returns the index used. -/
def emplace (a : Arr α) (v : α) : Arr α × Nat :=
  ({ a with items := a.items.set a.count v, count := a.count + 1 }, a.count)
/-- `operator += (const DynamicArrayT<Item, N>& other)`: `for (const auto& item : other) emplace(item);` -/
def appendAll (a : Arr α) (vs : List α) : Arr α := vs.foldl (fun acc v => (emplace acc v).1) a
def get (a : Arr α) (dflt : α) (i : Nat) : α := a.items.getD i dflt
def clear (a : Arr α) : Arr α := { a with count := 0 }
def empty (a : Arr α) : Bool := a.count == 0
/-- iteration: `limit() = _count` -/
def iterate (a : Arr α) (dflt : α) : List (Nat × α) :=
  Static.iterLoop a.items dflt a.count a.count 0

end Dynamic
end Arrays
end FFSM2
