import FFSM2.TaskList
/-
  FFSM2.PlanList — literal port of development/ffsm2/detail/root/plan_1.inl (`PlanT`: append,
  linkTask, remove, clearTasks, operator bool, first, last, iterators), plan_2.inl
  (`PayloadPlanT::append`), plan_0.inl (`CPlanT`) and the `TaskLink` / `Bounds` parts of
  root/plan_data.hpp, C10.  The success/failure bits and `planExists` belong to the machine model.
-/
namespace FFSM2
namespace PlanList
open TaskList

structure Link where
  prev : Nat
  next : Nat
  deriving DecidableEq, Repr, Inhabited

def Link.none : Link := ⟨255, 255⟩

structure Plan where
  tasks : TL
  links : List Link     -- taskLinks
  first : Nat           -- tasksBounds.first
  last  : Nat           -- tasksBounds.last
  deriving DecidableEq, Repr

def linkAt (links : List Link) (i : Nat) : Link := links.getD i Link.none

def init (cap : Nat) : Plan := ⟨TaskList.init cap, List.replicate cap Link.none, 255, 255⟩

/-- `PlanDataT::clear()` restricted to the plan containers: `tasks.clear(); taskLinks.clear();
    tasksBounds.clear()` (`StaticArrayT<TaskLink>::clear()` = fill with `TaskLink{}`) -/
def dataClear (p : Plan) : Plan :=
  ⟨TaskList.clear p.tasks, p.links.map (fun _ => Link.none), 255, 255⟩

/-- `PlanT::linkTask(index)` -/
def linkTask (p : Plan) (index : Nat) : Plan × Bool :=
  if index ≠ 255 then
    if p.first = 255 then
      ({ p with first := index, last := index }, true)
    else
      let links1 := p.links.set p.last { linkAt p.links p.last with next := index }
      let links2 := links1.set index { linkAt links1 index with prev := p.last }
      ({ p with links := links2, last := index }, true)
  else (p, false)

/-- `PlanT::append(origin, destination)` (payload-free: capacity test first) -/
def append (p : Plan) (origin destination : Nat) : Plan × Bool :=
  if p.tasks.count < p.tasks.cap then
    let r := emplace p.tasks ⟨origin, destination, none⟩
    linkTask { p with tasks := r.1 } r.2
  else (p, false)

/-- `PayloadPlanT::append(origin, destination, payload)` (no capacity test: relies on `emplace`
    returning INVALID and `linkTask` rejecting it) -/
def appendWith (p : Plan) (origin destination payload : Nat) : Plan × Bool :=
  let r := emplace p.tasks ⟨origin, destination, some payload⟩
  linkTask { p with tasks := r.1 } r.2

/-- `PlanT::remove(index)` -/
def remove (p : Plan) (index : Nat) : Plan :=
  let cap := p.tasks.cap
  let link := linkAt p.links index
  let (links1, first1) :=
    if link.prev < cap then
      (p.links.set link.prev { linkAt p.links link.prev with next := link.next }, p.first)
    else (p.links, link.next)
  let (links2, last2) :=
    if link.next < cap then
      (links1.set link.next { linkAt links1 link.next with prev := link.prev }, p.last)
    else (links1, link.prev)
  let links3 := links2.set index Link.none
  { tasks := TaskList.remove p.tasks index, links := links3, first := first1, last := last2 }

/-- loop of `PlanT::clearTasks()` (fuel = capacity) -/
def clearLoop : Nat → Plan → Nat → Plan
  | 0, p, _ => p
  | fuel + 1, p, index =>
    if index ≠ 255 then
      let next := (linkAt p.links index).next
      clearLoop fuel (remove p index) next
    else p

/-- `PlanT::clearTasks()` -/
def clearTasks (p : Plan) : Plan :=
  if p.first < p.tasks.cap then
    let p' := clearLoop p.tasks.cap p p.first
    { p' with first := 255, last := 255 }
  else p

/-- `operator bool` -/
def nonEmpty (p : Plan) : Bool := p.first < p.tasks.cap

/-- iterator state: `(_curr, _next)` -/
structure Iter where
  curr : Nat
  next : Nat
  deriving Repr

/-- `Iterator::next()` -/
def iterNext (p : Plan) (curr : Nat) : Nat :=
  if curr < p.tasks.cap then (linkAt p.links curr).next else 255

def iterBegin (p : Plan) : Iter := ⟨p.first, iterNext p p.first⟩
def iterValid (p : Plan) (it : Iter) : Bool := it.curr < p.tasks.cap
/-- `operator ++` -/
def iterAdvance (p : Plan) (it : Iter) : Iter := ⟨it.next, iterNext p it.next⟩

/-- `for (auto it = plan.begin(); it; ++it) { visit(*it); if (mask says so) it.remove(); }`
    — fuel = capacity; returns the visited (slot, task) list and the resulting plan. -/
def iterLoop : Nat → Plan → Iter → List Bool → List (Nat × Item) × Plan
  | 0, p, _, _ => ([], p)
  | fuel + 1, p, it, mask =>
    if iterValid p it then
      let visited := (it.curr, at' p.tasks.items it.curr)
      let (rm, mask') := match mask with
        | [] => (false, [])
        | m :: ms => (m, ms)
      let p' := if rm then remove p it.curr else p
      let r := iterLoop fuel p' (iterAdvance p' it) mask'
      (visited :: r.1, r.2)
    else ([], p)

def iterate (p : Plan) (mask : List Bool) : List (Nat × Item) × Plan :=
  iterLoop p.tasks.cap p (iterBegin p) mask

/-- `first()` / `last()` (in contract only when non-empty) -/
def firstTask (p : Plan) : Item := at' p.tasks.items p.first
def lastTask (p : Plan) : Item := at' p.tasks.items p.last

end PlanList
end FFSM2
