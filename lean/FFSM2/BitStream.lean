import FFSM2.Gen.Consts
/-
  FFSM2.BitStream — literal port of
    development/ffsm2/detail/shared/bit_stream.inl : BitWriteStreamT::write<N>, BitReadStreamT::read<N>
    development/ffsm2/detail/shared/bit_stream.hpp : StreamBufferT (clear, ==), stream constructors
  (C13, C12).  Core Lean only.

  Conventions: the buffer is a `List Nat` of bytes (invariant: every byte < 256), `uint8_t`
  stores are written with an explicit `% 256`, `Item = UBitWidth<N>` stores with `% 2^(typeBits N)`.
  The per-byte chunk loop is kept; the loop `for (itemWidth = N; itemWidth; )` becomes recursion on
  a fuel argument that is initialised to N (every iteration consumes at least one bit).
-/
namespace FFSM2
namespace BitStream

/-- `UBitWidth<N>`: uint8_t / uint16_t / uint32_t (translated from the source on every run). -/
abbrev typeBits (w : Nat) : Nat := Gen.typeBits w

/-- `StreamBufferT<BITS>::BYTE_COUNT = contain(BITS, 8)` bytes, zero-initialised / `clear()`
    (translated from the source on every run). -/
abbrev byteCount (bitCapacity : Nat) : Nat := Gen.byteCount bitCapacity

def clearBuf (bitCapacity : Nat) : List Nat := List.replicate (byteCount bitCapacity) 0

/-- body of `write<N>`: returns the new buffer and cursor. -/
def writeLoop : Nat → List Nat → Nat → Nat → Nat → List Nat × Nat
  | 0, buf, cursor, _, _ => (buf, cursor)
  | fuel + 1, buf, cursor, itemBits, itemWidth =>
    if itemWidth = 0 then (buf, cursor) else
      let byteIndex      := cursor >>> 3
      let byteChunkStart := cursor &&& 7
      let byteDataWidth  := 8 - byteChunkStart
      let byteChunkWidth := min byteDataWidth itemWidth
      let byteChunk      := (itemBits <<< byteChunkStart) % 256   -- `byte |= byteChunk` keeps 8 bits
      let buf'           := buf.set byteIndex (buf.getD byteIndex 0 ||| byteChunk)
      writeLoop fuel buf' (cursor + byteChunkWidth) (itemBits >>> byteChunkWidth)
        (itemWidth - byteChunkWidth)

/-- `BitWriteStreamT::write<w>(item)`; the parameter is converted to `UBitWidth<w>` first. -/
def write (w : Nat) (buf : List Nat) (cursor item : Nat) : List Nat × Nat :=
  writeLoop w buf cursor (item % 2 ^ typeBits w) w

/-- body of `read<N>`: returns the item and the new cursor. -/
def readLoop : Nat → Nat → List Nat → Nat → Nat → Nat → Nat → Nat × Nat
  | 0, _, _, cursor, item, _, _ => (item, cursor)
  | fuel + 1, tb, buf, cursor, item, itemCursor, itemWidth =>
    if itemWidth = 0 then (item, cursor) else
      let byteIndex      := cursor >>> 3
      let byte           := buf.getD byteIndex 0
      let byteChunkStart := cursor &&& 7
      let byteDataWidth  := 8 - byteChunkStart
      let byteChunkWidth := min byteDataWidth itemWidth
      let byteChunkMask  := ((1 <<< byteChunkWidth) - 1) % 256
      let byteChunk      := (byte >>> byteChunkStart) &&& byteChunkMask
      let itemChunk      := (byteChunk <<< itemCursor) % 2 ^ tb
      readLoop fuel tb buf (cursor + byteChunkWidth) (item ||| itemChunk)
        (itemCursor + byteChunkWidth) (itemWidth - byteChunkWidth)

/-- `BitReadStreamT::read<w>()`. -/
def read (w : Nat) (buf : List Nat) (cursor : Nat) : Nat × Nat :=
  readLoop w (typeBits w) buf cursor 0 0 w

/-- write a sequence of `(width, value)` fields back to back. -/
def writeAll : List (Nat × Nat) → List Nat → Nat → List Nat × Nat
  | [], buf, cursor => (buf, cursor)
  | (w, v) :: fs, buf, cursor =>
    let r := write w buf cursor v
    writeAll fs r.1 r.2

/-- read a sequence of widths back to back. -/
def readAll : List Nat → List Nat → Nat → List Nat × Nat
  | [], _, cursor => ([], cursor)
  | w :: ws, buf, cursor =>
    let r := read w buf cursor
    let rest := readAll ws buf r.2
    (r.1 :: rest.1, rest.2)

/-- abstraction: the buffer as one little-endian number. -/
def bitsOf : List Nat → Nat
  | [] => 0
  | b :: bs => b + 256 * bitsOf bs

/-- every byte is a `uint8_t`. -/
def BytesOk (buf : List Nat) : Prop := ∀ b ∈ buf, b < 256

end BitStream
end FFSM2
