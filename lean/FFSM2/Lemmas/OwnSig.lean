import FFSM2.Lemmas.Steps
/-! Own-layer delivery signature for every method (not only lifecycle ones). -/
namespace FFSM2
open Step Ancestors

/-- `(method, state)` of every own-layer delivery (visible or not) -/
def ownSigEv : Ev → Option (Method × Nat)
  | .cb k _ _ => if k.layer == Layer.own then some (k.method, k.sid) else none
  | _ => none

def ownSig (es : List Ev) : List (Method × Nat) := es.filterMap ownSigEv

@[simp] theorem ownSig_nil : ownSig [] = [] := rfl
@[simp] theorem ownSig_append (a b : List Ev) : ownSig (a ++ b) = ownSig a ++ ownSig b := by simp [ownSig]

theorem ownSig_seq (f g : Step) (s : St) : ownSig ((f ⋙ g) s).2 = ownSig (f s).2 ++ ownSig (g (f s).1).2 := by
  simp [Step.seq]

theorem ownSig_eq_nil_of_noCb {es : List Ev} (h : es.filter Ev.isCb = []) : ownSig es = [] := by
  induction es with
  | nil => rfl
  | cons e es ih =>
    simp only [List.filter_cons] at h
    split at h
    · cases h
    · rename_i hne
      simp only [ownSig, List.filterMap_cons]
      cases e with
      | cb k v o => simp [Ev.isCb] at hne
      | act k a => exact ih h
      | log i r => exact ih h
      | api i o n ob => exact ih h
      | rejected i o n => exact ih h

theorem methodPred_isCb : MethodPred Ev.isCb := ⟨fun _ h => h, fun _ _ _ _ _ _ _ => rfl⟩

theorem ownSig_logEv (env : Env) (c : Core) (r : LogRec) : ownSig (logEv env c r) = [] :=
  ownSig_eq_nil_of_noCb (filter_logEv methodPred_isCb env c r)

theorem ownSig_layerBody (env : Env) (m : Method) (sid : Nat) (cur pend : Tr) (layer : Layer) (occ : Nat) (s : St) :
    ownSig (layerBody env m sid cur pend layer occ s).2 = if layer == Layer.own then [(m, sid)] else [] := by
  unfold layerBody
  rw [ownSig_seq]
  have h2 : ownSig ((if observable env.cfg sid m layer then
      runActions env m.flavour sid ⟨env.inst, env.op, occ, m, sid, layer⟩ (env.beh ⟨env.inst, env.op, occ, m, sid, layer⟩)
     else skip) ((emit fun st => [Ev.cb ⟨env.inst, env.op, occ, m, sid, layer⟩ (observable env.cfg sid m layer)
      (observe env m.flavour sid cur pend st.core)]) s).1).2 = [] := by
    split
    · exact ownSig_eq_nil_of_noCb (silent_runActions methodPred_isCb _ _ _ _ _ _)
    · rfl
  rw [h2]
  cases layer <;> simp [emit, ownSig, ownSigEv]

theorem ownSig_layers (env : Env) (m : Method) (sid : Nat) (cur pend : Tr) :
    ∀ (layers : List Layer) (s : St),
      ownSig (seqList (layers.map (deliverLayer env m sid cur pend)) s).2
        = (layers.filter (· == Layer.own)).map (fun _ => (m, sid)) := by
  intro layers
  induction layers with
  | nil => intro s; rfl
  | cons l ls ih =>
    intro s
    simp only [List.map_cons, seqList]
    rw [ownSig_seq, ih, deliverLayer_eq, ownSig_layerBody]
    by_cases h : (l == Layer.own) = true
    · simp [h]
    · simp [h]

theorem deep_own_all (k : Nat) (m : Method) : (deep k m).filter (· == Layer.own) = [Layer.own] := deep_own_any k m

/-- **every delivery reaches the state's own callback exactly once** -/
theorem ownSig_deliver (env : Env) (m : Method) (sid : Nat) (cur pend : Tr) (s : St) :
    ownSig (deliver env m sid cur pend s).2 = [(m, sid)] := by
  unfold deliver
  rw [ownSig_seq]
  have h1 : ownSig ((emit fun s => if recorded env.cfg sid m then logEv env s.core (.method sid m) else []) s).2 = [] := by
    simp only [emit]; split
    · exact ownSig_logEv _ _ _
    · rfl
  rw [h1, ownSig_layers, deep_own_all]
  rfl

/-- one phase: head then state (pre / mid phases) or state then head (post phases) -/
theorem ownSig_phase (env : Env) (m : Method) (hf : Bool) (s : St) :
    ownSig (phase env m hf s).2 =
      if hf then [(m, 255), (m, s.core.active)] else [(m, s.core.active), (m, 255)] := by
  unfold phase
  dsimp only
  cases hf
  · simp only [Bool.false_eq_true, if_false, Step.seq, Step.modify, ownSig_append, ownSig_nil, List.append_nil]
    rw [ownSig_deliver, ownSig_deliver]; rfl
  · simp only [if_true, Step.seq, Step.modify, ownSig_append, ownSig_nil, List.append_nil]
    rw [ownSig_deliver, ownSig_deliver]; rfl

end FFSM2
