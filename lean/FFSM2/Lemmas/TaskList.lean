import FFSM2.TaskList
/-! Representation invariant of `TaskListT` (free list threaded through the `next` union) and the
    specification of `emplace` / `remove` / `clear` under it (C10). -/
namespace FFSM2
namespace TaskList

/-- number of slots ever touched: the frontier slot `last` is the tail of the free chain while `last < cap` -/
def bound (s : TL) : Nat := if s.last < s.cap then s.last + 1 else s.cap

/-- the free chain: consecutive free nodes are linked through `.b` (`next`) -/
def Chain (items : List Item) : List Nat → Prop
  | [] => True
  | [_] => True
  | x :: y :: rest => (at' items x).b = y ∧ Chain items (y :: rest)

/-- representation invariant, with the ghost list `vac` of free slots in chain order -/
structure Inv (s : TL) (vac : List Nat) : Prop where
  capPos : 1 ≤ s.cap
  capLe : s.cap ≤ 255
  len : s.items.length = s.cap
  lastLe : s.last ≤ s.cap
  nodup : vac.Nodup
  inBound : ∀ x ∈ vac, x < bound s
  cnt : s.count + vac.length = bound s
  chain : Chain s.items vac
  headEq : vac.head? = if s.count < s.cap then some s.head else none
  tailEq : vac.getLast? = if s.count < s.cap then some s.tail else none
  full : s.count = s.cap → s.head = 255 ∧ s.tail = 255 ∧ s.last = s.cap
  frontier : s.last < s.cap → s.tail = s.last

/-- slot `i` holds a task -/
def Occ (s : TL) (vac : List Nat) (i : Nat) : Prop := i < bound s ∧ i ∉ vac

theorem bound_le (s : TL) (h : s.last ≤ s.cap) : bound s ≤ s.cap := by
  unfold bound; split <;> omega

theorem at'_set (items : List Item) (k j : Nat) (x : Item) :
    at' (items.set k x) j = if k = j ∧ k < items.length then x else at' items j := by
  unfold at'
  simp only [List.getD_eq_getElem?_getD, List.getElem?_set]
  by_cases h : k = j
  · subst h
    by_cases h2 : k < items.length <;> simp [h2]
  · simp [h]

theorem at'_setA_b (items : List Item) (k v j : Nat) : (at' (setA items k v) j).b = (at' items j).b := by
  unfold setA; rw [at'_set]; split
  · rename_i h; rw [h.1]
  · rfl

theorem at'_setA_ne (items : List Item) (k v j : Nat) (h : k ≠ j) : at' (setA items k v) j = at' items j := by
  unfold setA; rw [at'_set]; simp [h]

theorem at'_setAB_ne (items : List Item) (k va vb j : Nat) (h : k ≠ j) : at' (setAB items k va vb) j = at' items j := by
  unfold setAB; rw [at'_set]; simp [h]

theorem at'_setAB_self (items : List Item) (k va vb : Nat) (h : k < items.length) :
    (at' (setAB items k va vb) k).b = vb ∧ (at' (setAB items k va vb) k).a = va := by
  unfold setAB; rw [at'_set]; simp [h]

theorem length_setA (items : List Item) (k v : Nat) : (setA items k v).length = items.length := by simp [setA]
theorem length_setAB (items : List Item) (k a b : Nat) : (setAB items k a b).length = items.length := by simp [setAB]

theorem chain_congr {items items' : List Item} : ∀ {l : List Nat},
    (∀ x ∈ l, (at' items' x).b = (at' items x).b) → Chain items l → Chain items' l
  | [], _, _ => trivial
  | [_], _, _ => trivial
  | x :: y :: rest, h, hc => by
    refine ⟨?_, chain_congr (fun z hz => h z (by simp [hz])) hc.2⟩
    rw [h x (by simp)]; exact hc.1

theorem chain_tail {items : List Item} {x : Nat} {l : List Nat} (h : Chain items (x :: l)) : Chain items l := by
  cases l with
  | nil => trivial
  | cons y r => exact h.2

/-- with a duplicate-free chain whose first and last element coincide, the chain is a singleton -/
theorem singleton_of_head_eq_last {vac : List Nat} {h : Nat} (nd : vac.Nodup)
    (hh : vac.head? = some h) (hl : vac.getLast? = some h) : vac = [h] := by
  cases vac with
  | nil => simp at hh
  | cons x r =>
    simp at hh; subst hh
    cases r with
    | nil => rfl
    | cons y r' =>
      exfalso
      have hmem : x ∈ (y :: r') := by
        have := List.getLast?_eq_some_iff.mp (by simpa [List.getLast?_cons_cons] using hl : (y :: r').getLast? = some x)
        obtain ⟨ys, hys⟩ := this
        rw [hys]; simp
      exact (List.nodup_cons.mp nd).1 hmem

theorem two_of_head_ne_last {vac : List Nat} {h t : Nat} (hh : vac.head? = some h) (hl : vac.getLast? = some t)
    (hne : h ≠ t) : ∃ h' rest, vac = h :: h' :: rest := by
  cases vac with
  | nil => simp at hh
  | cons x r =>
    simp at hh; subst hh
    cases r with
    | nil => simp at hl; exact absurd hl hne
    | cons y r' => exact ⟨y, r', rfl⟩

/-- `TaskListT()` / `clear()` -/
theorem inv_init (cap : Nat) (h1 : 1 ≤ cap) (h2 : cap ≤ 255) : Inv (init cap) [0] := by
  have hc : 0 < cap := by omega
  exact {
    capPos := h1
    capLe := h2
    len := by simp [init]
    lastLe := by simp [init]
    nodup := by simp
    inBound := by intro x hx; simp at hx; subst hx; simp [bound, init, hc]
    cnt := by simp [bound, init, hc]
    chain := trivial
    headEq := by simp [init, hc]
    tailEq := by simp [init, hc]
    full := by intro h; simp [init] at h; omega
    frontier := by intro _; rfl }

theorem inv_clear {s : TL} {vac : List Nat} (h : Inv s vac) : Inv (clear s) [0] := by
  have hc : 0 < s.cap := h.capPos
  exact {
    capPos := h.capPos
    capLe := h.capLe
    len := h.len
    lastLe := by simp [clear]
    nodup := by simp
    inBound := by intro x hx; simp at hx; subst hx; simp [bound, clear, hc]
    cnt := by simp [bound, clear, hc]
    chain := trivial
    headEq := by simp [clear, hc]
    tailEq := by simp [clear, hc]
    full := by intro e; simp [clear] at e; omega
    frontier := by intro _; rfl }

theorem occ_clear (s : TL) (i : Nat) (hc : 1 ≤ s.cap) : ¬ Occ (clear s) [0] i := by
  intro ⟨h1, h2⟩
  simp [bound, clear] at h1 h2
  split at h1 <;> omega

end TaskList
end FFSM2

namespace FFSM2
namespace TaskList

theorem head_mem {vac : List Nat} {h : Nat} (hh : vac.head? = some h) : h ∈ vac := by
  cases vac with
  | nil => simp at hh
  | cons x r => simp at hh; subst hh; simp

/-- `emplace` on a full list: returns INVALID and changes nothing -/
theorem emplace_full (s : TL) (t : Item) (h : ¬ s.count < s.cap) : emplace s t = (s, 255) := by
  simp [emplace, h]

/-- `emplace` below capacity (recycle / grow / last), under the invariant -/
theorem emplace_spec {s : TL} {vac : List Nat} (h : Inv s vac) (hc : s.count < s.cap) (t : Item) :
    ∃ vac', Inv (emplace s t).1 vac' ∧ (emplace s t).2 = s.head ∧ s.head ∈ vac ∧ s.head < s.cap ∧
      (emplace s t).1.count = s.count + 1 ∧ (emplace s t).1.cap = s.cap ∧
      (∀ i, Occ (emplace s t).1 vac' i ↔ i = s.head ∨ Occ s vac i) ∧
      at' (emplace s t).1.items s.head = t ∧
      (∀ i, Occ s vac i → at' (emplace s t).1.items i = at' s.items i) := by
  have hhd : vac.head? = some s.head := by rw [h.headEq]; simp [hc]
  have htl : vac.getLast? = some s.tail := by rw [h.tailEq]; simp [hc]
  have hmem := head_mem hhd
  have hble := bound_le s h.lastLe
  have hlt : s.head < s.cap := Nat.lt_of_lt_of_le (h.inBound _ hmem) hble
  have hlen : s.head < s.items.length := by rw [h.len]; exact hlt
  by_cases hne : s.head = s.tail
  · -- grow or last: the chain is the singleton [head]
    have hvac : vac = [s.head] := singleton_of_head_eq_last h.nodup hhd (by rw [htl, hne])
    have hcnt : s.count + 1 = bound s := by have := h.cnt; rw [hvac] at this; simpa using this
    by_cases hg : s.last < s.cap - 1
    · -- grow
      have hlast : s.last < s.cap := by omega
      have hhl : s.head = s.last := by rw [hne]; exact h.frontier hlast
      have hb : bound s = s.last + 1 := by simp [bound, hlast]
      have hem : emplace s t = ({ s with last := s.last + 1, head := s.last + 1, tail := s.last + 1, items := (setAB s.items (s.last + 1) 255 255).set s.head t, count := s.count + 1 }, s.head) := by
        simp [emplace, hc, hne, hg]
      rw [hem]
      have hl1 : s.last + 1 < s.cap := by omega
      refine ⟨[s.last + 1], ?_, rfl, hmem, hlt, rfl, rfl, ?_, ?_, ?_⟩
      · exact {
          capPos := h.capPos
          capLe := h.capLe
          len := by simp [length_setAB, h.len]
          lastLe := by simp; omega
          nodup := by simp
          inBound := by intro x hx; simp at hx; subst hx; simp [bound, hl1]
          cnt := by simp [bound, hl1]; omega
          chain := trivial
          headEq := by simp; omega
          tailEq := by simp; omega
          full := by intro e; simp at e; omega
          frontier := by intro _; rfl }
      · intro i
        simp only [Occ, bound, hl1, if_true, hlast, List.mem_singleton, hvac]
        omega
      · rw [at'_set]; simp [length_setAB, hlen]
      · intro i hi
        have : i < s.last := by
          have h1 := hi.1; have h2 := hi.2
          rw [hb] at h1; rw [hvac] at h2; simp at h2; omega
        rw [at'_set]
        have hne1 : ¬ (s.head = i ∧ s.head < (setAB s.items (s.last + 1) 255 255).length) := by omega
        rw [if_neg hne1, at'_setAB_ne _ _ _ _ _ (by omega)]
    · -- last
      have hem : emplace s t = ({ s with last := s.cap, head := 255, tail := 255, items := s.items.set s.head t, count := s.count + 1 }, s.head) := by
        simp [emplace, hc, hne, hg]
      rw [hem]
      have hb : bound s = s.cap := by
        unfold bound; split
        · have := h.capPos; omega
        · rfl
      refine ⟨[], ?_, rfl, hmem, hlt, rfl, rfl, ?_, ?_, ?_⟩
      · exact {
          capPos := h.capPos
          capLe := h.capLe
          len := by simp [h.len]
          lastLe := by simp
          nodup := by simp
          inBound := by intro x hx; cases hx
          cnt := by simp [bound]; omega
          chain := trivial
          headEq := by simp; omega
          tailEq := by simp; omega
          full := by intro _; exact ⟨rfl, rfl, rfl⟩
          frontier := by intro e; simp at e }
      · intro i
        simp only [Occ, bound, Nat.lt_irrefl, if_false, List.not_mem_nil, not_false_eq_true, and_true, hvac,
          List.mem_singleton]
        have : (if s.last < s.cap then s.last + 1 else s.cap) = s.cap := hb
        rw [this]; omega
      · rw [at'_set]; simp [hlen]
      · intro i hi
        have hni : s.head ≠ i := by
          have := hi.2; rw [hvac] at this; simp at this; omega
        rw [at'_set]; simp [hni]
  · -- recycle
    obtain ⟨h', rest, hvac⟩ := two_of_head_ne_last hhd htl hne
    have hch : (at' s.items s.head).b = h' := by have := h.chain; rw [hvac] at this; exact this.1
    have hem : emplace s t = ({ s with head := h', items := (setA s.items h' 255).set s.head t, count := s.count + 1 }, s.head) := by
      simp [emplace, hc, hne, hch]
    rw [hem]
    have hnd := h.nodup; rw [hvac] at hnd
    have hnotin : s.head ∉ h' :: rest := (List.nodup_cons.mp hnd).1
    have hcnt : s.count + (rest.length + 2) = bound s := by have := h.cnt; rw [hvac] at this; simpa using this
    refine ⟨h' :: rest, ?_, rfl, hmem, hlt, rfl, rfl, ?_, ?_, ?_⟩
    · exact {
        capPos := h.capPos
        capLe := h.capLe
        len := by simp [length_setA, h.len]
        lastLe := h.lastLe
        nodup := (List.nodup_cons.mp hnd).2
        inBound := by intro x hx; exact h.inBound x (by rw [hvac]; simp [hx])
        cnt := by show s.count + 1 + (h' :: rest).length = bound s; simp; omega
        chain := by
          have hc0 : Chain s.items (h' :: rest) := by have := h.chain; rw [hvac] at this; exact chain_tail this
          apply chain_congr _ hc0
          intro x hx
          rw [at'_set]
          have : ¬ (s.head = x ∧ s.head < (setA s.items h' 255).length) := by
            intro e; exact hnotin (e.1 ▸ hx)
          rw [if_neg this, at'_setA_b]
        headEq := by
          have : s.count + 1 < s.cap := by omega
          simp [this]
        tailEq := by
          have : s.count + 1 < s.cap := by omega
          simp only [this, if_true]
          rw [← htl, hvac, List.getLast?_cons_cons]
        full := by intro e; simp at e; omega
        frontier := h.frontier }
    · intro i
      simp only [Occ]
      have hb : bound { s with head := h', items := (setA s.items h' 255).set s.head t, count := s.count + 1 } = bound s := rfl
      rw [hb, hvac]
      have hhb : s.head < bound s := h.inBound _ hmem
      simp only [List.mem_cons]
      constructor
      · intro ⟨h1, h2⟩
        by_cases e : i = s.head
        · left; exact e
        · right; exact ⟨h1, by intro h3; rcases h3 with h3 | h3; exact e h3; exact h2 h3⟩
      · intro h1
        rcases h1 with e | ⟨h1, h2⟩
        · subst e; exact ⟨hhb, by simpa using hnotin⟩
        · exact ⟨h1, fun h3 => h2 (Or.inr h3)⟩
    · rw [at'_set]; simp [length_setA, hlen]
    · intro i hi
      have h2 := hi.2; rw [hvac] at h2
      have hni : s.head ≠ i := by intro e; exact h2 (by simp [e])
      have hni' : h' ≠ i := by intro e; exact h2 (by simp [e])
      rw [at'_set]
      simp only [hni, false_and, if_false]
      exact at'_setA_ne _ _ _ _ hni'

end TaskList
end FFSM2

namespace FFSM2
namespace TaskList

theorem getLast?_cons_of_ne_nil {x : Nat} {l : List Nat} (h : l ≠ []) : (x :: l).getLast? = l.getLast? := by
  cases l with
  | nil => exact absurd rfl h
  | cons y r => rw [List.getLast?_cons_cons]

/-- `remove(i)` of an occupied slot, under the invariant -/
theorem remove_spec {s : TL} {vac : List Nat} (h : Inv s vac) (i : Nat) (hocc : Occ s vac i) (hpos : 0 < s.count) :
    ∃ vac', Inv (remove s i) vac' ∧ (remove s i).count = s.count - 1 ∧ (remove s i).cap = s.cap ∧
      (∀ j, Occ (remove s i) vac' j ↔ (Occ s vac j ∧ j ≠ i)) ∧
      (∀ j, Occ s vac j → j ≠ i → at' (remove s i).items j = at' s.items j) := by
  have hble := bound_le s h.lastLe
  have hi : i < s.cap := Nat.lt_of_lt_of_le hocc.1 hble
  have hilen : i < s.items.length := by rw [h.len]; exact hi
  by_cases hc : s.count < s.cap
  · have hhd : vac.head? = some s.head := by rw [h.headEq]; simp [hc]
    have htl : vac.getLast? = some s.tail := by rw [h.tailEq]; simp [hc]
    have hmem := head_mem hhd
    have hne : s.head ≠ i := by intro e; exact hocc.2 (e ▸ hmem)
    have hvne : vac ≠ [] := by intro e; rw [e] at hhd; simp at hhd
    have hem : remove s i = { s with items := setA (setAB s.items i 255 s.head) s.head i, head := i, count := s.count - 1 } := by
      simp [remove, hc]
    rw [hem]
    refine ⟨i :: vac, ?_, rfl, rfl, ?_, ?_⟩
    · exact {
        capPos := h.capPos
        capLe := h.capLe
        len := by simp [length_setA, length_setAB, h.len]
        lastLe := h.lastLe
        nodup := List.nodup_cons.mpr ⟨hocc.2, h.nodup⟩
        inBound := by
          intro x hx
          rcases List.mem_cons.mp hx with rfl | hx
          · exact hocc.1
          · exact h.inBound x hx
        cnt := by show s.count - 1 + (i :: vac).length = bound s; have := h.cnt; simp; omega
        chain := by
          cases hv : vac with
          | nil => exact absurd hv hvne
          | cons x r =>
            have hx : x = s.head := by rw [hv] at hhd; simpa using hhd
            refine ⟨?_, ?_⟩
            · rw [at'_setA_b]; rw [(at'_setAB_self _ _ _ _ hilen).1]; exact hx.symm
            · have hc0 : Chain s.items (x :: r) := by rw [← hv]; exact h.chain
              apply chain_congr _ hc0
              intro z hz
              have hzi : i ≠ z := by intro e; exact hocc.2 (by rw [hv, e]; exact hz)
              rw [at'_setA_b, at'_setAB_ne _ _ _ _ _ hzi]
        headEq := by
          have : s.count - 1 < s.cap := by omega
          simp [this]
        tailEq := by
          have : s.count - 1 < s.cap := by omega
          simp only [this, if_true]
          rw [getLast?_cons_of_ne_nil hvne, htl]
        full := by intro e; simp at e; omega
        frontier := h.frontier }
    · intro j
      simp only [Occ]
      have hb : bound { s with items := setA (setAB s.items i 255 s.head) s.head i, head := i, count := s.count - 1 } = bound s := rfl
      rw [hb]
      simp only [List.mem_cons, not_or]
      constructor
      · intro ⟨h1, h2, h3⟩; exact ⟨⟨h1, h3⟩, h2⟩
      · intro ⟨⟨h1, h3⟩, h2⟩; exact ⟨h1, h2, h3⟩
    · intro j hj hji
      have hjh : s.head ≠ j := by intro e; exact hj.2 (e ▸ hmem)
      show at' (setA (setAB s.items i 255 s.head) s.head i) j = at' s.items j
      rw [at'_setA_ne _ _ _ _ hjh, at'_setAB_ne _ _ _ _ _ (fun e => hji e.symm)]
  · have hfull : s.count = s.cap := by
      have := h.cnt; have := bound_le s h.lastLe; omega
    obtain ⟨f1, f2, f3⟩ := h.full hfull
    have hvac : vac = [] := by
      have := h.headEq; simp [hc] at this; exact this
    have hem : remove s i = { s with items := setAB s.items i 255 255, head := i, tail := i, count := s.count - 1 } := by
      simp [remove, hc]
    rw [hem]
    have hb : bound s = s.cap := by simp [bound, f3]
    refine ⟨[i], ?_, rfl, rfl, ?_, ?_⟩
    · exact {
        capPos := h.capPos
        capLe := h.capLe
        len := by simp [length_setAB, h.len]
        lastLe := h.lastLe
        nodup := by simp
        inBound := by
          intro x hx
          have hx' : x = i := by simpa using hx
          rw [hx']; show i < bound s; rw [hb]; exact hi
        cnt := by show s.count - 1 + 1 = bound s; rw [hb]; omega
        chain := trivial
        headEq := by
          have : s.count - 1 < s.cap := by omega
          simp [this]
        tailEq := by
          have : s.count - 1 < s.cap := by omega
          simp [this]
        full := by intro e; simp at e; omega
        frontier := by intro e; simp at e; omega }
    · intro j
      simp only [Occ]
      have hb' : bound { s with items := setAB s.items i 255 255, head := i, tail := i, count := s.count - 1 } = bound s := rfl
      rw [hb', hvac]
      simp
    · intro j _ hji
      show at' (setAB s.items i 255 255) j = at' s.items j
      exact at'_setAB_ne _ _ _ _ _ (fun e => hji e.symm)

end TaskList
end FFSM2
