import FFSM2.Lemmas.Processing
/-! The `_cancelled` flag of a guard round is exactly "some guard of this round called
    `cancelPendingTransition()`": ties the abstract veto flag of `substRounds` to the action events user code
    produces (C03 on the event level). -/
namespace FFSM2
open Step Ancestors

/-- a performed `cancelPendingTransition()` -/
def Ev.isCancel : Ev → Bool
  | .act _ .cancel => true
  | _ => false

def hasCancel (es : List Ev) : Bool := es.any Ev.isCancel

@[simp] theorem hasCancel_nil : hasCancel [] = false := rfl
theorem hasCancel_append (a b : List Ev) : hasCancel (a ++ b) = (hasCancel a || hasCancel b) := by
  simp [hasCancel, List.any_append]

/-- the step raises the flag exactly when one of its events is a performed cancellation -/
def Tracks (f : Step) : Prop := ∀ s, (f s).1.cancelled = (s.cancelled || hasCancel (f s).2)

theorem Tracks.seq {f g : Step} (hf : Tracks f) (hg : Tracks g) : Tracks (f ⋙ g) := by
  intro s
  simp only [Step.seq]
  rw [hg, hf, hasCancel_append, Bool.or_assoc]

theorem tracks_skip : Tracks skip := fun s => by simp [skip]
theorem tracks_emit {e : St → List Ev} (h : ∀ s, hasCancel (e s) = false) : Tracks (emit e) := fun s => by simp [emit, h]
theorem tracks_modifyCore (m : Core → Core) : Tracks (modifyCore m) := fun s => by simp [modifyCore]
theorem tracks_seqList {l : List Step} (h : ∀ f ∈ l, Tracks f) : Tracks (seqList l) := by
  induction l with
  | nil => exact tracks_skip
  | cons f fs ih => exact Tracks.seq (h f (by simp)) (ih fun g hg => h g (by simp [hg]))

theorem hasCancel_logEv (env : Env) (c : Core) (r : LogRec) : hasCancel (logEv env c r) = false := by
  unfold logEv; split <;> rfl

/-- one action together with its `act` event -/
theorem tracks_action (env : Env) (sid : Nat) (key : Key) (a : Action) :
    Tracks ((emit fun _ => [Ev.act key a]) ⋙ applyAction env sid a) := by
  intro s
  simp only [Step.seq, emit]
  have hl : ∀ (b : Action) (r : LogRec), b ≠ .cancel →
      s.cancelled = (s.cancelled || hasCancel ([Ev.act key b] ++ logEv env s.core r)) := by
    intro b r hb
    rw [hasCancel_append, hasCancel_logEv]
    cases b <;> simp_all [hasCancel, Ev.isCancel]
  cases a with
  | cancel => simp [applyAction, hasCancel, Ev.isCancel]
  | changeTo d => exact hl _ _ (by simp)
  | changeWith d p => exact hl _ _ (by simp)
  | succeed id => exact hl _ _ (by simp)
  | fail id => exact hl _ _ (by simp)
  | planAppend o d p => cases p <;> simp only [applyAction] <;> split <;> simp [hasCancel, Ev.isCancel]
  | planClear => simp [applyAction, hasCancel, Ev.isCancel]
  | planRemove m => simp [applyAction, hasCancel, Ev.isCancel]

theorem tracks_runActions (env : Env) (fl : Flavour) (sid : Nat) (key : Key) : ∀ as : List Action, Tracks (runActions env fl sid key as)
  | [] => tracks_skip
  | a :: as => by
    unfold runActions
    refine Tracks.seq ?_ (tracks_runActions env fl sid key as)
    split
    · exact tracks_action env sid key a
    · exact tracks_skip

theorem tracks_deliverLayer (env : Env) (m : Method) (sid : Nat) (cur pend : Tr) (layer : Layer) :
    Tracks (deliverLayer env m sid cur pend layer) := by
  intro s
  rw [deliverLayer_eq]
  have hb : Tracks (layerBody env m sid cur pend layer (occOf s.seen (m, sid, layer))) := by
    unfold layerBody
    refine Tracks.seq (tracks_emit fun _ => rfl) ?_
    split
    · exact tracks_runActions env _ _ _ _
    · exact tracks_skip
  exact hb _

theorem tracks_deliver (env : Env) (m : Method) (sid : Nat) (cur pend : Tr) : Tracks (deliver env m sid cur pend) := by
  unfold deliver
  refine Tracks.seq (tracks_emit fun s => ?_) (tracks_seqList ?_)
  · split
    · exact hasCancel_logEv env _ _
    · rfl
  · intro f hf
    obtain ⟨l, _, rfl⟩ := List.mem_map.mp hf
    exact tracks_deliverLayer env m sid cur pend l

/-- **a round is vetoed iff one of its guards performed `cancelPendingTransition()`** -/
theorem guardRound_cancelled (env : Env) (cur pend : Tr) (s : St) :
    (guardRound env cur pend s).1.cancelled = hasCancel (guardRound env cur pend s).2 := by
  let s0 : St := { s with ts := .none, cancelled := false }
  let r1 := deliver env .exitGuard s0.core.active cur pend s0
  have e : guardRound env cur pend s =
      (let r2 := if r1.1.cancelled then (r1.1, ([] : List Ev)) else deliver env .entryGuard r1.1.core.requested cur pend r1.1
       (r2.1, r1.2 ++ r2.2)) := by
    simp only [guardRound, Step.seq, Step.modify, List.nil_append, r1, s0]
    rfl
  have t1 : r1.1.cancelled = hasCancel r1.2 := by
    have := tracks_deliver env .exitGuard s0.core.active cur pend s0
    simpa [s0] using this
  rw [e]
  dsimp only
  by_cases hc : r1.1.cancelled = true
  · simp only [hc, if_true, List.append_nil]
    rw [← t1, hc]
  · have hc' : r1.1.cancelled = false := by simpa using hc
    simp only [hc', Bool.false_eq_true, if_false]
    rw [tracks_deliver env .entryGuard _ cur pend r1.1, hasCancel_append, ← t1, hc']

theorem entryGuardRound_cancelled (env : Env) (cur pend : Tr) (s : St) :
    (entryGuardRound env cur pend s).1.cancelled = hasCancel (entryGuardRound env cur pend s).2 := by
  let s0 : St := { s with ts := .none, cancelled := false }
  let r1 := deliver env .entryGuard 255 cur pend s0
  have e : entryGuardRound env cur pend s =
      (let r2 := if r1.1.cancelled then (r1.1, ([] : List Ev)) else deliver env .entryGuard r1.1.core.requested cur pend r1.1
       (r2.1, r1.2 ++ r2.2)) := by
    simp only [entryGuardRound, Step.seq, Step.modify, List.nil_append, r1, s0]
    rfl
  have t1 : r1.1.cancelled = hasCancel r1.2 := by
    have := tracks_deliver env .entryGuard 255 cur pend s0
    simpa [s0] using this
  rw [e]
  dsimp only
  by_cases hc : r1.1.cancelled = true
  · simp only [hc, if_true, List.append_nil]
    rw [← t1, hc]
  · have hc' : r1.1.cancelled = false := by simpa using hc
    simp only [hc', Bool.false_eq_true, if_false]
    rw [tracks_deliver env .entryGuard _ cur pend r1.1, hasCancel_append, ← t1, hc']

/-- ghost: the events of each evaluated round of the loop, in order -/
def substRoundEvs (round : Tr → Tr → Step) : Nat → Tr → St → List (List Ev)
  | 0, _, _ => []
  | fuel + 1, current, s =>
    if s.core.request.valid then
      let ar := applyRequest current s.core.request.dest s.core
      if ar.2 then
        let pending := s.core.request
        let s1 := { s with core := { ar.1 with request := ar.1.request.clear } }
        let r := round current pending s1
        let current' := if r.1.cancelled then current else pending
        r.2 :: substRoundEvs round fuel current' r.1
      else
        substRoundEvs round fuel current { s with core := { s.core with request := s.core.request.clear } }
    else []

/-- the loop's trace is the concatenation of its rounds' traces, and each round's veto flag is "a guard of that
    round cancelled" -/
theorem substLoop_rounds (round : Tr → Tr → Step) (hr : ∀ c p s, (round c p s).1.cancelled = hasCancel (round c p s).2) :
    ∀ (fuel : Nat) (cur : Tr) (s : St),
      (substLoop round fuel cur s).2 = (substRoundEvs round fuel cur s).flatten ∧
      (substRounds round fuel cur s).map (·.2) = (substRoundEvs round fuel cur s).map hasCancel := by
  intro fuel
  induction fuel with
  | zero => intro _ _; exact ⟨rfl, rfl⟩
  | succ fuel ih =>
    intro cur s
    simp only [substLoop, substRounds, substRoundEvs]
    split
    · split
      · obtain ⟨i1, i2⟩ := ih (if (round cur s.core.request _).1.cancelled then cur else s.core.request) (round cur s.core.request _).1
        refine ⟨?_, ?_⟩
        · simp only [List.flatten_cons]; rw [i1]
        · simp only [List.map_cons]; rw [i2, hr]
      · exact ih _ _
    · exact ⟨rfl, rfl⟩

end FFSM2
