import FFSM2.Lemmas.Lifecycle
/-! The substitution loop (`processTransitions` / `initialEnter`) and request processing. -/
namespace FFSM2
open Step Ancestors

/-- ghost view of `substLoop`: the rounds it evaluates, as `(pending transition, vetoed?)` -/
def substRounds (round : Tr → Tr → Step) : Nat → Tr → St → List (Tr × Bool)
  | 0, _, _ => []
  | fuel + 1, current, s =>
    if s.core.request.valid then
      let ar := applyRequest current s.core.request.dest s.core
      if ar.2 then
        let pending := s.core.request
        let s1 := { s with core := { ar.1 with request := ar.1.request.clear } }
        let r := round current pending s1
        let current' := if r.1.cancelled then current else pending
        (pending, r.1.cancelled) :: substRounds round fuel current' r.1
      else
        substRounds round fuel current { s with core := { s.core with request := s.core.request.clear } }
    else []

/-- "the most recent request that was not cancelled by a guard" (or the starting value) -/
def survivor (current : Tr) (rounds : List (Tr × Bool)) : Tr :=
  rounds.foldl (fun cur r => if r.2 then cur else r.1) current

theorem substLoop_current (round : Tr → Tr → Step) : ∀ (fuel : Nat) (current : Tr) (s : St),
    (substLoop round fuel current s).1.2 = survivor current (substRounds round fuel current s) := by
  intro fuel
  induction fuel with
  | zero => intro current s; rfl
  | succ fuel ih =>
    intro current s
    simp only [substLoop, substRounds]
    split
    · split
      · simp only [survivor, List.foldl_cons]
        exact ih _ _
      · exact ih _ _
    · rfl

/-- **C04**: the loop evaluates at most `fuel = SUBSTITUTION_LIMIT` rounds -/
theorem substRounds_length (round : Tr → Tr → Step) : ∀ (fuel : Nat) (current : Tr) (s : St),
    (substRounds round fuel current s).length ≤ fuel := by
  intro fuel
  induction fuel with
  | zero => intro _ _; simp [substRounds]
  | succ fuel ih =>
    intro current s
    simp only [substRounds]
    split
    · split
      · simp only [List.length_cons]; exact Nat.succ_le_succ (ih _ _)
      · exact Nat.le_succ_of_le (ih _ _)
    · simp

/-- every pending transition the loop evaluates is a real request (valid destination) -/
theorem substRounds_pending_valid (round : Tr → Tr → Step) : ∀ (fuel : Nat) (current : Tr) (s : St),
    ∀ r ∈ substRounds round fuel current s, r.1.valid = true := by
  intro fuel
  induction fuel with
  | zero => intro _ _ r hr; simp [substRounds] at hr
  | succ fuel ih =>
    intro current s r hr
    simp only [substRounds] at hr
    split at hr
    · rename_i hv
      split at hr
      · simp only [List.mem_cons] at hr
        rcases hr with rfl | hr
        · exact hv
        · exact ih _ _ r hr
      · exact ih _ _ r hr
    · simp at hr

theorem survivor_valid_or_init (current : Tr) (rounds : List (Tr × Bool)) (h : ∀ r ∈ rounds, r.1.valid = true) :
    survivor current rounds = current ∨ (survivor current rounds).valid = true := by
  induction rounds generalizing current with
  | nil => left; rfl
  | cons r rs ih =>
    simp only [survivor, List.foldl_cons]
    have hrs : ∀ x ∈ rs, x.1.valid = true := fun x hx => h x (by simp [hx])
    cases hc : r.2
    · simp only [Bool.false_eq_true, if_false]
      rcases ih r.1 hrs with e | e
      · right; unfold survivor at e; rw [e]; exact h r (by simp)
      · right; exact e
    · simp only [if_true]
      exact ih current hrs

theorem applyRequest_active (current : Tr) (d : Nat) (c : Core) : (applyRequest current d c).1.active = c.active := by
  unfold applyRequest; split <;> rfl

/-- the loop never touches `active` and emits no lifecycle event, whatever the guards do -/
theorem substLoop_quiet (round : Tr → Tr → Step) (hst : ∀ c p, Stable (round c p)) (hnl : ∀ c p, NoLife (round c p)) :
    ∀ (fuel : Nat) (current : Tr) (s : St),
      (substLoop round fuel current s).1.1.core.active = s.core.active ∧
      (substLoop round fuel current s).2.filter Ev.isLife = [] := by
  intro fuel
  induction fuel with
  | zero => intro _ _; exact ⟨rfl, rfl⟩
  | succ fuel ih =>
    intro current s
    simp only [substLoop]
    split
    · split
      · obtain ⟨h1, h2⟩ := ih (if (round current s.core.request _).1.cancelled then current else s.core.request)
          (round current s.core.request _).1
        refine ⟨?_, ?_⟩
        · rw [h1, (hst _ _ _).1]; exact applyRequest_active _ _ _
        · rw [List.filter_append, h2, hnl _ _ _]; rfl
      · obtain ⟨h1, h2⟩ := ih current { s with core := { s.core with request := s.core.request.clear } }
        exact ⟨h1, h2⟩
    · exact ⟨rfl, rfl⟩

/-- no guard is delivered outside the rounds: `guards` of the loop's events come from `round` only;
    in particular a loop over zero rounds delivers none -/
theorem substLoop_sig (round : Tr → Tr → Step) (hst : ∀ c p, Stable (round c p)) (hnl : ∀ c p, NoLife (round c p))
    (fuel : Nat) (current : Tr) (s : St) : sig (substLoop round fuel current s).2 = [] :=
  sig_eq_nil_of_noLife (substLoop_quiet round hst hnl fuel current s).2

/-- `applySurvivor`: nothing when no request survived, otherwise exactly the change to its destination -/
theorem applySurvivor_spec (env : Env) (cur : Tr) (s : St) :
    (cur.valid = false → applySurvivor env cur s = (s, [])) ∧
    (cur.valid = true →
      (applySurvivor env cur s).1.core.active = cur.dest ∧
      sig (applySurvivor env cur s).2 =
        if cur.dest != s.core.active then [(Method.exit, s.core.active), (Method.enter, cur.dest)]
        else [(Method.reenter, s.core.active)]) := by
  unfold applySurvivor
  constructor
  · intro h; simp [h]
  · intro h
    simp only [h, if_true, Step.seq, modifyCore]
    have hspec := changeToRequested_spec env cur { s with core := { s.core with requested := cur.dest } }
    refine ⟨hspec.1, ?_⟩
    simp only [sig_append, sig_nil, List.nil_append]
    exact hspec.2.2

theorem finishProcessing_spec (env : Env) (cur : Tr) (s : St) :
    (finishProcessing env cur s).1.core.active = s.core.active ∧
    (finishProcessing env cur s).1.core.requested = 255 ∧
    (env.cfg.history = true → (finishProcessing env cur s).1.core.prev = cur) ∧
    (finishProcessing env cur s).2 = [] := by
  unfold finishProcessing modifyCore
  exact ⟨rfl, rfl, fun h => by simp [h], rfl⟩

/-- the rounds evaluated by one `processRequest` (ghost) -/
def processRounds (env : Env) (s : St) : List (Tr × Bool) :=
  if s.core.request.valid then substRounds (guardRound env) (substFuel env.cfg.L) {} s else []

/-- **request processing** (`processRequest` + `processTransitions`): with `cur` = the last request
    that survived its guards (Q1: duplicate suppression happens inside `applyRequest`), the step
    applies exactly `cur`: nothing if there is none, `reenter` if it names the active state,
    `exit(old); enter(new)` otherwise; the registry's `requested` is cleared and the history records `cur`. -/
theorem processRequest_spec (env : Env) (s : St) :
    let cur := survivor {} (processRounds env s)
    let r := processRequest env s
    (processRounds env s).length ≤ substFuel env.cfg.L ∧
    r.1.core.requested = 255 ∧
    (env.cfg.history = true → r.1.core.prev = cur) ∧
    (cur.valid = false → r.1.core.active = s.core.active ∧ sig r.2 = []) ∧
    (cur.valid = true → r.1.core.active = cur.dest ∧
      sig r.2 = if cur.dest != s.core.active then [(Method.exit, s.core.active), (Method.enter, cur.dest)]
                else [(Method.reenter, s.core.active)]) := by
  intro cur r
  by_cases hv : s.core.request.valid = true
  · have hrounds : processRounds env s = substRounds (guardRound env) (substFuel env.cfg.L) {} s := by
      simp [processRounds, hv]
    have hcur : (substLoop (guardRound env) (substFuel env.cfg.L) {} s).1.2 = cur := by
      rw [substLoop_current]; simp [cur, hrounds]
    obtain ⟨hact, hlife⟩ := substLoop_quiet (guardRound env) (stable_guardRound env) (noLife_guardRound env)
      (substFuel env.cfg.L) {} s
    have hsig0 : sig (substLoop (guardRound env) (substFuel env.cfg.L) {} s).2 = [] := sig_eq_nil_of_noLife hlife
    generalize hS : (substLoop (guardRound env) (substFuel env.cfg.L) {} s) = S at hcur hact hsig0
    have hr : r = (((applySurvivor env cur ⋙ finishProcessing env cur) S.1.1).1,
                   S.2 ++ ((applySurvivor env cur ⋙ finishProcessing env cur) S.1.1).2) := by
      simp only [r, processRequest, hv, if_true, hS, hcur]
    obtain ⟨ha1, ha2⟩ := applySurvivor_spec env cur S.1.1
    have hf := finishProcessing_spec env cur (applySurvivor env cur S.1.1).1
    refine ⟨by rw [hrounds]; exact substRounds_length _ _ _ _, ?_, ?_, ?_, ?_⟩
    · rw [hr]; simp only [Step.seq]; exact hf.2.1
    · rw [hr]; simp only [Step.seq]; exact hf.2.2.1
    · intro hcv
      rw [hr]; simp only [Step.seq]
      rw [hf.1, hf.2.2.2, ha1 hcv]
      exact ⟨hact, by simp [hsig0]⟩
    · intro hcv
      rw [hr]; simp only [Step.seq]
      rw [hf.1, hf.2.2.2]
      refine ⟨(ha2 hcv).1, ?_⟩
      rw [sig_append, hsig0, List.nil_append, List.append_nil, (ha2 hcv).2, hact]
  · have hv' : s.core.request.valid = false := by simpa using hv
    have hrounds : processRounds env s = [] := by simp [processRounds, hv']
    have hcur : cur = {} := by simp [cur, hrounds, survivor]
    have hr : r = finishProcessing env {} s := by simp only [r, processRequest, hv', Bool.false_eq_true, if_false]
    have hf := finishProcessing_spec env {} s
    rw [hr, hcur]
    refine ⟨by simp [hrounds], hf.2.1, hf.2.2.1, fun _ => ⟨hf.1, by rw [hf.2.2.2]; rfl⟩, fun h => by simp [Tr.valid] at h⟩

end FFSM2
