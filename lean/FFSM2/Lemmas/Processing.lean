import FFSM2.Lemmas.Lifecycle
/-! The substitution loop (`processTransitions` / `initialEnter`) and request processing. -/
namespace FFSM2
open Step Ancestors

/-- ghost view of `substLoop`: the rounds it evaluates, as `(pending transition, vetoed?)` -/
def substRounds (round : Tr → Tr → Step) : Nat → Tr → St → List (Tr × Bool)
  | 0, _, _ => []
  | fuel + 1, current, s =>
    if s.core.request.valid then
      let ar := applyRequest current s.core.request.dest s.core
      if ar.2 then
        let pending := s.core.request
        let s1 := { s with core := { ar.1 with request := ar.1.request.clear } }
        let r := round current pending s1
        let current' := if r.1.cancelled then current else pending
        (pending, r.1.cancelled) :: substRounds round fuel current' r.1
      else
        substRounds round fuel current { s with core := { s.core with request := s.core.request.clear } }
    else []

/-- "the most recent request that was not cancelled by a guard" (or the starting value) -/
def survivor (current : Tr) (rounds : List (Tr × Bool)) : Tr :=
  rounds.foldl (fun cur r => if r.2 then cur else r.1) current

theorem substLoop_current (round : Tr → Tr → Step) : ∀ (fuel : Nat) (current : Tr) (s : St),
    (substLoop round fuel current s).1.2 = survivor current (substRounds round fuel current s) := by
  intro fuel
  induction fuel with
  | zero => intro current s; rfl
  | succ fuel ih =>
    intro current s
    simp only [substLoop, substRounds]
    split
    · split
      · simp only [survivor, List.foldl_cons]
        exact ih _ _
      · exact ih _ _
    · rfl

/-- **C04**: the loop evaluates at most `fuel = SUBSTITUTION_LIMIT` rounds -/
theorem substRounds_length (round : Tr → Tr → Step) : ∀ (fuel : Nat) (current : Tr) (s : St),
    (substRounds round fuel current s).length ≤ fuel := by
  intro fuel
  induction fuel with
  | zero => intro _ _; simp [substRounds]
  | succ fuel ih =>
    intro current s
    simp only [substRounds]
    split
    · split
      · simp only [List.length_cons]; exact Nat.succ_le_succ (ih _ _)
      · exact Nat.le_succ_of_le (ih _ _)
    · simp

/-- every pending transition the loop evaluates is a real request (valid destination) -/
theorem substRounds_pending_valid (round : Tr → Tr → Step) : ∀ (fuel : Nat) (current : Tr) (s : St),
    ∀ r ∈ substRounds round fuel current s, r.1.valid = true := by
  intro fuel
  induction fuel with
  | zero => intro _ _ r hr; simp [substRounds] at hr
  | succ fuel ih =>
    intro current s r hr
    simp only [substRounds] at hr
    split at hr
    · rename_i hv
      split at hr
      · simp only [List.mem_cons] at hr
        rcases hr with rfl | hr
        · exact hv
        · exact ih _ _ r hr
      · exact ih _ _ r hr
    · simp at hr

theorem survivor_valid_or_init (current : Tr) (rounds : List (Tr × Bool)) (h : ∀ r ∈ rounds, r.1.valid = true) :
    survivor current rounds = current ∨ (survivor current rounds).valid = true := by
  induction rounds generalizing current with
  | nil => left; rfl
  | cons r rs ih =>
    simp only [survivor, List.foldl_cons]
    have hrs : ∀ x ∈ rs, x.1.valid = true := fun x hx => h x (by simp [hx])
    cases hc : r.2
    · simp only [Bool.false_eq_true, if_false]
      rcases ih r.1 hrs with e | e
      · right; unfold survivor at e; rw [e]; exact h r (by simp)
      · right; exact e
    · simp only [if_true]
      exact ih current hrs

theorem applyRequest_active (current : Tr) (d : Nat) (c : Core) : (applyRequest current d c).1.active = c.active := by
  unfold applyRequest; split <;> rfl

/-- the loop never touches `active` and emits no lifecycle event, whatever the guards do -/
theorem substLoop_quiet (round : Tr → Tr → Step) (hst : ∀ c p, Stable (round c p)) (hnl : ∀ c p, NoLife (round c p)) :
    ∀ (fuel : Nat) (current : Tr) (s : St),
      (substLoop round fuel current s).1.1.core.active = s.core.active ∧
      (substLoop round fuel current s).2.filter Ev.isLife = [] := by
  intro fuel
  induction fuel with
  | zero => intro _ _; exact ⟨rfl, rfl⟩
  | succ fuel ih =>
    intro current s
    simp only [substLoop]
    split
    · split
      · obtain ⟨h1, h2⟩ := ih (if (round current s.core.request _).1.cancelled then current else s.core.request)
          (round current s.core.request _).1
        refine ⟨?_, ?_⟩
        · rw [h1, (hst _ _ _).1]; exact applyRequest_active _ _ _
        · rw [List.filter_append, h2, hnl _ _ _]; rfl
      · obtain ⟨h1, h2⟩ := ih current { s with core := { s.core with request := s.core.request.clear } }
        exact ⟨h1, h2⟩
    · exact ⟨rfl, rfl⟩

/-- no guard is delivered outside the rounds: `guards` of the loop's events come from `round` only;
    in particular a loop over zero rounds delivers none -/
theorem substLoop_sig (round : Tr → Tr → Step) (hst : ∀ c p, Stable (round c p)) (hnl : ∀ c p, NoLife (round c p))
    (fuel : Nat) (current : Tr) (s : St) : sig (substLoop round fuel current s).2 = [] :=
  sig_eq_nil_of_noLife (substLoop_quiet round hst hnl fuel current s).2

/-- **request processing** (`processRequest` + `processTransitions`): with
    `cur` = the last request that survived its guards (Q1: duplicate suppression happens inside
    `applyRequest`), the step applies exactly `cur`. -/
theorem processRequest_spec (env : Env) (s : St) :
    let rounds := if s.core.request.valid then substRounds (guardRound env) env.cfg.L {} s else []
    let cur := survivor {} rounds
    let r := processRequest env s
    rounds.length ≤ env.cfg.L ∧
    r.1.core.requested = 255 ∧
    (env.cfg.history = true → r.1.core.prev = cur) ∧
    (cur.valid = false → r.1.core.active = s.core.active ∧ sig r.2 = []) ∧
    (cur.valid = true → r.1.core.active = cur.dest ∧
      sig r.2 = if cur.dest != s.core.active then [(Method.exit, s.core.active), (Method.enter, cur.dest)]
                else [(Method.reenter, s.core.active)]) := by
  intro rounds cur r
  by_cases hv : s.core.request.valid = true
  · have hrounds : rounds = substRounds (guardRound env) env.cfg.L {} s := by simp [rounds, hv]
    have hcur : (substLoop (guardRound env) env.cfg.L {} s).1.2 = cur := by
      rw [substLoop_current]; simp [cur, hrounds]
    obtain ⟨hact, hlife⟩ := substLoop_quiet (guardRound env) (stable_guardRound env) (noLife_guardRound env) env.cfg.L {} s
    have hsig0 : sig (substLoop (guardRound env) env.cfg.L {} s).2 = [] := sig_eq_nil_of_noLife hlife
    refine ⟨by rw [hrounds]; exact substRounds_length _ _ _ _, ?_⟩
    cases hcv : cur.valid
    · have hr : r = ({ (substLoop (guardRound env) env.cfg.L {} s).1.1 with
          core := { (substLoop (guardRound env) env.cfg.L {} s).1.1.core with requested := 255,
                    prev := if env.cfg.history then cur else (substLoop (guardRound env) env.cfg.L {} s).1.1.core.prev } },
          (substLoop (guardRound env) env.cfg.L {} s).2 ++ []) := by
        simp only [r, processRequest, hv, if_true, hcur, hcv, Bool.false_eq_true, if_false]
      rw [hr]
      refine ⟨rfl, fun hh => by simp [hh], fun _ => ⟨hact, by simp [hsig0]⟩, fun h => by cases h⟩
    · have hspec := changeToRequested_spec env cur
        ((modifyCore (fun c => { c with requested := cur.dest })) (substLoop (guardRound env) env.cfg.L {} s).1.1).1
      have hr : r = (let r2 := (modifyCore (fun c => { c with requested := cur.dest }) ⋙ changeToRequested env cur)
                        (substLoop (guardRound env) env.cfg.L {} s).1.1
          ({ r2.1 with core := { r2.1.core with requested := 255, prev := if env.cfg.history then cur else r2.1.core.prev } },
           (substLoop (guardRound env) env.cfg.L {} s).2 ++ r2.2)) := by
        simp only [r, processRequest, hv, if_true, hcur, hcv]
      rw [hr]
      simp only [Step.seq]
      refine ⟨rfl, fun hh => by simp [hh], fun h => by cases h, fun _ => ⟨hspec.1, ?_⟩⟩
      rw [sig_append, hsig0, List.nil_append]
      simp only [modifyCore, sig_append, sig_nil, List.nil_append]
      rw [hspec.2.2]
      simp only [modifyCore, hact]
  · have hv' : s.core.request.valid = false := by simpa using hv
    have hrounds : rounds = [] := by simp [rounds, hv']
    have hcur : cur = {} := by simp [cur, hrounds, survivor]
    have hr : r = ({ s with core := { s.core with prev := if env.cfg.history then {} else s.core.prev } }, []) := by
      simp only [r, processRequest, hv', Bool.false_eq_true, if_false]
    rw [hr, hcur]
    refine ⟨by simp [hrounds], ?_, fun hh => by simp [hh], fun _ => ⟨rfl, rfl⟩, fun h => by simp [Tr.valid] at h⟩
    sorry

end FFSM2
