import FFSM2.Lemmas.Steps
/-! A range invariant of the machine's core that every building block keeps: the registry, the
    outstanding request and every task of the plan name real states (or nothing: 255), and the plan
    never exceeds its capacity.  This is what makes the ids handed to user code meaningful after any
    history (run-level theorems in `Lemmas/World.lean`). -/
namespace FFSM2
open Step Ancestors

def IdOr255 (n x : Nat) : Prop := x < n ∨ x = 255

structure CoreOk (cfg : Cfg) (c : Core) : Prop where
  active : IdOr255 cfg.n c.active
  requested : IdOr255 cfg.n c.requested
  request : IdOr255 cfg.n c.request.dest
  plan : ∀ t ∈ c.plan, t.origin < cfg.n ∧ t.dest < cfg.n
  planLen : c.plan.length ≤ cfg.cap

def Keeps (Q : Core → Prop) (f : Step) : Prop := ∀ s, Q s.core → Q (f s).1.core

theorem Keeps.seq {Q} {f g : Step} (hf : Keeps Q f) (hg : Keeps Q g) : Keeps Q (f ⋙ g) :=
  fun s h => hg _ (hf s h)
theorem keeps_skip (Q) : Keeps Q skip := fun _ h => h
theorem keeps_emit (Q) (e : St → List Ev) : Keeps Q (emit e) := fun _ h => h
theorem keeps_modify {Q} {m : St → St} (h : ∀ s, (m s).core = s.core) : Keeps Q (Step.modify m) := by
  intro s hs; simp only [Step.modify]; rw [h]; exact hs
theorem keeps_modifyCore {Q : Core → Prop} {m : Core → Core} (h : ∀ c, Q c → Q (m c)) : Keeps Q (modifyCore m) :=
  fun _ hs => h _ hs
theorem keeps_dep {Q} {g : St → Step} (h : ∀ s0, Keeps Q (g s0)) : Keeps Q (fun s => g s s) := fun s => h s s
theorem keeps_seqList {Q} {l : List Step} (h : ∀ f ∈ l, Keeps Q f) : Keeps Q (seqList l) := by
  induction l with
  | nil => exact keeps_skip Q
  | cons f fs ih => exact Keeps.seq (h f (by simp)) (ih fun g hg => h g (by simp [hg]))

theorem removeMasked_sub : ∀ (l : List Task) (m : List Bool), ∀ t ∈ removeMasked l m, t ∈ l
  | [], _ => by intro t h; simp [removeMasked] at h
  | t :: ts, [] => by intro x h; simpa [removeMasked] using h
  | t :: ts, b :: bs => by
    intro x h
    simp only [removeMasked] at h
    split at h
    · exact List.mem_cons_of_mem _ (removeMasked_sub ts bs x h)
    · simp only [List.mem_cons] at h
      rcases h with rfl | h
      · simp
      · exact List.mem_cons_of_mem _ (removeMasked_sub ts bs x h)

theorem removeMasked_length : ∀ (l : List Task) (m : List Bool), (removeMasked l m).length ≤ l.length
  | [], _ => by simp [removeMasked]
  | t :: ts, [] => by simp [removeMasked]
  | t :: ts, b :: bs => by
    simp only [removeMasked]
    split
    · exact Nat.le_succ_of_le (removeMasked_length ts bs)
    · simp only [List.length_cons]; exact Nat.succ_le_succ (removeMasked_length ts bs)

theorem coreOk_planClearCore {cfg : Cfg} {c : Core} (h : CoreOk cfg c) : CoreOk cfg (planClearCore c) :=
  ⟨h.active, h.requested, h.request, (by intro t ht; cases ht), (by simp [planClearCore])⟩

theorem coreOk_planDataClear {cfg : Cfg} {c : Core} (h : CoreOk cfg c) : CoreOk cfg (planDataClear c) :=
  ⟨h.active, h.requested, h.request, (by intro t ht; cases ht), (by simp [planDataClear])⟩

theorem coreOk_setPrev {cfg : Cfg} {c : Core} (p : Tr) (h : CoreOk cfg c) : CoreOk cfg { c with prev := p } :=
  ⟨h.active, h.requested, h.request, h.plan, h.planLen⟩

/-- the `planData.clear()` / `previousTransition.clear()` tail shared by `finalExit` and `loadActive` -/
theorem coreOk_wipe {cfg : Cfg} {c : Core} (h1 : CoreOk cfg c) (plans history : Bool) :
    CoreOk cfg (let c2 := if plans then planDataClear c else c
                if history then { c2 with prev := c2.prev.clear } else c2) := by
  cases plans <;> cases history <;> simp only [if_true, if_false, Bool.false_eq_true]
  · exact h1
  · exact coreOk_setPrev _ h1
  · exact coreOk_planDataClear h1
  · exact coreOk_setPrev _ (coreOk_planDataClear h1)

theorem coreOk_clearTaskStatus {cfg : Cfg} (id : Nat) {c : Core} (h : CoreOk cfg c) : CoreOk cfg (clearTaskStatus cfg id c) := by
  unfold clearTaskStatus; split
  · exact ⟨h.active, h.requested, h.request, h.plan, h.planLen⟩
  · exact h

/-- a permitted action keeps the invariant: destinations are validated by the control's API surface -/
theorem keeps_applyAction (env : Env) (fl : Flavour) (sid sid' : Nat) (a : Action) (hp : permitted env.cfg fl sid' a = true) :
    Keeps (CoreOk env.cfg) (applyAction env sid a) := by
  intro s h
  cases a with
  | changeTo d =>
    simp only [permitted, idOk, Bool.and_eq_true, decide_eq_true_eq] at hp
    exact ⟨h.active, h.requested, Or.inl hp.2, h.plan, h.planLen⟩
  | changeWith d p =>
    simp only [permitted, idOk, Bool.and_eq_true, decide_eq_true_eq] at hp
    exact ⟨h.active, h.requested, Or.inl hp.1.2, h.plan, h.planLen⟩
  | cancel => exact h
  | succeed id => exact ⟨h.active, h.requested, h.request, h.plan, h.planLen⟩
  | fail id => exact ⟨h.active, h.requested, h.request, h.plan, h.planLen⟩
  | planAppend o d p =>
    simp only [permitted, idOk, Bool.and_eq_true, decide_eq_true_eq] at hp
    have ho : o < env.cfg.n := hp.1.1.2
    have hd : d < env.cfg.n := hp.1.2
    cases p with
    | none =>
      simp only [applyAction]
      split
      · rename_i hl
        refine ⟨h.active, h.requested, h.request, ?_, ?_⟩
        · intro t ht
          simp only [List.mem_append, List.mem_singleton] at ht
          rcases ht with ht | rfl
          · exact h.plan t ht
          · exact ⟨ho, hd⟩
        · simp only [List.length_append, List.length_singleton]; omega
      · exact h
    | some p =>
      simp only [applyAction]
      split
      · rename_i hl
        refine ⟨h.active, h.requested, h.request, ?_, ?_⟩
        · intro t ht
          simp only [List.mem_append, List.mem_singleton] at ht
          rcases ht with ht | rfl
          · exact h.plan t ht
          · exact ⟨ho, hd⟩
        · simp only [List.length_append, List.length_singleton]; omega
      · exact ⟨h.active, h.requested, h.request, h.plan, h.planLen⟩
  | planClear => exact coreOk_planClearCore h
  | planRemove m =>
    exact ⟨h.active, h.requested, h.request, fun t ht => h.plan t (removeMasked_sub _ _ t ht),
      Nat.le_trans (removeMasked_length _ _) h.planLen⟩

theorem keeps_runActions (env : Env) (fl : Flavour) (sid : Nat) (key : Key) :
    ∀ as : List Action, Keeps (CoreOk env.cfg) (runActions env fl sid key as)
  | [] => keeps_skip _
  | a :: as => by
    unfold runActions
    refine Keeps.seq ?_ (keeps_runActions env fl sid key as)
    split
    · rename_i hp
      exact Keeps.seq (keeps_emit _ _) (keeps_applyAction env fl sid sid a hp)
    · exact keeps_skip _

theorem keeps_deliverLayer (env : Env) (m : Method) (sid : Nat) (cur pend : Tr) (layer : Layer) :
    Keeps (CoreOk env.cfg) (deliverLayer env m sid cur pend layer) := by
  intro s h
  rw [deliverLayer_eq]
  have hb : Keeps (CoreOk env.cfg) (layerBody env m sid cur pend layer (occOf s.seen (m, sid, layer))) := by
    unfold layerBody
    refine Keeps.seq (keeps_emit _ _) ?_
    split
    · exact keeps_runActions env _ _ _ _
    · exact keeps_skip _
  exact hb _ h

theorem keeps_deliver (env : Env) (m : Method) (sid : Nat) (cur pend : Tr) :
    Keeps (CoreOk env.cfg) (deliver env m sid cur pend) := by
  unfold deliver
  refine Keeps.seq (keeps_emit _ _) (keeps_seqList ?_)
  intro f hf
  obtain ⟨l, _, rfl⟩ := List.mem_map.mp hf
  exact keeps_deliverLayer env m sid cur pend l

theorem keeps_deepEnter (env : Env) (cur : Tr) : Keeps (CoreOk env.cfg) (deepEnter env cur) := by
  unfold deepEnter
  refine Keeps.seq (Keeps.seq (keeps_modifyCore fun c h => ?_) (keeps_deliver env _ _ _ _)) (keeps_dep fun s0 => keeps_deliver env _ _ _ _)
  exact ⟨h.requested, Or.inr rfl, h.request, h.plan, h.planLen⟩

theorem keeps_deepExit (env : Env) (cur : Tr) : Keeps (CoreOk env.cfg) (deepExit env cur) := by
  unfold deepExit
  refine Keeps.seq (Keeps.seq (Keeps.seq ?_ (keeps_deliver env _ _ _ _)) (keeps_modifyCore fun c h => ?_)) (keeps_modifyCore fun c h => ?_)
  · exact keeps_dep fun s0 => Keeps.seq (keeps_deliver env _ _ _ _) (keeps_modifyCore fun c h => coreOk_clearTaskStatus _ h)
  · exact ⟨Or.inr rfl, h.requested, h.request, h.plan, h.planLen⟩
  · split
    · exact coreOk_planClearCore h
    · exact h

theorem keeps_changeToRequested (env : Env) (cur : Tr) : Keeps (CoreOk env.cfg) (changeToRequested env cur) := by
  unfold changeToRequested
  intro s
  dsimp only
  split
  · refine Keeps.seq (Keeps.seq (Keeps.seq (keeps_deliver env _ _ _ _) (keeps_modifyCore fun c h => coreOk_clearTaskStatus _ h))
      (keeps_modifyCore fun c h => ?_)) (keeps_dep fun s0 => keeps_deliver env _ _ _ _) s
    exact ⟨h.requested, Or.inr rfl, h.request, h.plan, h.planLen⟩
  · refine Keeps.seq (keeps_modifyCore fun c h => ?_) (keeps_deliver env _ _ _ _) s
    exact ⟨h.active, Or.inr rfl, h.request, h.plan, h.planLen⟩

theorem keeps_guardRound (env : Env) (cur pend : Tr) : Keeps (CoreOk env.cfg) (guardRound env cur pend) := by
  unfold guardRound
  refine Keeps.seq (Keeps.seq (keeps_modify fun _ => rfl) (keeps_dep fun s0 => keeps_deliver env _ _ _ _)) ?_
  intro s
  dsimp only
  split
  · exact fun h => h
  · exact keeps_deliver env _ _ _ _ s

theorem keeps_entryGuardRound (env : Env) (cur pend : Tr) : Keeps (CoreOk env.cfg) (entryGuardRound env cur pend) := by
  unfold entryGuardRound
  refine Keeps.seq (Keeps.seq (keeps_modify fun _ => rfl) (keeps_deliver env _ _ _ _)) ?_
  intro s
  dsimp only
  split
  · exact fun h => h
  · exact keeps_deliver env _ _ _ _ s

theorem coreOk_applyRequest {cfg : Cfg} (cur : Tr) {d : Nat} (hd : IdOr255 cfg.n d) {c : Core} (h : CoreOk cfg c) :
    CoreOk cfg (applyRequest cur d c).1 := by
  unfold applyRequest
  split
  · exact ⟨h.active, hd, h.request, h.plan, h.planLen⟩
  · exact h

theorem coreOk_clearRequest {cfg : Cfg} {c : Core} (h : CoreOk cfg c) : CoreOk cfg { c with request := c.request.clear } :=
  ⟨h.active, h.requested, Or.inr rfl, h.plan, h.planLen⟩

/-- the substitution loop keeps the invariant, and the transition it accepts names a real state (or nothing) -/
theorem keeps_substLoop {cfg : Cfg} (round : Tr → Tr → Step) (hr : ∀ c p, Keeps (CoreOk cfg) (round c p)) :
    ∀ (fuel : Nat) (cur : Tr) (s : St), CoreOk cfg s.core → IdOr255 cfg.n cur.dest →
      CoreOk cfg (substLoop round fuel cur s).1.1.core ∧ IdOr255 cfg.n (substLoop round fuel cur s).1.2.dest
  | 0, _, _ => fun h hc => ⟨h, hc⟩
  | fuel + 1, cur, s => by
    intro h hc
    unfold substLoop
    dsimp only
    split
    · split
      · have h1 : CoreOk cfg { (applyRequest cur s.core.request.dest s.core).1 with
            request := (applyRequest cur s.core.request.dest s.core).1.request.clear } :=
          coreOk_clearRequest (coreOk_applyRequest cur h.request h)
        have h2 := hr cur s.core.request { s with core := { (applyRequest cur s.core.request.dest s.core).1 with
            request := (applyRequest cur s.core.request.dest s.core).1.request.clear } } h1
        refine keeps_substLoop round hr fuel _ _ h2 ?_
        split
        · exact hc
        · exact h.request
      · exact keeps_substLoop round hr fuel _ _ (coreOk_clearRequest h) hc
    · exact ⟨h, hc⟩

theorem keeps_applySurvivor (env : Env) (cur : Tr) (hc : IdOr255 env.cfg.n cur.dest) : Keeps (CoreOk env.cfg) (applySurvivor env cur) := by
  unfold applySurvivor
  intro s
  dsimp only
  split
  · refine Keeps.seq (keeps_modifyCore fun c h => ?_) (keeps_changeToRequested env cur) s
    exact ⟨h.active, hc, h.request, h.plan, h.planLen⟩
  · exact fun h => h

theorem keeps_finishProcessing (env : Env) (cur : Tr) : Keeps (CoreOk env.cfg) (finishProcessing env cur) :=
  keeps_modifyCore fun _ h => ⟨h.active, Or.inr rfl, h.request, h.plan, h.planLen⟩

theorem idOr255_default (n : Nat) : IdOr255 n ({} : Tr).dest := Or.inr rfl

theorem keeps_processRequest (env : Env) : Keeps (CoreOk env.cfg) (processRequest env) := by
  unfold processRequest
  intro s h
  dsimp only
  split
  · obtain ⟨h1, h2⟩ := keeps_substLoop (guardRound env) (keeps_guardRound env) (substFuel env.cfg.L) {} s h (idOr255_default _)
    exact Keeps.seq (keeps_applySurvivor env _ h2) (keeps_finishProcessing env _) _ h1
  · exact keeps_finishProcessing env _ s h

theorem keeps_enterSurvivor (env : Env) (hn : 1 ≤ env.cfg.n) (cur : Tr) (hc : IdOr255 env.cfg.n cur.dest) :
    Keeps (CoreOk env.cfg) (enterSurvivor env cur) := by
  unfold enterSurvivor
  refine Keeps.seq (Keeps.seq (keeps_modifyCore fun c h => ?_) (keeps_deepEnter env cur)) (keeps_modifyCore fun c h => ?_)
  · refine ⟨h.active, ?_, h.request, h.plan, h.planLen⟩
    dsimp only
    split
    · exact hc
    · exact Or.inl hn
  · exact ⟨h.active, Or.inr rfl, h.request, h.plan, h.planLen⟩

theorem keeps_initialEnter (env : Env) (hn : 1 ≤ env.cfg.n) : Keeps (CoreOk env.cfg) (initialEnter env) := by
  unfold initialEnter
  intro s h
  dsimp only
  have h0 : CoreOk env.cfg (applyRequest {} 0 s.core).1 := coreOk_applyRequest {} (Or.inl hn) h
  have h1 := keeps_entryGuardRound env {} {} { s with core := (applyRequest {} 0 s.core).1 } h0
  obtain ⟨h2, h3⟩ := keeps_substLoop (entryGuardRound env) (keeps_entryGuardRound env) (substFuel env.cfg.L) {} _ h1 (idOr255_default _)
  exact keeps_enterSurvivor env hn _ h3 _ h2

theorem keeps_finalExit (env : Env) : Keeps (CoreOk env.cfg) (finalExit env) := by
  unfold finalExit
  refine Keeps.seq (keeps_deepExit env _) (keeps_modifyCore fun c h => ?_)
  have h1 : CoreOk env.cfg { c with requested := 255, active := 255, request := c.request.clear } :=
    ⟨Or.inr rfl, Or.inr rfl, Or.inr rfl, h.plan, h.planLen⟩
  exact coreOk_wipe h1 _ _

theorem keeps_phase (env : Env) (m : Method) (hf : Bool) : Keeps (CoreOk env.cfg) (phase env m hf) := by
  unfold phase
  intro s
  refine Keeps.seq ?_ (keeps_modify fun _ => rfl) s
  have hsub : Keeps (CoreOk env.cfg) (deliver env m s.core.active {} {} ⋙
      Step.modify (fun s => { s with core := { s.core with subStatus := s.core.subStatus.or s.ts } })) := by
    refine Keeps.seq (keeps_deliver env _ _ _ _) ?_
    intro s h
    exact ⟨h.active, h.requested, h.request, h.plan, h.planLen⟩
  split
  · exact Keeps.seq (keeps_deliver env _ _ _ _) hsub
  · exact Keeps.seq hsub (keeps_deliver env _ _ _ _)

/-- `firePlan`: the invariant is kept, the tasks kept are tasks of the plan, no more than before -/
theorem keeps_firePlan (env : Env) : ∀ (tasks : List Task) (s : St) (clr : List Nat),
    CoreOk env.cfg s.core → (∀ t ∈ tasks, t.origin < env.cfg.n ∧ t.dest < env.cfg.n) →
    CoreOk env.cfg (firePlan env tasks s clr).1.1.core ∧
    (∀ t ∈ (firePlan env tasks s clr).1.2.1, t ∈ tasks) ∧ (firePlan env tasks s clr).1.2.1.length ≤ tasks.length
  | [], _, _ => fun h _ => ⟨h, (by intro t ht; simp [firePlan] at ht), (by simp [firePlan])⟩
  | t :: ts, s, clr => by
    intro h ht
    have hts : ∀ x ∈ ts, x.origin < env.cfg.n ∧ x.dest < env.cfg.n := fun x hx => ht x (by simp [hx])
    unfold firePlan
    split
    · split
      · dsimp only
        have hc : CoreOk env.cfg (if (t.origin == t.dest) = true then
            { s.core with request := ⟨t.origin, t.dest, t.payload⟩, succ := setBit s.core.succ t.origin false }
            else { s.core with request := ⟨t.origin, t.dest, t.payload⟩ }) := by
          split
          · exact ⟨h.active, h.requested, Or.inl (ht t (by simp)).2, h.plan, h.planLen⟩
          · exact ⟨h.active, h.requested, Or.inl (ht t (by simp)).2, h.plan, h.planLen⟩
        obtain ⟨i1, i2, i3⟩ := keeps_firePlan env ts { s with core := _ } (if (t.origin == t.dest) = true then clr else t.origin :: clr) hc hts
        exact ⟨i1, fun x hx => List.mem_cons_of_mem _ (i2 x hx), Nat.le_succ_of_le i3⟩
      · dsimp only
        obtain ⟨i1, i2, i3⟩ := keeps_firePlan env ts s clr h hts
        refine ⟨i1, ?_, ?_⟩
        · intro x hx
          simp only [List.mem_cons] at hx
          rcases hx with rfl | hx
          · simp
          · exact List.mem_cons_of_mem _ (i2 x hx)
        · simp only [List.length_cons]; exact Nat.succ_le_succ i3
    · exact ⟨h, fun x hx => hx, Nat.le_refl _⟩

/-- the plan step without its final `subStatus` reset (same text as in `planStep`; `planStep_eq` is by `rfl`) -/
def planStepBody (env : Env) : Step := fun s =>
  let st := s.core.subStatus.or (stateStatus s.core)
  if st != .none && s.core.planExists then
    match st with
    | .failure =>
      (modify (fun s => { s with ts := .failure }) ⋙ deliver env .planFailed 255 {} {} ⋙
        modifyCore planClearCore) s
    | _ =>
      if !s.core.plan.isEmpty then
        let f := firePlan env s.core.plan s []
        let s1 := f.1.1
        let kept := f.1.2.1
        let clr := f.1.2.2
        let succ' := clr.foldl (fun acc o => setBit acc o false) s1.core.succ
        ({ s1 with core := { s1.core with plan := kept, succ := succ' } }, f.2)
      else
        (modify (fun s => { s with ts := .success }) ⋙ deliver env .planSucceeded 255 {} {} ⋙
          modifyCore planClearCore) s
  else (s, [])

theorem planStep_eq (env : Env) (s : St) :
    planStep env s = ({ (planStepBody env s).1 with core := { (planStepBody env s).1.core with subStatus := .none } },
                      (planStepBody env s).2) := rfl

theorem keeps_planStepBody (env : Env) : Keeps (CoreOk env.cfg) (planStepBody env) := by
  intro s h
  have hclr : Keeps (CoreOk env.cfg) (modifyCore planClearCore) := keeps_modifyCore fun _ h => coreOk_planClearCore h
  have hfail : Keeps (CoreOk env.cfg) (modify (fun s => { s with ts := Status.failure }) ⋙ deliver env .planFailed 255 {} {} ⋙
      modifyCore planClearCore) :=
    Keeps.seq (Keeps.seq (keeps_modify fun _ => rfl) (keeps_deliver env _ _ _ _)) hclr
  have hsucc : Keeps (CoreOk env.cfg) (modify (fun s => { s with ts := Status.success }) ⋙ deliver env .planSucceeded 255 {} {} ⋙
      modifyCore planClearCore) :=
    Keeps.seq (Keeps.seq (keeps_modify fun _ => rfl) (keeps_deliver env _ _ _ _)) hclr
  unfold planStepBody
  dsimp only
  split
  · split
    · exact hfail s h
    · split
      · obtain ⟨i1, i2, i3⟩ := keeps_firePlan env s.core.plan s [] h h.plan
        exact ⟨i1.active, i1.requested, i1.request, fun t ht => h.plan t (i2 t ht), Nat.le_trans i3 h.planLen⟩
      · exact hsucc s h
  · exact h

theorem keeps_planStep (env : Env) : Keeps (CoreOk env.cfg) (planStep env) := by
  intro s h
  rw [planStep_eq]
  have := keeps_planStepBody env s h
  exact ⟨this.active, this.requested, this.request, this.plan, this.planLen⟩

theorem keeps_cycle (env : Env) (pre mid post : Method) : Keeps (CoreOk env.cfg) (cycle env pre mid post) := by
  unfold cycle
  refine Keeps.seq (Keeps.seq (Keeps.seq (Keeps.seq (Keeps.seq (keeps_modify fun _ => rfl) (keeps_phase env _ _)) (keeps_phase env _ _))
    (keeps_phase env _ _)) ?_) (keeps_processRequest env)
  split
  · exact keeps_planStep env
  · exact keeps_skip _

theorem keeps_query (env : Env) : Keeps (CoreOk env.cfg) (query env) := by
  unfold query
  generalize headFirst Method.query = hfq
  cases hfq <;> simp only [if_true, if_false, Bool.false_eq_true] <;>
  exact fun s => Keeps.seq (keeps_deliver env _ _ _ _) (keeps_deliver env _ _ _ _) s

theorem keeps_extChange (env : Env) (d : Nat) (hd : d < env.cfg.n) (p : Option Nat) : Keeps (CoreOk env.cfg) (extChange env d p) :=
  fun _ h => ⟨h.active, h.requested, Or.inl hd, h.plan, h.planLen⟩

theorem keeps_extStatus (env : Env) (id : Nat) (ok : Bool) : Keeps (CoreOk env.cfg) (extStatus env id ok) := by
  intro s h
  unfold extStatus
  dsimp only
  split
  · exact ⟨h.active, h.requested, h.request, h.plan, h.planLen⟩
  · exact ⟨h.active, h.requested, h.request, h.plan, h.planLen⟩

theorem keeps_replayTransition (env : Env) (d : Nat) (hd : d < env.cfg.n) : Keeps (CoreOk env.cfg) (replayTransition env d) := by
  unfold replayTransition
  refine Keeps.seq (Keeps.seq (Keeps.seq (keeps_modifyCore fun c h => ?_) (keeps_modifyCore fun c h => ?_)) (keeps_changeToRequested env _))
    (keeps_modifyCore fun c h => ?_)
  · exact ⟨h.active, h.requested, h.request, h.plan, h.planLen⟩
  · have := coreOk_applyRequest (cfg := env.cfg) {} (Or.inl hd) h
    exact ⟨this.active, this.requested, this.request, this.plan, this.planLen⟩
  · exact ⟨h.active, Or.inr rfl, h.request, h.plan, h.planLen⟩

theorem keeps_replayEnter (env : Env) (d : Nat) (hd : d < env.cfg.n) : Keeps (CoreOk env.cfg) (replayEnter env d) := by
  unfold replayEnter
  refine Keeps.seq (Keeps.seq (keeps_modifyCore fun c h => ?_) (keeps_deepEnter env _)) (keeps_modifyCore fun c h => ?_)
  · have := coreOk_applyRequest (cfg := env.cfg) {} (Or.inl hd) h
    exact ⟨this.active, this.requested, this.request, this.plan, this.planLen⟩
  · exact ⟨h.active, Or.inr rfl, h.request, h.plan, h.planLen⟩

theorem keeps_loadActive (env : Env) (r : Nat) (hr : IdOr255 env.cfg.n r) : Keeps (CoreOk env.cfg) (loadActive env r) := by
  unfold loadActive
  refine Keeps.seq (keeps_modifyCore fun c h => ?_) (keeps_changeToRequested env _)
  have h1 : CoreOk env.cfg { c with requested := r, request := c.request.clear } :=
    ⟨h.active, hr, Or.inr rfl, h.plan, h.planLen⟩
  exact coreOk_wipe h1 _ _

end FFSM2
