import FFSM2.Lemmas.LBlind
import FFSM2.Lemmas.World
/-! Log-switch-blindness lifted from API bodies (`QB`) to whole histories. -/
namespace FFSM2
open Step

def WorldNoLog (w : World) : Prop := ∀ i c, w.get i = some c → c.logger = false

/-- the calls that use the feature: attaching a logger, constructing with one -/
def Op.usesLogging : Op → Bool
  | .attachLogger .. => true
  | .construct _ lg => lg
  | _ => false

theorem worldNoLog_nil : WorldNoLog [] := by
  intro i c h
  simp [World.get] at h

theorem worldNoLog_put {w : World} (hw : WorldNoLog w) (i : Nat) (c : Option Core)
    (hc : ∀ c0, c = some c0 → c0.logger = false) : WorldNoLog (w.put i c) := by
  intro j cj hj
  by_cases e : j = i
  · subst e
    rw [World.get_put_same] at hj
    exact hc cj hj
  · rw [World.get_put_ne _ _ _ _ e] at hj
    exact hw j cj hj

theorem envL_mk (l v : Bool) (cfg : Cfg) (beh : Beh) (i k : Nat) : (⟨cfgL l v cfg, beh, i, k⟩ : Env) = envL l v ⟨cfg, beh, i, k⟩ := rfl

/-- a `QB` pair of bodies run through `onCore` -/
theorem onCore_qb (l v : Bool) (cfg : Cfg) (w : World) (i k : Nat) (name : String) (c : Core) {f f' : Step} (hf : QB f f')
    (hc : c.logger = false) (hw : WorldNoLog w) (ret : Core → Option Bool) :
    onCore (cfgL l v cfg) w i k name c f' ret = onCore cfg w i k name c f ret ∧
    WorldNoLog (onCore cfg w i k name c f ret).1 := by
  obtain ⟨h1, h2⟩ := hf { core := c } hc
  refine ⟨?_, ?_⟩
  · show (w.put i (some (f' { core := c }).1.core),
        (f' { core := c }).2 ++ [Ev.api i k name (apiObs (cfgL l v cfg) (f' { core := c }).1.core (ret (f' { core := c }).1.core))]) = _
    rw [h1]
    rfl
  · rw [onCore_fst]
    exact worldNoLog_put hw i _ (fun c0 hc0 => by cases hc0; exact h2)

set_option hygiene false in
/-- one `if guard then onCore … body … else rejected` arm of `step`, on both sides -/
local macro "qb_arm " t:term : tactic =>
  `(tactic| (split <;> first
      | exact onCore_qb l v _ _ _ _ _ _ $t (hw _ _ hg) hw _
      | first | exact ⟨rfl, hw⟩ | exact ⟨trivial, hw⟩))

/-- **one call with the feature compiled out does what the call does with it compiled in**, on a world where
    nothing of the feature is outstanding, for callbacks that perform no plan action -/
theorem step_L (l v : Bool) (cfg : Cfg) (beh : Beh) (w : World) (hw : WorldNoLog w) (k : Nat) (op : Op)
    (hop : op.usesLogging = false) :
    step (cfgL l v cfg) beh w k op = step cfg beh w k op ∧
    WorldNoLog (step cfg beh w k op).1 := by
  cases op with
  | construct i lg =>
    have hlg : lg = false := by simpa [Op.usesLogging] using hop
    subst hlg
    unfold step
    simp only [Op.inst, Op.name, envL_mk l v]
    cases hg : w.get i <;> simp only
    · have hm : (cfgL l v cfg).manual = cfg.manual := rfl
      have hi : initCore (cfgL l v cfg) (false && (cfgL l v cfg).logging) = initCore cfg (false && cfg.logging) := rfl
      rw [hm, hi]
      split
      · exact onCore_qb l v cfg w i k _ _ qb_skip rfl hw _
      · exact onCore_qb l v cfg w i k _ _ (qb_initialEnter l v ⟨cfg, beh, i, k⟩) rfl hw _
    · first | exact ⟨rfl, hw⟩ | exact ⟨trivial, hw⟩
  | destroy i =>
    unfold step
    simp only [Op.inst, Op.name, envL_mk l v]
    cases hg : w.get i <;> simp only
    · first | exact ⟨rfl, hw⟩ | exact ⟨trivial, hw⟩
    · rename_i c
      have hm : (cfgL l v cfg).manual = cfg.manual := rfl
      rw [hm]
      split
      · exact ⟨rfl, worldNoLog_put hw i none (fun _ h => by cases h)⟩
      · obtain ⟨h1, _⟩ := qb_finalExit l v ⟨cfg, beh, i, k⟩ { core := c } (hw i c hg)
        refine ⟨?_, worldNoLog_put hw i none (fun _ h => by cases h)⟩
        rw [h1]
        rfl
  | copy i src =>
    unfold step
    simp only [Op.inst, Op.name]
    cases hg : w.get i <;> first | exact ⟨rfl, hw⟩ | exact ⟨trivial, hw⟩
  | enter i =>
    unfold step
    simp only [Op.inst, Op.name, envL_mk l v]
    cases hg : w.get i <;> simp only
    · first | exact ⟨rfl, hw⟩ | exact ⟨trivial, hw⟩
    · have hm : (cfgL l v cfg).manual = cfg.manual := rfl
      rw [hm]
      qb_arm (qb_initialEnter l v ⟨cfg, beh, i, k⟩)
  | exit i =>
    unfold step
    simp only [Op.inst, Op.name, envL_mk l v]
    cases hg : w.get i <;> simp only
    · first | exact ⟨rfl, hw⟩ | exact ⟨trivial, hw⟩
    · have hm : (cfgL l v cfg).manual = cfg.manual := rfl
      rw [hm]
      qb_arm (qb_finalExit l v ⟨cfg, beh, i, k⟩)
  | update i =>
    unfold step
    simp only [Op.inst, Op.name, envL_mk l v]
    cases hg : w.get i <;> simp only
    · first | exact ⟨rfl, hw⟩ | exact ⟨trivial, hw⟩
    · qb_arm (qb_cycle l v ⟨cfg, beh, i, k⟩ _ _ _)
  | react i =>
    unfold step
    simp only [Op.inst, Op.name, envL_mk l v]
    cases hg : w.get i <;> simp only
    · first | exact ⟨rfl, hw⟩ | exact ⟨trivial, hw⟩
    · qb_arm (qb_cycle l v ⟨cfg, beh, i, k⟩ _ _ _)
  | query i =>
    unfold step
    simp only [Op.inst, Op.name, envL_mk l v]
    cases hg : w.get i <;> simp only
    · first | exact ⟨rfl, hw⟩ | exact ⟨trivial, hw⟩
    · qb_arm (qb_query l v ⟨cfg, beh, i, k⟩)
  | changeTo i d =>
    unfold step
    simp only [Op.inst, Op.name, envL_mk l v]
    cases hg : w.get i <;> simp only
    · first | exact ⟨rfl, hw⟩ | exact ⟨trivial, hw⟩
    · have hid : idOk (cfgL l v cfg) d = idOk cfg d := rfl
      rw [hid]
      qb_arm (qb_extChange l v ⟨cfg, beh, i, k⟩ _ _)
  | changeWith i d p =>
    unfold step
    simp only [Op.inst, Op.name, envL_mk l v]
    cases hg : w.get i <;> simp only
    · first | exact ⟨rfl, hw⟩ | exact ⟨trivial, hw⟩
    · have hid : idOk (cfgL l v cfg) d = idOk cfg d := rfl
      have hpl : (cfgL l v cfg).hasPayload = cfg.hasPayload := rfl
      rw [hid, hpl]
      qb_arm (qb_extChange l v ⟨cfg, beh, i, k⟩ _ _)
  | immediateChangeTo i d =>
    unfold step
    simp only [Op.inst, Op.name, envL_mk l v]
    cases hg : w.get i <;> simp only
    · first | exact ⟨rfl, hw⟩ | exact ⟨trivial, hw⟩
    · have hid : idOk (cfgL l v cfg) d = idOk cfg d := rfl
      rw [hid]
      qb_arm (QB.seq (qb_extChange l v ⟨cfg, beh, i, k⟩ _ _) (qb_processRequest l v ⟨cfg, beh, i, k⟩))
  | immediateChangeWith i d p =>
    unfold step
    simp only [Op.inst, Op.name, envL_mk l v]
    cases hg : w.get i <;> simp only
    · first | exact ⟨rfl, hw⟩ | exact ⟨trivial, hw⟩
    · have hid : idOk (cfgL l v cfg) d = idOk cfg d := rfl
      have hpl : (cfgL l v cfg).hasPayload = cfg.hasPayload := rfl
      rw [hid, hpl]
      qb_arm (QB.seq (qb_extChange l v ⟨cfg, beh, i, k⟩ _ _) (qb_processRequest l v ⟨cfg, beh, i, k⟩))
  | succeed i id =>
    unfold step
    simp only [Op.inst, Op.name, envL_mk l v]
    cases hg : w.get i <;> simp only
    · first | exact ⟨rfl, hw⟩ | exact ⟨trivial, hw⟩
    · have hid : idOk (cfgL l v cfg) id = idOk cfg id := rfl
      have hp : (cfgL l v cfg).plans = cfg.plans := rfl
      rw [hid, hp]
      qb_arm (qb_extStatus l v ⟨cfg, beh, i, k⟩ _ _)
  | fail i id =>
    unfold step
    simp only [Op.inst, Op.name, envL_mk l v]
    cases hg : w.get i <;> simp only
    · first | exact ⟨rfl, hw⟩ | exact ⟨trivial, hw⟩
    · have hid : idOk (cfgL l v cfg) id = idOk cfg id := rfl
      have hp : (cfgL l v cfg).plans = cfg.plans := rfl
      rw [hid, hp]
      qb_arm (qb_extStatus l v ⟨cfg, beh, i, k⟩ _ _)
  | planAppend i o d p =>
    unfold step
    simp only [Op.inst, Op.name, envL_mk l v]
    cases hg : w.get i <;> simp only
    · first | exact ⟨rfl, hw⟩ | exact ⟨trivial, hw⟩
    · have hpm : permitted (cfgL l v cfg) Flavour.plan 0 (.planAppend o d p) = permitted cfg Flavour.plan 0 (.planAppend o d p) := rfl
      rw [hpm]
      qb_arm (qb_applyAction l v ⟨cfg, beh, i, k⟩ _ _)
  | planClear i =>
    unfold step
    simp only [Op.inst, Op.name, envL_mk l v]
    cases hg : w.get i <;> simp only
    · first | exact ⟨rfl, hw⟩ | exact ⟨trivial, hw⟩
    · have hp : (cfgL l v cfg).plans = cfg.plans := rfl
      rw [hp]
      qb_arm (qb_applyAction l v ⟨cfg, beh, i, k⟩ _ _)
  | planRemove i mask =>
    unfold step
    simp only [Op.inst, Op.name, envL_mk l v]
    cases hg : w.get i <;> simp only
    · first | exact ⟨rfl, hw⟩ | exact ⟨trivial, hw⟩
    · have hp : (cfgL l v cfg).plans = cfg.plans := rfl
      rw [hp]
      qb_arm (qb_applyAction l v ⟨cfg, beh, i, k⟩ _ _)
  | save i =>
    unfold step
    simp only [Op.inst, Op.name]
    cases hg : w.get i <;> simp only
    · first | exact ⟨rfl, hw⟩ | exact ⟨trivial, hw⟩
    · have hm : (cfgL l v cfg).manual = cfg.manual := rfl
      have hs : (cfgL l v cfg).serialization = cfg.serialization := rfl
      rw [hm, hs]
      split
      · first | exact ⟨rfl, hw⟩ | exact ⟨trivial, hw⟩
      · first | exact ⟨rfl, hw⟩ | exact ⟨trivial, hw⟩
  | load i src =>
    unfold step
    simp only [Op.inst, Op.name, envL_mk l v]
    cases hg : w.get i <;> simp only
    · first | exact ⟨rfl, hw⟩ | exact ⟨trivial, hw⟩
    · cases hs : w.get src <;> simp only
      · first | exact ⟨rfl, hw⟩ | exact ⟨trivial, hw⟩
      · have hm : (cfgL l v cfg).manual = cfg.manual := rfl
        have hse : (cfgL l v cfg).serialization = cfg.serialization := rfl
        have hsv : ∀ c, save (cfgL l v cfg) c = save cfg c := fun _ => rfl
        rw [hm, hse, hsv]
        qb_arm (qb_load l v ⟨cfg, beh, i, k⟩ _)
  | replayEnter i d =>
    unfold step
    simp only [Op.inst, Op.name, envL_mk l v]
    cases hg : w.get i <;> simp only
    · first | exact ⟨rfl, hw⟩ | exact ⟨trivial, hw⟩
    · have hm : (cfgL l v cfg).manual = cfg.manual := rfl
      have hh : (cfgL l v cfg).history = cfg.history := rfl
      have hid : idOk (cfgL l v cfg) d = idOk cfg d := rfl
      rw [hm, hh, hid]
      qb_arm (qb_replayEnter l v ⟨cfg, beh, i, k⟩ _)
  | replayTransition i d =>
    unfold step
    simp only [Op.inst, Op.name, envL_mk l v]
    cases hg : w.get i <;> simp only
    · first | exact ⟨rfl, hw⟩ | exact ⟨trivial, hw⟩
    · have hh : (cfgL l v cfg).history = cfg.history := rfl
      have hid : idOk (cfgL l v cfg) d = idOk cfg d := rfl
      rw [hh, hid]
      split
      · split
        · exact onCore_qb l v _ _ _ _ _ _ (qb_modifyCore (m := fun c => { c with prev := c.prev.clear }) fun _ => rfl) (hw _ _ hg) hw _
        · exact onCore_qb l v _ _ _ _ _ _ (qb_replayTransition l v ⟨cfg, beh, i, k⟩ _) (hw _ _ hg) hw _
      · first | exact ⟨rfl, hw⟩ | exact ⟨trivial, hw⟩
  | attachLogger i on => simp [Op.usesLogging] at hop
  | replayFrom i src =>
    unfold step
    simp only [Op.inst, Op.name]
    cases hg : w.get i <;> first | exact ⟨rfl, hw⟩ | exact ⟨trivial, hw⟩
  | replayEnterFrom i src =>
    unfold step
    simp only [Op.inst, Op.name]
    cases hg : w.get i <;> first | exact ⟨rfl, hw⟩ | exact ⟨trivial, hw⟩

theorem stepAll_L (l v : Bool) (cfg : Cfg) (beh : Beh) (w : World) (hw : WorldNoLog w) (k : Nat) (op : Op)
    (hop : op.usesLogging = false) :
    stepAll (cfgL l v cfg) beh w k op = stepAll cfg beh w k op ∧
    WorldNoLog (stepAll cfg beh w k op).1 := by
  cases op with
  | copy i src =>
    simp only [stepAll]
    cases hg : w.get i <;> cases hs : w.get src <;> simp only
    · first | exact ⟨rfl, hw⟩ | exact ⟨trivial, hw⟩
    · rename_i sc
      exact ⟨rfl, worldNoLog_put hw i _ (fun c0 h0 => by cases h0; exact hw src sc hs)⟩
    · first | exact ⟨rfl, hw⟩ | exact ⟨trivial, hw⟩
    · first | exact ⟨rfl, hw⟩ | exact ⟨trivial, hw⟩
  | replayFrom i src =>
    simp only [stepAll]
    cases hs : w.get src <;> simp only
    · first | exact ⟨rfl, hw⟩ | exact ⟨trivial, hw⟩
    · exact step_L l v cfg beh w hw k (.replayTransition i _) rfl
  | replayEnterFrom i src =>
    simp only [stepAll]
    cases hs : w.get src <;> simp only
    · first | exact ⟨rfl, hw⟩ | exact ⟨trivial, hw⟩
    · exact step_L l v cfg beh w hw k (.replayEnter i _) rfl
  | succeed i id => exact step_L l v cfg beh w hw k (.succeed i id) rfl
  | fail i id => exact step_L l v cfg beh w hw k (.fail i id) rfl
  | planAppend i o d p => exact step_L l v cfg beh w hw k (.planAppend i o d p) rfl
  | planClear i => exact step_L l v cfg beh w hw k (.planClear i) rfl
  | planRemove i mask => exact step_L l v cfg beh w hw k (.planRemove i mask) rfl
  | construct i lg => exact step_L l v cfg beh w hw k (.construct i lg) hop
  | destroy i => exact step_L l v cfg beh w hw k (.destroy i) rfl
  | enter i => exact step_L l v cfg beh w hw k (.enter i) rfl
  | exit i => exact step_L l v cfg beh w hw k (.exit i) rfl
  | update i => exact step_L l v cfg beh w hw k (.update i) rfl
  | react i => exact step_L l v cfg beh w hw k (.react i) rfl
  | query i => exact step_L l v cfg beh w hw k (.query i) rfl
  | changeTo i d => exact step_L l v cfg beh w hw k (.changeTo i d) rfl
  | changeWith i d p => exact step_L l v cfg beh w hw k (.changeWith i d p) rfl
  | immediateChangeTo i d => exact step_L l v cfg beh w hw k (.immediateChangeTo i d) rfl
  | immediateChangeWith i d p => exact step_L l v cfg beh w hw k (.immediateChangeWith i d p) rfl
  | save i => exact step_L l v cfg beh w hw k (.save i) rfl
  | load i src => exact step_L l v cfg beh w hw k (.load i src) rfl
  | replayEnter i d => exact step_L l v cfg beh w hw k (.replayEnter i d) rfl
  | replayTransition i d => exact step_L l v cfg beh w hw k (.replayTransition i d) rfl
  | attachLogger i on => simp [Op.usesLogging] at hop

theorem runFrom_L (l v : Bool) (cfg : Cfg) (beh : Beh) : ∀ (ops : List Op) (w : World) (k : Nat), WorldNoLog w →
    (∀ op ∈ ops, op.usesLogging = false) →
    runFrom (cfgL l v cfg) beh w k ops = runFrom cfg beh w k ops ∧
    WorldNoLog (runFrom cfg beh w k ops).1
  | [], _, _, hw, _ => ⟨rfl, hw⟩
  | op :: ops, w, k, hw, h => by
    obtain ⟨h1, h2⟩ := stepAll_L l v cfg beh w hw k op (h op (by simp))
    obtain ⟨i1, i2⟩ := runFrom_L l v cfg beh ops (stepAll cfg beh w k op).1 (k + 1) h2 (fun o ho => h o (by simp [ho]))
    simp only [runFrom]
    rw [h1, i1]
    exact ⟨rfl, i2⟩

end FFSM2
