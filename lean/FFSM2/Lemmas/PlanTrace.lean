import FFSM2.Lemmas.Steps
/-! The plan is what user code made it.  `PlanTrace cap f`: after the step, the plan is the plan before with the
    plan edits user code performed during the step (`act` events: append / clear / remove) applied in order —
    nothing else in the step touches it.  Every building block except the plan step and the final exit has this
    property; those two only ever *remove* tasks (`Props/History.lean`, C08 / C10 at run level). -/
namespace FFSM2
open Step Ancestors

/-- effect of one event on the plan: only the plan edits user code performs have one -/
def editPlan (cap : Nat) (p : List Task) : Ev → List Task
  | .act _ (.planAppend o d pl) => if p.length < cap then p ++ [⟨o, d, pl⟩] else p
  | .act _ .planClear => []
  | .act _ (.planRemove m) => removeMasked p m
  | _ => p

def editsPlan (cap : Nat) (es : List Ev) (p : List Task) : List Task := es.foldl (editPlan cap) p

def Ev.isPlanEdit : Ev → Bool
  | .act _ (.planAppend ..) => true
  | .act _ .planClear => true
  | .act _ (.planRemove _) => true
  | _ => false

@[simp] theorem editsPlan_nil (cap : Nat) (p : List Task) : editsPlan cap [] p = p := rfl

theorem editsPlan_append (cap : Nat) (a b : List Ev) (p : List Task) :
    editsPlan cap (a ++ b) p = editsPlan cap b (editsPlan cap a p) := by
  simp [editsPlan, List.foldl_append]

theorem editPlan_noEdit (cap : Nat) (p : List Task) {e : Ev} (h : e.isPlanEdit = false) : editPlan cap p e = p := by
  cases e with
  | act k a => cases a <;> first | rfl | (simp [Ev.isPlanEdit] at h)
  | _ => rfl

theorem editsPlan_noEdit (cap : Nat) : ∀ (es : List Ev) (p : List Task), (∀ e ∈ es, e.isPlanEdit = false) → editsPlan cap es p = p
  | [], _, _ => rfl
  | e :: es, p, h => by
    have h1 : editPlan cap p e = p := editPlan_noEdit cap p (h e (by simp))
    show editsPlan cap es (editPlan cap p e) = p
    rw [h1]
    exact editsPlan_noEdit cap es p fun x hx => h x (by simp [hx])

theorem noEdit_logEv (env : Env) (c : Core) (r : LogRec) : ∀ e ∈ logEv env c r, e.isPlanEdit = false := by
  unfold logEv
  split
  · intro e he; simp only [List.mem_singleton] at he; rw [he]; rfl
  · intro e he; cases he

def PlanTrace (cap : Nat) (f : Step) : Prop := ∀ s, (f s).1.core.plan = editsPlan cap (f s).2 s.core.plan

variable {cap : Nat}

theorem PlanTrace.seq {f g : Step} (hf : PlanTrace cap f) (hg : PlanTrace cap g) : PlanTrace cap (f ⋙ g) := by
  intro s
  simp only [Step.seq]
  rw [hg, hf, editsPlan_append]

theorem planTrace_skip : PlanTrace cap skip := fun _ => rfl
theorem planTrace_emit {e : St → List Ev} (h : ∀ s, ∀ x ∈ e s, x.isPlanEdit = false) : PlanTrace cap (emit e) := fun s => by
  simp only [emit]; rw [editsPlan_noEdit cap _ _ (h s)]
theorem planTrace_modify {m : St → St} (h : ∀ s, (m s).core.plan = s.core.plan) : PlanTrace cap (Step.modify m) := fun s => by
  simp only [Step.modify, editsPlan_nil]; exact h s
theorem planTrace_modifyCore {m : Core → Core} (h : ∀ c, (m c).plan = c.plan) : PlanTrace cap (modifyCore m) := fun s => by
  simp only [modifyCore, editsPlan_nil]; exact h _
theorem planTrace_dep {g : St → Step} (h : ∀ s0, PlanTrace cap (g s0)) : PlanTrace cap (fun s => g s s) := fun s => h s s
theorem planTrace_seqList {l : List Step} (h : ∀ f ∈ l, PlanTrace cap f) : PlanTrace cap (seqList l) := by
  induction l with
  | nil => exact planTrace_skip
  | cons f fs ih => exact PlanTrace.seq (h f (by simp)) (ih fun g hg => h g (by simp [hg]))

-- leaves; `by` blocks are elaborated after the expected step is known
local macro "pmc" : term => `((by apply planTrace_modifyCore; intro _; rfl))
local macro "pmd" : term => `((by apply planTrace_modify; intro _; rfl))

theorem clearTaskStatus_plan (cfg : Cfg) (id : Nat) (c : Core) : (clearTaskStatus cfg id c).plan = c.plan := by
  unfold clearTaskStatus; split <;> rfl

theorem applyRequest_plan (cur : Tr) (d : Nat) (c : Core) : (applyRequest cur d c).1.plan = c.plan := by
  unfold applyRequest; split <;> rfl

local macro "pmcClr" : term => `((by apply planTrace_modifyCore; intro c; exact clearTaskStatus_plan _ _ c))
local macro "pmcReq" : term => `((by apply planTrace_modifyCore; intro c; exact applyRequest_plan _ _ c))

/-- one performed action together with its `act` event -/
theorem planTrace_action (env : Env) (sid : Nat) (key : Key) (a : Action) :
    PlanTrace env.cfg.cap ((emit fun _ => [Ev.act key a]) ⋙ applyAction env sid a) := by
  intro s
  simp only [Step.seq, emit]
  have hl : ∀ (b : Action) (r : LogRec), (Ev.act key b).isPlanEdit = false →
      s.core.plan = editsPlan env.cfg.cap ([Ev.act key b] ++ logEv env s.core r) s.core.plan := by
    intro b r hb
    rw [editsPlan_noEdit]
    intro e he
    rcases List.mem_append.mp he with he | he
    · simp only [List.mem_singleton] at he; rw [he]; exact hb
    · exact noEdit_logEv env _ _ e he
  cases a with
  | cancel => exact hl _ _ rfl
  | changeTo d => exact hl _ _ rfl
  | changeWith d p => exact hl _ _ rfl
  | succeed id => exact hl _ _ rfl
  | fail id => exact hl _ _ rfl
  | planAppend o d p =>
    cases p <;> simp only [applyAction] <;> split <;> simp_all [editsPlan, editPlan]
  | planClear => simp [applyAction, editsPlan, editPlan, planClearCore]
  | planRemove m => simp [applyAction, editsPlan, editPlan]

theorem planTrace_runActions (env : Env) (fl : Flavour) (sid : Nat) (key : Key) :
    ∀ as : List Action, PlanTrace env.cfg.cap (runActions env fl sid key as)
  | [] => planTrace_skip
  | a :: as => by
    unfold runActions
    refine PlanTrace.seq ?_ (planTrace_runActions env fl sid key as)
    split
    · exact planTrace_action env sid key a
    · exact planTrace_skip

theorem planTrace_deliverLayer (env : Env) (m : Method) (sid : Nat) (cur pend : Tr) (layer : Layer) :
    PlanTrace env.cfg.cap (deliverLayer env m sid cur pend layer) := by
  intro s
  rw [deliverLayer_eq]
  have hb : PlanTrace env.cfg.cap (layerBody env m sid cur pend layer (occOf s.seen (m, sid, layer))) := by
    unfold layerBody
    refine PlanTrace.seq (planTrace_emit fun _ e he => ?_) ?_
    · simp only [List.mem_singleton] at he; rw [he]; rfl
    · split
      · exact planTrace_runActions env _ _ _ _
      · exact planTrace_skip
  exact hb _

theorem planTrace_deliver (env : Env) (m : Method) (sid : Nat) (cur pend : Tr) :
    PlanTrace env.cfg.cap (deliver env m sid cur pend) := by
  unfold deliver
  refine PlanTrace.seq (planTrace_emit fun s => ?_) (planTrace_seqList ?_)
  · split
    · exact noEdit_logEv env _ _
    · intro e he; cases he
  · intro f hf
    obtain ⟨l, _, rfl⟩ := List.mem_map.mp hf
    exact planTrace_deliverLayer env m sid cur pend l

theorem planTrace_changeToRequested (env : Env) (cur : Tr) : PlanTrace env.cfg.cap (changeToRequested env cur) := by
  unfold changeToRequested
  intro s
  dsimp only
  split
  · exact (PlanTrace.seq (PlanTrace.seq (PlanTrace.seq (planTrace_deliver env .exit _ _ _)
      pmcClr) pmc)
      (planTrace_dep fun s0 => planTrace_deliver env .enter _ _ _)) s
  · exact (PlanTrace.seq pmc (planTrace_deliver env .reenter _ _ _)) s

theorem planTrace_deepEnter (env : Env) (cur : Tr) : PlanTrace env.cfg.cap (deepEnter env cur) := by
  unfold deepEnter
  exact PlanTrace.seq (PlanTrace.seq pmc (planTrace_deliver env .enter _ _ _))
    (planTrace_dep fun s0 => planTrace_deliver env .enter _ _ _)

theorem planTrace_guardRound (env : Env) (cur pend : Tr) : PlanTrace env.cfg.cap (guardRound env cur pend) := by
  unfold guardRound
  refine PlanTrace.seq (PlanTrace.seq pmd (planTrace_dep fun s0 => planTrace_deliver env .exitGuard _ _ _)) ?_
  intro s
  dsimp only
  split
  · rfl
  · exact planTrace_deliver env .entryGuard _ _ _ s

theorem planTrace_entryGuardRound (env : Env) (cur pend : Tr) : PlanTrace env.cfg.cap (entryGuardRound env cur pend) := by
  unfold entryGuardRound
  refine PlanTrace.seq (PlanTrace.seq pmd (planTrace_deliver env .entryGuard _ _ _)) ?_
  intro s
  dsimp only
  split
  · rfl
  · exact planTrace_deliver env .entryGuard _ _ _ s

theorem planTrace_substLoop (round : Tr → Tr → Step) (hr : ∀ c q, PlanTrace cap (round c q)) :
    ∀ (fuel : Nat) (cur : Tr) (s : St),
      (substLoop round fuel cur s).1.1.core.plan = editsPlan cap (substLoop round fuel cur s).2 s.core.plan := by
  intro fuel
  induction fuel with
  | zero => intro _ _; rfl
  | succ fuel ih =>
    intro cur s
    simp only [substLoop]
    split
    · split
      · rw [ih, editsPlan_append, hr]
        exact congrArg _ (congrArg _ (applyRequest_plan _ _ _))
      · rw [ih]
    · rfl

theorem planTrace_applySurvivor (env : Env) (cur : Tr) : PlanTrace env.cfg.cap (applySurvivor env cur) := by
  unfold applySurvivor
  intro s
  dsimp only
  split
  · exact (PlanTrace.seq pmc (planTrace_changeToRequested env cur)) s
  · rfl

theorem planTrace_finishProcessing (env : Env) (cur : Tr) : PlanTrace env.cfg.cap (finishProcessing env cur) := by
  unfold finishProcessing; exact pmc

theorem planTrace_processRequest (env : Env) : PlanTrace env.cfg.cap (processRequest env) := by
  unfold processRequest
  intro s
  dsimp only
  split
  · rw [editsPlan_append, ← planTrace_substLoop _ (planTrace_guardRound env) _ _ _]
    exact (PlanTrace.seq (planTrace_applySurvivor env _) (planTrace_finishProcessing env _)) _
  · exact planTrace_finishProcessing env _ s

theorem planTrace_enterSurvivor (env : Env) (cur : Tr) : PlanTrace env.cfg.cap (enterSurvivor env cur) := by
  unfold enterSurvivor
  exact PlanTrace.seq (PlanTrace.seq pmc (planTrace_deepEnter env cur)) pmc

theorem planTrace_initialEnter (env : Env) : PlanTrace env.cfg.cap (initialEnter env) := by
  unfold initialEnter
  intro s
  dsimp only
  rw [editsPlan_append, editsPlan_append, planTrace_enterSurvivor env _ _,
    planTrace_substLoop _ (planTrace_entryGuardRound env) _ _ _, planTrace_entryGuardRound env {} {} _]
  show _ = editsPlan _ _ (editsPlan _ _ (editsPlan _ _ ((applyRequest {} 0 s.core).1).plan))
  rw [applyRequest_plan]

theorem planTrace_replayTransition (env : Env) (d : Nat) : PlanTrace env.cfg.cap (replayTransition env d) := by
  unfold replayTransition
  exact PlanTrace.seq (PlanTrace.seq (PlanTrace.seq pmc
    pmcReq) (planTrace_changeToRequested env {})) pmc

theorem planTrace_replayEnter (env : Env) (d : Nat) : PlanTrace env.cfg.cap (replayEnter env d) := by
  unfold replayEnter
  exact PlanTrace.seq (PlanTrace.seq pmcReq (planTrace_deepEnter env {}))
    pmc

theorem planTrace_query (env : Env) : PlanTrace env.cfg.cap (query env) := by
  unfold query
  generalize headFirst Method.query = hfq
  cases hfq <;> simp only [if_true, if_false, Bool.false_eq_true] <;>
  exact planTrace_dep fun s0 => PlanTrace.seq (planTrace_deliver env .query _ {} {}) (planTrace_deliver env .query _ {} {})

theorem planTrace_extChange (env : Env) (d : Nat) (q : Option Nat) : PlanTrace env.cfg.cap (extChange env d q) := fun s => by
  simp only [extChange]; rw [editsPlan_noEdit _ _ _ (noEdit_logEv env _ _)]

theorem planTrace_extStatus (env : Env) (id : Nat) (ok : Bool) : PlanTrace env.cfg.cap (extStatus env id ok) := fun s => by
  simp only [extStatus]; rw [editsPlan_noEdit _ _ _ (noEdit_logEv env _ _)]; cases ok <;> rfl

theorem planTrace_phase (env : Env) (m : Method) (hf : Bool) : PlanTrace env.cfg.cap (phase env m hf) := by
  unfold phase
  intro s
  dsimp only
  have hsub : PlanTrace env.cfg.cap (deliver env m s.core.active {} {} ⋙
      modify (fun s => { s with core := { s.core with subStatus := s.core.subStatus.or s.ts } })) :=
    PlanTrace.seq (planTrace_deliver _ _ _ _ _) pmd
  have hhead : PlanTrace env.cfg.cap (deliver env m 255 {} {}) := planTrace_deliver _ _ _ _ _
  have hreset : PlanTrace env.cfg.cap (modify (fun s => { s with ts := Status.none })) := planTrace_modify fun _ => rfl
  split
  · exact (PlanTrace.seq (PlanTrace.seq hhead hsub) hreset) s
  · exact (PlanTrace.seq (PlanTrace.seq hsub hhead) hreset) s

end FFSM2
