import FFSM2.Lemmas.World
/-! A machine's behaviour does not depend on *which* instance it is: running any building block under
    instance id `j` instead of `i` gives the same resulting state and the same trace up to the instance label —
    provided user code behaves alike for both ids.  This is what makes a copy "respond to the same inputs
    with the same callbacks and results" as its original (C17). -/
namespace FFSM2
open Step Ancestors

def Key.withInst (k : Key) (j : Nat) : Key := { k with inst := j }

/-- the same event, attributed to instance `j` -/
def Ev.relabel (j : Nat) : Ev → Ev
  | .cb k v o => .cb (k.withInst j) v o
  | .act k a => .act (k.withInst j) a
  | .log _ r => .log j r
  | .api _ k n o => .api j k n o
  | .rejected _ k n => .rejected j k n

/-- the environment of the same call made on instance `j` -/
def Env.onInst (env : Env) (j : Nat) : Env := ⟨env.cfg, env.beh, j, env.op⟩

@[simp] theorem onInst_cfg (env : Env) (j : Nat) : (env.onInst j).cfg = env.cfg := rfl

/-- user code that does for instance `j` what it does for the instance of `env` -/
def BehAlike (env : Env) (j : Nat) : Prop := ∀ k : Key, k.inst = env.inst → env.beh (k.withInst j) = env.beh k

/-- `f'` is `f` run as instance `j` -/
def Rel (j : Nat) (f f' : Step) : Prop := ∀ s, (f' s).1 = (f s).1 ∧ (f' s).2 = (f s).2.map (Ev.relabel j)

theorem Rel.seq {j} {f g f' g' : Step} (hf : Rel j f f') (hg : Rel j g g') : Rel j (f ⋙ g) (f' ⋙ g') := by
  intro s
  simp only [Step.seq]
  obtain ⟨f1, f2⟩ := hf s
  rw [f1, f2]
  obtain ⟨g1, g2⟩ := hg (f s).1
  rw [g1, g2, List.map_append]
  exact ⟨rfl, rfl⟩

theorem rel_skip (j) : Rel j skip skip := fun _ => ⟨rfl, rfl⟩
theorem rel_same_silent (j) {f : Step} (h : ∀ s, (f s).2 = []) : Rel j f f := fun s => ⟨rfl, by rw [h s]; rfl⟩
theorem rel_modify (j) (m : St → St) : Rel j (Step.modify m) (Step.modify m) := fun _ => ⟨rfl, rfl⟩
theorem rel_modifyCore (j) (m : Core → Core) : Rel j (modifyCore m) (modifyCore m) := fun _ => ⟨rfl, rfl⟩
theorem rel_emit (j) {e e' : St → List Ev} (h : ∀ s, e' s = (e s).map (Ev.relabel j)) : Rel j (emit e) (emit e') := fun s => ⟨rfl, h s⟩
theorem rel_dep (j) {g g' : St → Step} (h : ∀ s0, Rel j (g s0) (g' s0)) : Rel j (fun s => g s s) (fun s => g' s s) := fun s => h s s
theorem rel_ite (j) {c : St → Prop} [DecidablePred c] {t e t' e' : Step} (ht : Rel j t t') (he : Rel j e e') :
    Rel j (fun s => if c s then t s else e s) (fun s => if c s then t' s else e' s) := by
  intro s
  by_cases h : c s
  · simp only [h, if_true]; exact ht s
  · simp only [h, if_false]; exact he s

theorem logEv_relabel (env : Env) (j : Nat) (c : Core) (r : LogRec) : logEv (env.onInst j) c r = (logEv env c r).map (Ev.relabel j) := by
  unfold logEv Env.onInst
  dsimp only
  split <;> rfl

theorem rel_applyAction (env : Env) (j sid : Nat) (a : Action) : Rel j (applyAction env sid a) (applyAction (env.onInst j) sid a) := by
  intro s
  cases a with
  | changeTo d => exact ⟨rfl, logEv_relabel env j _ _⟩
  | changeWith d p => exact ⟨rfl, logEv_relabel env j _ _⟩
  | cancel => exact ⟨rfl, logEv_relabel env j _ _⟩
  | succeed id => exact ⟨rfl, logEv_relabel env j _ _⟩
  | fail id => exact ⟨rfl, logEv_relabel env j _ _⟩
  | planAppend o d p =>
    have e : applyAction (env.onInst j) sid (.planAppend o d p) s = applyAction env sid (.planAppend o d p) s := by cases p <;> rfl
    have hnil : (applyAction env sid (.planAppend o d p) s).2 = [] := by cases p <;> simp only [applyAction] <;> split <;> rfl
    rw [e, hnil]; exact ⟨rfl, rfl⟩
  | planClear => exact ⟨rfl, rfl⟩
  | planRemove m => exact ⟨rfl, rfl⟩

theorem permitted_onInst (env : Env) (j : Nat) (fl : Flavour) (sid : Nat) (a : Action) :
    permitted (env.onInst j).cfg fl sid a = permitted env.cfg fl sid a := rfl

theorem rel_runActions (env : Env) (j : Nat) (fl : Flavour) (sid : Nat) (key : Key) :
    ∀ as : List Action, Rel j (runActions env fl sid key as) (runActions (env.onInst j) fl sid (key.withInst j) as)
  | [] => rel_skip j
  | a :: as => by
    unfold runActions
    refine Rel.seq ?_ (rel_runActions env j fl sid key as)
    rw [permitted_onInst]
    split
    · exact Rel.seq (rel_emit j fun _ => rfl) (rel_applyAction env j sid a)
    · exact rel_skip j

theorem rel_layerBody (env : Env) (j : Nat) (hb : BehAlike env j) (m : Method) (sid : Nat) (cur pend : Tr) (layer : Layer) (occ : Nat) :
    Rel j (layerBody env m sid cur pend layer occ) (layerBody (env.onInst j) m sid cur pend layer occ) := by
  unfold layerBody
  refine Rel.seq (rel_emit j fun _ => rfl) ?_
  have hbk : (env.onInst j).beh ⟨(env.onInst j).inst, (env.onInst j).op, occ, m, sid, layer⟩ = env.beh ⟨env.inst, env.op, occ, m, sid, layer⟩ :=
    hb ⟨env.inst, env.op, occ, m, sid, layer⟩ rfl
  show Rel j (if observable env.cfg sid m layer then _ else skip) (if observable env.cfg sid m layer then _ else skip)
  split
  · rw [hbk]
    exact rel_runActions env j _ _ ⟨env.inst, env.op, occ, m, sid, layer⟩ _
  · exact rel_skip j

theorem rel_deliverLayer (env : Env) (j : Nat) (hb : BehAlike env j) (m : Method) (sid : Nat) (cur pend : Tr) (layer : Layer) :
    Rel j (deliverLayer env m sid cur pend layer) (deliverLayer (env.onInst j) m sid cur pend layer) := by
  intro s
  rw [deliverLayer_eq, deliverLayer_eq]
  exact rel_layerBody env j hb m sid cur pend layer _ _

theorem rel_layers (env : Env) (j : Nat) (hb : BehAlike env j) (m : Method) (sid : Nat) (cur pend : Tr) :
    ∀ layers : List Layer, Rel j (seqList (layers.map (deliverLayer env m sid cur pend)))
      (seqList (layers.map (deliverLayer (env.onInst j) m sid cur pend)))
  | [] => rel_skip j
  | l :: ls => Rel.seq (rel_deliverLayer env j hb m sid cur pend l) (rel_layers env j hb m sid cur pend ls)

theorem rel_deliver (env : Env) (j : Nat) (hb : BehAlike env j) (m : Method) (sid : Nat) (cur pend : Tr) :
    Rel j (deliver env m sid cur pend) (deliver (env.onInst j) m sid cur pend) := by
  unfold deliver
  refine Rel.seq (rel_emit j fun s => ?_) (rel_layers env j hb m sid cur pend _)
  show (if recorded env.cfg sid m then logEv (env.onInst j) s.core _ else []) = _
  split
  · exact logEv_relabel env j _ _
  · rfl

theorem rel_deepEnter (env : Env) (j : Nat) (hb : BehAlike env j) (cur : Tr) : Rel j (deepEnter env cur) (deepEnter (env.onInst j) cur) := by
  unfold deepEnter
  exact Rel.seq (Rel.seq (rel_modifyCore j _) (rel_deliver env j hb _ _ _ _)) (rel_dep j fun s0 => rel_deliver env j hb _ _ _ _)

theorem rel_deepExit (env : Env) (j : Nat) (hb : BehAlike env j) (cur : Tr) : Rel j (deepExit env cur) (deepExit (env.onInst j) cur) := by
  unfold deepExit
  exact Rel.seq (Rel.seq (Rel.seq (rel_dep j fun s0 => Rel.seq (rel_deliver env j hb _ _ _ _) (rel_modifyCore j _))
    (rel_deliver env j hb _ _ _ _)) (rel_modifyCore j _)) (rel_modifyCore j _)

theorem rel_changeToRequested (env : Env) (j : Nat) (hb : BehAlike env j) (cur : Tr) :
    Rel j (changeToRequested env cur) (changeToRequested (env.onInst j) cur) := by
  unfold changeToRequested
  intro s
  dsimp only
  split
  · exact Rel.seq (Rel.seq (Rel.seq (rel_deliver env j hb _ _ _ _) (rel_modifyCore j _)) (rel_modifyCore j _))
      (rel_dep j fun s0 => rel_deliver env j hb _ _ _ _) s
  · exact Rel.seq (rel_modifyCore j _) (rel_deliver env j hb _ _ _ _) s

theorem rel_guardRound (env : Env) (j : Nat) (hb : BehAlike env j) (cur pend : Tr) :
    Rel j (guardRound env cur pend) (guardRound (env.onInst j) cur pend) := by
  unfold guardRound
  refine Rel.seq (Rel.seq (rel_modify j _) (rel_dep j fun s0 => rel_deliver env j hb _ _ _ _)) ?_
  intro s
  dsimp only
  split
  · exact ⟨rfl, rfl⟩
  · exact rel_deliver env j hb _ _ _ _ s

theorem rel_entryGuardRound (env : Env) (j : Nat) (hb : BehAlike env j) (cur pend : Tr) :
    Rel j (entryGuardRound env cur pend) (entryGuardRound (env.onInst j) cur pend) := by
  unfold entryGuardRound
  refine Rel.seq (Rel.seq (rel_modify j _) (rel_deliver env j hb _ _ _ _)) ?_
  intro s
  dsimp only
  split
  · exact ⟨rfl, rfl⟩
  · exact rel_deliver env j hb _ _ _ _ s

theorem rel_substLoop (j : Nat) (round round' : Tr → Tr → Step) (hr : ∀ c p, Rel j (round c p) (round' c p)) :
    ∀ (fuel : Nat) (cur : Tr) (s : St),
      (substLoop round' fuel cur s).1 = (substLoop round fuel cur s).1 ∧
      (substLoop round' fuel cur s).2 = (substLoop round fuel cur s).2.map (Ev.relabel j) := by
  intro fuel
  induction fuel with
  | zero => intro _ _; exact ⟨rfl, rfl⟩
  | succ fuel ih =>
    intro cur s
    simp only [substLoop]
    split
    · split
      · obtain ⟨r1, r2⟩ := hr cur s.core.request { s with core := { (applyRequest cur s.core.request.dest s.core).1 with
            request := (applyRequest cur s.core.request.dest s.core).1.request.clear } }
        rw [r1, r2]
        obtain ⟨i1, i2⟩ := ih (if (round cur s.core.request _).1.cancelled then cur else s.core.request) (round cur s.core.request _).1
        rw [i1, i2, List.map_append]
        exact ⟨rfl, rfl⟩
      · exact ih _ _
    · exact ⟨rfl, rfl⟩

theorem rel_applySurvivor (env : Env) (j : Nat) (hb : BehAlike env j) (cur : Tr) :
    Rel j (applySurvivor env cur) (applySurvivor (env.onInst j) cur) := by
  unfold applySurvivor
  intro s
  dsimp only
  split
  · exact Rel.seq (rel_modifyCore j _) (rel_changeToRequested env j hb cur) s
  · exact ⟨rfl, rfl⟩

theorem rel_finishProcessing (env : Env) (j : Nat) (cur : Tr) : Rel j (finishProcessing env cur) (finishProcessing (env.onInst j) cur) := by
  unfold finishProcessing
  exact rel_modifyCore j _

theorem rel_processRequest (env : Env) (j : Nat) (hb : BehAlike env j) : Rel j (processRequest env) (processRequest (env.onInst j)) := by
  unfold processRequest
  intro s
  simp only [onInst_cfg]
  split
  · obtain ⟨l1, l2⟩ := rel_substLoop j (guardRound env) (guardRound (env.onInst j)) (rel_guardRound env j hb) (substFuel env.cfg.L) {} s
    rw [l1, l2]
    generalize substLoop (guardRound env) (substFuel env.cfg.L) {} s = A
    obtain ⟨a1, a2⟩ := Rel.seq (rel_applySurvivor env j hb A.1.2) (rel_finishProcessing env j A.1.2) A.1.1
    refine ⟨?_, ?_⟩
    · exact a1
    · show List.map (Ev.relabel j) A.2 ++ _ = _
      rw [a2, List.map_append]
  · exact ⟨rfl, rfl⟩

theorem rel_enterSurvivor (env : Env) (j : Nat) (hb : BehAlike env j) (cur : Tr) :
    Rel j (enterSurvivor env cur) (enterSurvivor (env.onInst j) cur) := by
  unfold enterSurvivor
  exact Rel.seq (Rel.seq (rel_modifyCore j _) (rel_deepEnter env j hb cur)) (rel_modifyCore j _)

theorem rel_initialEnter (env : Env) (j : Nat) (hb : BehAlike env j) : Rel j (initialEnter env) (initialEnter (env.onInst j)) := by
  unfold initialEnter
  intro s
  simp only [onInst_cfg]
  obtain ⟨e1, e2⟩ := rel_entryGuardRound env j hb {} {} { s with core := (applyRequest {} 0 s.core).1 }
  rw [e1, e2]
  generalize entryGuardRound env {} {} { s with core := (applyRequest {} 0 s.core).1 } = R0
  obtain ⟨l1, l2⟩ := rel_substLoop j (entryGuardRound env) (entryGuardRound (env.onInst j)) (rel_entryGuardRound env j hb)
    (substFuel env.cfg.L) {} R0.1
  rw [l1, l2]
  generalize substLoop (entryGuardRound env) (substFuel env.cfg.L) {} R0.1 = A
  obtain ⟨s1, s2⟩ := rel_enterSurvivor env j hb A.1.2 A.1.1
  refine ⟨s1, ?_⟩
  show List.map (Ev.relabel j) R0.2 ++ List.map (Ev.relabel j) A.2 ++ _ = _
  rw [s2, List.map_append, List.map_append]

theorem rel_finalExit (env : Env) (j : Nat) (hb : BehAlike env j) : Rel j (finalExit env) (finalExit (env.onInst j)) := by
  unfold finalExit
  exact Rel.seq (rel_deepExit env j hb _) (rel_modifyCore j _)

theorem rel_phase (env : Env) (j : Nat) (hb : BehAlike env j) (m : Method) (hf : Bool) : Rel j (phase env m hf) (phase (env.onInst j) m hf) := by
  unfold phase
  intro s
  refine Rel.seq ?_ (rel_modify j _) s
  split
  · exact Rel.seq (rel_deliver env j hb _ _ _ _) (Rel.seq (rel_deliver env j hb _ _ _ _) (rel_modify j _))
  · exact Rel.seq (Rel.seq (rel_deliver env j hb _ _ _ _) (rel_modify j _)) (rel_deliver env j hb _ _ _ _)

theorem rel_firePlan (env : Env) (j : Nat) : ∀ (tasks : List Task) (s : St) (clr : List Nat),
    (firePlan (env.onInst j) tasks s clr).1 = (firePlan env tasks s clr).1 ∧
    (firePlan (env.onInst j) tasks s clr).2 = (firePlan env tasks s clr).2.map (Ev.relabel j)
  | [], _, _ => ⟨rfl, rfl⟩
  | t :: ts, s, clr => by
    unfold firePlan
    split
    · split
      · dsimp only
        obtain ⟨i1, i2⟩ := rel_firePlan env j ts { s with core := _ } (if (t.origin == t.dest) = true then clr else t.origin :: clr)
        rw [i1, i2, List.map_append, logEv_relabel]
        exact ⟨rfl, rfl⟩
      · dsimp only
        obtain ⟨i1, i2⟩ := rel_firePlan env j ts s clr
        rw [i1, i2]
        exact ⟨rfl, rfl⟩
    · exact ⟨rfl, rfl⟩

theorem rel_planStep (env : Env) (j : Nat) (hb : BehAlike env j) : Rel j (planStep env) (planStep (env.onInst j)) := by
  have hfail : Rel j (modify (fun s => { s with ts := Status.failure }) ⋙ deliver env .planFailed 255 {} {} ⋙ modifyCore planClearCore)
      (modify (fun s => { s with ts := Status.failure }) ⋙ deliver (env.onInst j) .planFailed 255 {} {} ⋙ modifyCore planClearCore) :=
    Rel.seq (Rel.seq (rel_modify j _) (rel_deliver env j hb _ _ _ _)) (rel_modifyCore j _)
  have hsucc : Rel j (modify (fun s => { s with ts := Status.success }) ⋙ deliver env .planSucceeded 255 {} {} ⋙ modifyCore planClearCore)
      (modify (fun s => { s with ts := Status.success }) ⋙ deliver (env.onInst j) .planSucceeded 255 {} {} ⋙ modifyCore planClearCore) :=
    Rel.seq (Rel.seq (rel_modify j _) (rel_deliver env j hb _ _ _ _)) (rel_modifyCore j _)
  have body : Rel j (planStepBody env) (planStepBody (env.onInst j)) := by
    intro s
    unfold planStepBody
    dsimp only
    split
    · split
      · exact hfail s
      · split
        · obtain ⟨f1, f2⟩ := rel_firePlan env j s.core.plan s []
          rw [f1, f2]
          exact ⟨rfl, rfl⟩
        · exact hsucc s
    · exact ⟨rfl, rfl⟩
  intro s
  rw [planStep_eq, planStep_eq]
  obtain ⟨b1, b2⟩ := body s
  rw [b1, b2]
  exact ⟨rfl, rfl⟩

theorem rel_cycle (env : Env) (j : Nat) (hb : BehAlike env j) (pre mid post : Method) :
    Rel j (cycle env pre mid post) (cycle (env.onInst j) pre mid post) := by
  unfold cycle
  refine Rel.seq (Rel.seq (Rel.seq (Rel.seq (Rel.seq (rel_modify j _) (rel_phase env j hb _ _)) (rel_phase env j hb _ _))
    (rel_phase env j hb _ _)) ?_) (rel_processRequest env j hb)
  simp only [onInst_cfg]
  by_cases hp : env.cfg.plans = true
  · simp only [hp, if_true]; exact rel_planStep env j hb
  · simp only [hp]; exact rel_skip j

theorem rel_query (env : Env) (j : Nat) (hb : BehAlike env j) : Rel j (query env) (query (env.onInst j)) := by
  unfold query
  generalize headFirst Method.query = hfq
  cases hfq <;> simp only [if_true, if_false, Bool.false_eq_true] <;>
  exact rel_dep j fun s0 => Rel.seq (rel_deliver env j hb _ _ _ _) (rel_deliver env j hb _ _ _ _)

theorem rel_extChange (env : Env) (j d : Nat) (p : Option Nat) : Rel j (extChange env d p) (extChange (env.onInst j) d p) :=
  fun _ => ⟨rfl, logEv_relabel env j _ _⟩

theorem rel_extStatus (env : Env) (j id : Nat) (ok : Bool) : Rel j (extStatus env id ok) (extStatus (env.onInst j) id ok) :=
  fun _ => ⟨rfl, logEv_relabel env j _ _⟩

theorem rel_replayTransition (env : Env) (j : Nat) (hb : BehAlike env j) (d : Nat) :
    Rel j (replayTransition env d) (replayTransition (env.onInst j) d) := by
  unfold replayTransition
  exact Rel.seq (Rel.seq (Rel.seq (rel_modifyCore j _) (rel_modifyCore j _)) (rel_changeToRequested env j hb _)) (rel_modifyCore j _)

theorem rel_replayEnter (env : Env) (j : Nat) (hb : BehAlike env j) (d : Nat) : Rel j (replayEnter env d) (replayEnter (env.onInst j) d) := by
  unfold replayEnter
  exact Rel.seq (Rel.seq (rel_modifyCore j _) (rel_deepEnter env j hb _)) (rel_modifyCore j _)

theorem rel_loadActive (env : Env) (j : Nat) (hb : BehAlike env j) (r : Nat) : Rel j (loadActive env r) (loadActive (env.onInst j) r) := by
  unfold loadActive
  exact Rel.seq (rel_modifyCore j _) (rel_changeToRequested env j hb _)

/-- `load` with the two stream reads abstracted (what was decoded does not matter here) -/
theorem rel_load_core (env : Env) (j : Nat) (hb : BehAlike env j) (b1 : Bool) (req : Nat) :
    Rel j (fun s => if b1 then
              (if s.core.active != 255 then loadActive env req s
               else if env.cfg.manual then (modifyCore (fun c => { c with requested := req }) ⋙ deepEnter env {}) s
               else (s, []))
            else (if env.cfg.manual && s.core.active != 255 then finalExit env s else (s, [])))
          (fun s => if b1 then
              (if s.core.active != 255 then loadActive (env.onInst j) req s
               else if env.cfg.manual then (modifyCore (fun c => { c with requested := req }) ⋙ deepEnter (env.onInst j) {}) s
               else (s, []))
            else (if env.cfg.manual && s.core.active != 255 then finalExit (env.onInst j) s else (s, []))) := by
  intro s
  cases b1
  · simp only [Bool.false_eq_true, if_false]
    by_cases h4 : (env.cfg.manual && s.core.active != 255) = true
    · rw [if_pos h4, if_pos h4]; exact rel_finalExit env j hb s
    · rw [if_neg h4, if_neg h4]; exact ⟨rfl, rfl⟩
  · simp only [if_true]
    by_cases h2 : (s.core.active != 255) = true
    · rw [if_pos h2, if_pos h2]; exact rel_loadActive env j hb _ s
    · rw [if_neg h2, if_neg h2]
      by_cases h3 : env.cfg.manual = true
      · rw [if_pos h3, if_pos h3]
        exact Rel.seq (rel_modifyCore j _) (rel_deepEnter env j hb _) s
      · rw [if_neg h3, if_neg h3]; exact ⟨rfl, rfl⟩

theorem rel_load (env : Env) (j : Nat) (hb : BehAlike env j) (buf : List Nat) : Rel j (load env buf) (load (env.onInst j) buf) :=
  rel_load_core env j hb ((BitStream.read 1 buf 0).1 != 0) (BitStream.read (Gen.widthBits env.cfg.n) buf (BitStream.read 1 buf 0).2).1

/-! ### one API call made on another instance holding the same core -/

def Op.onInst (j : Nat) : Op → Op
  | .construct _ lg => .construct j lg
  | .destroy _ => .destroy j
  | .copy _ src => .copy j src
  | .enter _ => .enter j
  | .exit _ => .exit j
  | .update _ => .update j
  | .react _ => .react j
  | .query _ => .query j
  | .changeTo _ d => .changeTo j d
  | .changeWith _ d p => .changeWith j d p
  | .immediateChangeTo _ d => .immediateChangeTo j d
  | .immediateChangeWith _ d p => .immediateChangeWith j d p
  | .succeed _ id => .succeed j id
  | .fail _ id => .fail j id
  | .planAppend _ o d p => .planAppend j o d p
  | .planClear _ => .planClear j
  | .planRemove _ m => .planRemove j m
  | .save _ => .save j
  | .load _ src => .load j src
  | .replayEnter _ d => .replayEnter j d
  | .replayTransition _ d => .replayTransition j d
  | .attachLogger _ on => .attachLogger j on
  | .replayFrom _ src => .replayFrom j src
  | .replayEnterFrom _ src => .replayEnterFrom j src

/-- calls that involve one instance only -/
def Op.single : Op → Bool
  | .copy .. | .load .. | .replayFrom .. | .replayEnterFrom .. => false
  | _ => true

/-- the outcome of a call on slot `j` of `w'` mirrors the outcome of the same call on slot `i` of `w` -/
def Mirrors (i j : Nat) (r r' : World × List Ev) : Prop := r'.1.get j = r.1.get i ∧ r'.2 = r.2.map (Ev.relabel j)

theorem onCore_rel (cfg : Cfg) (w w' : World) (i j k : Nat) (name : String) (c : Core) {f f' : Step} (h : Rel j f f')
    (ret : Core → Option Bool) : Mirrors i j (onCore cfg w i k name c f ret) (onCore cfg w' j k name c f' ret) := by
  obtain ⟨h1, h2⟩ := h { core := c }
  refine ⟨?_, ?_⟩
  · rw [onCore_fst, onCore_fst, World.get_put_same, World.get_put_same, h1]
  · rw [onCore_snd, onCore_snd, h1, h2, List.map_append]; rfl

theorem mirrors_rejected (w w' : World) (i j k : Nat) (name : String) (h : w'.get j = w.get i) :
    Mirrors i j (w, [Ev.rejected i k name]) (w', [Ev.rejected j k name]) := ⟨h, rfl⟩

set_option hygiene false in
local macro "rl_arm " t:term : tactic =>
  `(tactic| (split <;> rename_i hc <;> (try simp only [hc, Bool.false_eq_true, ↓reduceIte, if_false, if_true]) <;>
      first
      | exact mirrors_rejected _ _ _ _ _ _ (hslot'.trans hg.symm)
      | exact onCore_rel _ _ _ _ _ _ _ _ $t _))

/-- **the same call on an instance holding the same core gives the same result and the same trace up to the
    instance label**, for every single-instance API call, provided user code treats the two instances alike -/
theorem step_relabel (cfg : Cfg) (beh : Beh) (w w' : World) (k : Nat) (op : Op) (j : Nat)
    (hslot : w'.get j = w.get op.inst) (hb : ∀ key : Key, key.inst = op.inst → beh (key.withInst j) = beh key)
    (hsingle : op.single = true) :
    Mirrors op.inst j (step cfg beh w k op) (step cfg beh w' k (op.onInst j)) := by
  cases op with
  | copy i src => simp [Op.single] at hsingle
  | load i src => simp [Op.single] at hsingle
  | replayFrom i src => simp [Op.single] at hsingle
  | replayEnterFrom i src => simp [Op.single] at hsingle
  | construct i lg =>
    have hb' : BehAlike ⟨cfg, beh, i, k⟩ j := hb
    have hslot' : w'.get j = w.get i := hslot
    unfold step
    simp only [Op.onInst, Op.inst, Op.name, hslot']
    cases hg : w.get i with
    | none =>
      dsimp only
      split
      · exact onCore_rel _ _ _ _ _ _ _ _ (rel_skip j) _
      · exact onCore_rel _ _ _ _ _ _ _ _ (rel_initialEnter ⟨cfg, beh, i, k⟩ j hb') _
    | some c => exact mirrors_rejected _ _ _ _ _ _ (by rw [hslot', hg])
  | destroy i =>
    have hb' : BehAlike ⟨cfg, beh, i, k⟩ j := hb
    have hslot' : w'.get j = w.get i := hslot
    unfold step
    simp only [Op.onInst, Op.inst, Op.name, hslot']
    cases hg : w.get i with
    | none => exact mirrors_rejected _ _ _ _ _ _ (by rw [hslot', hg])
    | some c =>
      dsimp only
      split
      · exact ⟨by rw [World.get_put_same, World.get_put_same], rfl⟩
      · obtain ⟨h1, h2⟩ := rel_finalExit ⟨cfg, beh, i, k⟩ j hb' { core := c }
        have h1' : (finalExit ⟨cfg, beh, j, k⟩ { core := c }).1 = (finalExit ⟨cfg, beh, i, k⟩ { core := c }).1 := h1
        have h2' : (finalExit ⟨cfg, beh, j, k⟩ { core := c }).2 = (finalExit ⟨cfg, beh, i, k⟩ { core := c }).2.map (Ev.relabel j) := h2
        refine ⟨by rw [World.get_put_same, World.get_put_same], ?_⟩
        rw [h2', h1', List.map_append]; rfl
  | enter i =>
    have hb' : BehAlike ⟨cfg, beh, i, k⟩ j := hb
    have hslot' : w'.get j = w.get i := hslot
    unfold step
    simp only [Op.onInst, Op.inst, Op.name, hslot']
    cases hg : w.get i with
    | none => exact mirrors_rejected _ _ _ _ _ _ (by rw [hslot', hg])
    | some c => dsimp only; rw [hg] at hslot'; rl_arm (rel_initialEnter ⟨cfg, beh, i, k⟩ j hb')
  | exit i =>
    have hb' : BehAlike ⟨cfg, beh, i, k⟩ j := hb
    have hslot' : w'.get j = w.get i := hslot
    unfold step
    simp only [Op.onInst, Op.inst, Op.name, hslot']
    cases hg : w.get i with
    | none => exact mirrors_rejected _ _ _ _ _ _ (by rw [hslot', hg])
    | some c => dsimp only; rw [hg] at hslot'; rl_arm (rel_finalExit ⟨cfg, beh, i, k⟩ j hb')
  | update i =>
    have hb' : BehAlike ⟨cfg, beh, i, k⟩ j := hb
    have hslot' : w'.get j = w.get i := hslot
    unfold step
    simp only [Op.onInst, Op.inst, Op.name, hslot']
    cases hg : w.get i with
    | none => exact mirrors_rejected _ _ _ _ _ _ (by rw [hslot', hg])
    | some c => dsimp only; rw [hg] at hslot'; rl_arm (rel_cycle ⟨cfg, beh, i, k⟩ j hb' _ _ _)
  | react i =>
    have hb' : BehAlike ⟨cfg, beh, i, k⟩ j := hb
    have hslot' : w'.get j = w.get i := hslot
    unfold step
    simp only [Op.onInst, Op.inst, Op.name, hslot']
    cases hg : w.get i with
    | none => exact mirrors_rejected _ _ _ _ _ _ (by rw [hslot', hg])
    | some c => dsimp only; rw [hg] at hslot'; rl_arm (rel_cycle ⟨cfg, beh, i, k⟩ j hb' _ _ _)
  | query i =>
    have hb' : BehAlike ⟨cfg, beh, i, k⟩ j := hb
    have hslot' : w'.get j = w.get i := hslot
    unfold step
    simp only [Op.onInst, Op.inst, Op.name, hslot']
    cases hg : w.get i with
    | none => exact mirrors_rejected _ _ _ _ _ _ (by rw [hslot', hg])
    | some c => dsimp only; rw [hg] at hslot'; rl_arm (rel_query ⟨cfg, beh, i, k⟩ j hb')
  | changeTo i d =>
    have hslot' : w'.get j = w.get i := hslot
    unfold step
    simp only [Op.onInst, Op.inst, Op.name, hslot']
    cases hg : w.get i with
    | none => exact mirrors_rejected _ _ _ _ _ _ (by rw [hslot', hg])
    | some c => dsimp only; rw [hg] at hslot'; rl_arm (rel_extChange ⟨cfg, beh, i, k⟩ j d none)
  | changeWith i d p =>
    have hslot' : w'.get j = w.get i := hslot
    unfold step
    simp only [Op.onInst, Op.inst, Op.name, hslot']
    cases hg : w.get i with
    | none => exact mirrors_rejected _ _ _ _ _ _ (by rw [hslot', hg])
    | some c => dsimp only; rw [hg] at hslot'; rl_arm (rel_extChange ⟨cfg, beh, i, k⟩ j d (some p))
  | immediateChangeTo i d =>
    have hb' : BehAlike ⟨cfg, beh, i, k⟩ j := hb
    have hslot' : w'.get j = w.get i := hslot
    unfold step
    simp only [Op.onInst, Op.inst, Op.name, hslot']
    cases hg : w.get i with
    | none => exact mirrors_rejected _ _ _ _ _ _ (by rw [hslot', hg])
    | some c => dsimp only; rw [hg] at hslot'; rl_arm (Rel.seq (rel_extChange ⟨cfg, beh, i, k⟩ j d none) (rel_processRequest ⟨cfg, beh, i, k⟩ j hb'))
  | immediateChangeWith i d p =>
    have hb' : BehAlike ⟨cfg, beh, i, k⟩ j := hb
    have hslot' : w'.get j = w.get i := hslot
    unfold step
    simp only [Op.onInst, Op.inst, Op.name, hslot']
    cases hg : w.get i with
    | none => exact mirrors_rejected _ _ _ _ _ _ (by rw [hslot', hg])
    | some c => dsimp only; rw [hg] at hslot'; rl_arm (Rel.seq (rel_extChange ⟨cfg, beh, i, k⟩ j d (some p)) (rel_processRequest ⟨cfg, beh, i, k⟩ j hb'))
  | succeed i id =>
    have hslot' : w'.get j = w.get i := hslot
    unfold step
    simp only [Op.onInst, Op.inst, Op.name, hslot']
    cases hg : w.get i with
    | none => exact mirrors_rejected _ _ _ _ _ _ (by rw [hslot', hg])
    | some c => dsimp only; rw [hg] at hslot'; rl_arm (rel_extStatus ⟨cfg, beh, i, k⟩ j id true)
  | fail i id =>
    have hslot' : w'.get j = w.get i := hslot
    unfold step
    simp only [Op.onInst, Op.inst, Op.name, hslot']
    cases hg : w.get i with
    | none => exact mirrors_rejected _ _ _ _ _ _ (by rw [hslot', hg])
    | some c => dsimp only; rw [hg] at hslot'; rl_arm (rel_extStatus ⟨cfg, beh, i, k⟩ j id false)
  | planAppend i o d p =>
    have hslot' : w'.get j = w.get i := hslot
    unfold step
    simp only [Op.onInst, Op.inst, Op.name, hslot']
    cases hg : w.get i with
    | none => exact mirrors_rejected _ _ _ _ _ _ (by rw [hslot', hg])
    | some c => dsimp only; rw [hg] at hslot'; rl_arm (rel_applyAction ⟨cfg, beh, i, k⟩ j 255 (.planAppend o d p))
  | planClear i =>
    have hslot' : w'.get j = w.get i := hslot
    unfold step
    simp only [Op.onInst, Op.inst, Op.name, hslot']
    cases hg : w.get i with
    | none => exact mirrors_rejected _ _ _ _ _ _ (by rw [hslot', hg])
    | some c => dsimp only; rw [hg] at hslot'; rl_arm (rel_applyAction ⟨cfg, beh, i, k⟩ j 255 .planClear)
  | planRemove i m =>
    have hslot' : w'.get j = w.get i := hslot
    unfold step
    simp only [Op.onInst, Op.inst, Op.name, hslot']
    cases hg : w.get i with
    | none => exact mirrors_rejected _ _ _ _ _ _ (by rw [hslot', hg])
    | some c => dsimp only; rw [hg] at hslot'; rl_arm (rel_applyAction ⟨cfg, beh, i, k⟩ j 255 (.planRemove m))
  | save i =>
    have hslot' : w'.get j = w.get i := hslot
    unfold step
    simp only [Op.onInst, Op.inst, Op.name, hslot']
    cases hg : w.get i with
    | none => exact mirrors_rejected _ _ _ _ _ _ (by rw [hslot', hg])
    | some c =>
      dsimp only
      rw [hg] at hslot'
      split
      · exact ⟨hslot'.trans hg.symm, rfl⟩
      · exact mirrors_rejected _ _ _ _ _ _ (hslot'.trans hg.symm)
  | replayEnter i d =>
    have hb' : BehAlike ⟨cfg, beh, i, k⟩ j := hb
    have hslot' : w'.get j = w.get i := hslot
    unfold step
    simp only [Op.onInst, Op.inst, Op.name, hslot']
    cases hg : w.get i with
    | none => exact mirrors_rejected _ _ _ _ _ _ (by rw [hslot', hg])
    | some c => dsimp only; rw [hg] at hslot'; rl_arm (rel_replayEnter ⟨cfg, beh, i, k⟩ j hb' d)
  | replayTransition i d =>
    have hb' : BehAlike ⟨cfg, beh, i, k⟩ j := hb
    have hslot' : w'.get j = w.get i := hslot
    unfold step
    simp only [Op.onInst, Op.inst, Op.name, hslot']
    cases hg : w.get i with
    | none => exact mirrors_rejected _ _ _ _ _ _ (by rw [hslot', hg])
    | some c =>
      dsimp only
      rw [hg] at hslot'
      split
      · split
        · exact onCore_rel _ _ _ _ _ _ _ _ (rel_modifyCore j _) _
        · exact onCore_rel _ _ _ _ _ _ _ _ (rel_replayTransition ⟨cfg, beh, i, k⟩ j hb' d) _
      · exact mirrors_rejected _ _ _ _ _ _ (hslot'.trans hg.symm)
  | attachLogger i on =>
    have hslot' : w'.get j = w.get i := hslot
    unfold step
    simp only [Op.onInst, Op.inst, Op.name, hslot']
    cases hg : w.get i with
    | none => exact mirrors_rejected _ _ _ _ _ _ (by rw [hslot', hg])
    | some c => dsimp only; rw [hg] at hslot'; rl_arm (rel_modifyCore j _)

end FFSM2
