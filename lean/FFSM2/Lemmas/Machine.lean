import FFSM2.Machine
/-! Helper lemmas about the machine model: which steps leave the registry alone, which events they
    emit.  Property statements live in `FFSM2/Props/*.lean`. -/
namespace FFSM2
open Step Ancestors

/-- lifecycle methods -/
def Method.isLife : Method → Bool
  | .enter | .exit | .reenter => true
  | _ => false

def Method.isGuard : Method → Bool
  | .entryGuard | .exitGuard => true
  | _ => false

/-- a delivery (visible or not) of a lifecycle callback -/
def Ev.isLife : Ev → Bool
  | .cb k _ _ => k.method.isLife
  | _ => false

def Ev.isGuard : Ev → Bool
  | .cb k _ _ => k.method.isGuard
  | _ => false

def Ev.isCb : Ev → Bool
  | .cb .. => true
  | _ => false

def life (es : List Ev) : List Ev := es.filter Ev.isLife
def guards (es : List Ev) : List Ev := es.filter Ev.isGuard

@[simp] theorem life_nil : life [] = [] := rfl
@[simp] theorem life_append (a b : List Ev) : life (a ++ b) = life a ++ life b := by simp [life]
@[simp] theorem guards_nil : guards [] = [] := rfl
@[simp] theorem guards_append (a b : List Ev) : guards (a ++ b) = guards a ++ guards b := by simp [guards]

/-- a step that does not touch `active` / `requested` -/
def Stable (f : Step) : Prop :=
  ∀ s, (f s).1.core.active = s.core.active ∧ (f s).1.core.requested = s.core.requested

/-- a step that emits no lifecycle event -/
def NoLife (f : Step) : Prop := ∀ s, life (f s).2 = []

/-- a step that emits no guard delivery -/
def NoGuard (f : Step) : Prop := ∀ s, guards (f s).2 = []

theorem Stable.seq {f g : Step} (hf : Stable f) (hg : Stable g) : Stable (f ⋙ g) := by
  intro s
  simp only [Step.seq]
  exact ⟨(hg _).1.trans (hf s).1, (hg _).2.trans (hf s).2⟩

theorem NoLife.seq {f g : Step} (hf : NoLife f) (hg : NoLife g) : NoLife (f ⋙ g) := by
  intro s; simp only [Step.seq, life_append, hf s, hg _, List.append_nil]

theorem NoGuard.seq {f g : Step} (hf : NoGuard f) (hg : NoGuard g) : NoGuard (f ⋙ g) := by
  intro s; simp only [Step.seq, guards_append, hf s, hg _, List.append_nil]

theorem stable_skip : Stable skip := fun _ => ⟨rfl, rfl⟩
theorem noLife_skip : NoLife skip := fun _ => rfl
theorem noGuard_skip : NoGuard skip := fun _ => rfl

theorem stable_emit (e : St → List Ev) : Stable (emit e) := fun _ => ⟨rfl, rfl⟩
theorem noLife_emit {e : St → List Ev} (h : ∀ s, life (e s) = []) : NoLife (emit e) := fun s => h s
theorem noGuard_emit {e : St → List Ev} (h : ∀ s, guards (e s) = []) : NoGuard (emit e) := fun s => h s

theorem stable_modify {m : St → St} (h : ∀ s, (m s).core.active = s.core.active ∧ (m s).core.requested = s.core.requested) :
    Stable (modify m) := fun s => h s
theorem noLife_modify (m : St → St) : NoLife (modify m) := fun _ => rfl
theorem noGuard_modify (m : St → St) : NoGuard (modify m) := fun _ => rfl

theorem stable_modifyCore {m : Core → Core} (h : ∀ c, (m c).active = c.active ∧ (m c).requested = c.requested) :
    Stable (modifyCore m) := fun s => h s.core
theorem noLife_modifyCore (m : Core → Core) : NoLife (modifyCore m) := fun _ => rfl
theorem noGuard_modifyCore (m : Core → Core) : NoGuard (modifyCore m) := fun _ => rfl

theorem stable_seqList {l : List Step} (h : ∀ f ∈ l, Stable f) : Stable (seqList l) := by
  induction l with
  | nil => exact stable_skip
  | cons f fs ih =>
    exact Stable.seq (h f (by simp)) (ih fun g hg => h g (by simp [hg]))

theorem noLife_seqList {l : List Step} (h : ∀ f ∈ l, NoLife f) : NoLife (seqList l) := by
  induction l with
  | nil => exact noLife_skip
  | cons f fs ih => exact NoLife.seq (h f (by simp)) (ih fun g hg => h g (by simp [hg]))

theorem noGuard_seqList {l : List Step} (h : ∀ f ∈ l, NoGuard f) : NoGuard (seqList l) := by
  induction l with
  | nil => exact noGuard_skip
  | cons f fs ih => exact NoGuard.seq (h f (by simp)) (ih fun g hg => h g (by simp [hg]))

theorem life_logEv (env : Env) (c : Core) (r : LogRec) : life (logEv env c r) = [] := by
  unfold logEv; split <;> simp [life, Ev.isLife]

theorem guards_logEv (env : Env) (c : Core) (r : LogRec) : guards (logEv env c r) = [] := by
  unfold logEv; split <;> simp [guards, Ev.isGuard]

/-- **no action of any control flavour writes the registry** -/
theorem stable_applyAction (env : Env) (sid : Nat) (a : Action) : Stable (applyAction env sid a) := by
  intro s
  cases a with
  | planAppend o d p => cases p <;> simp only [applyAction] <;> split <;> exact ⟨rfl, rfl⟩
  | _ => exact ⟨rfl, rfl⟩

theorem noLife_applyAction (env : Env) (sid : Nat) (a : Action) : NoLife (applyAction env sid a) := by
  intro s
  cases a with
  | planAppend o d p => cases p <;> simp only [applyAction] <;> split <;> rfl
  | planClear => rfl
  | planRemove m => rfl
  | _ => simp only [applyAction, life_logEv]

theorem noGuard_applyAction (env : Env) (sid : Nat) (a : Action) : NoGuard (applyAction env sid a) := by
  intro s
  cases a with
  | planAppend o d p => cases p <;> simp only [applyAction] <;> split <;> rfl
  | planClear => rfl
  | planRemove m => rfl
  | _ => simp only [applyAction, guards_logEv]

theorem stable_runActions (env : Env) (fl : Flavour) (sid : Nat) (key : Key) (as : List Action) :
    Stable (runActions env fl sid key as) := by
  induction as with
  | nil => exact stable_skip
  | cons a as ih =>
    simp only [runActions]
    refine Stable.seq ?_ ih
    split
    · exact Stable.seq (stable_emit _) (stable_applyAction env sid a)
    · exact stable_skip

theorem noLife_runActions (env : Env) (fl : Flavour) (sid : Nat) (key : Key) (as : List Action) :
    NoLife (runActions env fl sid key as) := by
  induction as with
  | nil => exact noLife_skip
  | cons a as ih =>
    simp only [runActions]
    refine NoLife.seq ?_ ih
    split
    · exact NoLife.seq (noLife_emit fun _ => by simp [life, Ev.isLife]) (noLife_applyAction env sid a)
    · exact noLife_skip

theorem noGuard_runActions (env : Env) (fl : Flavour) (sid : Nat) (key : Key) (as : List Action) :
    NoGuard (runActions env fl sid key as) := by
  induction as with
  | nil => exact noGuard_skip
  | cons a as ih =>
    simp only [runActions]
    refine NoGuard.seq ?_ ih
    split
    · exact NoGuard.seq (noGuard_emit fun _ => by simp [guards, Ev.isGuard]) (noGuard_applyAction env sid a)
    · exact noGuard_skip

theorem stable_deliverLayer (env : Env) (m : Method) (sid : Nat) (cur pend : Tr) (layer : Layer) :
    Stable (deliverLayer env m sid cur pend layer) := by
  intro s
  simp only [deliverLayer]
  have h : Stable ((emit fun st => [Ev.cb ⟨env.inst, env.op, occOf s.seen (m, sid, layer), m, sid, layer⟩
        (observable env.cfg sid m layer) (observe env m.flavour sid cur pend st.core)]) ⋙
      (if observable env.cfg sid m layer then
        runActions env m.flavour sid ⟨env.inst, env.op, occOf s.seen (m, sid, layer), m, sid, layer⟩
          (env.beh ⟨env.inst, env.op, occOf s.seen (m, sid, layer), m, sid, layer⟩) else skip)) := by
    refine Stable.seq (stable_emit _) ?_
    split
    · exact stable_runActions _ _ _ _ _
    · exact stable_skip
  exact h _

theorem noLife_deliverLayer (env : Env) (m : Method) (hm : m.isLife = false) (sid : Nat) (cur pend : Tr) (layer : Layer) :
    NoLife (deliverLayer env m sid cur pend layer) := by
  intro s
  simp only [deliverLayer]
  have h : NoLife ((emit fun st => [Ev.cb ⟨env.inst, env.op, occOf s.seen (m, sid, layer), m, sid, layer⟩
        (observable env.cfg sid m layer) (observe env m.flavour sid cur pend st.core)]) ⋙
      (if observable env.cfg sid m layer then
        runActions env m.flavour sid ⟨env.inst, env.op, occOf s.seen (m, sid, layer), m, sid, layer⟩
          (env.beh ⟨env.inst, env.op, occOf s.seen (m, sid, layer), m, sid, layer⟩) else skip)) := by
    refine NoLife.seq (noLife_emit fun _ => by simp [life, Ev.isLife, hm]) ?_
    split
    · exact noLife_runActions _ _ _ _ _
    · exact noLife_skip
  exact h _

theorem noGuard_deliverLayer (env : Env) (m : Method) (hm : m.isGuard = false) (sid : Nat) (cur pend : Tr) (layer : Layer) :
    NoGuard (deliverLayer env m sid cur pend layer) := by
  intro s
  simp only [deliverLayer]
  have h : NoGuard ((emit fun st => [Ev.cb ⟨env.inst, env.op, occOf s.seen (m, sid, layer), m, sid, layer⟩
        (observable env.cfg sid m layer) (observe env m.flavour sid cur pend st.core)]) ⋙
      (if observable env.cfg sid m layer then
        runActions env m.flavour sid ⟨env.inst, env.op, occOf s.seen (m, sid, layer), m, sid, layer⟩
          (env.beh ⟨env.inst, env.op, occOf s.seen (m, sid, layer), m, sid, layer⟩) else skip)) := by
    refine NoGuard.seq (noGuard_emit fun _ => by simp [guards, Ev.isGuard, hm]) ?_
    split
    · exact noGuard_runActions _ _ _ _ _
    · exact noGuard_skip
  exact h _

/-- **a delivery never touches the registry**, whatever the callbacks do -/
theorem stable_deliver (env : Env) (m : Method) (sid : Nat) (cur pend : Tr) : Stable (deliver env m sid cur pend) := by
  unfold deliver
  refine Stable.seq (stable_emit _) (stable_seqList ?_)
  intro f hf
  obtain ⟨l, _, rfl⟩ := List.mem_map.mp hf
  exact stable_deliverLayer _ _ _ _ _ _

theorem noLife_deliver (env : Env) (m : Method) (hm : m.isLife = false) (sid : Nat) (cur pend : Tr) :
    NoLife (deliver env m sid cur pend) := by
  unfold deliver
  refine NoLife.seq (noLife_emit fun s => by split <;> simp [life_logEv]) (noLife_seqList ?_)
  intro f hf
  obtain ⟨l, _, rfl⟩ := List.mem_map.mp hf
  exact noLife_deliverLayer env m hm _ _ _ _

theorem noGuard_deliver (env : Env) (m : Method) (hm : m.isGuard = false) (sid : Nat) (cur pend : Tr) :
    NoGuard (deliver env m sid cur pend) := by
  unfold deliver
  refine NoGuard.seq (noGuard_emit fun s => by split <;> simp [guards_logEv]) (noGuard_seqList ?_)
  intro f hf
  obtain ⟨l, _, rfl⟩ := List.mem_map.mp hf
  exact noGuard_deliverLayer env m hm _ _ _ _

/-- pointwise helper: a step given as `fun s => g s s` -/
theorem stable_dep {g : St → Step} (h : ∀ s0, Stable (g s0)) : Stable (fun s => g s s) := fun s => h s s
theorem noLife_dep {g : St → Step} (h : ∀ s0, NoLife (g s0)) : NoLife (fun s => g s s) := fun s => h s s
theorem noGuard_dep {g : St → Step} (h : ∀ s0, NoGuard (g s0)) : NoGuard (fun s => g s s) := fun s => h s s

/-- **guard evaluation is pure** w.r.t. the registry and the lifecycle -/
theorem stable_guardRound (env : Env) (cur pend : Tr) : Stable (guardRound env cur pend) := by
  unfold guardRound
  refine Stable.seq (Stable.seq (stable_modify fun _ => ⟨rfl, rfl⟩) (stable_dep fun s0 => stable_deliver _ _ _ _ _)) ?_
  intro s
  dsimp only
  split
  · exact ⟨rfl, rfl⟩
  · exact stable_deliver _ _ _ _ _ s

theorem noLife_guardRound (env : Env) (cur pend : Tr) : NoLife (guardRound env cur pend) := by
  unfold guardRound
  refine NoLife.seq (NoLife.seq (noLife_modify _) (noLife_dep fun s0 => noLife_deliver env _ rfl _ _ _)) ?_
  intro s
  dsimp only
  split
  · rfl
  · exact noLife_deliver env _ rfl _ _ _ s

theorem stable_entryGuardRound (env : Env) (cur pend : Tr) : Stable (entryGuardRound env cur pend) := by
  unfold entryGuardRound
  refine Stable.seq (Stable.seq (stable_modify fun _ => ⟨rfl, rfl⟩) (stable_deliver _ _ _ _ _)) ?_
  intro s
  dsimp only
  split
  · exact ⟨rfl, rfl⟩
  · exact stable_deliver _ _ _ _ _ s

theorem noLife_entryGuardRound (env : Env) (cur pend : Tr) : NoLife (entryGuardRound env cur pend) := by
  unfold entryGuardRound
  refine NoLife.seq (NoLife.seq (noLife_modify _) (noLife_deliver env _ rfl _ _ _)) ?_
  intro s
  dsimp only
  split
  · rfl
  · exact noLife_deliver env _ rfl _ _ _ s

end FFSM2
