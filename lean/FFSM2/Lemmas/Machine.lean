import FFSM2.Machine
/-! Helper lemmas about the machine model: which steps leave the registry alone, which events they
    emit.  Property statements live in `FFSM2/Props/*.lean`. -/
namespace FFSM2
open Step Ancestors

/-- lifecycle methods -/
def Method.isLife : Method → Bool
  | .enter | .exit | .reenter => true
  | _ => false

def Method.isGuard : Method → Bool
  | .entryGuard | .exitGuard => true
  | _ => false

def Ev.isCb : Ev → Bool
  | .cb .. => true
  | _ => false

/-- a delivery (visible or not) of a lifecycle callback -/
def Ev.isLife : Ev → Bool
  | .cb k _ _ => k.method.isLife
  | _ => false

def Ev.isGuard : Ev → Bool
  | .cb k _ _ => k.method.isGuard
  | _ => false

/-- event predicates that only look at callback deliveries and only at their method -/
structure MethodPred (p : Ev → Bool) : Prop where
  onlyCb : ∀ e, p e = true → e.isCb = true
  byMethod : ∀ k k' vis vis' o o', k.method = k'.method → p (.cb k vis o) = p (.cb k' vis' o')

theorem methodPred_isLife : MethodPred Ev.isLife :=
  ⟨fun e h => by cases e <;> simp_all [Ev.isLife, Ev.isCb], fun k k' _ _ _ _ h => by simp [Ev.isLife, h]⟩
theorem methodPred_isGuard : MethodPred Ev.isGuard :=
  ⟨fun e h => by cases e <;> simp_all [Ev.isGuard, Ev.isCb], fun k k' _ _ _ _ h => by simp [Ev.isGuard, h]⟩

/-- a step that does not touch `active` / `requested` -/
def Stable (f : Step) : Prop :=
  ∀ s, (f s).1.core.active = s.core.active ∧ (f s).1.core.requested = s.core.requested

/-- a step that does not touch `active` -/
def KeepsActive (f : Step) : Prop := ∀ s, (f s).1.core.active = s.core.active

theorem Stable.keepsActive {f : Step} (h : Stable f) : KeepsActive f := fun s => (h s).1

/-- a step none of whose events satisfies `p` -/
def Silent (p : Ev → Bool) (f : Step) : Prop := ∀ s, (f s).2.filter p = []

abbrev NoLife := Silent Ev.isLife
abbrev NoGuard := Silent Ev.isGuard

theorem Stable.seq {f g : Step} (hf : Stable f) (hg : Stable g) : Stable (f ⋙ g) := by
  intro s
  simp only [Step.seq]
  exact ⟨(hg _).1.trans (hf s).1, (hg _).2.trans (hf s).2⟩

theorem KeepsActive.seq {f g : Step} (hf : KeepsActive f) (hg : KeepsActive g) : KeepsActive (f ⋙ g) := by
  intro s; simp only [Step.seq]; exact (hg _).trans (hf s)

theorem Silent.seq {p : Ev → Bool} {f g : Step} (hf : Silent p f) (hg : Silent p g) : Silent p (f ⋙ g) := by
  intro s; simp only [Step.seq, List.filter_append, hf s, hg _, List.append_nil]

theorem stable_skip : Stable skip := fun _ => ⟨rfl, rfl⟩
theorem silent_skip (p : Ev → Bool) : Silent p skip := fun _ => rfl
theorem stable_emit (e : St → List Ev) : Stable (emit e) := fun _ => ⟨rfl, rfl⟩
theorem silent_emit {p : Ev → Bool} {e : St → List Ev} (h : ∀ s, (e s).filter p = []) : Silent p (emit e) := fun s => h s
theorem stable_modify {m : St → St} (h : ∀ s, (m s).core.active = s.core.active ∧ (m s).core.requested = s.core.requested) :
    Stable (modify m) := fun s => h s
theorem silent_modify (p : Ev → Bool) (m : St → St) : Silent p (modify m) := fun _ => rfl
theorem stable_modifyCore {m : Core → Core} (h : ∀ c, (m c).active = c.active ∧ (m c).requested = c.requested) :
    Stable (modifyCore m) := fun s => h s.core
theorem keepsActive_modifyCore {m : Core → Core} (h : ∀ c, (m c).active = c.active) :
    KeepsActive (modifyCore m) := fun s => h s.core
theorem silent_modifyCore (p : Ev → Bool) (m : Core → Core) : Silent p (modifyCore m) := fun _ => rfl

theorem stable_seqList {l : List Step} (h : ∀ f ∈ l, Stable f) : Stable (seqList l) := by
  induction l with
  | nil => exact stable_skip
  | cons f fs ih => exact Stable.seq (h f (by simp)) (ih fun g hg => h g (by simp [hg]))

theorem silent_seqList {p : Ev → Bool} {l : List Step} (h : ∀ f ∈ l, Silent p f) : Silent p (seqList l) := by
  induction l with
  | nil => exact silent_skip p
  | cons f fs ih => exact Silent.seq (h f (by simp)) (ih fun g hg => h g (by simp [hg]))

/-- pointwise helpers: a step given as `fun s => g s s` -/
theorem stable_dep {g : St → Step} (h : ∀ s0, Stable (g s0)) : Stable (fun s => g s s) := fun s => h s s
theorem keepsActive_dep {g : St → Step} (h : ∀ s0, KeepsActive (g s0)) : KeepsActive (fun s => g s s) := fun s => h s s
theorem silent_dep {p : Ev → Bool} {g : St → Step} (h : ∀ s0, Silent p (g s0)) : Silent p (fun s => g s s) := fun s => h s s

theorem filter_logEv {p : Ev → Bool} (hp : MethodPred p) (env : Env) (c : Core) (r : LogRec) :
    (logEv env c r).filter p = [] := by
  unfold logEv
  split
  · simp only [List.filter_cons, List.filter_nil]
    have : p (.log env.inst r) = false := by
      cases h : p (.log env.inst r)
      · rfl
      · have := hp.onlyCb _ h; simp [Ev.isCb] at this
    simp [this]
  · rfl

theorem p_act_false {p : Ev → Bool} (hp : MethodPred p) (k : Key) (a : Action) : p (.act k a) = false := by
  cases h : p (.act k a)
  · rfl
  · have := hp.onlyCb _ h; simp [Ev.isCb] at this

/-- **no action of any control flavour writes the registry** -/
theorem stable_applyAction (env : Env) (sid : Nat) (a : Action) : Stable (applyAction env sid a) := by
  intro s
  cases a with
  | planAppend o d p => cases p <;> simp only [applyAction] <;> split <;> exact ⟨rfl, rfl⟩
  | _ => exact ⟨rfl, rfl⟩

theorem silent_applyAction {p : Ev → Bool} (hp : MethodPred p) (env : Env) (sid : Nat) (a : Action) :
    Silent p (applyAction env sid a) := by
  intro s
  cases a with
  | planAppend o d q => cases q <;> simp only [applyAction] <;> split <;> rfl
  | planClear => rfl
  | planRemove m => rfl
  | _ => simp only [applyAction, filter_logEv hp]

theorem stable_runActions (env : Env) (fl : Flavour) (sid : Nat) (key : Key) (as : List Action) :
    Stable (runActions env fl sid key as) := by
  induction as with
  | nil => exact stable_skip
  | cons a as ih =>
    simp only [runActions]
    refine Stable.seq ?_ ih
    split
    · exact Stable.seq (stable_emit _) (stable_applyAction env sid a)
    · exact stable_skip

theorem silent_runActions {p : Ev → Bool} (hp : MethodPred p) (env : Env) (fl : Flavour) (sid : Nat) (key : Key)
    (as : List Action) : Silent p (runActions env fl sid key as) := by
  induction as with
  | nil => exact silent_skip p
  | cons a as ih =>
    simp only [runActions]
    refine Silent.seq ?_ ih
    split
    · exact Silent.seq (silent_emit fun _ => by simp [p_act_false hp]) (silent_applyAction hp env sid a)
    · exact silent_skip p

/-- the step a layer delivery reduces to once the occurrence index is fixed -/
def layerBody (env : Env) (m : Method) (sid : Nat) (cur pend : Tr) (layer : Layer) (occ : Nat) : Step :=
  (emit fun st => [Ev.cb ⟨env.inst, env.op, occ, m, sid, layer⟩ (observable env.cfg sid m layer)
      (observe env m.flavour sid cur pend st.core)]) ⋙
    (if observable env.cfg sid m layer then
      runActions env m.flavour sid ⟨env.inst, env.op, occ, m, sid, layer⟩ (env.beh ⟨env.inst, env.op, occ, m, sid, layer⟩)
     else skip)

theorem deliverLayer_eq (env : Env) (m : Method) (sid : Nat) (cur pend : Tr) (layer : Layer) (s : St) :
    deliverLayer env m sid cur pend layer s =
      layerBody env m sid cur pend layer (occOf s.seen (m, sid, layer)) { s with seen := (m, sid, layer) :: s.seen } := rfl

theorem stable_layerBody (env : Env) (m : Method) (sid : Nat) (cur pend : Tr) (layer : Layer) (occ : Nat) :
    Stable (layerBody env m sid cur pend layer occ) := by
  unfold layerBody
  refine Stable.seq (stable_emit _) ?_
  split
  · exact stable_runActions _ _ _ _ _
  · exact stable_skip

theorem stable_deliverLayer (env : Env) (m : Method) (sid : Nat) (cur pend : Tr) (layer : Layer) :
    Stable (deliverLayer env m sid cur pend layer) := by
  intro s; rw [deliverLayer_eq]; exact stable_layerBody _ _ _ _ _ _ _ _

theorem silent_layerBody {p : Ev → Bool} (hp : MethodPred p) (env : Env) (m : Method)
    (hm : ∀ k vis o, k.method = m → p (.cb k vis o) = false) (sid : Nat) (cur pend : Tr) (layer : Layer) (occ : Nat) :
    Silent p (layerBody env m sid cur pend layer occ) := by
  unfold layerBody
  refine Silent.seq (silent_emit fun st => by
    have := hm ⟨env.inst, env.op, occ, m, sid, layer⟩ (observable env.cfg sid m layer) (observe env m.flavour sid cur pend st.core) rfl
    simp [this]) ?_
  split
  · exact silent_runActions hp _ _ _ _ _
  · exact silent_skip p

theorem silent_deliverLayer {p : Ev → Bool} (hp : MethodPred p) (env : Env) (m : Method)
    (hm : ∀ k vis o, k.method = m → p (.cb k vis o) = false) (sid : Nat) (cur pend : Tr) (layer : Layer) :
    Silent p (deliverLayer env m sid cur pend layer) := by
  intro s; rw [deliverLayer_eq]; exact silent_layerBody hp env m hm _ _ _ _ _ _

/-- **a delivery never touches the registry**, whatever the callbacks do -/
theorem stable_deliver (env : Env) (m : Method) (sid : Nat) (cur pend : Tr) : Stable (deliver env m sid cur pend) := by
  unfold deliver
  refine Stable.seq (stable_emit _) (stable_seqList ?_)
  intro f hf
  obtain ⟨l, _, rfl⟩ := List.mem_map.mp hf
  exact stable_deliverLayer _ _ _ _ _ _

/-- a delivery of method `m` emits no event of a kind that excludes `m` -/
theorem silent_deliver {p : Ev → Bool} (hp : MethodPred p) (env : Env) (m : Method)
    (hm : ∀ k vis o, k.method = m → p (.cb k vis o) = false) (sid : Nat) (cur pend : Tr) :
    Silent p (deliver env m sid cur pend) := by
  unfold deliver
  refine Silent.seq (silent_emit fun s => by split <;> simp [filter_logEv hp]) (silent_seqList ?_)
  intro f hf
  obtain ⟨l, _, rfl⟩ := List.mem_map.mp hf
  exact silent_deliverLayer hp env m hm _ _ _ _

theorem life_excludes {m : Method} (h : m.isLife = false) : ∀ (k : Key) vis o, k.method = m → Ev.isLife (.cb k vis o) = false := by
  intro k _ _ hk; simp [Ev.isLife, hk, h]
theorem guard_excludes {m : Method} (h : m.isGuard = false) : ∀ (k : Key) vis o, k.method = m → Ev.isGuard (.cb k vis o) = false := by
  intro k _ _ hk; simp [Ev.isGuard, hk, h]

theorem noLife_deliver (env : Env) (m : Method) (hm : m.isLife = false) (sid : Nat) (cur pend : Tr) :
    NoLife (deliver env m sid cur pend) := silent_deliver methodPred_isLife env m (life_excludes hm) _ _ _
theorem noGuard_deliver (env : Env) (m : Method) (hm : m.isGuard = false) (sid : Nat) (cur pend : Tr) :
    NoGuard (deliver env m sid cur pend) := silent_deliver methodPred_isGuard env m (guard_excludes hm) _ _ _

/-- **guard evaluation is pure** w.r.t. the registry and the lifecycle -/
theorem stable_guardRound (env : Env) (cur pend : Tr) : Stable (guardRound env cur pend) := by
  unfold guardRound
  refine Stable.seq (Stable.seq (stable_modify fun _ => ⟨rfl, rfl⟩) (stable_dep fun s0 => stable_deliver _ _ _ _ _)) ?_
  intro s
  dsimp only
  split
  · exact ⟨rfl, rfl⟩
  · exact stable_deliver _ _ _ _ _ s

theorem noLife_guardRound (env : Env) (cur pend : Tr) : NoLife (guardRound env cur pend) := by
  unfold guardRound
  refine Silent.seq (Silent.seq (silent_modify _ _) (silent_dep fun s0 => noLife_deliver env _ rfl _ _ _)) ?_
  intro s
  dsimp only
  split
  · rfl
  · exact noLife_deliver env _ rfl _ _ _ s

theorem stable_entryGuardRound (env : Env) (cur pend : Tr) : Stable (entryGuardRound env cur pend) := by
  unfold entryGuardRound
  refine Stable.seq (Stable.seq (stable_modify fun _ => ⟨rfl, rfl⟩) (stable_deliver _ _ _ _ _)) ?_
  intro s
  dsimp only
  split
  · exact ⟨rfl, rfl⟩
  · exact stable_deliver _ _ _ _ _ s

theorem noLife_entryGuardRound (env : Env) (cur pend : Tr) : NoLife (entryGuardRound env cur pend) := by
  unfold entryGuardRound
  refine Silent.seq (Silent.seq (silent_modify _ _) (noLife_deliver env _ rfl _ _ _)) ?_
  intro s
  dsimp only
  split
  · rfl
  · exact noLife_deliver env _ rfl _ _ _ s

end FFSM2
