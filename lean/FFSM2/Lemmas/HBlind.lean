import FFSM2.Lemmas.Steps
/-!
# History-blindness: compiling TRANSITION_HISTORY out changes nothing but `previousTransition()`

`envOff env` is `env` with the feature switched off, `erase` forgets the recorded transition.

* `EB f` — the step commutes with `erase` and emits exactly the same events: it neither reads nor writes the
  recorded transition (deliveries, guards, the substitution loop, the plan step, the phases, `query`).
* `HB f f'` — `f'` (feature off) run on the erased state mirrors `f` (feature on): same events, same state up to
  the recorded transition.  Holds with `f' = f` for every `EB` step whose definition does not mention the switch
  (`…_off` lemmas), and for the four places that do (`finishProcessing`, `enterSurvivor`, `finalExit`,
  `loadActive`).
-/
namespace FFSM2
open Step Ancestors

def envOff (env : Env) : Env := { env with cfg := { env.cfg with history := false } }
def erase (c : Core) : Core := { c with prev := {} }
def eraseSt (s : St) : St := { s with core := erase s.core }

/-! ### the switch is not mentioned -/

theorem runActions_off (env : Env) (fl : Flavour) (sid : Nat) (key : Key) :
    ∀ as : List Action, runActions (envOff env) fl sid key as = runActions env fl sid key as
  | [] => rfl
  | a :: as => by
    simp only [runActions]
    rw [runActions_off env fl sid key as]
    have hp : permitted (envOff env).cfg fl sid a = permitted env.cfg fl sid a := by cases a <;> rfl
    have ha : applyAction (envOff env) sid a = applyAction env sid a := by cases a <;> rfl
    rw [hp, ha]

theorem deliverLayer_off (env : Env) (m : Method) (sid : Nat) (cur pend : Tr) (layer : Layer) :
    deliverLayer (envOff env) m sid cur pend layer = deliverLayer env m sid cur pend layer := by
  funext s
  simp only [deliverLayer, runActions_off]
  rfl

theorem deliver_off (env : Env) (m : Method) (sid : Nat) (cur pend : Tr) :
    deliver (envOff env) m sid cur pend = deliver env m sid cur pend := by
  unfold deliver
  have : deliverLayer (envOff env) m sid cur pend = deliverLayer env m sid cur pend := by
    funext l; exact deliverLayer_off env m sid cur pend l
  rw [this]
  rfl

theorem changeToRequested_off (env : Env) (cur : Tr) : changeToRequested (envOff env) cur = changeToRequested env cur := by
  funext s
  simp only [changeToRequested, deliver_off]
  rfl

theorem deepEnter_off (env : Env) (cur : Tr) : deepEnter (envOff env) cur = deepEnter env cur := by
  unfold deepEnter
  simp only [deliver_off]

theorem deepExit_off (env : Env) (cur : Tr) : deepExit (envOff env) cur = deepExit env cur := by
  unfold deepExit
  simp only [deliver_off]
  rfl

theorem guardRound_off (env : Env) : guardRound (envOff env) = guardRound env := by
  funext cur pend
  unfold guardRound
  simp only [deliver_off]

theorem entryGuardRound_off (env : Env) : entryGuardRound (envOff env) = entryGuardRound env := by
  funext cur pend
  unfold entryGuardRound
  simp only [deliver_off]

theorem applySurvivor_off (env : Env) (cur : Tr) : applySurvivor (envOff env) cur = applySurvivor env cur := by
  funext s
  simp only [applySurvivor, changeToRequested_off]

theorem phase_off (env : Env) (m : Method) (hf : Bool) : phase (envOff env) m hf = phase env m hf := by
  funext s
  simp only [phase, deliver_off]

theorem firePlan_off (env : Env) : ∀ (tasks : List Task) (s : St) (clr : List Nat),
    firePlan (envOff env) tasks s clr = firePlan env tasks s clr
  | [], _, _ => rfl
  | t :: ts, s, clr => by
    simp only [firePlan]
    have hl : ∀ c r, logEv (envOff env) c r = logEv env c r := fun _ _ => rfl
    simp only [hl, firePlan_off env ts]

theorem planStep_off (env : Env) : planStep (envOff env) = planStep env := by
  funext s
  simp only [planStep, deliver_off, firePlan_off]

theorem query_off (env : Env) : query (envOff env) = query env := by
  funext s
  simp only [query, deliver_off]

/-! ### `EB`: the recorded transition is neither read nor written -/

def EB (f : Step) : Prop := ∀ s, f (eraseSt s) = (eraseSt (f s).1, (f s).2)

theorem EB.seq {f g : Step} (hf : EB f) (hg : EB g) : EB (f ⋙ g) := by
  intro s
  simp only [Step.seq]
  rw [hf s]
  simp only
  rw [hg (f s).1]

theorem eb_skip : EB skip := fun _ => rfl
theorem eb_modify {m : St → St} (h : ∀ s, m (eraseSt s) = eraseSt (m s)) : EB (Step.modify m) := by
  intro s; simp only [Step.modify, h]
theorem eb_modifyCore {m : Core → Core} (h : ∀ c, m (erase c) = erase (m c)) : EB (modifyCore m) := by
  intro s; simp only [modifyCore, eraseSt, h]
theorem eb_emit {e : St → List Ev} (h : ∀ s, e (eraseSt s) = e s) : EB (emit e) := by
  intro s; simp only [emit, h]
theorem eb_dep {g : St → Step} (hg : ∀ s0, EB (g s0)) (hc : ∀ s, g (eraseSt s) = g s) : EB (fun s => g s s) := by
  intro s
  show g (eraseSt s) (eraseSt s) = _
  rw [hc]; exact hg s s
theorem eb_seqList {l : List Step} (h : ∀ f ∈ l, EB f) : EB (seqList l) := by
  induction l with
  | nil => exact eb_skip
  | cons f fs ih => exact EB.seq (h f (by simp)) (ih fun g hg => h g (by simp [hg]))

theorem eb_applyAction (env : Env) (sid : Nat) (a : Action) : EB (applyAction env sid a) := by
  intro s
  cases a with
  | planAppend o d p =>
    cases p <;> by_cases h : s.core.plan.length < env.cfg.cap <;> simp [applyAction, eraseSt, erase, h]
  | _ => rfl

theorem eb_runActions (env : Env) (fl : Flavour) (sid : Nat) (key : Key) (as : List Action) :
    EB (runActions env fl sid key as) := by
  induction as with
  | nil => exact eb_skip
  | cons a as ih =>
    simp only [runActions]
    refine EB.seq ?_ ih
    split
    · exact EB.seq (eb_emit fun _ => rfl) (eb_applyAction env sid a)
    · exact eb_skip

theorem eb_layerBody (env : Env) (m : Method) (sid : Nat) (cur pend : Tr) (layer : Layer) (occ : Nat) :
    EB (layerBody env m sid cur pend layer occ) := by
  unfold layerBody
  refine EB.seq (eb_emit fun _ => rfl) ?_
  split
  · exact eb_runActions _ _ _ _ _
  · exact eb_skip

theorem eb_deliverLayer (env : Env) (m : Method) (sid : Nat) (cur pend : Tr) (layer : Layer) :
    EB (deliverLayer env m sid cur pend layer) := by
  intro s
  rw [deliverLayer_eq, deliverLayer_eq]
  exact eb_layerBody env m sid cur pend layer _ { s with seen := (m, sid, layer) :: s.seen }

theorem eb_deliver (env : Env) (m : Method) (sid : Nat) (cur pend : Tr) : EB (deliver env m sid cur pend) := by
  unfold deliver
  refine EB.seq (eb_emit fun s => rfl) (eb_seqList ?_)
  intro f hf
  obtain ⟨l, _, rfl⟩ := List.mem_map.mp hf
  exact eb_deliverLayer _ _ _ _ _ _

theorem clearTaskStatus_erase (cfg : Cfg) (id : Nat) (c : Core) :
    clearTaskStatus cfg id (erase c) = erase (clearTaskStatus cfg id c) := by
  unfold clearTaskStatus; split <;> rfl

theorem eb_changeToRequested (env : Env) (cur : Tr) : EB (changeToRequested env cur) := by
  unfold changeToRequested
  intro s
  have hreq : (eraseSt s).core.requested = s.core.requested := rfl
  have hact : (eraseSt s).core.active = s.core.active := rfl
  simp only [hreq, hact]
  split
  · exact (EB.seq (EB.seq (EB.seq (eb_deliver env .exit _ cur {}) (eb_modifyCore (clearTaskStatus_erase env.cfg _)))
      (eb_modifyCore (m := fun c => { c with active := c.requested, requested := 255 }) fun _ => rfl))
      (eb_dep (g := fun s0 => deliver env .enter s0.core.active cur {}) (fun s0 => eb_deliver env .enter _ cur {}) (fun _ => rfl))) s
  · exact (EB.seq (eb_modifyCore (m := fun c => { c with requested := 255 }) fun _ => rfl) (eb_deliver env .reenter _ cur {})) s

theorem eb_deepEnter (env : Env) (cur : Tr) : EB (deepEnter env cur) := by
  unfold deepEnter
  exact EB.seq (EB.seq (eb_modifyCore (m := fun c => { c with active := c.requested, requested := 255 }) fun _ => rfl)
    (eb_deliver env .enter 255 cur {}))
    (eb_dep (g := fun s0 => deliver env .enter s0.core.active cur {}) (fun s0 => eb_deliver env .enter _ cur {}) (fun _ => rfl))

theorem eb_deepExit (env : Env) (cur : Tr) : EB (deepExit env cur) := by
  unfold deepExit
  refine EB.seq (EB.seq (EB.seq ?_ (eb_deliver env .exit 255 cur {}))
    (eb_modifyCore (m := fun c => { c with active := 255 }) fun _ => rfl))
    (eb_modifyCore (m := fun c => if env.cfg.plans then planClearCore c else c) fun c => by split <;> rfl)
  exact eb_dep (g := fun s0 => deliver env .exit s0.core.active cur {} ⋙ modifyCore (clearTaskStatus env.cfg s0.core.active))
    (fun s0 => EB.seq (eb_deliver env .exit _ cur {}) (eb_modifyCore (clearTaskStatus_erase env.cfg _)))
    (fun _ => rfl)

theorem eb_guardRound (env : Env) (cur pend : Tr) : EB (guardRound env cur pend) := by
  unfold guardRound
  refine EB.seq (EB.seq (eb_modify (m := fun s => { s with ts := .none, cancelled := false }) fun _ => rfl)
    (eb_dep (g := fun s0 => deliver env .exitGuard s0.core.active cur pend) (fun s0 => eb_deliver env .exitGuard _ cur pend) (fun _ => rfl))) ?_
  intro s
  have hc : (eraseSt s).cancelled = s.cancelled := rfl
  have hr : (eraseSt s).core.requested = s.core.requested := rfl
  simp only [hc, hr]
  split
  · rfl
  · exact eb_deliver env .entryGuard _ cur pend s

theorem eb_entryGuardRound (env : Env) (cur pend : Tr) : EB (entryGuardRound env cur pend) := by
  unfold entryGuardRound
  refine EB.seq (EB.seq (eb_modify (m := fun s => { s with ts := .none, cancelled := false }) fun _ => rfl)
    (eb_deliver env .entryGuard 255 cur pend)) ?_
  intro s
  have hc : (eraseSt s).cancelled = s.cancelled := rfl
  have hr : (eraseSt s).core.requested = s.core.requested := rfl
  simp only [hc, hr]
  split
  · rfl
  · exact eb_deliver env .entryGuard _ cur pend s

theorem applyRequest_erase (cur : Tr) (d : Nat) (c : Core) :
    applyRequest cur d (erase c) = (erase (applyRequest cur d c).1, (applyRequest cur d c).2) := by
  unfold applyRequest; split <;> rfl

/-- the substitution loop: same survivor, same events, same final state up to the recorded transition -/
theorem eb_substLoop (round : Tr → Tr → Step) (hr : ∀ c p, EB (round c p)) :
    ∀ (fuel : Nat) (cur : Tr) (s : St),
      substLoop round fuel cur (eraseSt s) =
        ((eraseSt (substLoop round fuel cur s).1.1, (substLoop round fuel cur s).1.2), (substLoop round fuel cur s).2) := by
  intro fuel
  induction fuel with
  | zero => intro cur s; rfl
  | succ fuel ih =>
    intro cur s
    simp only [substLoop]
    have hreq : (eraseSt s).core.request = s.core.request := rfl
    simp only [hreq]
    split
    · have har := applyRequest_erase cur s.core.request.dest s.core
      have hcore : (eraseSt s).core = erase s.core := rfl
      simp only [hcore, har]
      split
      · have r1 := hr cur s.core.request
          { s with core := { (applyRequest cur s.core.request.dest s.core).1 with
                             request := (applyRequest cur s.core.request.dest s.core).1.request.clear } }
        have hs1 : ({ eraseSt s with core := { erase (applyRequest cur s.core.request.dest s.core).1 with
              request := (erase (applyRequest cur s.core.request.dest s.core).1).request.clear } } : St)
            = eraseSt { s with core := { (applyRequest cur s.core.request.dest s.core).1 with
                             request := (applyRequest cur s.core.request.dest s.core).1.request.clear } } := rfl
        rw [hs1, r1]
        simp only
        have hcanc : (eraseSt (round cur s.core.request { s with core := { (applyRequest cur s.core.request.dest s.core).1 with
                             request := (applyRequest cur s.core.request.dest s.core).1.request.clear } }).1).cancelled
            = (round cur s.core.request { s with core := { (applyRequest cur s.core.request.dest s.core).1 with
                             request := (applyRequest cur s.core.request.dest s.core).1.request.clear } }).1.cancelled := rfl
        rw [hcanc]
        rw [ih (if (round cur s.core.request { s with core := { (applyRequest cur s.core.request.dest s.core).1 with
                             request := (applyRequest cur s.core.request.dest s.core).1.request.clear } }).1.cancelled then cur else s.core.request)
          (round cur s.core.request { s with core := { (applyRequest cur s.core.request.dest s.core).1 with
                             request := (applyRequest cur s.core.request.dest s.core).1.request.clear } }).1]
      · exact ih cur { s with core := { s.core with request := s.core.request.clear } }
    · rfl

theorem eb_applySurvivor (env : Env) (cur : Tr) : EB (applySurvivor env cur) := by
  unfold applySurvivor
  intro s
  split
  · exact (EB.seq (eb_modifyCore (m := fun c => { c with requested := cur.dest }) fun _ => rfl)
      (eb_changeToRequested env cur)) s
  · rfl

theorem eb_phase (env : Env) (m : Method) (hf : Bool) : EB (phase env m hf) := by
  unfold phase
  intro s
  have ha : (eraseSt s).core.active = s.core.active := rfl
  simp only [ha]
  have hsub : EB (deliver env m s.core.active {} {} ⋙
      Step.modify (fun s => { s with core := { s.core with subStatus := s.core.subStatus.or s.ts } })) :=
    EB.seq (eb_deliver _ _ _ _ _) (eb_modify fun _ => rfl)
  have hhead : EB (deliver env m 255 {} {}) := eb_deliver _ _ _ _ _
  have hreset : EB (Step.modify (fun s => { s with ts := Status.none })) := eb_modify fun _ => rfl
  split
  · exact (EB.seq (EB.seq hhead hsub) hreset) s
  · exact (EB.seq (EB.seq hsub hhead) hreset) s

theorem eb_firePlan (env : Env) : ∀ (tasks : List Task) (s : St) (clr : List Nat),
    firePlan env tasks (eraseSt s) clr =
      ((eraseSt (firePlan env tasks s clr).1.1, (firePlan env tasks s clr).1.2), (firePlan env tasks s clr).2) := by
  intro tasks
  induction tasks with
  | nil => intro s clr; rfl
  | cons t ts ih =>
    intro s clr
    simp only [firePlan]
    have hc : ctlIsActive (eraseSt s).core t.origin = ctlIsActive s.core t.origin := rfl
    have hb : getBit (eraseSt s).core.succ t.origin = getBit s.core.succ t.origin := rfl
    have hlog : logEv env (eraseSt s).core (.transition t.origin t.dest) = logEv env s.core (.transition t.origin t.dest) := rfl
    simp only [hc, hb, hlog]
    split
    · split
      · by_cases hcyc : (t.origin == t.dest) = true
        · simp only [hcyc, if_true]
          have i1 := ih { s with core := { ({ s.core with request := ⟨t.origin, t.dest, t.payload⟩ } : Core) with
              succ := setBit s.core.succ t.origin false } } clr
          exact congrArg (fun r => (r.1, logEv env s.core (.transition t.origin t.dest) ++ r.2)) i1
        · have hcyc' : (t.origin == t.dest) = false := by simpa using hcyc
          simp only [hcyc', Bool.false_eq_true, if_false]
          have i1 := ih { s with core := { s.core with request := ⟨t.origin, t.dest, t.payload⟩ } } (t.origin :: clr)
          exact congrArg (fun r => (r.1, logEv env s.core (.transition t.origin t.dest) ++ r.2)) i1
      · rw [ih s clr]
    · rfl

theorem planClearCore_erase (c : Core) : planClearCore (erase c) = erase (planClearCore c) := rfl
theorem planDataClear_erase (c : Core) : planDataClear (erase c) = erase (planDataClear c) := rfl

theorem eb_planStep (env : Env) : EB (planStep env) := by
  intro s
  unfold planStep
  have h1 : (eraseSt s).core.subStatus = s.core.subStatus := rfl
  have h2 : stateStatus (eraseSt s).core = stateStatus s.core := rfl
  have h3 : (eraseSt s).core.planExists = s.core.planExists := rfl
  have h4 : (eraseSt s).core.plan = s.core.plan := rfl
  simp only [h1, h2, h3, h4]
  have hfail : EB (Step.modify (fun s => { s with ts := Status.failure }) ⋙ deliver env .planFailed 255 {} {} ⋙
      modifyCore planClearCore) :=
    EB.seq (EB.seq (eb_modify fun _ => rfl) (eb_deliver _ _ _ _ _)) (eb_modifyCore planClearCore_erase)
  have hsucc : EB (Step.modify (fun s => { s with ts := Status.success }) ⋙ deliver env .planSucceeded 255 {} {} ⋙
      modifyCore planClearCore) :=
    EB.seq (EB.seq (eb_modify fun _ => rfl) (eb_deliver _ _ _ _ _)) (eb_modifyCore planClearCore_erase)
  split
  · split
    · rw [hfail s]; rfl
    · split
      · rw [eb_firePlan env s.core.plan s []]; rfl
      · rw [hsucc s]; rfl
  · rfl

theorem eb_query (env : Env) : EB (query env) := by
  unfold query
  intro s
  have ha : (eraseSt s).core.active = s.core.active := rfl
  simp only [ha]
  generalize headFirst Method.query = hfq
  cases hfq <;> simp only [if_true, if_false, Bool.false_eq_true]
  · exact (EB.seq (eb_deliver env .query s.core.active {} {}) (eb_deliver env .query 255 {} {})) s
  · exact (EB.seq (eb_deliver env .query 255 {} {}) (eb_deliver env .query s.core.active {} {})) s

/-! ### `HB`: feature off mirrors feature on -/

def HB (f f' : Step) : Prop := ∀ s, f' (eraseSt s) = (eraseSt (f s).1, (f s).2)

theorem HB.seq {f g f' g' : Step} (hf : HB f f') (hg : HB g g') : HB (f ⋙ g) (f' ⋙ g') := by
  intro s
  simp only [Step.seq]
  rw [hf s]
  simp only
  rw [hg (f s).1]

theorem hb_of_eb {f : Step} (h : EB f) : HB f f := h

theorem hb_modifyCore {m m' : Core → Core} (h : ∀ c, m' (erase c) = erase (m c)) : HB (modifyCore m) (modifyCore m') := by
  intro s; simp only [modifyCore, eraseSt, h]

theorem hb_finishProcessing (env : Env) (cur : Tr) : HB (finishProcessing env cur) (finishProcessing (envOff env) cur) := by
  unfold finishProcessing
  apply hb_modifyCore
  intro c
  cases env.cfg.history <;> rfl

theorem hb_processRequest (env : Env) : HB (processRequest env) (processRequest (envOff env)) := by
  intro s
  unfold processRequest
  have hreq : (eraseSt s).core.request = s.core.request := rfl
  have hL : (envOff env).cfg.L = env.cfg.L := rfl
  simp only [hreq, guardRound_off, applySurvivor_off, hL]
  split
  · rw [eb_substLoop (guardRound env) (eb_guardRound env) (substFuel env.cfg.L) {} s]
    simp only
    rw [(HB.seq (hb_of_eb (eb_applySurvivor env (substLoop (guardRound env) (substFuel env.cfg.L) {} s).1.2))
      (hb_finishProcessing env (substLoop (guardRound env) (substFuel env.cfg.L) {} s).1.2))
      (substLoop (guardRound env) (substFuel env.cfg.L) {} s).1.1]
  · exact hb_finishProcessing env {} s

theorem hb_enterSurvivor (env : Env) (cur : Tr) : HB (enterSurvivor env cur) (enterSurvivor (envOff env) cur) := by
  unfold enterSurvivor
  rw [deepEnter_off]
  refine HB.seq (HB.seq (hb_modifyCore fun c => ?_) (hb_of_eb (eb_deepEnter env cur)))
    (hb_of_eb (eb_modifyCore (m := fun c => { c with requested := 255 }) fun _ => rfl))
  cases env.cfg.history <;> rfl

theorem hb_initialEnter (env : Env) : HB (initialEnter env) (initialEnter (envOff env)) := by
  intro s
  unfold initialEnter
  have hL : (envOff env).cfg.L = env.cfg.L := rfl
  simp only [entryGuardRound_off, hL]
  have h0 : ({ eraseSt s with core := (applyRequest {} 0 (eraseSt s).core).1 } : St)
      = eraseSt { s with core := (applyRequest {} 0 s.core).1 } := by
    show _ = _
    simp only [eraseSt, applyRequest_erase]
  rw [h0]
  rw [eb_entryGuardRound env {} {} { s with core := (applyRequest {} 0 s.core).1 }]
  simp only
  rw [eb_substLoop (entryGuardRound env) (eb_entryGuardRound env) (substFuel env.cfg.L) {}
    (entryGuardRound env {} {} { s with core := (applyRequest {} 0 s.core).1 }).1]
  simp only
  rw [hb_enterSurvivor env
    (substLoop (entryGuardRound env) (substFuel env.cfg.L) {} (entryGuardRound env {} {} { s with core := (applyRequest {} 0 s.core).1 }).1).1.2
    (substLoop (entryGuardRound env) (substFuel env.cfg.L) {} (entryGuardRound env {} {} { s with core := (applyRequest {} 0 s.core).1 }).1).1.1]

theorem hb_finalExit (env : Env) : HB (finalExit env) (finalExit (envOff env)) := by
  unfold finalExit
  rw [deepExit_off]
  refine HB.seq (hb_of_eb (eb_deepExit env {})) (hb_modifyCore fun c => ?_)
  have hp : (envOff env).cfg.plans = env.cfg.plans := rfl
  have hh : (envOff env).cfg.history = false := rfl
  simp only [hp, hh]
  cases env.cfg.plans <;> cases env.cfg.history <;> rfl

theorem hb_cycle (env : Env) (pre mid post : Method) : HB (cycle env pre mid post) (cycle (envOff env) pre mid post) := by
  unfold cycle
  simp only [phase_off, planStep_off]
  have hp : (envOff env).cfg.plans = env.cfg.plans := rfl
  rw [hp]
  refine HB.seq (HB.seq (HB.seq (HB.seq (HB.seq (hb_of_eb (eb_modify fun _ => rfl)) (hb_of_eb (eb_phase _ _ _)))
    (hb_of_eb (eb_phase _ _ _))) (hb_of_eb (eb_phase _ _ _))) ?_) (hb_processRequest env)
  split
  · exact hb_of_eb (eb_planStep env)
  · exact hb_of_eb eb_skip

theorem hb_loadActive (env : Env) (r : Nat) : HB (loadActive env r) (loadActive (envOff env) r) := by
  unfold loadActive
  rw [changeToRequested_off]
  refine HB.seq (hb_modifyCore fun c => ?_) (hb_of_eb (eb_changeToRequested env {}))
  have hp : (envOff env).cfg.plans = env.cfg.plans := rfl
  have hh : (envOff env).cfg.history = false := rfl
  simp only [hp, hh]
  cases env.cfg.plans <;> cases env.cfg.history <;> rfl

theorem hb_load (env : Env) (buf : List Nat) : HB (load env buf) (load (envOff env) buf) := by
  intro s
  unfold load
  have ha : (eraseSt s).core.active = s.core.active := rfl
  have hn : (envOff env).cfg.n = env.cfg.n := rfl
  have hm : (envOff env).cfg.manual = env.cfg.manual := rfl
  simp only [ha, hn, hm, deepEnter_off]
  split
  · split
    · exact hb_loadActive env _ s
    · split
      · exact (HB.seq (hb_of_eb (eb_modifyCore (m := fun c => { c with requested := (BitStream.read (Gen.widthBits env.cfg.n) buf (BitStream.read 1 buf 0).2).1 }) fun _ => rfl))
          (hb_of_eb (eb_deepEnter env {}))) s
      · rfl
  · split
    · exact hb_finalExit env s
    · rfl

end FFSM2
