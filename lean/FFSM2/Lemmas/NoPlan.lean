import FFSM2.Lemmas.Keeps
import FFSM2.Lemmas.World
/-! `planExists = false` is kept by every building block as long as user code appends no task: only
    `plan().change…()` sets the flag.  (What F6 left to chance is an invariant here.) -/
namespace FFSM2
open Step Ancestors

/-- no task has been appended (since the flag was last reset) -/
def NoPlanQ (c : Core) : Prop := c.planExists = false

/-- the callbacks of this instance never append a task -/
def NoAppendBeh (env : Env) : Prop := ∀ key : Key, key.inst = env.inst → ∀ a ∈ env.beh key, a.isAppend = false

theorem keepsNP_applyAction (env : Env) (sid : Nat) (a : Action) (ha : a.isAppend = false) : Keeps NoPlanQ (applyAction env sid a) := by
  intro s h
  cases a with
  | planAppend o d p => simp [Action.isAppend] at ha
  | changeTo d => exact h
  | changeWith d p => exact h
  | cancel => exact h
  | succeed id => exact h
  | fail id => exact h
  | planClear => exact h
  | planRemove m => exact h

theorem keepsNP_runActions (env : Env) (fl : Flavour) (sid : Nat) (key : Key) :
    ∀ as : List Action, (∀ a ∈ as, a.isAppend = false) → Keeps NoPlanQ (runActions env fl sid key as)
  | [], _ => keeps_skip _
  | a :: as, h => by
    unfold runActions
    refine Keeps.seq ?_ (keepsNP_runActions env fl sid key as fun x hx => h x (by simp [hx]))
    split
    · exact Keeps.seq (keeps_emit _ _) (keepsNP_applyAction env sid a (h a (by simp)))
    · exact keeps_skip _

theorem keepsNP_deliverLayer (env : Env) (hb : NoAppendBeh env) (m : Method) (sid : Nat) (cur pend : Tr) (layer : Layer) :
    Keeps NoPlanQ (deliverLayer env m sid cur pend layer) := by
  intro s h
  rw [deliverLayer_eq]
  have hbody : Keeps NoPlanQ (layerBody env m sid cur pend layer (occOf s.seen (m, sid, layer))) := by
    unfold layerBody
    refine Keeps.seq (keeps_emit _ _) ?_
    split
    · exact keepsNP_runActions env _ _ _ _ (hb _ rfl)
    · exact keeps_skip _
  exact hbody _ h

theorem keepsNP_deliver (env : Env) (hb : NoAppendBeh env) (m : Method) (sid : Nat) (cur pend : Tr) :
    Keeps NoPlanQ (deliver env m sid cur pend) := by
  unfold deliver
  refine Keeps.seq (keeps_emit _ _) (keeps_seqList ?_)
  intro f hf
  obtain ⟨l, _, rfl⟩ := List.mem_map.mp hf
  exact keepsNP_deliverLayer env hb m sid cur pend l

theorem np_clearTaskStatus (cfg : Cfg) (id : Nat) {c : Core} (h : NoPlanQ c) : NoPlanQ (clearTaskStatus cfg id c) := by
  unfold clearTaskStatus; split
  · exact h
  · exact h

theorem np_applyRequest (cur : Tr) (d : Nat) {c : Core} (h : NoPlanQ c) : NoPlanQ (applyRequest cur d c).1 := by
  unfold applyRequest; split
  · exact h
  · exact h

theorem keepsNP_mc (m : Core → Core) (hm : ∀ c, (m c).planExists = c.planExists) : Keeps NoPlanQ (modifyCore m) := by
  intro s h
  show (m s.core).planExists = false
  rw [hm]; exact h

/-- leaves of the structural proofs; `by` blocks are elaborated after the expected step is known -/
local macro "mc" : term => `((by apply keepsNP_mc; intro _; rfl))
local macro "mcClr" : term => `((by apply keeps_modifyCore; intro c h; exact np_clearTaskStatus _ _ h))
local macro "mcIf" : term => `((by apply keeps_modifyCore; intro c h; split <;> exact h))
local macro "mcReq" : term => `((by apply keeps_modifyCore; intro c h; exact np_applyRequest _ _ h))

theorem keepsNP_deepEnter (env : Env) (hb : NoAppendBeh env) (cur : Tr) : Keeps NoPlanQ (deepEnter env cur) := by
  unfold deepEnter
  exact Keeps.seq (Keeps.seq mc (keepsNP_deliver env hb _ _ _ _)) (keeps_dep fun s0 => keepsNP_deliver env hb _ _ _ _)

theorem keepsNP_deepExit (env : Env) (hb : NoAppendBeh env) (cur : Tr) : Keeps NoPlanQ (deepExit env cur) := by
  unfold deepExit
  exact Keeps.seq (Keeps.seq (Keeps.seq (keeps_dep fun s0 => Keeps.seq (keepsNP_deliver env hb _ _ _ _) mcClr)
    (keepsNP_deliver env hb _ _ _ _)) mc) mcIf

theorem keepsNP_changeToRequested (env : Env) (hb : NoAppendBeh env) (cur : Tr) : Keeps NoPlanQ (changeToRequested env cur) := by
  unfold changeToRequested
  intro s
  dsimp only
  split
  · exact Keeps.seq (Keeps.seq (Keeps.seq (keepsNP_deliver env hb _ _ _ _) mcClr) mc) (keeps_dep fun s0 => keepsNP_deliver env hb _ _ _ _) s
  · exact Keeps.seq mc (keepsNP_deliver env hb _ _ _ _) s

theorem keepsNP_guardRound (env : Env) (hb : NoAppendBeh env) (cur pend : Tr) : Keeps NoPlanQ (guardRound env cur pend) := by
  unfold guardRound
  refine Keeps.seq (Keeps.seq (keeps_modify fun _ => rfl) (keeps_dep fun s0 => keepsNP_deliver env hb _ _ _ _)) ?_
  intro s
  dsimp only
  split
  · exact fun h => h
  · exact keepsNP_deliver env hb _ _ _ _ s

theorem keepsNP_entryGuardRound (env : Env) (hb : NoAppendBeh env) (cur pend : Tr) : Keeps NoPlanQ (entryGuardRound env cur pend) := by
  unfold entryGuardRound
  refine Keeps.seq (Keeps.seq (keeps_modify fun _ => rfl) (keepsNP_deliver env hb _ _ _ _)) ?_
  intro s
  dsimp only
  split
  · exact fun h => h
  · exact keepsNP_deliver env hb _ _ _ _ s

theorem keepsNP_substLoop (round : Tr → Tr → Step) (hr : ∀ c p, Keeps NoPlanQ (round c p)) :
    ∀ (fuel : Nat) (cur : Tr) (s : St), NoPlanQ s.core → NoPlanQ (substLoop round fuel cur s).1.1.core
  | 0, _, _ => fun h => h
  | fuel + 1, cur, s => by
    intro h
    unfold substLoop
    dsimp only
    split
    · split
      · have h1 : NoPlanQ ({ (applyRequest cur s.core.request.dest s.core).1 with
            request := (applyRequest cur s.core.request.dest s.core).1.request.clear } : Core) := np_applyRequest cur _ h
        exact keepsNP_substLoop round hr fuel _ _ (hr cur s.core.request { s with core := _ } h1)
      · exact keepsNP_substLoop round hr fuel _ _ h
    · exact h

theorem keepsNP_applySurvivor (env : Env) (hb : NoAppendBeh env) (cur : Tr) : Keeps NoPlanQ (applySurvivor env cur) := by
  unfold applySurvivor
  intro s
  dsimp only
  split
  · exact Keeps.seq mc (keepsNP_changeToRequested env hb cur) s
  · exact fun h => h

theorem keepsNP_processRequest (env : Env) (hb : NoAppendBeh env) : Keeps NoPlanQ (processRequest env) := by
  unfold processRequest
  intro s h
  dsimp only
  split
  · have h1 := keepsNP_substLoop (guardRound env) (keepsNP_guardRound env hb) (substFuel env.cfg.L) {} s h
    have : Keeps NoPlanQ (applySurvivor env (substLoop (guardRound env) (substFuel env.cfg.L) {} s).1.2 ⋙
        finishProcessing env (substLoop (guardRound env) (substFuel env.cfg.L) {} s).1.2) := by
      apply Keeps.seq
      · exact keepsNP_applySurvivor env hb _
      · unfold finishProcessing; exact mc
    exact this _ h1
  · exact h

theorem keepsNP_initialEnter (env : Env) (hb : NoAppendBeh env) : Keeps NoPlanQ (initialEnter env) := by
  unfold initialEnter
  intro s h
  dsimp only
  have h0 : NoPlanQ (applyRequest {} 0 s.core).1 := np_applyRequest {} 0 h
  have h1 := keepsNP_entryGuardRound env hb {} {} { s with core := (applyRequest {} 0 s.core).1 } h0
  have h2 := keepsNP_substLoop (entryGuardRound env) (keepsNP_entryGuardRound env hb) (substFuel env.cfg.L) {} _ h1
  have : ∀ cur, Keeps NoPlanQ (enterSurvivor env cur) := by
    intro cur
    unfold enterSurvivor
    exact Keeps.seq (Keeps.seq mc (keepsNP_deepEnter env hb _)) mc
  exact this _ _ h2

/-- deactivation resets the flag whatever it was -/
theorem finalExit_noPlan (env : Env) (hp : env.cfg.plans = true) (s : St) : NoPlanQ (finalExit env s).1.core := by
  unfold finalExit
  simp only [Step.seq, modifyCore, hp, if_true]
  cases env.cfg.history <;> rfl

theorem keepsNP_finalExit (env : Env) (hb : NoAppendBeh env) : Keeps NoPlanQ (finalExit env) := by
  unfold finalExit
  apply Keeps.seq
  · exact keepsNP_deepExit env hb _
  · apply keeps_modifyCore
    intro c h
    cases env.cfg.plans <;> cases env.cfg.history <;> first | exact h | rfl

theorem keepsNP_phase (env : Env) (hb : NoAppendBeh env) (m : Method) (hf : Bool) : Keeps NoPlanQ (phase env m hf) := by
  unfold phase
  intro s
  refine Keeps.seq ?_ (keeps_modify fun _ => rfl) s
  have hsub : Keeps NoPlanQ (deliver env m s.core.active {} {} ⋙
      Step.modify (fun s => { s with core := { s.core with subStatus := s.core.subStatus.or s.ts } })) :=
    Keeps.seq (keepsNP_deliver env hb _ _ _ _) (fun _ h => h)
  split
  · exact Keeps.seq (keepsNP_deliver env hb _ _ _ _) hsub
  · exact Keeps.seq hsub (keepsNP_deliver env hb _ _ _ _)

/-- with the flag down the plan step does nothing at all -/
theorem planStep_noPlan (env : Env) (s : St) (h : NoPlanQ s.core) :
    (planStep env s).2 = [] ∧ NoPlanQ (planStep env s).1.core := by
  unfold planStep
  have hp : s.core.planExists = false := h
  simp only [hp, Bool.and_false, Bool.false_eq_true, if_false]
  exact ⟨trivial, rfl⟩

theorem keepsNP_extChange (env : Env) (d : Nat) (p : Option Nat) : Keeps NoPlanQ (extChange env d p) := fun _ h => h

theorem keepsNP_extStatus (env : Env) (id : Nat) (ok : Bool) : Keeps NoPlanQ (extStatus env id ok) := by
  intro s h
  unfold extStatus
  dsimp only
  split
  · exact h
  · exact h

theorem keepsNP_replayTransition (env : Env) (hb : NoAppendBeh env) (d : Nat) : Keeps NoPlanQ (replayTransition env d) := by
  unfold replayTransition
  exact Keeps.seq (Keeps.seq (Keeps.seq mc
    (by apply keeps_modifyCore; intro c h; exact np_applyRequest {} d h)) (keepsNP_changeToRequested env hb _)) mc

theorem keepsNP_replayEnter (env : Env) (hb : NoAppendBeh env) (d : Nat) : Keeps NoPlanQ (replayEnter env d) := by
  unfold replayEnter
  exact Keeps.seq (Keeps.seq (by apply keeps_modifyCore; intro c h; exact np_applyRequest {} d h) (keepsNP_deepEnter env hb _)) mc

theorem keepsNP_loadActive (env : Env) (hb : NoAppendBeh env) (r : Nat) : Keeps NoPlanQ (loadActive env r) := by
  unfold loadActive
  apply Keeps.seq
  · apply keeps_modifyCore
    intro c h
    cases env.cfg.plans <;> cases env.cfg.history <;> first | exact h | rfl
  · exact keepsNP_changeToRequested env hb _

theorem keepsNP_load (env : Env) (hb : NoAppendBeh env) (buf : List Nat) : Keeps NoPlanQ (load env buf) := by
  unfold load
  intro s
  dsimp only
  split
  · split
    · exact keepsNP_loadActive env hb _ s
    · split
      · have : ∀ r, Keeps NoPlanQ (modifyCore (fun c => { c with requested := r }) ⋙ deepEnter env {}) := by
          intro r
          exact Keeps.seq mc (keepsNP_deepEnter env hb _)
        exact this _ s
      · exact fun h => h
  · split
    · exact keepsNP_finalExit env hb s
    · exact fun h => h

end FFSM2
