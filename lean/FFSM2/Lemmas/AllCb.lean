import FFSM2.Lemmas.Steps
/-! "Every callback delivery of this step satisfies P" — a compositional predicate on steps. -/
namespace FFSM2
open Step Ancestors

/-- every delivery event a step emits satisfies `P` -/
def AllCb (P : Key → Bool → Obs → Prop) (f : Step) : Prop :=
  ∀ s, ∀ e ∈ (f s).2, ∀ k vis o, e = Ev.cb k vis o → P k vis o

theorem AllCb.seq {P} {f g : Step} (hf : AllCb P f) (hg : AllCb P g) : AllCb P (f ⋙ g) := by
  intro s e he k vis o hk
  simp only [Step.seq, List.mem_append] at he
  rcases he with he | he
  · exact hf s e he k vis o hk
  · exact hg _ e he k vis o hk

theorem allCb_skip (P) : AllCb P skip := by intro s e he; cases he
theorem allCb_modify (P) (m : St → St) : AllCb P (Step.modify m) := by intro s e he; cases he
theorem allCb_modifyCore (P) (m : Core → Core) : AllCb P (modifyCore m) := by intro s e he; cases he
theorem allCb_dep {P} {g : St → Step} (h : ∀ s0, AllCb P (g s0)) : AllCb P (fun s => g s s) := fun s => h s s
theorem allCb_seqList {P} {l : List Step} (h : ∀ f ∈ l, AllCb P f) : AllCb P (seqList l) := by
  induction l with
  | nil => exact allCb_skip P
  | cons f fs ih => exact AllCb.seq (h f (by simp)) (ih fun g hg => h g (by simp [hg]))

/-- a step that emits no delivery at all satisfies every `AllCb` -/
theorem allCb_of_noCb {P} {f : Step} (h : Silent Ev.isCb f) : AllCb P f := by
  intro s e he k vis o hk
  have : e ∈ (f s).2.filter Ev.isCb := by rw [List.mem_filter]; exact ⟨he, by rw [hk]; rfl⟩
  rw [h s] at this; cases this

theorem methodPred_isCb' : MethodPred Ev.isCb := ⟨fun _ h => h, fun _ _ _ _ _ _ _ => rfl⟩

theorem allCb_layerBody {P : Key → Bool → Obs → Prop} (env : Env) (m : Method) (sid : Nat) (cur pend : Tr) (layer : Layer) (occ : Nat)
    (h : ∀ c : Core, P ⟨env.inst, env.op, occ, m, sid, layer⟩ (observable env.cfg sid m layer) (observe env m.flavour sid cur pend c)) :
    AllCb P (layerBody env m sid cur pend layer occ) := by
  unfold layerBody
  refine AllCb.seq ?_ (allCb_of_noCb ?_)
  · intro s e he k vis o hk
    simp only [emit, List.mem_singleton] at he
    rw [hk] at he; cases he; exact h _
  · split
    · exact silent_runActions methodPred_isCb' _ _ _ _ _
    · exact silent_skip _

/-- every delivery of `deliver env m sid cur pend` is to `sid`, of method `m`, and observes through
    `observe` with exactly these `cur` / `pend` -/
theorem allCb_deliver {P : Key → Bool → Obs → Prop} (env : Env) (m : Method) (sid : Nat) (cur pend : Tr)
    (h : ∀ (layer : Layer) (occ : Nat) (c : Core),
      P ⟨env.inst, env.op, occ, m, sid, layer⟩ (observable env.cfg sid m layer) (observe env m.flavour sid cur pend c)) :
    AllCb P (deliver env m sid cur pend) := by
  unfold deliver
  refine AllCb.seq (allCb_of_noCb (silent_emit fun s => by split <;> simp [filter_logEv methodPred_isCb'])) (allCb_seqList ?_)
  intro f hf
  obtain ⟨l, _, rfl⟩ := List.mem_map.mp hf
  intro s
  rw [deliverLayer_eq]
  exact allCb_layerBody env m sid cur pend l _ (fun c => h l _ c) _

end FFSM2
