import FFSM2.Lemmas.Reach
/-! `previousTransition()`: which steps leave it alone, and the invariant of every reachable core: when
    present it names the active state as its destination (with transition history disabled it is never
    present). -/
namespace FFSM2
open Step Ancestors

/-- a step that does not write `previousTransition` -/
def PrevSame (f : Step) : Prop := ∀ s, (f s).1.core.prev = s.core.prev

theorem PrevSame.seq {f g : Step} (hf : PrevSame f) (hg : PrevSame g) : PrevSame (f ⋙ g) := by
  intro s; simp only [Step.seq]; rw [hg, hf]
theorem prevSame_skip : PrevSame skip := fun _ => rfl
theorem prevSame_emit (e : St → List Ev) : PrevSame (emit e) := fun _ => rfl
theorem prevSame_modify {m : St → St} (h : ∀ s, (m s).core.prev = s.core.prev) : PrevSame (Step.modify m) := fun s => h s
theorem prevSame_modifyCore {m : Core → Core} (h : ∀ c, (m c).prev = c.prev) : PrevSame (modifyCore m) := fun s => h s.core
theorem prevSame_dep {g : St → Step} (h : ∀ s0, PrevSame (g s0)) : PrevSame (fun s => g s s) := fun s => h s s
theorem prevSame_seqList {l : List Step} (h : ∀ f ∈ l, PrevSame f) : PrevSame (seqList l) := by
  induction l with
  | nil => exact prevSame_skip
  | cons f fs ih => exact PrevSame.seq (h f (by simp)) (ih fun g hg => h g (by simp [hg]))

local macro "pmc" : term => `((by apply prevSame_modifyCore; intro _; rfl))

theorem prevSame_applyAction (env : Env) (sid : Nat) (a : Action) : PrevSame (applyAction env sid a) := by
  intro s
  cases a with
  | planAppend o d p => cases p <;> simp only [applyAction] <;> split <;> rfl
  | _ => rfl

theorem prevSame_runActions (env : Env) (fl : Flavour) (sid : Nat) (key : Key) :
    ∀ as : List Action, PrevSame (runActions env fl sid key as)
  | [] => prevSame_skip
  | a :: as => by
    unfold runActions
    refine PrevSame.seq ?_ (prevSame_runActions env fl sid key as)
    split
    · exact PrevSame.seq (prevSame_emit _) (prevSame_applyAction env sid a)
    · exact prevSame_skip

theorem prevSame_deliverLayer (env : Env) (m : Method) (sid : Nat) (cur pend : Tr) (layer : Layer) :
    PrevSame (deliverLayer env m sid cur pend layer) := by
  intro s
  rw [deliverLayer_eq]
  have hb : PrevSame (layerBody env m sid cur pend layer (occOf s.seen (m, sid, layer))) := by
    unfold layerBody
    refine PrevSame.seq (prevSame_emit _) ?_
    split
    · exact prevSame_runActions env _ _ _ _
    · exact prevSame_skip
  exact hb _

theorem prevSame_deliver (env : Env) (m : Method) (sid : Nat) (cur pend : Tr) : PrevSame (deliver env m sid cur pend) := by
  unfold deliver
  refine PrevSame.seq (prevSame_emit _) (prevSame_seqList ?_)
  intro f hf
  obtain ⟨l, _, rfl⟩ := List.mem_map.mp hf
  exact prevSame_deliverLayer env m sid cur pend l

theorem clearTaskStatus_prev (cfg : Cfg) (id : Nat) (c : Core) : (clearTaskStatus cfg id c).prev = c.prev := by
  unfold clearTaskStatus; split <;> rfl

theorem prevSame_deepEnter (env : Env) (cur : Tr) : PrevSame (deepEnter env cur) := by
  unfold deepEnter
  exact PrevSame.seq (PrevSame.seq pmc (prevSame_deliver env _ _ _ _)) (prevSame_dep fun s0 => prevSame_deliver env _ _ _ _)

theorem prevSame_deepExit (env : Env) (cur : Tr) : PrevSame (deepExit env cur) := by
  unfold deepExit
  refine PrevSame.seq (PrevSame.seq (PrevSame.seq (prevSame_dep fun s0 => PrevSame.seq (prevSame_deliver env _ _ _ _)
    (prevSame_modifyCore fun c => clearTaskStatus_prev _ _ c)) (prevSame_deliver env _ _ _ _)) pmc) ?_
  apply prevSame_modifyCore
  intro c
  split <;> rfl

theorem prevSame_changeToRequested (env : Env) (cur : Tr) : PrevSame (changeToRequested env cur) := by
  unfold changeToRequested
  intro s
  dsimp only
  split
  · exact PrevSame.seq (PrevSame.seq (PrevSame.seq (prevSame_deliver env _ _ _ _) (prevSame_modifyCore fun c => clearTaskStatus_prev _ _ c)) pmc)
      (prevSame_dep fun s0 => prevSame_deliver env _ _ _ _) s
  · exact PrevSame.seq pmc (prevSame_deliver env _ _ _ _) s

theorem prevSame_guardRound (env : Env) (cur pend : Tr) : PrevSame (guardRound env cur pend) := by
  unfold guardRound
  refine PrevSame.seq (PrevSame.seq (prevSame_modify fun _ => rfl) (prevSame_dep fun s0 => prevSame_deliver env _ _ _ _)) ?_
  intro s
  dsimp only
  split
  · rfl
  · exact prevSame_deliver env _ _ _ _ s

theorem prevSame_entryGuardRound (env : Env) (cur pend : Tr) : PrevSame (entryGuardRound env cur pend) := by
  unfold entryGuardRound
  refine PrevSame.seq (PrevSame.seq (prevSame_modify fun _ => rfl) (prevSame_deliver env _ _ _ _)) ?_
  intro s
  dsimp only
  split
  · rfl
  · exact prevSame_deliver env _ _ _ _ s

theorem applyRequest_prev (cur : Tr) (d : Nat) (c : Core) : (applyRequest cur d c).1.prev = c.prev := by
  unfold applyRequest; split <;> rfl

theorem prevSame_substLoop (round : Tr → Tr → Step) (hr : ∀ c p, PrevSame (round c p)) :
    ∀ (fuel : Nat) (cur : Tr) (s : St), (substLoop round fuel cur s).1.1.core.prev = s.core.prev := by
  intro fuel
  induction fuel with
  | zero => intro _ _; rfl
  | succ fuel ih =>
    intro cur s
    simp only [substLoop]
    split
    · split
      · rw [ih, hr]; exact applyRequest_prev _ _ _
      · rw [ih]
    · rfl

theorem prevSame_applySurvivor (env : Env) (cur : Tr) : PrevSame (applySurvivor env cur) := by
  unfold applySurvivor
  intro s
  dsimp only
  split
  · exact PrevSame.seq pmc (prevSame_changeToRequested env cur) s
  · rfl

/-- what `processRequest` leaves as `previousTransition`: the surviving request when transition history is
    on, what was there otherwise -/
theorem processRequest_prev (env : Env) (s : St) :
    (processRequest env s).1.core.prev =
      if env.cfg.history then survivor {} (processRounds env s) else s.core.prev := by
  by_cases hh : env.cfg.history = true
  · rw [if_pos hh]; exact (processRequest_spec env s).2.2.1 hh
  · have hh' : env.cfg.history = false := by simpa using hh
    rw [if_neg hh]
    unfold processRequest
    dsimp only
    split
    · simp only [Step.seq, finishProcessing, modifyCore, hh', Bool.false_eq_true, if_false]
      rw [prevSame_applySurvivor, prevSame_substLoop _ (prevSame_guardRound env)]
    · simp [finishProcessing, modifyCore, hh']

theorem prevSame_phase (env : Env) (m : Method) (hf : Bool) : PrevSame (phase env m hf) := by
  unfold phase
  intro s
  refine PrevSame.seq ?_ (prevSame_modify fun _ => rfl) s
  have hsub : PrevSame (deliver env m s.core.active {} {} ⋙
      Step.modify (fun s => { s with core := { s.core with subStatus := s.core.subStatus.or s.ts } })) :=
    PrevSame.seq (prevSame_deliver env _ _ _ _) (prevSame_modify fun _ => rfl)
  split
  · exact PrevSame.seq (prevSame_deliver env _ _ _ _) hsub
  · exact PrevSame.seq hsub (prevSame_deliver env _ _ _ _)

theorem firePlan_prev (env : Env) : ∀ (tasks : List Task) (s : St) (clr : List Nat),
    (firePlan env tasks s clr).1.1.core.prev = s.core.prev
  | [], _, _ => rfl
  | t :: ts, s, clr => by
    unfold firePlan
    split
    · split
      · dsimp only
        rw [firePlan_prev env ts]
        split <;> rfl
      · dsimp only
        exact firePlan_prev env ts s clr
    · rfl

theorem prevSame_planStep (env : Env) : PrevSame (planStep env) := by
  intro s
  rw [planStep_eq]
  show (planStepBody env s).1.core.prev = s.core.prev
  have hfail : PrevSame (Step.modify (fun s => { s with ts := Status.failure }) ⋙ deliver env .planFailed 255 {} {} ⋙
      modifyCore planClearCore) :=
    PrevSame.seq (PrevSame.seq (prevSame_modify fun _ => rfl) (prevSame_deliver env _ _ _ _)) pmc
  have hsucc : PrevSame (Step.modify (fun s => { s with ts := Status.success }) ⋙ deliver env .planSucceeded 255 {} {} ⋙
      modifyCore planClearCore) :=
    PrevSame.seq (PrevSame.seq (prevSame_modify fun _ => rfl) (prevSame_deliver env _ _ _ _)) pmc
  unfold planStepBody
  dsimp only
  split
  · split
    · exact hfail s
    · split
      · exact firePlan_prev env _ _ _
      · exact hsucc s
  · rfl

theorem prevSame_prelude (env : Env) (pre mid post : Method) : PrevSame (prelude env pre mid post) := by
  unfold prelude
  refine PrevSame.seq (PrevSame.seq (PrevSame.seq (PrevSame.seq (prevSame_modify fun _ => rfl) (prevSame_phase env _ _))
    (prevSame_phase env _ _)) (prevSame_phase env _ _)) ?_
  split
  · exact prevSame_planStep env
  · exact prevSame_skip

/-- **the invariant**: with transition history enabled, a present `previousTransition()` names the active
    state as its destination; with history disabled it is never present -/
def PrevOk (cfg : Cfg) (c : Core) : Prop :=
  if cfg.history then (c.prev.valid = true → c.prev.dest = c.active) else c.prev.valid = false

theorem prevOk_of_same {cfg : Cfg} {c c' : Core} (h : PrevOk cfg c) (hp : c'.prev = c.prev) (ha : c'.active = c.active) : PrevOk cfg c' := by
  unfold PrevOk at *
  rw [hp, ha]; exact h

theorem prevOk_of_cleared {cfg : Cfg} {c : Core} (hp : c.prev.valid = false) : PrevOk cfg c := by
  unfold PrevOk
  split
  · intro h; rw [hp] at h; cases h
  · exact hp

/-- processing keeps the invariant -/
theorem prevOk_processRequest (env : Env) (s : St) (h : PrevOk env.cfg s.core) : PrevOk env.cfg (processRequest env s).1.core := by
  have hspec := processRequest_spec env s
  have hprev := processRequest_prev env s
  unfold PrevOk at *
  by_cases hh : env.cfg.history = true
  · simp only [hh, if_true] at *
    rw [hprev]
    intro hv
    exact ((hspec.2.2.2.2 hv).1).symm
  · have hh' : env.cfg.history = false := by simpa using hh
    simp only [hh', Bool.false_eq_true, if_false] at *
    rw [hprev]; exact h

theorem prevOk_cycle (env : Env) (pre mid post : Method) (s : St) (h : PrevOk env.cfg s.core) :
    PrevOk env.cfg (cycle env pre mid post s).1.core := by
  rw [cycle_eq]
  simp only [Step.seq]
  exact prevOk_processRequest env _ (prevOk_of_same h (prevSame_prelude env pre mid post s) (stable_prelude env pre mid post s).1)

theorem prevOk_initialEnter (env : Env) (s : St) (h : PrevOk env.cfg s.core) :
    PrevOk env.cfg (initialEnter env s).1.core := by
  -- before the tail: `prev` untouched; the tail writes `prev := cur` (history on) and enters `cur.dest` / state 0
  unfold initialEnter
  dsimp only
  generalize hs0 : ({ s with core := (applyRequest {} 0 s.core).1 } : St) = s0
  have hp0 : s0.core.prev = s.core.prev := by rw [← hs0]; exact applyRequest_prev _ _ _
  generalize hr0 : entryGuardRound env {} {} s0 = r0
  have hp1 : r0.1.core.prev = s.core.prev := by rw [← hr0, prevSame_entryGuardRound]; exact hp0
  generalize hS : substLoop (entryGuardRound env) (substFuel env.cfg.L) {} r0.1 = S
  have hp2 : S.1.1.core.prev = s.core.prev := by rw [← hS, prevSame_substLoop _ (prevSame_entryGuardRound env)]; exact hp1
  obtain ⟨e1, _⟩ := enterSurvivor_spec env S.1.2 S.1.1
  have eprev : (enterSurvivor env S.1.2 S.1.1).1.core.prev = if env.cfg.history then S.1.2 else S.1.1.core.prev := by
    unfold enterSurvivor
    simp only [Step.seq, modifyCore]
    rw [prevSame_deepEnter]
  unfold PrevOk at *
  by_cases hh : env.cfg.history = true
  · simp only [hh, if_true] at *
    rw [eprev, e1]
    intro hv
    simp [hv]
  · have hh' : env.cfg.history = false := by simpa using hh
    simp only [hh', Bool.false_eq_true, if_false] at *
    rw [eprev, hp2]; exact h

theorem finalExit_prev (env : Env) (s : St) :
    (finalExit env s).1.core.prev = if env.cfg.history then s.core.prev.clear else s.core.prev := by
  have hd : (deepExit env {} s).1.core.prev = s.core.prev := prevSame_deepExit env {} s
  unfold finalExit
  simp only [Step.seq, modifyCore]
  cases hp : env.cfg.plans <;> cases hh : env.cfg.history <;> simp [planDataClear, hd]

end FFSM2
