import FFSM2.Lemmas.Steps
/-! `Silent p` for every building block and an arbitrary method predicate `p` that is false on the guard and
    lifecycle methods (the only callbacks request processing, activation, replay and load deliver).  Used for
    the plan outcome callbacks: nothing but the plan step can deliver them. -/
namespace FFSM2
open Step Ancestors

/-- `p` is false on every delivery of method `m` -/
def Excl (p : Ev → Bool) (m : Method) : Prop := ∀ (k : Key) vis o, k.method = m → p (.cb k vis o) = false

/-- `p` ignores guards and lifecycle callbacks -/
structure ExclCore (p : Ev → Bool) : Prop where
  exitGuard : Excl p .exitGuard
  entryGuard : Excl p .entryGuard
  enter : Excl p .enter
  exit : Excl p .exit
  reenter : Excl p .reenter

variable {p : Ev → Bool}

theorem silentG_changeToRequested (hp : MethodPred p) (hx : ExclCore p) (env : Env) (cur : Tr) : Silent p (changeToRequested env cur) := by
  unfold changeToRequested
  intro s
  dsimp only
  split
  · exact (Silent.seq (Silent.seq (Silent.seq (silent_deliver hp env .exit hx.exit _ _ _) (silent_modifyCore _ _))
      (silent_modifyCore _ _)) (silent_dep fun s0 => silent_deliver hp env .enter hx.enter _ _ _)) s
  · exact (Silent.seq (silent_modifyCore _ _) (silent_deliver hp env .reenter hx.reenter _ _ _)) s

theorem silentG_deepEnter (hp : MethodPred p) (hx : ExclCore p) (env : Env) (cur : Tr) : Silent p (deepEnter env cur) := by
  unfold deepEnter
  exact Silent.seq (Silent.seq (silent_modifyCore _ _) (silent_deliver hp env .enter hx.enter _ _ _))
    (silent_dep fun s0 => silent_deliver hp env .enter hx.enter _ _ _)

theorem silentG_deepExit (hp : MethodPred p) (hx : ExclCore p) (env : Env) (cur : Tr) : Silent p (deepExit env cur) := by
  unfold deepExit
  refine Silent.seq (Silent.seq (Silent.seq ?_ (silent_deliver hp env .exit hx.exit _ _ _)) (silent_modifyCore _ _)) (silent_modifyCore _ _)
  exact silent_dep fun s0 => Silent.seq (silent_deliver hp env .exit hx.exit _ _ _) (silent_modifyCore _ _)

theorem silentG_finalExit (hp : MethodPred p) (hx : ExclCore p) (env : Env) : Silent p (finalExit env) := by
  unfold finalExit; exact Silent.seq (silentG_deepExit hp hx env {}) (silent_modifyCore _ _)

theorem silentG_guardRound (hp : MethodPred p) (hx : ExclCore p) (env : Env) (cur pend : Tr) : Silent p (guardRound env cur pend) := by
  unfold guardRound
  refine Silent.seq (Silent.seq (silent_modify _ _) (silent_dep fun s0 => silent_deliver hp env .exitGuard hx.exitGuard _ _ _)) ?_
  intro s
  dsimp only
  split
  · rfl
  · exact silent_deliver hp env .entryGuard hx.entryGuard _ _ _ s

theorem silentG_entryGuardRound (hp : MethodPred p) (hx : ExclCore p) (env : Env) (cur pend : Tr) : Silent p (entryGuardRound env cur pend) := by
  unfold entryGuardRound
  refine Silent.seq (Silent.seq (silent_modify _ _) (silent_deliver hp env .entryGuard hx.entryGuard _ _ _)) ?_
  intro s
  dsimp only
  split
  · rfl
  · exact silent_deliver hp env .entryGuard hx.entryGuard _ _ _ s

theorem silentG_substLoop (round : Tr → Tr → Step) (hr : ∀ c q, Silent p (round c q)) :
    ∀ (fuel : Nat) (cur : Tr) (s : St), (substLoop round fuel cur s).2.filter p = [] := by
  intro fuel
  induction fuel with
  | zero => intro _ _; rfl
  | succ fuel ih =>
    intro cur s
    simp only [substLoop]
    split
    · split
      · rw [List.filter_append, hr _ _ _, ih _ _]; rfl
      · exact ih _ _
    · rfl

theorem silentG_applySurvivor (hp : MethodPred p) (hx : ExclCore p) (env : Env) (cur : Tr) : Silent p (applySurvivor env cur) := by
  unfold applySurvivor
  intro s
  dsimp only
  split
  · exact (Silent.seq (silent_modifyCore _ _) (silentG_changeToRequested hp hx env cur)) s
  · rfl

theorem silentG_processRequest (hp : MethodPred p) (hx : ExclCore p) (env : Env) : Silent p (processRequest env) := by
  unfold processRequest
  intro s
  dsimp only
  split
  · rw [List.filter_append, silentG_substLoop _ (silentG_guardRound hp hx env) _ _ _]
    exact (Silent.seq (silentG_applySurvivor hp hx env _) (silent_modifyCore _ _)) _
  · rfl

theorem silentG_enterSurvivor (hp : MethodPred p) (hx : ExclCore p) (env : Env) (cur : Tr) : Silent p (enterSurvivor env cur) := by
  unfold enterSurvivor
  exact Silent.seq (Silent.seq (silent_modifyCore _ _) (silentG_deepEnter hp hx env cur)) (silent_modifyCore _ _)

theorem silentG_initialEnter (hp : MethodPred p) (hx : ExclCore p) (env : Env) : Silent p (initialEnter env) := by
  unfold initialEnter
  intro s
  dsimp only
  rw [List.filter_append, List.filter_append, silentG_entryGuardRound hp hx env {} {} _,
    silentG_substLoop _ (silentG_entryGuardRound hp hx env) _ _ _, silentG_enterSurvivor hp hx env _ _]
  rfl

theorem silentG_replayTransition (hp : MethodPred p) (hx : ExclCore p) (env : Env) (d : Nat) : Silent p (replayTransition env d) := by
  unfold replayTransition
  exact Silent.seq (Silent.seq (Silent.seq (silent_modifyCore _ _) (silent_modifyCore _ _)) (silentG_changeToRequested hp hx env {}))
    (silent_modifyCore _ _)

theorem silentG_replayEnter (hp : MethodPred p) (hx : ExclCore p) (env : Env) (d : Nat) : Silent p (replayEnter env d) := by
  unfold replayEnter
  exact Silent.seq (Silent.seq (silent_modifyCore _ _) (silentG_deepEnter hp hx env {})) (silent_modifyCore _ _)

theorem silentG_loadActive (hp : MethodPred p) (hx : ExclCore p) (env : Env) (r : Nat) : Silent p (loadActive env r) := by
  unfold loadActive; exact Silent.seq (silent_modifyCore _ _) (silentG_changeToRequested hp hx env {})

theorem silentG_load (hp : MethodPred p) (hx : ExclCore p) (env : Env) (buf : List Nat) : Silent p (load env buf) := by
  unfold load
  intro s
  dsimp only
  split
  · split
    · exact silentG_loadActive hp hx env _ s
    · split
      · exact (Silent.seq (silent_modifyCore _ _) (silentG_deepEnter hp hx env {})) s
      · rfl
  · split
    · exact silentG_finalExit hp hx env s
    · rfl

theorem silentG_query (hp : MethodPred p) (hq : Excl p .query) (env : Env) : Silent p (query env) := by
  unfold query
  generalize headFirst Method.query = hfq
  cases hfq <;> simp only [if_true, if_false, Bool.false_eq_true] <;>
  exact silent_dep fun s0 => Silent.seq (silent_deliver hp env .query hq _ {} {}) (silent_deliver hp env .query hq _ {} {})

theorem silentG_extChange (hp : MethodPred p) (env : Env) (d : Nat) (q : Option Nat) : Silent p (extChange env d q) :=
  fun _ => filter_logEv hp env _ _

theorem silentG_extStatus (hp : MethodPred p) (env : Env) (id : Nat) (ok : Bool) : Silent p (extStatus env id ok) :=
  fun _ => filter_logEv hp env _ _

end FFSM2
