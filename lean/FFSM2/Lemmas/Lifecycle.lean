import FFSM2.Lemmas.Machine
/-! Lifecycle signatures of the building blocks (`deliver`, `deepEnter`, `deepExit`,
    `changeToRequested`) and the substitution loop. -/
namespace FFSM2
open Step Ancestors

/-- `(method, state)` of an own-layer lifecycle delivery (visible or not) -/
def sigEv : Ev → Option (Method × Nat)
  | .cb k _ _ => if k.method.isLife && k.layer == Layer.own then some (k.method, k.sid) else none
  | _ => none

/-- the lifecycle signature of a trace: which state's enter/exit/reenter ran, in order -/
def sig (es : List Ev) : List (Method × Nat) := es.filterMap sigEv

@[simp] theorem sig_nil : sig [] = [] := rfl
@[simp] theorem sig_append (a b : List Ev) : sig (a ++ b) = sig a ++ sig b := by simp [sig]

theorem sigEv_isLife {e : Ev} {x : Method × Nat} (h : sigEv e = some x) : e.isLife = true := by
  cases e with
  | cb k vis o =>
    simp only [sigEv] at h
    split at h
    · rename_i hc; simp [Ev.isLife] ; simp at hc; exact hc.1
    · cases h
  | _ => simp [sigEv] at h

theorem sig_eq_nil_of_noLife {es : List Ev} (h : es.filter Ev.isLife = []) : sig es = [] := by
  induction es with
  | nil => rfl
  | cons e es ih =>
    simp only [List.filter_cons] at h
    split at h
    · cases h
    · rename_i hne
      simp only [sig, List.filterMap_cons]
      cases hs : sigEv e with
      | none => exact ih h
      | some x => exact absurd (sigEv_isLife hs) hne

theorem sig_of_noLife {f : Step} (h : NoLife f) (s : St) : sig (f s).2 = [] := sig_eq_nil_of_noLife (h s)

theorem sig_seq (f g : Step) (s : St) : sig ((f ⋙ g) s).2 = sig (f s).2 ++ sig (g (f s).1).2 := by
  simp [Step.seq]

theorem noLife_runActions (env : Env) (fl : Flavour) (sid : Nat) (key : Key) (as : List Action) :
    NoLife (runActions env fl sid key as) := silent_runActions methodPred_isLife _ _ _ _ _

theorem sig_layerBody (env : Env) (m : Method) (hm : m.isLife = true) (sid : Nat) (cur pend : Tr) (layer : Layer)
    (occ : Nat) (s : St) :
    sig (layerBody env m sid cur pend layer occ s).2 = if layer == Layer.own then [(m, sid)] else [] := by
  unfold layerBody
  rw [sig_seq]
  have h2 : sig ((if observable env.cfg sid m layer then
      runActions env m.flavour sid ⟨env.inst, env.op, occ, m, sid, layer⟩ (env.beh ⟨env.inst, env.op, occ, m, sid, layer⟩)
     else skip) ((emit fun st => [Ev.cb ⟨env.inst, env.op, occ, m, sid, layer⟩ (observable env.cfg sid m layer)
      (observe env m.flavour sid cur pend st.core)]) s).1).2 = [] := by
    split
    · exact sig_of_noLife (noLife_runActions _ _ _ _ _) _
    · rfl
  rw [h2]
  cases layer <;> simp [emit, sig, sigEv, hm]

theorem sig_layers (env : Env) (m : Method) (hm : m.isLife = true) (sid : Nat) (cur pend : Tr) :
    ∀ (layers : List Layer) (s : St),
      sig (seqList (layers.map (deliverLayer env m sid cur pend)) s).2
        = (layers.filter (· == Layer.own)).map (fun _ => (m, sid)) := by
  intro layers
  induction layers with
  | nil => intro s; rfl
  | cons l ls ih =>
    intro s
    simp only [List.map_cons, seqList]
    rw [sig_seq, ih, deliverLayer_eq, sig_layerBody env m hm]
    by_cases h : (l == Layer.own) = true
    · simp [h]
    · simp [h]

theorem wideFwd_eq' (l : List Layer) : wideFwd l = l := by
  induction l with
  | nil => rfl
  | cons x xs ih => simp [wideFwd, ih]

theorem wideRev_eq' (l : List Layer) : wideRev l = l.reverse := by
  induction l with
  | nil => rfl
  | cons x xs ih => simp [wideRev, ih]

theorem injections_no_own (k : Nat) : (injections k).filter (· == Layer.own) = [] := by
  simp [injections, List.filter_eq_nil_iff]

/-- whatever the translated call-order tables say, a delivery reaches the state's own callback exactly once -/
theorem deep_own_any (k : Nat) (m : Method) : (deep k m).filter (· == Layer.own) = [Layer.own] := by
  unfold deep
  have hw : ∀ b : Bool, (if b then wideRev (injections k) else wideFwd (injections k)).filter (· == Layer.own) = [] := by
    intro b; cases b <;> simp [wideFwd_eq', wideRev_eq', injections_no_own, List.filter_reverse]
  cases m <;> first
    | rfl
    | (dsimp only
       generalize Gen.restFirstCodes.contains _ = b1
       generalize Gen.ownFirstCodes.contains _ = b2
       cases b2 <;> simp [List.filter_append, hw b1])

theorem deep_own (k : Nat) (m : Method) (_hm : m.isLife = true) : (deep k m).filter (· == Layer.own) = [Layer.own] :=
  deep_own_any k m

/-- a lifecycle delivery contributes exactly its own `(method, state)` to the signature -/
theorem sig_deliver (env : Env) (m : Method) (hm : m.isLife = true) (sid : Nat) (cur pend : Tr) (s : St) :
    sig (deliver env m sid cur pend s).2 = [(m, sid)] := by
  unfold deliver
  rw [sig_seq]
  have h1 : sig ((emit fun s => if recorded env.cfg sid m then logEv env s.core (.method sid m) else []) s).2 = [] := by
    apply sig_eq_nil_of_noLife
    simp only [emit]
    split <;> simp [filter_logEv methodPred_isLife]
  rw [h1, sig_layers env m hm, deep_own _ _ hm]
  rfl

/-! ### shapes of the lifecycle steps -/

theorem deliver_core_active (env : Env) (m : Method) (sid : Nat) (cur pend : Tr) (s : St) :
    (deliver env m sid cur pend s).1.core.active = s.core.active ∧
    (deliver env m sid cur pend s).1.core.requested = s.core.requested := stable_deliver _ _ _ _ _ s

/-- `C_::deepChangeToRequested` -/
theorem changeToRequested_spec (env : Env) (cur : Tr) (s : St) :
    (changeToRequested env cur s).1.core.active = s.core.requested ∧
    (changeToRequested env cur s).1.core.requested = 255 ∧
    sig (changeToRequested env cur s).2 =
      (if s.core.requested != s.core.active then [(Method.exit, s.core.active), (Method.enter, s.core.requested)]
       else [(Method.reenter, s.core.active)]) := by
  unfold changeToRequested
  by_cases h : (s.core.requested != s.core.active) = true
  · simp only [h, if_true]
    -- exit, clear, switch, enter
    generalize hA : (deliver env .exit s.core.active cur {} ⋙ modifyCore (clearTaskStatus env.cfg s.core.active)) = A
    have hAst : Stable A := by
      rw [← hA]
      refine Stable.seq (stable_deliver _ _ _ _ _) (stable_modifyCore fun c => ?_)
      unfold clearTaskStatus; split <;> exact ⟨rfl, rfl⟩
    have hAsig : sig (A s).2 = [(Method.exit, s.core.active)] := by
      rw [← hA, sig_seq, sig_deliver env _ rfl]; simp [modifyCore]
    simp only [Step.seq, modifyCore]
    have hs1 := hAst s
    refine ⟨?_, ?_, ?_⟩
    · rw [(stable_deliver env .enter _ cur {} _).1]; exact hs1.2
    · rw [(stable_deliver env .enter _ cur {} _).2]
    · simp only [sig_append, hAsig, sig_nil, List.append_nil]
      rw [sig_deliver env _ rfl]
      simp [hs1.2]
  · have h' : s.core.requested = s.core.active := by simpa using h
    have h'' : (s.core.requested != s.core.active) = false := by simpa using h
    simp only [h'', Bool.false_eq_true, if_false]
    simp only [Step.seq, modifyCore]
    refine ⟨?_, ?_, ?_⟩
    · rw [(stable_deliver env .reenter _ cur {} _).1]; exact h'.symm
    · rw [(stable_deliver env .reenter _ cur {} _).2]
    · simp only [sig_append, sig_nil, List.nil_append]
      rw [sig_deliver env _ rfl]

/-- `C_::deepEnter` -/
theorem deepEnter_spec (env : Env) (cur : Tr) (s : St) :
    (deepEnter env cur s).1.core.active = s.core.requested ∧
    (deepEnter env cur s).1.core.requested = 255 ∧
    sig (deepEnter env cur s).2 = [(Method.enter, 255), (Method.enter, s.core.requested)] := by
  unfold deepEnter
  simp only [Step.seq, modifyCore]
  refine ⟨?_, ?_, ?_⟩
  · rw [(stable_deliver env .enter _ cur {} _).1, (stable_deliver env .enter 255 cur {} _).1]
  · rw [(stable_deliver env .enter _ cur {} _).2, (stable_deliver env .enter 255 cur {} _).2]
  · simp only [sig_append, sig_nil, List.nil_append]
    rw [sig_deliver env _ rfl, sig_deliver env _ rfl, (stable_deliver env .enter 255 cur {} _).1]
    rfl

/-- `C_::deepExit` -/
theorem deepExit_spec (env : Env) (cur : Tr) (s : St) :
    (deepExit env cur s).1.core.active = 255 ∧
    (deepExit env cur s).1.core.requested = s.core.requested ∧
    sig (deepExit env cur s).2 = [(Method.exit, s.core.active), (Method.exit, 255)] := by
  unfold deepExit
  have hclr : ∀ c : Core, (clearTaskStatus env.cfg s.core.active c).requested = c.requested := by
    intro c; unfold clearTaskStatus; split <;> rfl
  simp only [Step.seq, modifyCore]
  refine ⟨?_, ?_, ?_⟩
  · split <;> rfl
  · have : ∀ c : Core, (if env.cfg.plans then planClearCore c else c).requested = c.requested := by
      intro c; split <;> rfl
    rw [this]
    simp only
    rw [(stable_deliver env .exit 255 cur {} _).2, hclr, (stable_deliver env .exit _ cur {} _).2]
  · simp only [sig_append, sig_nil, List.append_nil]
    rw [sig_deliver env _ rfl, sig_deliver env _ rfl]
    rfl

end FFSM2
