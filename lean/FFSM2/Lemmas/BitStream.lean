import FFSM2.BitStream
/-! Helper lemmas for the bit stream (C13). Property statements live in `FFSM2/Props*.lean`. -/
namespace FFSM2
namespace BitStream

theorem bytesOk_cons {b : Nat} {bs : List Nat} : BytesOk (b :: bs) ↔ b < 256 ∧ BytesOk bs := by
  simp [BytesOk]

theorem bytesOk_set {buf : List Nat} {k x : Nat} (h : BytesOk buf) (hx : x < 256) :
    BytesOk (buf.set k x) := by
  intro b hb
  rcases List.mem_or_eq_of_mem_set hb with hb | hb
  · exact h b hb
  · exact hb ▸ hx

theorem bytesOk_replicate (n : Nat) : BytesOk (List.replicate n 0) := by
  intro b hb; have := List.eq_of_mem_replicate hb; omega

theorem bitsOf_replicate_zero (n : Nat) : bitsOf (List.replicate n 0) = 0 := by
  induction n with
  | zero => rfl
  | succ n ih => simp [List.replicate_succ, bitsOf, ih]

theorem bitsOf_lt {buf : List Nat} (h : BytesOk buf) : bitsOf buf < 256 ^ buf.length := by
  induction buf with
  | nil => simp [bitsOf]
  | cons b bs ih =>
    have ⟨hb, hbs⟩ := bytesOk_cons.mp h
    have := ih hbs
    simp only [bitsOf, List.length_cons, Nat.pow_succ]
    omega

theorem bitsOf_set_add {buf : List Nat} {k d : Nat} (hk : k < buf.length) :
    bitsOf (buf.set k (buf.getD k 0 + d)) = bitsOf buf + d * 256 ^ k := by
  induction buf generalizing k with
  | nil => simp at hk
  | cons b bs ih =>
    cases k with
    | zero => simp [bitsOf]; omega
    | succ k =>
      have hk' : k < bs.length := by simpa using hk
      simp only [List.set_cons_succ, bitsOf, List.getD_cons_succ, ih hk', Nat.pow_succ]
      have : d * (256 ^ k * 256) = 256 * (d * 256 ^ k) := by
        rw [← Nat.mul_assoc, Nat.mul_comm]
      omega

theorem getD_eq_div_mod {buf : List Nat} (h : BytesOk buf) (k : Nat) :
    buf.getD k 0 = bitsOf buf / 256 ^ k % 256 := by
  induction buf generalizing k with
  | nil => simp [bitsOf]
  | cons b bs ih =>
    have ⟨hb, hbs⟩ := bytesOk_cons.mp h
    cases k with
    | zero => simp [bitsOf]; omega
    | succ k =>
      simp only [List.getD_cons_succ, bitsOf, ih hbs k, Nat.pow_succ]
      rw [Nat.mul_comm (256 ^ k) 256, ← Nat.div_div_eq_div_mul]
      congr 2
      omega

end BitStream
end FFSM2

namespace FFSM2
namespace BitStream

theorem shiftRight3 (c : Nat) : c >>> 3 = c / 8 := by
  simp [Nat.shiftRight_eq_div_pow]

theorem and7 (c : Nat) : c &&& 7 = c % 8 := by
  have : (7 : Nat) = 2 ^ 3 - 1 := by decide
  rw [this, Nat.and_two_pow_sub_one_eq_mod]

theorem two_pow_cursor (c : Nat) : 2 ^ c = 2 ^ (c % 8) * 256 ^ (c / 8) := by
  have h256 : (256 : Nat) = 2 ^ 8 := by decide
  rw [h256, ← Nat.pow_mul, ← Nat.pow_add]
  congr 1; omega

theorem mul_add_lt {m a c b : Nat} (h1 : m < a) (h2 : b < c) : m * c + b < a * c := by
  have : (m + 1) * c ≤ a * c := Nat.mul_le_mul_right c h1
  grind

/-- the truncated chunk: `(itemBits << s) & 0xFF = (itemBits mod 2^(8-s)) << s` -/
theorem chunk_eq {x s : Nat} (hs : s ≤ 8) : (x <<< s) % 256 = (x % 2 ^ (8 - s)) * 2 ^ s := by
  have : (256 : Nat) = 2 ^ (8 - s) * 2 ^ s := by
    rw [← Nat.pow_add]; have : 8 - s + s = 8 := by omega
    rw [this]
  rw [Nat.shiftLeft_eq, this, Nat.mul_mod_mul_right]

/-- OR-ing a chunk above the occupied low bits is an addition. -/
theorem or_chunk {b m s : Nat} (hb : b < 2 ^ s) : b ||| (m * 2 ^ s) = b + m * 2 ^ s := by
  rw [Nat.or_comm, ← Nat.shiftLeft_eq, ← Nat.shiftLeft_add_eq_or_of_lt hb, Nat.add_comm]

/-- the byte under the cursor has no bit at or above the cursor's bit offset -/
theorem byte_lt_of_bits_lt {buf : List Nat} (h : BytesOk buf) {c : Nat}
    (hb : bitsOf buf < 2 ^ c) : buf.getD (c / 8) 0 < 2 ^ (c % 8) := by
  rw [getD_eq_div_mod h]
  have h1 : bitsOf buf / 256 ^ (c / 8) < 2 ^ (c % 8) := by
    apply Nat.div_lt_of_lt_mul
    rw [Nat.mul_comm, ← two_pow_cursor]; exact hb
  exact Nat.lt_of_le_of_lt (Nat.mod_le _ _) h1

theorem mod_chunk {x iw s : Nat} (hx : x < 2 ^ iw) :
    x % 2 ^ (8 - s) = x % 2 ^ (min (8 - s) iw) := by
  by_cases h : 8 - s ≤ iw
  · rw [Nat.min_eq_left h]
  · have h' : iw ≤ 8 - s := by omega
    rw [Nat.min_eq_right h', Nat.mod_eq_of_lt hx]
    apply Nat.mod_eq_of_lt
    exact Nat.lt_of_lt_of_le hx (Nat.pow_le_pow_right (by decide) h')

theorem writeLoop_spec (fuel : Nat) : ∀ (buf : List Nat) (cursor itemBits itemWidth : Nat),
    BytesOk buf → bitsOf buf < 2 ^ cursor → itemBits < 2 ^ itemWidth → itemWidth ≤ fuel →
    cursor + itemWidth ≤ 8 * buf.length →
    BytesOk (writeLoop fuel buf cursor itemBits itemWidth).1 ∧
    (writeLoop fuel buf cursor itemBits itemWidth).1.length = buf.length ∧
    (writeLoop fuel buf cursor itemBits itemWidth).2 = cursor + itemWidth ∧
    bitsOf (writeLoop fuel buf cursor itemBits itemWidth).1 = bitsOf buf + itemBits * 2 ^ cursor := by
  induction fuel with
  | zero =>
    intro buf cursor itemBits itemWidth hok _ hx hf _
    have : itemWidth = 0 := by omega
    subst this
    have : itemBits = 0 := by simpa using hx
    subst this
    simp [writeLoop, hok]
  | succ fuel ih =>
    intro buf cursor itemBits itemWidth hok hbits hx hf hcap
    by_cases hw : itemWidth = 0
    · subst hw
      have : itemBits = 0 := by simpa using hx
      subst this
      simp [writeLoop, hok]
    · simp only [writeLoop, hw, if_false, shiftRight3, and7]
      have hs : cursor % 8 ≤ 8 := by omega
      have hk : cursor / 8 < buf.length := by omega
      have hbyte := byte_lt_of_bits_lt hok hbits
      rw [chunk_eq hs, or_chunk hbyte]
      -- abbreviations
      generalize hcw : min (8 - cursor % 8) itemWidth = cw
      have hcw1 : 1 ≤ cw := by omega
      have hcw2 : cw ≤ itemWidth := by omega
      have hcw3 : cw ≤ 8 - cursor % 8 := by omega
      have hm : itemBits % 2 ^ (8 - cursor % 8) = itemBits % 2 ^ cw := by
        rw [← hcw]; exact mod_chunk hx
      rw [hm]
      generalize hmm : itemBits % 2 ^ cw = m
      have hmlt : m < 2 ^ cw := by rw [← hmm]; exact Nat.mod_lt _ (Nat.two_pow_pos _)
      have hm8 : m < 2 ^ (8 - cursor % 8) :=
        Nat.lt_of_lt_of_le hmlt (Nat.pow_le_pow_right (by decide) hcw3)
      have h256 : (256 : Nat) = 2 ^ (8 - cursor % 8) * 2 ^ (cursor % 8) := by
        rw [← Nat.pow_add]; have : 8 - cursor % 8 + cursor % 8 = 8 := by omega
        rw [this]
      have hnb : buf.getD (cursor / 8) 0 + m * 2 ^ (cursor % 8) < 256 := by
        rw [h256, Nat.add_comm]; exact mul_add_lt hm8 hbyte
      have hok' := bytesOk_set (k := cursor / 8) hok hnb
      have hbits' : bitsOf (buf.set (cursor / 8) (buf.getD (cursor / 8) 0 + m * 2 ^ (cursor % 8)))
          = bitsOf buf + m * 2 ^ cursor := by
        rw [bitsOf_set_add hk, two_pow_cursor cursor, Nat.mul_assoc]
      have hlt' : bitsOf (buf.set (cursor / 8) (buf.getD (cursor / 8) 0 + m * 2 ^ (cursor % 8)))
          < 2 ^ (cursor + cw) := by
        rw [hbits', Nat.pow_add, Nat.add_comm, Nat.mul_comm (2 ^ cursor)]
        exact mul_add_lt hmlt hbits
      have hq : itemBits >>> cw < 2 ^ (itemWidth - cw) := by
        rw [Nat.shiftRight_eq_div_pow]
        apply Nat.div_lt_of_lt_mul
        rw [← Nat.pow_add]; have : cw + (itemWidth - cw) = itemWidth := by omega
        rw [this]; exact hx
      have hlen : (buf.set (cursor / 8) (buf.getD (cursor / 8) 0 + m * 2 ^ (cursor % 8))).length
          = buf.length := List.length_set
      have := ih _ (cursor + cw) (itemBits >>> cw) (itemWidth - cw) hok' hlt' hq (by omega)
        (by rw [hlen]; omega)
      obtain ⟨r1, r2, r3, r4⟩ := this
      refine ⟨r1, by rw [r2, hlen], by rw [r3]; omega, ?_⟩
      rw [r4, hbits', Nat.shiftRight_eq_div_pow, Nat.pow_add]
      have hdm := Nat.div_add_mod itemBits (2 ^ cw)
      rw [hmm] at hdm
      generalize itemBits / 2 ^ cw = q at *
      subst hdm
      grind

end BitStream
end FFSM2

namespace FFSM2
namespace BitStream

theorem mod_div_mod {x a s c : Nat} (h : s + c ≤ a) :
    (x % 2 ^ a) / 2 ^ s % 2 ^ c = x / 2 ^ s % 2 ^ c := by
  have ha : 2 ^ a = 2 ^ s * 2 ^ (a - s) := by
    rw [← Nat.pow_add]; congr 1; omega
  rw [ha, Nat.mod_mul_right_div_self]
  exact Nat.mod_mod_of_dvd _ (Nat.pow_dvd_pow 2 (by omega))

/-- the chunk extracted from the byte under the cursor -/
theorem byteChunk_eq {buf : List Nat} (h : BytesOk buf) (c cw : Nat) (hcw : cw ≤ 8 - c % 8) :
    (buf.getD (c / 8) 0 >>> (c % 8)) &&& (((1 <<< cw) - 1) % 256)
      = bitsOf buf / 2 ^ c % 2 ^ cw := by
  have hlt : 2 ^ cw - 1 < 256 := by
    have : 2 ^ cw ≤ 2 ^ 8 := Nat.pow_le_pow_right (by decide) (by omega)
    have : 0 < 2 ^ cw := Nat.two_pow_pos _
    omega
  rw [Nat.one_shiftLeft, Nat.mod_eq_of_lt hlt, Nat.and_two_pow_sub_one_eq_mod,
    Nat.shiftRight_eq_div_pow, getD_eq_div_mod h]
  have h256 : (256 : Nat) = 2 ^ 8 := by decide
  rw [show (256:Nat) = 2 ^ 8 from h256, mod_div_mod (by omega), Nat.div_div_eq_div_mul]
  congr 2
  rw [Nat.mul_comm, ← two_pow_cursor]

theorem readLoop_spec (fuel : Nat) : ∀ (tb : Nat) (buf : List Nat) (cursor item ic iw : Nat),
    BytesOk buf → iw ≤ fuel → ic + iw ≤ tb → item < 2 ^ ic →
    (readLoop fuel tb buf cursor item ic iw).2 = cursor + iw ∧
    (readLoop fuel tb buf cursor item ic iw).1
      = item + (bitsOf buf / 2 ^ cursor % 2 ^ iw) * 2 ^ ic := by
  induction fuel with
  | zero =>
    intro tb buf cursor item ic iw _ hf _ _
    have : iw = 0 := by omega
    subst this
    simp [readLoop, Nat.mod_one]
  | succ fuel ih =>
    intro tb buf cursor item ic iw hok hf htb hitem
    by_cases hw : iw = 0
    · subst hw; simp [readLoop, Nat.mod_one]
    · simp only [readLoop, hw, if_false, shiftRight3, and7]
      generalize hcw : min (8 - cursor % 8) iw = cw
      have hcw1 : 1 ≤ cw := by omega
      have hcw2 : cw ≤ iw := by omega
      have hcw3 : cw ≤ 8 - cursor % 8 := by omega
      rw [byteChunk_eq hok cursor cw hcw3]
      generalize hch : bitsOf buf / 2 ^ cursor % 2 ^ cw = ch
      have hchlt : ch < 2 ^ cw := by rw [← hch]; exact Nat.mod_lt _ (Nat.two_pow_pos _)
      have hnotrunc : (ch <<< ic) % 2 ^ tb = ch * 2 ^ ic := by
        rw [Nat.shiftLeft_eq]
        apply Nat.mod_eq_of_lt
        have h1 : ch * 2 ^ ic < 2 ^ cw * 2 ^ ic := Nat.mul_lt_mul_of_pos_right hchlt (Nat.two_pow_pos _)
        have h2 : 2 ^ cw * 2 ^ ic ≤ 2 ^ tb := by
          rw [← Nat.pow_add]; exact Nat.pow_le_pow_right (by decide) (by omega)
        omega
      rw [hnotrunc, or_chunk hitem]
      have hitem' : item + ch * 2 ^ ic < 2 ^ (ic + cw) := by
        rw [Nat.pow_add, Nat.add_comm, Nat.mul_comm (2 ^ ic)]
        exact mul_add_lt hchlt hitem
      obtain ⟨r1, r2⟩ := ih tb buf (cursor + cw) (item + ch * 2 ^ ic) (ic + cw) (iw - cw) hok
        (by omega) (by omega) hitem'
      refine ⟨by rw [r1]; omega, ?_⟩
      rw [r2]
      have hsplit : bitsOf buf / 2 ^ cursor % 2 ^ iw
          = ch + 2 ^ cw * (bitsOf buf / 2 ^ (cursor + cw) % 2 ^ (iw - cw)) := by
        have : 2 ^ iw = 2 ^ cw * 2 ^ (iw - cw) := by
          rw [← Nat.pow_add]; congr 1; omega
        rw [this, Nat.mod_mul, hch, Nat.div_div_eq_div_mul, ← Nat.pow_add]
      rw [hsplit, Nat.pow_add]
      generalize bitsOf buf / 2 ^ (cursor + cw) % 2 ^ (iw - cw) = q
      grind

end BitStream
end FFSM2
