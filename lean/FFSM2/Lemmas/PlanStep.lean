import FFSM2.Lemmas.PlanTrace
import FFSM2.Props.C08
import FFSM2.Lemmas.Keeps
/-! What the plan step does to the plan, without any range hypothesis, and the shape of the plan over one whole
    `update()` / `react()`: edits by user code, then the plan step (which only removes the tasks it fires, or
    clears the plan), then edits by user code again. -/
namespace FFSM2
open Step

theorem lt_of_getBit {l : List Bool} {i : Nat} (h : getBit l i = true) : i < l.length := by
  unfold getBit at h
  rw [List.getD_eq_getElem?_getD] at h
  by_cases hi : i < l.length
  · exact hi
  · rw [List.getElem?_eq_none_iff.mpr (Nat.le_of_not_lt hi)] at h; cases h

/-- what `firePlan` keeps: exactly `keptOf`, for the active state and its success bit as the loop finds them -/
theorem firePlan_kept (env : Env) : ∀ (tasks : List Task) (s : St) (clr : List Nat),
    (firePlan env tasks s clr).1.2.1 = keptOf tasks s.core.active (getBit s.core.succ s.core.active) := by
  intro tasks
  induction tasks with
  | nil => intro s clr; simp [firePlan, keptOf]
  | cons t ts ih =>
    intro s clr
    simp only [firePlan, keptOf, ctlIsActive]
    by_cases ho : (s.core.active == t.origin) = true
    · have ho' : t.origin = s.core.active := (beq_iff_eq.mp ho).symm
      have ho'' : (t.origin == s.core.active) = true := by simp [ho']
      simp only [ho, ho'', if_true]
      by_cases hb : getBit s.core.succ t.origin = true
      · have hb' : getBit s.core.succ s.core.active = true := by rw [← ho']; exact hb
        simp only [hb, hb', if_true]
        by_cases hc : (t.origin == t.dest) = true
        · simp only [hc, if_true]
          have h1 := ih { s with core := { ({ s.core with request := ⟨t.origin, t.dest, t.payload⟩ } : Core) with
                                succ := setBit s.core.succ t.origin false } } clr
          have hbit : getBit (setBit s.core.succ t.origin false) s.core.active = false := by
            rw [← ho']; exact getBit_setBit_self _ _ _ (lt_of_getBit hb)
          simp only at h1
          rw [hbit] at h1
          exact h1
        · have hc' : (t.origin == t.dest) = false := by simpa using hc
          simp only [hc', Bool.false_eq_true, if_false]
          have h1 := ih { s with core := { s.core with request := ⟨t.origin, t.dest, t.payload⟩ } } (t.origin :: clr)
          simp only at h1
          rw [hb'] at h1
          exact h1
      · have hb0 : getBit s.core.succ t.origin = false := by simpa using hb
        have hb' : getBit s.core.succ s.core.active = false := by rw [← ho']; exact hb0
        simp only [hb0, hb', Bool.false_eq_true, if_false]
        have h1 := ih s clr
        rw [hb'] at h1
        rw [h1]
    · have ho' : (s.core.active == t.origin) = false := by simpa using ho
      have ho'' : (t.origin == s.core.active) = false := by
        cases h : (t.origin == s.core.active)
        · rfl
        · have := beq_iff_eq.mp h; rw [this] at ho'; simp at ho'
      simp [ho', ho'']

/-- **the plan step only removes**: afterwards the plan is untouched, or empty (an outcome callback was
    delivered), or exactly what `keptOf` leaves of it for the active state and its success bit -/
theorem planStep_plan (env : Env) (s : St) :
    (planStep env s).1.core.plan = s.core.plan ∨ (planStep env s).1.core.plan = [] ∨
    (planStep env s).1.core.plan = keptOf s.core.plan s.core.active (getBit s.core.succ s.core.active) := by
  rw [planStep_eq]
  show (planStepBody env s).1.core.plan = _ ∨ (planStepBody env s).1.core.plan = _ ∨ (planStepBody env s).1.core.plan = _
  unfold planStepBody
  dsimp only
  split
  · split
    · exact Or.inr (Or.inl rfl)
    · split
      · exact Or.inr (Or.inr (firePlan_kept env s.core.plan s []))
      · exact Or.inr (Or.inl rfl)
  · exact Or.inl rfl

/-- the three phases of a cycle -/
def cyclePhases (env : Env) (pre mid post : Method) : Step :=
  modify (fun s => { s with ts := .none }) ⋙
  phase env pre (headFirst pre) ⋙ phase env mid (headFirst mid) ⋙ phase env post (headFirst post)

theorem cycle_eq_phases (env : Env) (pre mid post : Method) :
    cycle env pre mid post = cyclePhases env pre mid post ⋙ (if env.cfg.plans then planStep env else skip) ⋙ processRequest env := rfl

theorem planTrace_phases (env : Env) (pre mid post : Method) : PlanTrace env.cfg.cap (cyclePhases env pre mid post) := by
  unfold cyclePhases
  exact PlanTrace.seq (PlanTrace.seq (PlanTrace.seq (by apply planTrace_modify; intro _; rfl) (planTrace_phase env _ _))
    (planTrace_phase env _ _)) (planTrace_phase env _ _)

theorem stable_phases (env : Env) (pre mid post : Method) : Stable (cyclePhases env pre mid post) := by
  unfold cyclePhases
  exact Stable.seq (Stable.seq (Stable.seq (by apply stable_modify; intro _; exact ⟨rfl, rfl⟩) (stable_phase env _ _))
    (stable_phase env _ _)) (stable_phase env _ _)

/-- **the plan over one `update()` / `react()`**: the call's events split into three runs — before, during and
    after the plan step.  The plan going into the plan step is the plan before the call with user code's edits
    of the first run applied; the plan step leaves it alone, empties it, or removes exactly the tasks `keptOf`
    does not keep *for the state that was active when the call began*; after it only user code's edits of the
    last run apply. -/
theorem cycle_plan (env : Env) (pre mid post : Method) (s : St) :
    ∃ (es1 es2 es3 : List Ev) (q : List Task),
      (cycle env pre mid post s).2 = es1 ++ es2 ++ es3 ∧
      (q = editsPlan env.cfg.cap es1 s.core.plan ∨ q = [] ∨
        ∃ b, q = keptOf (editsPlan env.cfg.cap es1 s.core.plan) s.core.active b) ∧
      (cycle env pre mid post s).1.core.plan = editsPlan env.cfg.cap es3 q := by
  rw [cycle_eq_phases]
  let r1 := cyclePhases env pre mid post s
  let r2 := (if env.cfg.plans then planStep env else skip) r1.1
  let r3 := processRequest env r2.1
  refine ⟨r1.2, r2.2, r3.2, r2.1.core.plan, rfl, ?_, planTrace_processRequest env r2.1⟩
  have h1 : r1.1.core.plan = editsPlan env.cfg.cap r1.2 s.core.plan := planTrace_phases env pre mid post s
  have ha : r1.1.core.active = s.core.active := (stable_phases env pre mid post s).1
  by_cases hp : env.cfg.plans = true
  · have e : r2 = planStep env r1.1 := by simp only [r2, hp, if_true]
    rw [e]
    rcases planStep_plan env r1.1 with h | h | h
    · exact Or.inl (h.trans h1)
    · exact Or.inr (Or.inl h)
    · exact Or.inr (Or.inr ⟨_, by rw [h, h1, ha]⟩)
  · have e : r2 = skip r1.1 := by simp only [r2, hp, if_false, Bool.false_eq_true]
    rw [e]
    exact Or.inl h1

end FFSM2
