import FFSM2.Lemmas.OwnSig
import FFSM2.Lemmas.Processing
import FFSM2.Lemmas.World
/-! Counting guard evaluations on the *event* level: how many times the own `exitGuard` / `entryGuard` of
    any state is delivered within one API call.  Ties the ghost rounds of `substRounds` (C04) to what user
    code can observe, and bounds every call of every history. -/
namespace FFSM2
open Step Ancestors

/-- own-layer guard deliveries, in order -/
def guardSig (es : List Ev) : List (Method × Nat) := (ownSig es).filter (fun x => x.1.isGuard)

@[simp] theorem guardSig_nil : guardSig [] = [] := rfl
@[simp] theorem guardSig_append (a b : List Ev) : guardSig (a ++ b) = guardSig a ++ guardSig b := by
  simp [guardSig, List.filter_append]

theorem guardSig_of_noGuard {es : List Ev} (h : es.filter Ev.isGuard = []) : guardSig es = [] := by
  induction es with
  | nil => rfl
  | cons e es ih =>
    simp only [List.filter_cons] at h
    split at h
    · cases h
    · rename_i hne
      have ih' := ih h
      cases e with
      | cb k v o =>
        simp only [Ev.isGuard] at hne
        show guardSig ([Ev.cb k v o] ++ es) = []
        rw [guardSig_append, ih', List.append_nil]
        simp only [guardSig, ownSig, List.filterMap_cons, List.filterMap_nil, ownSigEv]
        by_cases hl : (k.layer == Layer.own) = true
        · simp [hl, hne]
        · simp [hl]
      | act k a => exact ih'
      | log i r => exact ih'
      | api i o n ob => exact ih'
      | rejected i o n => exact ih'

theorem guardSig_step_of_noGuard {f : Step} (h : NoGuard f) (s : St) : guardSig (f s).2 = [] := guardSig_of_noGuard (h s)

theorem guardSig_deliver (env : Env) (m : Method) (hm : m.isGuard = true) (sid : Nat) (cur pend : Tr) (s : St) :
    guardSig (deliver env m sid cur pend s).2 = [(m, sid)] := by
  simp [guardSig, ownSig_deliver, hm]

theorem guardSig_seq (f g : Step) (s : St) : guardSig ((f ⋙ g) s).2 = guardSig (f s).2 ++ guardSig (g (f s).1).2 := by
  simp [Step.seq]

def countM (m : Method) (l : List (Method × Nat)) : Nat := l.countP (fun x => x.1 == m)

theorem countM_append (m : Method) (a b : List (Method × Nat)) : countM m (a ++ b) = countM m a + countM m b := by
  simp [countM, List.countP_append]

/-- one guard round: exactly one `exitGuard` (of the active state), at most one `entryGuard` -/
theorem guardRound_counts (env : Env) (cur pend : Tr) (s : St) :
    countM .exitGuard (guardSig (guardRound env cur pend s).2) = 1 ∧
    countM .entryGuard (guardSig (guardRound env cur pend s).2) ≤ 1 := by
  let s0 : St := { s with ts := .none, cancelled := false }
  let r1 := deliver env .exitGuard s0.core.active cur pend s0
  have e : (guardRound env cur pend s).2 =
      r1.2 ++ (if r1.1.cancelled then (r1.1, ([] : List Ev)) else deliver env .entryGuard r1.1.core.requested cur pend r1.1).2 := by
    simp only [guardRound, Step.seq, Step.modify, List.nil_append, r1, s0]
    rfl
  rw [e, guardSig_append, guardSig_deliver env .exitGuard rfl, countM_append, countM_append]
  by_cases hc : r1.1.cancelled = true
  · simp [hc, countM]
  · simp only [hc, Bool.false_eq_true, if_false]
    rw [guardSig_deliver env .entryGuard rfl]
    simp [countM]

/-- one activation round: no `exitGuard`, the root's `entryGuard` and at most one state's -/
theorem entryGuardRound_counts (env : Env) (cur pend : Tr) (s : St) :
    countM .exitGuard (guardSig (entryGuardRound env cur pend s).2) = 0 ∧
    countM .entryGuard (guardSig (entryGuardRound env cur pend s).2) ≤ 2 := by
  let s0 : St := { s with ts := .none, cancelled := false }
  let r1 := deliver env .entryGuard 255 cur pend s0
  have e : (entryGuardRound env cur pend s).2 =
      r1.2 ++ (if r1.1.cancelled then (r1.1, ([] : List Ev)) else deliver env .entryGuard r1.1.core.requested cur pend r1.1).2 := by
    simp only [entryGuardRound, Step.seq, Step.modify, List.nil_append, r1, s0]
    rfl
  rw [e, guardSig_append, guardSig_deliver env .entryGuard rfl, countM_append, countM_append]
  by_cases hc : r1.1.cancelled = true
  · simp [hc, countM]
  · simp only [hc, Bool.false_eq_true, if_false]
    rw [guardSig_deliver env .entryGuard rfl]
    simp [countM]

/-- the substitution loop: if every round delivers `a` exit guards and at most `b` entry guards, the loop
    delivers `a` / at most `b` per evaluated round -/
theorem substLoop_guard_counts (round : Tr → Tr → Step) (a b : Nat)
    (P : ∀ c p s, countM .exitGuard (guardSig (round c p s).2) = a ∧ countM .entryGuard (guardSig (round c p s).2) ≤ b) :
    ∀ (fuel : Nat) (cur : Tr) (s : St),
    countM .exitGuard (guardSig (substLoop round fuel cur s).2) = a * (substRounds round fuel cur s).length ∧
    countM .entryGuard (guardSig (substLoop round fuel cur s).2) ≤ b * (substRounds round fuel cur s).length := by
  intro fuel
  induction fuel with
  | zero => intro _ _; exact ⟨by simp [substLoop, substRounds, countM], by simp [substLoop, countM]⟩
  | succ fuel ih =>
    intro cur s
    simp only [substLoop, substRounds]
    split
    · split
      · simp only [guardSig_append, countM_append, List.length_cons, Nat.mul_add, Nat.mul_one]
        refine ⟨?_, ?_⟩
        · rw [(P _ _ _).1, (ih _ _).1]; omega
        · exact Nat.le_trans (Nat.add_le_add (P _ _ _).2 (ih _ _).2) (by omega)
      · exact ih _ _
    · exact ⟨by simp [countM], by simp [countM]⟩

end FFSM2
