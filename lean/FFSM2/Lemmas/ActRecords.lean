import FFSM2.Lemmas.World
import FFSM2.Lemmas.Lifecycle
/-! Action records are faithful: with a logger attached, every request (`changeTo` / `changeWith`), every guard
    cancellation and every task status report user code performs is immediately followed by exactly its record — the
    caller as origin, the requested destination / the reported state — in the order the actions occur.  `AClosed`: an
    automaton over the trace; `LClosed env f`: the step keeps the logger attachment and, when logging is on, its trace is
    accepted.  Records that follow no action (plan firings, requests made from outside) are allowed: the automaton only
    insists that an action's record comes next. -/
namespace FFSM2
open Step Ancestors

/-- the record an action must be followed by (performed by a callback of state `sid`) -/
def actRecord (sid : Nat) : Action → Option LogRec
  | .changeTo d => some (.transition sid d)
  | .changeWith d _ => some (.transition sid d)
  | .cancel => some (.cancelled sid)
  | .succeed id => some (.taskStatus (id.getD sid) true)
  | .fail id => some (.taskStatus (id.getD sid) false)
  | _ => none

abbrev ASt := Option (Nat × LogRec) × Bool

def aStep : ASt → Ev → ASt
  | (some (i, r), ok), .log j r' => (none, ok && i == j && r == r')
  | (some _, _), _ => (none, false)
  | (none, ok), .act k a =>
    match actRecord k.sid a with
    | some r => (some (k.inst, r), ok)
    | none => (none, ok)
  | (none, ok), _ => (none, ok)

def AClosed (es : List Ev) : Prop := es.foldl aStep (none, true) = (none, true)

def Ev.isAct : Ev → Bool
  | .act .. => true
  | _ => false

theorem aclosed_nil : AClosed [] := rfl
theorem aclosed_append {a b : List Ev} (ha : AClosed a) (hb : AClosed b) : AClosed (a ++ b) := by
  unfold AClosed at *; rw [List.foldl_append, ha, hb]

theorem aStep_noAct {e : Ev} (h : e.isAct = false) : aStep (none, true) e = (none, true) := by
  cases e <;> first | rfl | (simp [Ev.isAct] at h)

theorem aclosed_noAct : ∀ {es : List Ev}, (∀ e ∈ es, e.isAct = false) → AClosed es
  | [], _ => rfl
  | e :: es, h => by
    unfold AClosed
    rw [List.foldl_cons, aStep_noAct (h e (by simp))]
    exact aclosed_noAct fun x hx => h x (by simp [hx])

/-- keeps the logger attachment; with logging on and a logger attached, the trace is accepted -/
def LClosed (env : Env) (f : Step) : Prop :=
  ∀ s, (f s).1.core.logger = s.core.logger ∧ (env.cfg.logging = true → s.core.logger = true → AClosed (f s).2)

theorem LClosed.seq {env : Env} {f g : Step} (hf : LClosed env f) (hg : LClosed env g) : LClosed env (f ⋙ g) := by
  intro s
  simp only [Step.seq]
  refine ⟨(hg _).1.trans (hf s).1, fun hl hs => aclosed_append ((hf s).2 hl hs) ((hg _).2 hl ?_)⟩
  rw [(hf s).1]; exact hs

theorem lclosed_skip (env : Env) : LClosed env skip := fun _ => ⟨rfl, fun _ _ => aclosed_nil⟩
theorem lclosed_emit (env : Env) {e : St → List Ev} (h : ∀ s, ∀ x ∈ e s, x.isAct = false) : LClosed env (emit e) :=
  fun s => ⟨rfl, fun _ _ => aclosed_noAct (h s)⟩
theorem lclosed_modify (env : Env) {m : St → St} (h : ∀ s, (m s).core.logger = s.core.logger) : LClosed env (Step.modify m) :=
  fun s => ⟨h s, fun _ _ => aclosed_nil⟩
theorem lclosed_modifyCore (env : Env) {m : Core → Core} (h : ∀ c, (m c).logger = c.logger) : LClosed env (modifyCore m) :=
  fun s => ⟨h _, fun _ _ => aclosed_nil⟩
theorem lclosed_dep {env : Env} {g : St → Step} (h : ∀ s0, LClosed env (g s0)) : LClosed env (fun s => g s s) := fun s => h s s
theorem lclosed_seqList {env : Env} {l : List Step} (h : ∀ f ∈ l, LClosed env f) : LClosed env (seqList l) := by
  induction l with
  | nil => exact lclosed_skip env
  | cons f fs ih => exact LClosed.seq (h f (by simp)) (ih fun g hg => h g (by simp [hg]))

theorem noAct_logEv (env : Env) (c : Core) (r : LogRec) : ∀ e ∈ logEv env c r, e.isAct = false := by
  intro e he
  unfold logEv at he
  split at he
  · simp only [List.mem_singleton] at he; rw [he]; rfl
  · cases he

theorem logEv_on (env : Env) (c : Core) (r : LogRec) (hl : env.cfg.logging = true) (hc : c.logger = true) :
    logEv env c r = [.log env.inst r] := by simp [logEv, hl, hc]

/-- one performed action with its `act` event: followed by exactly its record -/
theorem lclosed_action (env : Env) (sid : Nat) (key : Key) (hk : key.sid = sid) (hi : key.inst = env.inst) (a : Action) :
    LClosed env ((emit fun _ => [Ev.act key a]) ⋙ applyAction env sid a) := by
  intro s
  simp only [Step.seq, emit]
  have hrec : ∀ (r : LogRec), actRecord key.sid a = some r → env.cfg.logging = true → s.core.logger = true →
      AClosed ([Ev.act key a] ++ logEv env s.core r) := by
    intro r hr hl hs
    rw [logEv_on env _ r hl hs]
    unfold AClosed
    simp only [List.cons_append, List.nil_append, List.foldl_cons, List.foldl_nil, aStep, hr, hi, beq_self_eq_true, Bool.and_self]
  cases a with
  | changeTo d => exact ⟨rfl, hrec _ (by rw [hk]; rfl)⟩
  | changeWith d p => exact ⟨rfl, hrec _ (by rw [hk]; rfl)⟩
  | cancel => exact ⟨rfl, hrec _ (by rw [hk]; rfl)⟩
  | succeed id => exact ⟨rfl, hrec _ (by rw [hk]; rfl)⟩
  | fail id => exact ⟨rfl, hrec _ (by rw [hk]; rfl)⟩
  | planAppend o d p =>
    cases p <;> simp only [applyAction] <;> split <;>
      exact ⟨rfl, fun _ _ => by unfold AClosed; simp [aStep, actRecord]⟩
  | planClear => exact ⟨rfl, fun _ _ => by unfold AClosed; simp [applyAction, aStep, actRecord]⟩
  | planRemove m => exact ⟨rfl, fun _ _ => by unfold AClosed; simp [applyAction, aStep, actRecord]⟩

theorem lclosed_runActions (env : Env) (fl : Flavour) (sid : Nat) (key : Key) (hk : key.sid = sid) (hi : key.inst = env.inst) :
    ∀ as : List Action, LClosed env (runActions env fl sid key as)
  | [] => lclosed_skip env
  | a :: as => by
    unfold runActions
    refine LClosed.seq ?_ (lclosed_runActions env fl sid key hk hi as)
    split
    · exact lclosed_action env sid key hk hi a
    · exact lclosed_skip env

theorem lclosed_deliverLayer (env : Env) (m : Method) (sid : Nat) (cur pend : Tr) (layer : Layer) :
    LClosed env (deliverLayer env m sid cur pend layer) := by
  intro s
  rw [deliverLayer_eq]
  have hb : LClosed env (layerBody env m sid cur pend layer (occOf s.seen (m, sid, layer))) := by
    unfold layerBody
    refine LClosed.seq (lclosed_emit env fun _ e he => ?_) ?_
    · simp only [List.mem_singleton] at he; rw [he]; rfl
    · split
      · exact lclosed_runActions env _ sid ⟨env.inst, env.op, _, m, sid, layer⟩ rfl rfl _
      · exact lclosed_skip env
  exact hb _

theorem lclosed_deliver (env : Env) (m : Method) (sid : Nat) (cur pend : Tr) : LClosed env (deliver env m sid cur pend) := by
  unfold deliver
  refine LClosed.seq (lclosed_emit env fun s => ?_) (lclosed_seqList ?_)
  · split
    · exact noAct_logEv env _ _
    · intro e he; cases he
  · intro f hf
    obtain ⟨l, _, rfl⟩ := List.mem_map.mp hf
    exact lclosed_deliverLayer env m sid cur pend l

-- leaves; `by` blocks are elaborated after the expected step is known
local macro "lmc" : term => `((by apply lclosed_modifyCore; intro _; rfl))
local macro "lmd" : term => `((by apply lclosed_modify; intro _; rfl))
local macro "lmcIf" : term => `((by apply lclosed_modifyCore; intro c; split <;> rfl))

theorem clearTaskStatus_logger (cfg : Cfg) (id : Nat) (c : Core) : (clearTaskStatus cfg id c).logger = c.logger := by
  unfold clearTaskStatus; split <;> rfl
theorem applyRequest_logger (cur : Tr) (d : Nat) (c : Core) : (applyRequest cur d c).1.logger = c.logger := by
  unfold applyRequest; split <;> rfl

local macro "lmcClr" : term => `((by apply lclosed_modifyCore; intro c; exact clearTaskStatus_logger _ _ c))
local macro "lmcReq" : term => `((by apply lclosed_modifyCore; intro c; exact applyRequest_logger _ _ c))

theorem lclosed_deepEnter (env : Env) (cur : Tr) : LClosed env (deepEnter env cur) := by
  unfold deepEnter
  exact LClosed.seq (LClosed.seq lmc (lclosed_deliver env .enter _ _ _)) (lclosed_dep fun s0 => lclosed_deliver env .enter _ _ _)

theorem lclosed_deepExit (env : Env) (cur : Tr) : LClosed env (deepExit env cur) := by
  unfold deepExit
  refine LClosed.seq (LClosed.seq (LClosed.seq ?_ (lclosed_deliver env .exit _ _ _)) lmc) lmcIf
  exact lclosed_dep fun s0 => LClosed.seq (lclosed_deliver env .exit _ _ _) lmcClr

theorem lclosed_changeToRequested (env : Env) (cur : Tr) : LClosed env (changeToRequested env cur) := by
  unfold changeToRequested
  intro s
  dsimp only
  split
  · exact (LClosed.seq (LClosed.seq (LClosed.seq (lclosed_deliver env .exit _ _ _) lmcClr) lmc)
      (lclosed_dep fun s0 => lclosed_deliver env .enter _ _ _)) s
  · exact (LClosed.seq lmc (lclosed_deliver env .reenter _ _ _)) s

theorem lclosed_guardRound (env : Env) (cur pend : Tr) : LClosed env (guardRound env cur pend) := by
  unfold guardRound
  refine LClosed.seq (LClosed.seq lmd (lclosed_dep fun s0 => lclosed_deliver env .exitGuard _ _ _)) ?_
  intro s
  dsimp only
  split
  · exact ⟨rfl, fun _ _ => aclosed_nil⟩
  · exact lclosed_deliver env .entryGuard _ _ _ s

theorem lclosed_entryGuardRound (env : Env) (cur pend : Tr) : LClosed env (entryGuardRound env cur pend) := by
  unfold entryGuardRound
  refine LClosed.seq (LClosed.seq lmd (lclosed_deliver env .entryGuard _ _ _)) ?_
  intro s
  dsimp only
  split
  · exact ⟨rfl, fun _ _ => aclosed_nil⟩
  · exact lclosed_deliver env .entryGuard _ _ _ s

theorem lclosed_substLoop (env : Env) (round : Tr → Tr → Step) (hr : ∀ c q, LClosed env (round c q)) :
    ∀ (fuel : Nat) (cur : Tr) (s : St),
      (substLoop round fuel cur s).1.1.core.logger = s.core.logger ∧
      (env.cfg.logging = true → s.core.logger = true → AClosed (substLoop round fuel cur s).2) := by
  intro fuel
  induction fuel with
  | zero => intro _ _; exact ⟨rfl, fun _ _ => aclosed_nil⟩
  | succ fuel ih =>
    intro cur s
    simp only [substLoop]
    split
    · split
      · let s1 : St := { s with core := { (applyRequest cur s.core.request.dest s.core).1 with
            request := (applyRequest cur s.core.request.dest s.core).1.request.clear } }
        have h1 := hr cur s.core.request s1
        have hl0 : s1.core.logger = s.core.logger := applyRequest_logger _ _ _
        have h2 := ih (if (round cur s.core.request s1).1.cancelled then cur else s.core.request) (round cur s.core.request s1).1
        exact ⟨h2.1.trans (h1.1.trans hl0), fun hl hs =>
          aclosed_append (h1.2 hl (hl0.trans hs)) (h2.2 hl (by rw [h1.1, hl0]; exact hs))⟩
      · exact ih _ _
    · exact ⟨rfl, fun _ _ => aclosed_nil⟩

theorem lclosed_applySurvivor (env : Env) (cur : Tr) : LClosed env (applySurvivor env cur) := by
  unfold applySurvivor
  intro s
  dsimp only
  split
  · exact (LClosed.seq lmc (lclosed_changeToRequested env cur)) s
  · exact ⟨rfl, fun _ _ => aclosed_nil⟩

theorem lclosed_finishProcessing (env : Env) (cur : Tr) : LClosed env (finishProcessing env cur) := by
  unfold finishProcessing; exact lmc

theorem lclosed_processRequest (env : Env) : LClosed env (processRequest env) := by
  unfold processRequest
  intro s
  dsimp only
  split
  · have h1 := lclosed_substLoop env _ (lclosed_guardRound env) (substFuel env.cfg.L) {} s
    have h2 := (LClosed.seq (lclosed_applySurvivor env (substLoop (guardRound env) (substFuel env.cfg.L) {} s).1.2)
      (lclosed_finishProcessing env (substLoop (guardRound env) (substFuel env.cfg.L) {} s).1.2)) (substLoop (guardRound env) (substFuel env.cfg.L) {} s).1.1
    refine ⟨h2.1.trans h1.1, fun hl hs => aclosed_append (h1.2 hl hs) (h2.2 hl ?_)⟩
    rw [h1.1]; exact hs
  · exact lclosed_finishProcessing env _ s

theorem lclosed_enterSurvivor (env : Env) (cur : Tr) : LClosed env (enterSurvivor env cur) := by
  unfold enterSurvivor
  exact LClosed.seq (LClosed.seq lmc (lclosed_deepEnter env cur)) lmc

theorem lclosed_initialEnter (env : Env) : LClosed env (initialEnter env) := by
  unfold initialEnter
  intro s
  dsimp only
  have hl0 : ({ s with core := (applyRequest {} 0 s.core).1 } : St).core.logger = s.core.logger := applyRequest_logger _ _ _
  have h0 := lclosed_entryGuardRound env {} {} { s with core := (applyRequest {} 0 s.core).1 }
  have h1 := lclosed_substLoop env _ (lclosed_entryGuardRound env) (substFuel env.cfg.L) {}
    (entryGuardRound env {} {} { s with core := (applyRequest {} 0 s.core).1 }).1
  have h2 := lclosed_enterSurvivor env
    (substLoop (entryGuardRound env) (substFuel env.cfg.L) {} (entryGuardRound env {} {} { s with core := (applyRequest {} 0 s.core).1 }).1).1.2
    (substLoop (entryGuardRound env) (substFuel env.cfg.L) {} (entryGuardRound env {} {} { s with core := (applyRequest {} 0 s.core).1 }).1).1.1
  refine ⟨h2.1.trans (h1.1.trans (h0.1.trans hl0)), fun hl hs => ?_⟩
  have e0 := h0.2 hl (hl0.trans hs)
  have e1 := h1.2 hl (by rw [h0.1, hl0]; exact hs)
  have e2 := h2.2 hl (by rw [h1.1, h0.1, hl0]; exact hs)
  exact aclosed_append (aclosed_append e0 e1) e2

theorem planDataClear_logger (c : Core) : (planDataClear c).logger = c.logger := rfl

theorem lclosed_finalExit (env : Env) : LClosed env (finalExit env) := by
  unfold finalExit
  refine LClosed.seq (lclosed_deepExit env {}) ?_
  apply lclosed_modifyCore
  intro c
  dsimp only
  split <;> split <;> rfl

theorem lclosed_phase (env : Env) (m : Method) (hf : Bool) : LClosed env (phase env m hf) := by
  unfold phase
  intro s
  dsimp only
  have hsub : LClosed env (deliver env m s.core.active {} {} ⋙
      modify (fun s => { s with core := { s.core with subStatus := s.core.subStatus.or s.ts } })) :=
    LClosed.seq (lclosed_deliver _ _ _ _ _) lmd
  have hhead : LClosed env (deliver env m 255 {} {}) := lclosed_deliver _ _ _ _ _
  have hreset : LClosed env (modify (fun s => { s with ts := Status.none })) := lmd
  split
  · exact (LClosed.seq (LClosed.seq hhead hsub) hreset) s
  · exact (LClosed.seq (LClosed.seq hsub hhead) hreset) s

theorem firePlan_logger (env : Env) : ∀ (tasks : List Task) (s : St) (clr : List Nat),
    (firePlan env tasks s clr).1.1.core.logger = s.core.logger ∧ ∀ e ∈ (firePlan env tasks s clr).2, e.isAct = false := by
  intro tasks
  induction tasks with
  | nil => intro s clr; exact ⟨rfl, fun e he => by cases he⟩
  | cons t ts ih =>
    intro s clr
    simp only [firePlan]
    split
    · split
      · have h := ih
          { s with core := (if (t.origin == t.dest) = true then
              { ({ s.core with request := ⟨t.origin, t.dest, t.payload⟩ } : Core) with
                succ := setBit ({ s.core with request := ⟨t.origin, t.dest, t.payload⟩ } : Core).succ t.origin false }
            else { s.core with request := ⟨t.origin, t.dest, t.payload⟩ }) }
          (if (t.origin == t.dest) = true then clr else t.origin :: clr)
        refine ⟨?_, fun e he => ?_⟩
        · rw [h.1]; split <;> rfl
        · rcases List.mem_append.mp he with he | he
          · exact noAct_logEv env _ _ e he
          · exact h.2 e he
      · exact ih s clr
    · exact ⟨rfl, fun e he => by cases he⟩

theorem lclosed_planStep (env : Env) : LClosed env (planStep env) := by
  unfold planStep
  intro s
  dsimp only
  have hfail : LClosed env (modify (fun s => { s with ts := Status.failure }) ⋙ deliver env .planFailed 255 {} {} ⋙
      modifyCore planClearCore) := LClosed.seq (LClosed.seq lmd (lclosed_deliver env _ _ _ _)) lmc
  have hsucc : LClosed env (modify (fun s => { s with ts := Status.success }) ⋙ deliver env .planSucceeded 255 {} {} ⋙
      modifyCore planClearCore) := LClosed.seq (LClosed.seq lmd (lclosed_deliver env _ _ _ _)) lmc
  split
  · split
    · exact ⟨(hfail s).1, (hfail s).2⟩
    · split
      · have h := firePlan_logger env s.core.plan s []
        exact ⟨h.1, fun _ _ => aclosed_noAct h.2⟩
      · exact ⟨(hsucc s).1, (hsucc s).2⟩
  · exact ⟨rfl, fun _ _ => aclosed_nil⟩

theorem lclosed_cycle (env : Env) (pre mid post : Method) : LClosed env (cycle env pre mid post) := by
  unfold cycle
  refine LClosed.seq (LClosed.seq (LClosed.seq (LClosed.seq (LClosed.seq lmd (lclosed_phase env _ _))
    (lclosed_phase env _ _)) (lclosed_phase env _ _)) ?_) (lclosed_processRequest env)
  split
  · exact lclosed_planStep env
  · exact lclosed_skip env

theorem lclosed_query (env : Env) : LClosed env (query env) := by
  unfold query
  generalize headFirst Method.query = hfq
  cases hfq <;> simp only [if_true, if_false, Bool.false_eq_true] <;>
  exact lclosed_dep fun s0 => LClosed.seq (lclosed_deliver env .query _ {} {}) (lclosed_deliver env .query _ {} {})

theorem lclosed_extChange (env : Env) (d : Nat) (q : Option Nat) : LClosed env (extChange env d q) := fun s =>
  ⟨rfl, fun _ _ => aclosed_noAct (noAct_logEv env _ _)⟩

theorem lclosed_extStatus (env : Env) (id : Nat) (ok : Bool) : LClosed env (extStatus env id ok) := fun s =>
  ⟨by simp only [extStatus]; cases ok <;> rfl, fun _ _ => aclosed_noAct (noAct_logEv env _ _)⟩

theorem lclosed_replayTransition (env : Env) (d : Nat) : LClosed env (replayTransition env d) := by
  unfold replayTransition
  exact LClosed.seq (LClosed.seq (LClosed.seq lmc lmcReq) (lclosed_changeToRequested env {})) lmc

theorem lclosed_replayEnter (env : Env) (d : Nat) : LClosed env (replayEnter env d) := by
  unfold replayEnter
  exact LClosed.seq (LClosed.seq lmcReq (lclosed_deepEnter env {})) lmc

theorem lclosed_loadActive (env : Env) (r : Nat) : LClosed env (loadActive env r) := by
  unfold loadActive
  refine LClosed.seq ?_ (lclosed_changeToRequested env {})
  apply lclosed_modifyCore
  intro c
  dsimp only
  split <;> split <;> rfl

theorem lclosed_load (env : Env) (buf : List Nat) : LClosed env (load env buf) := by
  unfold load
  intro s
  dsimp only
  split
  · split
    · exact lclosed_loadActive env _ s
    · split
      · exact (LClosed.seq lmc (lclosed_deepEnter env {})) s
      · exact ⟨rfl, fun _ _ => aclosed_nil⟩
  · split
    · exact lclosed_finalExit env s
    · exact ⟨rfl, fun _ _ => aclosed_nil⟩

end FFSM2
