import FFSM2.Lemmas.Steps
import FFSM2.Lemmas.World
/-!
# Log-blindness of the switches: compiling LOG_INTERFACE / VERBOSE_DEBUG_LOG in or out changes nothing for a program
# that never attaches a logger

`cfgL l v cfg` is `cfg` with the two logging switches set to `l` / `v`.  `QB f f'`: from every state without a logger,
`f'` (switches changed) does exactly what `f` does, and no logger appears.  (What an attached logger changes is
`Lemmas/Blind.lean`: log records only.)
-/
namespace FFSM2
open Step Ancestors

def cfgL (l v : Bool) (cfg : Cfg) : Cfg := { cfg with logging := l, verbose := v }
def envL (l v : Bool) (env : Env) : Env := { env with cfg := cfgL l v env.cfg }

def QB (f f' : Step) : Prop := ∀ s, s.core.logger = false → f' s = f s ∧ (f s).1.core.logger = false

theorem QB.seq {f g f' g' : Step} (hf : QB f f') (hg : QB g g') : QB (f ⋙ g) (f' ⋙ g') := by
  intro s hs
  obtain ⟨f1, f2⟩ := hf s hs
  obtain ⟨g1, g2⟩ := hg (f s).1 f2
  simp only [Step.seq]
  rw [f1, g1]
  exact ⟨rfl, g2⟩

theorem qb_skip : QB skip skip := fun _ hs => ⟨rfl, hs⟩
theorem qb_modify {m : St → St} (h : ∀ s, (m s).core.logger = s.core.logger) : QB (Step.modify m) (Step.modify m) :=
  fun s hs => ⟨rfl, by show (m s).core.logger = false; rw [h]; exact hs⟩
theorem qb_modifyCore {m : Core → Core} (h : ∀ c, (m c).logger = c.logger) : QB (modifyCore m) (modifyCore m) :=
  fun s hs => ⟨rfl, by show (m s.core).logger = false; rw [h]; exact hs⟩
theorem qb_emit {e e' : St → List Ev} (h : ∀ s, s.core.logger = false → e' s = e s) : QB (emit e) (emit e') :=
  fun s hs => ⟨by simp only [emit, h s hs], hs⟩
theorem qb_dep {g g' : St → Step} (hg : ∀ s0, QB (g s0) (g' s0)) : QB (fun s => g s s) (fun s => g' s s) :=
  fun s hs => hg s s hs
theorem qb_seqList_map {α : Type} (l : List α) (g g' : α → Step) (h : ∀ x ∈ l, QB (g x) (g' x)) :
    QB (seqList (l.map g)) (seqList (l.map g')) := by
  induction l with
  | nil => exact qb_skip
  | cons x xs ih =>
    simp only [List.map_cons, seqList]
    exact QB.seq (h x (by simp)) (ih fun y hy => h y (by simp [hy]))

theorem logEv_nologger (env : Env) (c : Core) (r : LogRec) (h : c.logger = false) : logEv env c r = [] := by
  simp [logEv, h]

/-! ### deliveries -/

theorem permitted_L (l v : Bool) (env : Env) (fl : Flavour) (sid : Nat) (a : Action) :
    permitted (envL l v env).cfg fl sid a = permitted env.cfg fl sid a := by
  cases a <;> rfl

theorem qb_applyAction (l v : Bool) (env : Env) (sid : Nat) (a : Action) :
    QB (applyAction env sid a) (applyAction (envL l v env) sid a) := by
  intro s hs
  have hl : ∀ (e : Env) r, logEv e s.core r = [] := fun e r => logEv_nologger e s.core r hs
  cases a with
  | planAppend o d p =>
    cases p <;> by_cases h : s.core.plan.length < env.cfg.cap <;>
      (have hc : (envL l v env).cfg.cap = env.cfg.cap := rfl) <;> simp [applyAction, h, hc, hs]
  | planClear => exact ⟨rfl, hs⟩
  | planRemove m => exact ⟨rfl, hs⟩
  | changeTo d => exact ⟨by simp only [applyAction, hl], hs⟩
  | changeWith d p => exact ⟨by simp only [applyAction, hl], hs⟩
  | cancel => exact ⟨by simp only [applyAction, hl], hs⟩
  | succeed id => exact ⟨by simp only [applyAction, hl], hs⟩
  | fail id => exact ⟨by simp only [applyAction, hl], hs⟩

theorem qb_runActions (l v : Bool) (env : Env) (fl : Flavour) (sid : Nat) (key : Key) :
    ∀ as : List Action, QB (runActions env fl sid key as) (runActions (envL l v env) fl sid key as)
  | [] => qb_skip
  | a :: as => by
    simp only [runActions]
    rw [permitted_L l v env fl sid a]
    refine QB.seq ?_ (qb_runActions l v env fl sid key as)
    split
    · exact QB.seq (qb_emit fun _ _ => rfl) (qb_applyAction l v env sid a)
    · exact qb_skip

theorem qb_layerBody (l v : Bool) (env : Env) (m : Method) (sid : Nat) (cur pend : Tr) (layer : Layer) (occ : Nat) :
    QB (layerBody env m sid cur pend layer occ) (layerBody (envL l v env) m sid cur pend layer occ) := by
  unfold layerBody
  refine QB.seq (qb_emit fun _ _ => rfl) ?_
  have ho : observable (envL l v env).cfg sid m layer = observable env.cfg sid m layer := rfl
  rw [ho]
  split
  · exact qb_runActions l v env _ sid _ _
  · exact qb_skip

theorem qb_deliverLayer (l v : Bool) (env : Env) (m : Method) (sid : Nat) (cur pend : Tr) (layer : Layer) :
    QB (deliverLayer env m sid cur pend layer) (deliverLayer (envL l v env) m sid cur pend layer) := by
  intro s hs
  rw [deliverLayer_eq, deliverLayer_eq]
  exact qb_layerBody l v env m sid cur pend layer _ { s with seen := (m, sid, layer) :: s.seen } hs

theorem qb_deliver (l v : Bool) (env : Env) (m : Method) (sid : Nat) (cur pend : Tr) :
    QB (deliver env m sid cur pend) (deliver (envL l v env) m sid cur pend) := by
  unfold deliver
  refine QB.seq (qb_emit fun s hs => ?_) ?_
  · rw [logEv_nologger _ _ _ hs, logEv_nologger _ _ _ hs]
    simp
  · have hi : (envL l v env).cfg.injections sid = env.cfg.injections sid := rfl
    rw [hi]
    exact qb_seqList_map _ _ _ fun la _ => qb_deliverLayer l v env m sid cur pend la

/-! ### lifecycle, guards, the substitution loop -/

theorem clearTaskStatus_logger (cfg : Cfg) (id : Nat) (c : Core) : (clearTaskStatus cfg id c).logger = c.logger := by
  unfold clearTaskStatus; split <;> rfl

theorem qb_clearTaskStatus (l v : Bool) (env : Env) (id : Nat) :
    QB (modifyCore (clearTaskStatus env.cfg id)) (modifyCore (clearTaskStatus (envL l v env).cfg id)) := by
  have : clearTaskStatus (envL l v env).cfg id = clearTaskStatus env.cfg id := rfl
  rw [this]
  exact qb_modifyCore (clearTaskStatus_logger env.cfg id)

theorem qb_changeToRequested (l v : Bool) (env : Env) (cur : Tr) :
    QB (changeToRequested env cur) (changeToRequested (envL l v env) cur) := by
  unfold changeToRequested
  intro s hs
  dsimp only
  by_cases h : (s.core.requested != s.core.active) = true <;> simp only [h, Bool.false_eq_true, ↓reduceIte]
  · exact (QB.seq (QB.seq (QB.seq (qb_deliver l v env .exit _ cur {}) (qb_clearTaskStatus l v env _))
      (qb_modifyCore (m := fun c => { c with active := c.requested, requested := 255 }) fun _ => rfl))
      (qb_dep (g := fun s0 => deliver env .enter s0.core.active cur {}) (g' := fun s0 => deliver (envL l v env) .enter s0.core.active cur {})
        fun s0 => qb_deliver l v env .enter _ cur {})) s hs
  · exact (QB.seq (qb_modifyCore (m := fun c => { c with requested := 255 }) fun _ => rfl) (qb_deliver l v env .reenter _ cur {})) s hs

theorem qb_deepEnter (l v : Bool) (env : Env) (cur : Tr) : QB (deepEnter env cur) (deepEnter (envL l v env) cur) := by
  unfold deepEnter
  exact QB.seq (QB.seq (qb_modifyCore (m := fun c => { c with active := c.requested, requested := 255 }) fun _ => rfl)
    (qb_deliver l v env .enter 255 cur {}))
    (qb_dep (g := fun s0 => deliver env .enter s0.core.active cur {}) (g' := fun s0 => deliver (envL l v env) .enter s0.core.active cur {})
      fun s0 => qb_deliver l v env .enter _ cur {})

theorem qb_deepExit (l v : Bool) (env : Env) (cur : Tr) : QB (deepExit env cur) (deepExit (envL l v env) cur) := by
  unfold deepExit
  have hp : (envL l v env).cfg.plans = env.cfg.plans := rfl
  rw [hp]
  refine QB.seq (QB.seq (QB.seq ?_ (qb_deliver l v env .exit 255 cur {}))
    (qb_modifyCore (m := fun c => { c with active := 255 }) fun _ => rfl))
    (qb_modifyCore (m := fun c => if env.cfg.plans then planClearCore c else c) fun c => by split <;> rfl)
  exact qb_dep (g := fun s0 => deliver env .exit s0.core.active cur {} ⋙ modifyCore (clearTaskStatus env.cfg s0.core.active))
    (g' := fun s0 => deliver (envL l v env) .exit s0.core.active cur {} ⋙ modifyCore (clearTaskStatus (envL l v env).cfg s0.core.active))
    fun s0 => QB.seq (qb_deliver l v env .exit _ cur {}) (qb_clearTaskStatus l v env _)

theorem qb_guardRound (l v : Bool) (env : Env) (cur pend : Tr) :
    QB (guardRound env cur pend) (guardRound (envL l v env) cur pend) := by
  unfold guardRound
  refine QB.seq (QB.seq (qb_modify (m := fun s => { s with ts := .none, cancelled := false }) fun _ => rfl)
    (qb_dep (g := fun s0 => deliver env .exitGuard s0.core.active cur pend)
      (g' := fun s0 => deliver (envL l v env) .exitGuard s0.core.active cur pend) fun s0 => qb_deliver l v env .exitGuard _ cur pend)) ?_
  intro s hs
  dsimp only
  by_cases h : s.cancelled = true <;> simp only [h, Bool.false_eq_true, ↓reduceIte]
  · exact ⟨trivial, hs⟩
  · exact qb_deliver l v env .entryGuard _ cur pend s hs

theorem qb_entryGuardRound (l v : Bool) (env : Env) (cur pend : Tr) :
    QB (entryGuardRound env cur pend) (entryGuardRound (envL l v env) cur pend) := by
  unfold entryGuardRound
  refine QB.seq (QB.seq (qb_modify (m := fun s => { s with ts := .none, cancelled := false }) fun _ => rfl)
    (qb_deliver l v env .entryGuard 255 cur pend)) ?_
  intro s hs
  dsimp only
  by_cases h : s.cancelled = true <;> simp only [h, Bool.false_eq_true, ↓reduceIte]
  · exact ⟨trivial, hs⟩
  · exact qb_deliver l v env .entryGuard _ cur pend s hs

theorem applyRequest_logger (cur : Tr) (d : Nat) (c : Core) : (applyRequest cur d c).1.logger = c.logger := by
  unfold applyRequest; split <;> rfl

theorem qb_substLoop (round round' : Tr → Tr → Step) (hr : ∀ c p, QB (round c p) (round' c p)) :
    ∀ (fuel : Nat) (cur : Tr) (s : St), s.core.logger = false →
      substLoop round' fuel cur s = substLoop round fuel cur s ∧ (substLoop round fuel cur s).1.1.core.logger = false := by
  intro fuel
  induction fuel with
  | zero => intro cur s hs; exact ⟨rfl, hs⟩
  | succ fuel ih =>
    intro cur s hs
    simp only [substLoop]
    split
    · split
      · have hs1 : ({ s with core := { (applyRequest cur s.core.request.dest s.core).1 with
            request := (applyRequest cur s.core.request.dest s.core).1.request.clear } } : St).core.logger = false := by
          show (applyRequest cur s.core.request.dest s.core).1.logger = false
          rw [applyRequest_logger]; exact hs
        obtain ⟨r1, r2⟩ := hr cur s.core.request _ hs1
        rw [r1]
        obtain ⟨i1, i2⟩ := ih (if (round cur s.core.request { s with core := { (applyRequest cur s.core.request.dest s.core).1 with
            request := (applyRequest cur s.core.request.dest s.core).1.request.clear } }).1.cancelled then cur else s.core.request) _ r2
        rw [i1]
        exact ⟨rfl, i2⟩
      · exact ih cur _ hs
    · exact ⟨rfl, hs⟩

theorem qb_applySurvivor (l v : Bool) (env : Env) (cur : Tr) :
    QB (applySurvivor env cur) (applySurvivor (envL l v env) cur) := by
  unfold applySurvivor
  intro s hs
  split
  · exact (QB.seq (qb_modifyCore (m := fun c => { c with requested := cur.dest }) fun _ => rfl)
      (qb_changeToRequested l v env cur)) s hs
  · exact ⟨rfl, hs⟩

theorem qb_finishProcessing (l v : Bool) (env : Env) (cur : Tr) :
    QB (finishProcessing env cur) (finishProcessing (envL l v env) cur) := by
  unfold finishProcessing
  exact qb_modifyCore fun _ => rfl

theorem qb_processRequest (l v : Bool) (env : Env) : QB (processRequest env) (processRequest (envL l v env)) := by
  intro s hs
  unfold processRequest
  have hL : (envL l v env).cfg.L = env.cfg.L := rfl
  simp only [hL]
  split
  · obtain ⟨l1, l2⟩ := qb_substLoop (guardRound env) (guardRound (envL l v env)) (qb_guardRound l v env) (substFuel env.cfg.L) {} s hs
    rw [l1]
    obtain ⟨a1, a2⟩ := (QB.seq (qb_applySurvivor l v env (substLoop (guardRound env) (substFuel env.cfg.L) {} s).1.2)
      (qb_finishProcessing l v env (substLoop (guardRound env) (substFuel env.cfg.L) {} s).1.2))
      (substLoop (guardRound env) (substFuel env.cfg.L) {} s).1.1 l2
    rw [a1]
    exact ⟨rfl, a2⟩
  · exact qb_finishProcessing l v env {} s hs

theorem qb_enterSurvivor (l v : Bool) (env : Env) (cur : Tr) :
    QB (enterSurvivor env cur) (enterSurvivor (envL l v env) cur) := by
  unfold enterSurvivor
  exact QB.seq (QB.seq (qb_modifyCore fun _ => rfl) (qb_deepEnter l v env cur))
    (qb_modifyCore (m := fun c => { c with requested := 255 }) fun _ => rfl)

theorem qb_initialEnter (l v : Bool) (env : Env) : QB (initialEnter env) (initialEnter (envL l v env)) := by
  intro s hs
  unfold initialEnter
  have hL : (envL l v env).cfg.L = env.cfg.L := rfl
  simp only [hL]
  have hs0 : ({ s with core := (applyRequest {} 0 s.core).1 } : St).core.logger = false := by
    show (applyRequest {} 0 s.core).1.logger = false
    rw [applyRequest_logger]; exact hs
  obtain ⟨e1, e2⟩ := qb_entryGuardRound l v env {} {} _ hs0
  rw [e1]
  obtain ⟨l1, l2⟩ := qb_substLoop (entryGuardRound env) (entryGuardRound (envL l v env)) (qb_entryGuardRound l v env)
    (substFuel env.cfg.L) {} _ e2
  rw [l1]
  obtain ⟨a1, a2⟩ := qb_enterSurvivor l v env
    (substLoop (entryGuardRound env) (substFuel env.cfg.L) {} (entryGuardRound env {} {} { s with core := (applyRequest {} 0 s.core).1 }).1).1.2 _ l2
  rw [a1]
  exact ⟨rfl, a2⟩

theorem qb_finalExit (l v : Bool) (env : Env) : QB (finalExit env) (finalExit (envL l v env)) := by
  unfold finalExit
  have hp : (envL l v env).cfg.plans = env.cfg.plans := rfl
  have hh : (envL l v env).cfg.history = env.cfg.history := rfl
  rw [hp, hh]
  refine QB.seq (qb_deepExit l v env {}) (qb_modifyCore fun c => ?_)
  cases env.cfg.plans <;> cases env.cfg.history <;> rfl

/-! ### cycles -/

theorem qb_phase (l v : Bool) (env : Env) (m : Method) (hf : Bool) : QB (phase env m hf) (phase (envL l v env) m hf) := by
  unfold phase
  intro s hs
  have hsub : QB (deliver env m s.core.active {} {} ⋙
      Step.modify (fun s => { s with core := { s.core with subStatus := s.core.subStatus.or s.ts } }))
      (deliver (envL l v env) m s.core.active {} {} ⋙
      Step.modify (fun s => { s with core := { s.core with subStatus := s.core.subStatus.or s.ts } })) :=
    QB.seq (qb_deliver l v env _ _ _ _) (qb_modify fun _ => rfl)
  have hhead : QB (deliver env m 255 {} {}) (deliver (envL l v env) m 255 {} {}) := qb_deliver l v env _ _ _ _
  have hreset : QB (Step.modify (fun s => { s with ts := Status.none })) (Step.modify (fun s => { s with ts := Status.none })) :=
    qb_modify fun _ => rfl
  dsimp only
  split
  · exact (QB.seq (QB.seq hhead hsub) hreset) s hs
  · exact (QB.seq (QB.seq hsub hhead) hreset) s hs

theorem qb_firePlan (l v : Bool) (env : Env) : ∀ (tasks : List Task) (s : St) (clr : List Nat), s.core.logger = false →
    firePlan (envL l v env) tasks s clr = firePlan env tasks s clr ∧ (firePlan env tasks s clr).1.1.core.logger = false := by
  intro tasks
  induction tasks with
  | nil => intro s clr hs; exact ⟨rfl, hs⟩
  | cons t ts ih =>
    intro s clr hs
    simp only [firePlan]
    have hl : ∀ (e : Env) r, logEv e s.core r = [] := fun e r => logEv_nologger e s.core r hs
    simp only [hl]
    split
    · split
      · by_cases hcyc : (t.origin == t.dest) = true
        · simp only [hcyc, if_true]
          obtain ⟨i1, i2⟩ := ih { s with core := { ({ s.core with request := ⟨t.origin, t.dest, t.payload⟩ } : Core) with
              succ := setBit s.core.succ t.origin false } } clr hs
          rw [i1]; exact ⟨rfl, i2⟩
        · have hcyc' : (t.origin == t.dest) = false := by simpa using hcyc
          simp only [hcyc', Bool.false_eq_true, if_false]
          obtain ⟨i1, i2⟩ := ih { s with core := { s.core with request := ⟨t.origin, t.dest, t.payload⟩ } } (t.origin :: clr) hs
          rw [i1]; exact ⟨rfl, i2⟩
      · obtain ⟨i1, i2⟩ := ih s clr hs
        rw [i1]; exact ⟨rfl, i2⟩
    · exact ⟨rfl, hs⟩

theorem qb_planStep (l v : Bool) (env : Env) : QB (planStep env) (planStep (envL l v env)) := by
  intro s hs
  unfold planStep
  have hfail : QB (Step.modify (fun s => { s with ts := Status.failure }) ⋙ deliver env .planFailed 255 {} {} ⋙
      modifyCore planClearCore) (Step.modify (fun s => { s with ts := Status.failure }) ⋙ deliver (envL l v env) .planFailed 255 {} {} ⋙
      modifyCore planClearCore) :=
    QB.seq (QB.seq (qb_modify fun _ => rfl) (qb_deliver l v env _ _ _ _)) (qb_modifyCore fun _ => rfl)
  have hsucc : QB (Step.modify (fun s => { s with ts := Status.success }) ⋙ deliver env .planSucceeded 255 {} {} ⋙
      modifyCore planClearCore) (Step.modify (fun s => { s with ts := Status.success }) ⋙ deliver (envL l v env) .planSucceeded 255 {} {} ⋙
      modifyCore planClearCore) :=
    QB.seq (QB.seq (qb_modify fun _ => rfl) (qb_deliver l v env _ _ _ _)) (qb_modifyCore fun _ => rfl)
  dsimp only
  split
  · split
    · obtain ⟨a, b⟩ := hfail s hs
      rw [a]; exact ⟨rfl, b⟩
    · split
      · obtain ⟨f1, f2⟩ := qb_firePlan l v env s.core.plan s [] hs
        rw [f1]; exact ⟨rfl, f2⟩
      · obtain ⟨a, b⟩ := hsucc s hs
        rw [a]; exact ⟨rfl, b⟩
  · exact ⟨rfl, hs⟩

theorem qb_cycle (l v : Bool) (env : Env) (pre mid post : Method) :
    QB (cycle env pre mid post) (cycle (envL l v env) pre mid post) := by
  unfold cycle
  have hp : (envL l v env).cfg.plans = env.cfg.plans := rfl
  rw [hp]
  refine QB.seq (QB.seq (QB.seq (QB.seq (QB.seq (qb_modify fun _ => rfl) (qb_phase l v env _ _)) (qb_phase l v env _ _))
    (qb_phase l v env _ _)) ?_) (qb_processRequest l v env)
  split
  · exact qb_planStep l v env
  · exact qb_skip

theorem qb_query (l v : Bool) (env : Env) : QB (query env) (query (envL l v env)) := by
  unfold query
  intro s hs
  generalize headFirst Method.query = hfq
  cases hfq <;> simp only [if_true, if_false, Bool.false_eq_true]
  · exact (QB.seq (qb_deliver l v env .query s.core.active {} {}) (qb_deliver l v env .query 255 {} {})) s hs
  · exact (QB.seq (qb_deliver l v env .query 255 {} {}) (qb_deliver l v env .query s.core.active {} {})) s hs

theorem qb_extChange (l v : Bool) (env : Env) (d : Nat) (p : Option Nat) : QB (extChange env d p) (extChange (envL l v env) d p) := by
  intro s hs
  exact ⟨by simp only [extChange, logEv_nologger _ _ _ hs], hs⟩

theorem qb_extStatus (l v : Bool) (env : Env) (id : Nat) (ok : Bool) : QB (extStatus env id ok) (extStatus (envL l v env) id ok) := by
  intro s hs
  refine ⟨by simp only [extStatus, logEv_nologger _ _ _ hs], ?_⟩
  cases ok <;> exact hs

theorem qb_replayTransition (l v : Bool) (env : Env) (d : Nat) :
    QB (replayTransition env d) (replayTransition (envL l v env) d) := by
  unfold replayTransition
  refine QB.seq (QB.seq (QB.seq (qb_modifyCore fun _ => rfl) (qb_modifyCore fun c => ?_)) (qb_changeToRequested l v env {}))
    (qb_modifyCore (m := fun c => { c with requested := 255 }) fun _ => rfl)
  exact applyRequest_logger {} d c

theorem qb_replayEnter (l v : Bool) (env : Env) (d : Nat) : QB (replayEnter env d) (replayEnter (envL l v env) d) := by
  unfold replayEnter
  refine QB.seq (QB.seq (qb_modifyCore fun c => ?_) (qb_deepEnter l v env {})) (qb_modifyCore (m := fun c => { c with requested := 255 }) fun _ => rfl)
  exact applyRequest_logger {} d c

theorem qb_loadActive (l v : Bool) (env : Env) (r : Nat) : QB (loadActive env r) (loadActive (envL l v env) r) := by
  unfold loadActive
  have hp : (envL l v env).cfg.plans = env.cfg.plans := rfl
  have hh : (envL l v env).cfg.history = env.cfg.history := rfl
  rw [hp, hh]
  refine QB.seq (qb_modifyCore fun c => ?_) (qb_changeToRequested l v env {})
  cases env.cfg.plans <;> cases env.cfg.history <;> rfl

theorem qb_load (l v : Bool) (env : Env) (buf : List Nat) : QB (load env buf) (load (envL l v env) buf) := by
  intro s hs
  unfold load
  have hn : (envL l v env).cfg.n = env.cfg.n := rfl
  have hm : (envL l v env).cfg.manual = env.cfg.manual := rfl
  simp only [hn, hm]
  split
  · split
    · exact qb_loadActive l v env _ s hs
    · split
      · exact (QB.seq (qb_modifyCore (m := fun c => { c with requested := (BitStream.read (Gen.widthBits env.cfg.n) buf (BitStream.read 1 buf 0).2).1 }) fun _ => rfl)
          (qb_deepEnter l v env {})) s hs
      · exact ⟨rfl, hs⟩
  · split
    · exact qb_finalExit l v env s hs
    · exact ⟨rfl, hs⟩

end FFSM2
