import FFSM2.Lemmas.Blind
import FFSM2.Lemmas.World
/-! Logger-blindness lifted from API bodies (`Blind`) to whole histories: running a history commutes with
    erasing every logger — in the world and in the calls that attach one. -/
namespace FFSM2
open Step

/-- the world with every logger erased -/
def stripW (w : World) : World := w.map (Option.map strip)

/-- the same call, but never attaching a logger -/
def Op.quiet : Op → Op
  | .construct i _ => .construct i false
  | .attachLogger i _ => .attachLogger i false
  | op => op

theorem stripW_get (w : World) (i : Nat) : (stripW w).get i = (w.get i).map strip := by
  unfold stripW World.get
  rw [List.getD_eq_getElem?_getD, List.getD_eq_getElem?_getD, List.getElem?_map]
  cases w[i]? <;> rfl

theorem stripW_put (w : World) (i : Nat) (c : Option Core) : stripW (w.put i c) = (stripW w).put i (c.map strip) := by
  unfold stripW World.put
  rw [List.map_set, List.length_map]
  split
  · rfl
  · rw [List.map_append, List.map_replicate]; rfl

theorem strip_strip (c : Core) : strip (strip c) = strip c := rfl

theorem apiObs_strip (cfg : Cfg) (c : Core) (ret : Option Bool) (bytes : Option (List Nat)) :
    apiObs cfg (strip c) ret bytes = apiObs cfg c ret bytes := rfl

theorem save_strip (cfg : Cfg) (c : Core) : save cfg (strip c) = save cfg c := rfl

theorem nolog_api (i k : Nat) (name : String) (o : ApiObs) : nolog [Ev.api i k name o] = [Ev.api i k name o] := rfl

/-- a blind body run through `onCore` on the stripped world gives the stripped result and the same
    trace up to log records -/
theorem onCore_blind (cfg : Cfg) (w : World) (i k : Nat) (name : String) (c : Core) {f : Step} (hf : Blind f)
    (ret : Core → Option Bool) (hret : ∀ c, ret (strip c) = ret c) :
    (onCore cfg (stripW w) i k name (strip c) f ret).1 = stripW (onCore cfg w i k name c f ret).1 ∧
    nolog (onCore cfg (stripW w) i k name (strip c) f ret).2 = nolog (onCore cfg w i k name c f ret).2 := by
  obtain ⟨h1, h2⟩ := hf { core := c }
  have h1' : (f { core := strip c }).1 = stripSt (f { core := c }).1 := h1
  have h2' : nolog (f { core := strip c }).2 = nolog (f { core := c }).2 := h2
  rw [onCore_fst, onCore_fst, onCore_snd, onCore_snd, stripW_put, nolog_append, nolog_append, h2', h1']
  refine ⟨rfl, ?_⟩
  show _ ++ nolog [Ev.api i k name (apiObs cfg (strip (f { core := c }).1.core) (ret (strip (f { core := c }).1.core)))] = _
  rw [apiObs_strip, hret]

theorem blind_extChange (env : Env) (d : Nat) (p : Option Nat) : Blind (extChange env d p) := by
  intro s
  refine ⟨rfl, ?_⟩
  show nolog (logEv env (strip s.core) _) = nolog (logEv env s.core _)
  rw [nolog_logEv, nolog_logEv]

theorem blind_extStatus (env : Env) (id : Nat) (ok : Bool) : Blind (extStatus env id ok) := by
  intro s
  refine ⟨by cases ok <;> rfl, ?_⟩
  show nolog (logEv env (strip s.core) _) = nolog (logEv env s.core _)
  rw [nolog_logEv, nolog_logEv]

theorem blind_replayEnter (env : Env) (d : Nat) : Blind (replayEnter env d) := by
  unfold replayEnter
  refine Blind.seq (Blind.seq (blind_modifyCore fun c => ?_) (blind_deepEnter env {}))
    (blind_modifyCore (m := fun c => { c with requested := 255 }) fun _ => rfl)
  rw [applyRequest_strip]; rfl

theorem rejected_strip (w : World) (i k : Nat) (name : String) :
    ((stripW w, [Ev.rejected i k name]) : World × List Ev).1 = stripW ((w, [Ev.rejected i k name]) : World × List Ev).1 ∧
    nolog ((stripW w, [Ev.rejected i k name]) : World × List Ev).2 = nolog ((w, [Ev.rejected i k name]) : World × List Ev).2 :=
  ⟨rfl, rfl⟩

theorem initCore_strip (cfg : Cfg) (lg : Bool) : initCore cfg (false && cfg.logging) = strip (initCore cfg (lg && cfg.logging)) := by
  simp [initCore, strip]

theorem strip_active (c : Core) : (strip c).active = c.active := rfl
theorem strip_request (c : Core) : (strip c).request = c.request := rfl
theorem strip_prev (c : Core) : (strip c).prev = c.prev := rfl
theorem strip_plan (c : Core) : (strip c).plan = c.plan := rfl

/-- one `if guard then onCore … body … else rejected` arm of `step`, on both sides -/
local macro "blind_arm " t:term : tactic =>
  `(tactic| (split <;> rename_i h <;> (try simp only [h, Bool.false_eq_true, ↓reduceIte, if_false, if_true]) <;>
      first
      | exact ⟨trivial, trivial⟩
      | exact ⟨rfl, rfl⟩
      | (refine onCore_blind _ _ _ _ _ _ $t _ ?_; intro _; rfl)))

/-- **one call commutes with erasing the loggers** (every `step` arm: same guard, blind body) -/
theorem step_strip (cfg : Cfg) (beh : Beh) (w : World) (k : Nat) (op : Op) :
    (step cfg beh (stripW w) k op.quiet).1 = stripW (step cfg beh w k op).1 ∧
    nolog (step cfg beh (stripW w) k op.quiet).2 = nolog (step cfg beh w k op).2 := by
  cases op with
  | construct i lg =>
    unfold step
    simp only [Op.quiet, Op.inst, Op.name, stripW_get]
    cases hg : w.get i <;> simp only [Option.map_none, Option.map_some]
    · rw [initCore_strip cfg lg]
      split
      · exact onCore_blind cfg w i k _ _ blind_skip _ (fun _ => rfl)
      · exact onCore_blind cfg w i k _ _ (blind_initialEnter _) _ (fun _ => rfl)
    · exact ⟨trivial, trivial⟩
  | destroy i =>
    unfold step
    simp only [Op.quiet, Op.inst, Op.name, stripW_get]
    cases hg : w.get i <;> simp only [Option.map_none, Option.map_some]
    · exact ⟨trivial, trivial⟩
    · rename_i c
      split
      · exact ⟨by rw [stripW_put]; rfl, rfl⟩
      · obtain ⟨h1, h2⟩ := blind_finalExit ⟨cfg, beh, i, k⟩ { core := c }
        have h1' : (finalExit ⟨cfg, beh, i, k⟩ { core := strip c }).1 = stripSt (finalExit ⟨cfg, beh, i, k⟩ { core := c }).1 := h1
        have h2' : nolog (finalExit ⟨cfg, beh, i, k⟩ { core := strip c }).2 = nolog (finalExit ⟨cfg, beh, i, k⟩ { core := c }).2 := h2
        refine ⟨by rw [stripW_put]; rfl, ?_⟩
        rw [nolog_append, nolog_append, h2', h1']
        rfl
  | copy i src =>
    unfold step
    simp only [Op.quiet, Op.inst, Op.name, stripW_get]
    cases hg : w.get i <;> simp only [Option.map_none, Option.map_some] <;> exact ⟨trivial, trivial⟩
  | enter i =>
    unfold step
    simp only [Op.quiet, Op.inst, Op.name, stripW_get]
    cases hg : w.get i <;> simp only [Option.map_none, Option.map_some]
    · exact ⟨trivial, trivial⟩
    · simp only [strip_active, strip_request]
      blind_arm (blind_initialEnter _)
  | exit i =>
    unfold step
    simp only [Op.quiet, Op.inst, Op.name, stripW_get]
    cases hg : w.get i <;> simp only [Option.map_none, Option.map_some]
    · exact ⟨trivial, trivial⟩
    · simp only [strip_active]
      blind_arm (blind_finalExit _)
  | update i =>
    unfold step
    simp only [Op.quiet, Op.inst, Op.name, stripW_get]
    cases hg : w.get i <;> simp only [Option.map_none, Option.map_some]
    · exact ⟨trivial, trivial⟩
    · simp only [strip_active]
      blind_arm (blind_cycle _ _ _ _)
  | react i =>
    unfold step
    simp only [Op.quiet, Op.inst, Op.name, stripW_get]
    cases hg : w.get i <;> simp only [Option.map_none, Option.map_some]
    · exact ⟨trivial, trivial⟩
    · simp only [strip_active]
      blind_arm (blind_cycle _ _ _ _)
  | query i =>
    unfold step
    simp only [Op.quiet, Op.inst, Op.name, stripW_get]
    cases hg : w.get i <;> simp only [Option.map_none, Option.map_some]
    · exact ⟨trivial, trivial⟩
    · simp only [strip_active]
      blind_arm (blind_query _)
  | changeTo i d =>
    unfold step
    simp only [Op.quiet, Op.inst, Op.name, stripW_get]
    cases hg : w.get i <;> simp only [Option.map_none, Option.map_some]
    · exact ⟨trivial, trivial⟩
    · simp only [strip_active]
      blind_arm (blind_extChange _ _ _)
  | changeWith i d p =>
    unfold step
    simp only [Op.quiet, Op.inst, Op.name, stripW_get]
    cases hg : w.get i <;> simp only [Option.map_none, Option.map_some]
    · exact ⟨trivial, trivial⟩
    · simp only [strip_active]
      blind_arm (blind_extChange _ _ _)
  | immediateChangeTo i d =>
    unfold step
    simp only [Op.quiet, Op.inst, Op.name, stripW_get]
    cases hg : w.get i <;> simp only [Option.map_none, Option.map_some]
    · exact ⟨trivial, trivial⟩
    · simp only [strip_active]
      blind_arm (Blind.seq (blind_extChange _ _ _) (blind_processRequest _))
  | immediateChangeWith i d p =>
    unfold step
    simp only [Op.quiet, Op.inst, Op.name, stripW_get]
    cases hg : w.get i <;> simp only [Option.map_none, Option.map_some]
    · exact ⟨trivial, trivial⟩
    · simp only [strip_active]
      blind_arm (Blind.seq (blind_extChange _ _ _) (blind_processRequest _))
  | succeed i id =>
    unfold step
    simp only [Op.quiet, Op.inst, Op.name, stripW_get]
    cases hg : w.get i <;> simp only [Option.map_none, Option.map_some]
    · exact ⟨trivial, trivial⟩
    · blind_arm (blind_extStatus _ _ _)
  | fail i id =>
    unfold step
    simp only [Op.quiet, Op.inst, Op.name, stripW_get]
    cases hg : w.get i <;> simp only [Option.map_none, Option.map_some]
    · exact ⟨trivial, trivial⟩
    · blind_arm (blind_extStatus _ _ _)
  | planAppend i o d p =>
    unfold step
    simp only [Op.quiet, Op.inst, Op.name, stripW_get]
    cases hg : w.get i <;> simp only [Option.map_none, Option.map_some]
    · exact ⟨trivial, trivial⟩
    · simp only [strip_plan]
      blind_arm (blind_applyAction _ _ _)
  | planClear i =>
    unfold step
    simp only [Op.quiet, Op.inst, Op.name, stripW_get]
    cases hg : w.get i <;> simp only [Option.map_none, Option.map_some]
    · exact ⟨trivial, trivial⟩
    · blind_arm (blind_applyAction _ _ _)
  | planRemove i mask =>
    unfold step
    simp only [Op.quiet, Op.inst, Op.name, stripW_get]
    cases hg : w.get i <;> simp only [Option.map_none, Option.map_some]
    · exact ⟨trivial, trivial⟩
    · blind_arm (blind_applyAction _ _ _)
  | save i =>
    unfold step
    simp only [Op.quiet, Op.inst, Op.name, stripW_get]
    cases hg : w.get i <;> simp only [Option.map_none, Option.map_some]
    · exact ⟨trivial, trivial⟩
    · simp only [strip_active, save_strip, apiObs_strip]
      split <;> rename_i h <;> (try simp only [h, Bool.false_eq_true, ↓reduceIte]) <;>
        first | exact ⟨trivial, trivial⟩ | exact ⟨rfl, rfl⟩
  | load i src =>
    unfold step
    simp only [Op.quiet, Op.inst, Op.name, stripW_get]
    cases hg : w.get i <;> simp only [Option.map_none, Option.map_some]
    · exact ⟨trivial, trivial⟩
    · cases hs : w.get src <;> simp only [Option.map_none, Option.map_some]
      · exact ⟨trivial, trivial⟩
      · simp only [strip_active, save_strip]
        blind_arm (blind_load _ _)
  | replayEnter i d =>
    unfold step
    simp only [Op.quiet, Op.inst, Op.name, stripW_get]
    cases hg : w.get i <;> simp only [Option.map_none, Option.map_some]
    · exact ⟨trivial, trivial⟩
    · simp only [strip_active, strip_request, strip_prev]
      blind_arm (blind_replayEnter _ _)
  | replayTransition i d =>
    unfold step
    simp only [Op.quiet, Op.inst, Op.name, stripW_get]
    cases hg : w.get i <;> simp only [Option.map_none, Option.map_some]
    · exact ⟨trivial, trivial⟩
    · simp only [strip_active]
      split
      · rename_i h
        simp only [h, ↓reduceIte]
        split
        · refine onCore_blind _ _ _ _ _ _ (blind_modifyCore (m := fun c => { c with prev := c.prev.clear }) fun _ => rfl) _ ?_
          intro _; rfl
        · refine onCore_blind _ _ _ _ _ _ (blind_replayTransition _ _) _ ?_
          intro _; rfl
      · rename_i h
        simp only [h, Bool.false_eq_true, ↓reduceIte]
        first | exact ⟨trivial, trivial⟩ | exact ⟨rfl, rfl⟩
  | attachLogger i on =>
    unfold step
    simp only [Op.quiet, Op.inst, Op.name, stripW_get]
    cases hg : w.get i <;> simp only [Option.map_none, Option.map_some]
    · exact ⟨trivial, trivial⟩
    · split
      · refine ⟨?_, rfl⟩
        rw [onCore_fst, onCore_fst, stripW_put]
        rfl
      · exact ⟨rfl, rfl⟩
  | replayFrom i src =>
    unfold step
    simp only [Op.quiet, Op.inst, Op.name, stripW_get]
    cases hg : w.get i <;> simp only [Option.map_none, Option.map_some] <;> exact ⟨trivial, trivial⟩
  | replayEnterFrom i src =>
    unfold step
    simp only [Op.quiet, Op.inst, Op.name, stripW_get]
    cases hg : w.get i <;> simp only [Option.map_none, Option.map_some] <;> exact ⟨trivial, trivial⟩

theorem stepAll_strip (cfg : Cfg) (beh : Beh) (w : World) (k : Nat) (op : Op) :
    (stepAll cfg beh (stripW w) k op.quiet).1 = stripW (stepAll cfg beh w k op).1 ∧
    nolog (stepAll cfg beh (stripW w) k op.quiet).2 = nolog (stepAll cfg beh w k op).2 := by
  cases op with
  | copy i src =>
    simp only [stepAll, Op.quiet, stripW_get]
    cases hg : w.get i <;> cases hs : w.get src <;> simp only [Option.map_none, Option.map_some]
    · first | exact ⟨trivial, trivial⟩ | exact ⟨rfl, rfl⟩
    · exact ⟨by rw [stripW_put]; rfl, rfl⟩
    · first | exact ⟨trivial, trivial⟩ | exact ⟨rfl, rfl⟩
    · first | exact ⟨trivial, trivial⟩ | exact ⟨rfl, rfl⟩
  | replayFrom i src =>
    simp only [stepAll, Op.quiet, stripW_get]
    cases hs : w.get src <;> simp only [Option.map_none, Option.map_some]
    · first | exact ⟨trivial, trivial⟩ | exact ⟨rfl, rfl⟩
    · simp only [strip_prev]
      exact step_strip cfg beh w k (.replayTransition i _)
  | replayEnterFrom i src =>
    simp only [stepAll, Op.quiet, stripW_get]
    cases hs : w.get src <;> simp only [Option.map_none, Option.map_some]
    · first | exact ⟨trivial, trivial⟩ | exact ⟨rfl, rfl⟩
    · simp only [strip_prev]
      exact step_strip cfg beh w k (.replayEnter i _)
  | construct i lg => exact step_strip cfg beh w k (.construct i lg)
  | destroy i => exact step_strip cfg beh w k (.destroy i)
  | enter i => exact step_strip cfg beh w k (.enter i)
  | exit i => exact step_strip cfg beh w k (.exit i)
  | update i => exact step_strip cfg beh w k (.update i)
  | react i => exact step_strip cfg beh w k (.react i)
  | query i => exact step_strip cfg beh w k (.query i)
  | changeTo i d => exact step_strip cfg beh w k (.changeTo i d)
  | changeWith i d p => exact step_strip cfg beh w k (.changeWith i d p)
  | immediateChangeTo i d => exact step_strip cfg beh w k (.immediateChangeTo i d)
  | immediateChangeWith i d p => exact step_strip cfg beh w k (.immediateChangeWith i d p)
  | succeed i id => exact step_strip cfg beh w k (.succeed i id)
  | fail i id => exact step_strip cfg beh w k (.fail i id)
  | planAppend i o d p => exact step_strip cfg beh w k (.planAppend i o d p)
  | planClear i => exact step_strip cfg beh w k (.planClear i)
  | planRemove i m => exact step_strip cfg beh w k (.planRemove i m)
  | save i => exact step_strip cfg beh w k (.save i)
  | load i src => exact step_strip cfg beh w k (.load i src)
  | replayEnter i d => exact step_strip cfg beh w k (.replayEnter i d)
  | replayTransition i d => exact step_strip cfg beh w k (.replayTransition i d)
  | attachLogger i on => exact step_strip cfg beh w k (.attachLogger i on)

theorem runFrom_strip (cfg : Cfg) (beh : Beh) : ∀ (ops : List Op) (w : World) (k : Nat),
    (runFrom cfg beh (stripW w) k (ops.map Op.quiet)).1 = stripW (runFrom cfg beh w k ops).1 ∧
    nolog (runFrom cfg beh (stripW w) k (ops.map Op.quiet)).2 = nolog (runFrom cfg beh w k ops).2
  | [], _, _ => ⟨rfl, rfl⟩
  | op :: ops, w, k => by
    obtain ⟨h1, h2⟩ := stepAll_strip cfg beh w k op
    obtain ⟨i1, i2⟩ := runFrom_strip cfg beh ops (stepAll cfg beh w k op).1 (k + 1)
    simp only [List.map_cons, runFrom]
    rw [h1, nolog_append, nolog_append, h2, i2]
    exact ⟨i1, rfl⟩

end FFSM2
