import FFSM2.Lemmas.Steps
/-! Logger-blindness: the model's steps commute with erasing the `logger` flag, up to log events. -/
namespace FFSM2
open Step Ancestors

def strip (c : Core) : Core := { c with logger := false }
def stripSt (s : St) : St := { s with core := strip s.core }

def Ev.isLog : Ev → Bool
  | .log .. => true
  | _ => false

/-- the trace with log records erased -/
def nolog (es : List Ev) : List Ev := es.filter (fun e => !e.isLog)

@[simp] theorem nolog_nil : nolog [] = [] := rfl
@[simp] theorem nolog_append (a b : List Ev) : nolog (a ++ b) = nolog a ++ nolog b := by simp [nolog]

/-- a step that commutes with erasing the logger and whose non-log events do not depend on it -/
def Blind (f : Step) : Prop :=
  ∀ s, (f (stripSt s)).1 = stripSt (f s).1 ∧ nolog (f (stripSt s)).2 = nolog (f s).2

theorem Blind.seq {f g : Step} (hf : Blind f) (hg : Blind g) : Blind (f ⋙ g) := by
  intro s
  simp only [Step.seq]
  obtain ⟨f1, f2⟩ := hf s
  rw [f1]
  obtain ⟨g1, g2⟩ := hg (f s).1
  exact ⟨g1, by rw [nolog_append, nolog_append, f2, g2]⟩

theorem blind_skip : Blind skip := fun _ => ⟨rfl, rfl⟩

theorem blind_modify {m : St → St} (h : ∀ s, m (stripSt s) = stripSt (m s)) : Blind (Step.modify m) :=
  fun s => ⟨h s, rfl⟩

theorem blind_modifyCore {m : Core → Core} (h : ∀ c, m (strip c) = strip (m c)) : Blind (modifyCore m) := by
  intro s
  refine ⟨?_, rfl⟩
  simp only [modifyCore, stripSt, h]

theorem blind_emit {e : St → List Ev} (h : ∀ s, nolog (e (stripSt s)) = nolog (e s)) : Blind (emit e) :=
  fun s => ⟨rfl, h s⟩

/-- `fun s => g s s` where `g` only looks at logger-independent parts of its first argument -/
theorem blind_dep {g : St → Step} (hg : ∀ s0, Blind (g s0)) (hc : ∀ s, g (stripSt s) = g s) : Blind (fun s => g s s) := by
  intro s
  show (g (stripSt s) (stripSt s)).1 = _ ∧ nolog (g (stripSt s) (stripSt s)).2 = _
  rw [hc]; exact hg s s

theorem blind_seqList {l : List Step} (h : ∀ f ∈ l, Blind f) : Blind (seqList l) := by
  induction l with
  | nil => exact blind_skip
  | cons f fs ih => exact Blind.seq (h f (by simp)) (ih fun g hg => h g (by simp [hg]))

theorem nolog_logEv (env : Env) (c : Core) (r : LogRec) : nolog (logEv env c r) = [] := by
  unfold logEv; split <;> simp [nolog, Ev.isLog]

theorem logEv_strip (env : Env) (c : Core) (r : LogRec) : logEv env (strip c) r = [] := by
  simp [logEv, strip]

theorem blind_applyAction (env : Env) (sid : Nat) (a : Action) : Blind (applyAction env sid a) := by
  intro s
  cases a with
  | planAppend o d p =>
    cases p <;> by_cases h : s.core.plan.length < env.cfg.cap <;> simp [applyAction, stripSt, strip, h]
  | planClear => exact ⟨rfl, rfl⟩
  | planRemove m => exact ⟨rfl, rfl⟩
  | _ => exact ⟨rfl, by simp only [applyAction, stripSt, logEv_strip, nolog_logEv, nolog_nil]⟩

theorem blind_runActions (env : Env) (fl : Flavour) (sid : Nat) (key : Key) (as : List Action) :
    Blind (runActions env fl sid key as) := by
  induction as with
  | nil => exact blind_skip
  | cons a as ih =>
    simp only [runActions]
    refine Blind.seq ?_ ih
    split
    · exact Blind.seq (blind_emit fun _ => rfl) (blind_applyAction env sid a)
    · exact blind_skip

theorem observe_strip (env : Env) (fl : Flavour) (sid : Nat) (cur pend : Tr) (c : Core) :
    observe env fl sid cur pend (strip c) = observe env fl sid cur pend c := rfl

theorem blind_layerBody (env : Env) (m : Method) (sid : Nat) (cur pend : Tr) (layer : Layer) (occ : Nat) :
    Blind (layerBody env m sid cur pend layer occ) := by
  unfold layerBody
  refine Blind.seq (blind_emit fun _ => rfl) ?_
  split
  · exact blind_runActions _ _ _ _ _
  · exact blind_skip

theorem blind_deliverLayer (env : Env) (m : Method) (sid : Nat) (cur pend : Tr) (layer : Layer) :
    Blind (deliverLayer env m sid cur pend layer) := by
  intro s
  rw [deliverLayer_eq, deliverLayer_eq]
  exact blind_layerBody env m sid cur pend layer _ { s with seen := (m, sid, layer) :: s.seen }

/-- **a delivery does not depend on the logger** (up to its log records) -/
theorem blind_deliver (env : Env) (m : Method) (sid : Nat) (cur pend : Tr) : Blind (deliver env m sid cur pend) := by
  unfold deliver
  refine Blind.seq (blind_emit fun s => ?_) (blind_seqList ?_)
  · split <;> simp [stripSt, logEv_strip, nolog_logEv]
  · intro f hf
    obtain ⟨l, _, rfl⟩ := List.mem_map.mp hf
    exact blind_deliverLayer _ _ _ _ _ _

theorem clearTaskStatus_strip (cfg : Cfg) (id : Nat) (c : Core) :
    clearTaskStatus cfg id (strip c) = strip (clearTaskStatus cfg id c) := by
  unfold clearTaskStatus; split <;> rfl

theorem blind_changeToRequested (env : Env) (cur : Tr) : Blind (changeToRequested env cur) := by
  unfold changeToRequested
  intro s
  have hreq : (stripSt s).core.requested = s.core.requested := rfl
  have hact : (stripSt s).core.active = s.core.active := rfl
  simp only [hreq, hact]
  split
  · exact (Blind.seq (Blind.seq (Blind.seq (blind_deliver env .exit _ cur {}) (blind_modifyCore (clearTaskStatus_strip env.cfg _)))
      (blind_modifyCore (m := fun c => { c with active := c.requested, requested := 255 }) fun _ => rfl))
      (blind_dep (g := fun s0 => deliver env .enter s0.core.active cur {}) (fun s0 => blind_deliver env .enter _ cur {}) (fun _ => rfl))) s
  · exact (Blind.seq (blind_modifyCore (m := fun c => { c with requested := 255 }) fun _ => rfl) (blind_deliver env .reenter _ cur {})) s

theorem blind_deepEnter (env : Env) (cur : Tr) : Blind (deepEnter env cur) := by
  unfold deepEnter
  exact Blind.seq (Blind.seq (blind_modifyCore (m := fun c => { c with active := c.requested, requested := 255 }) fun _ => rfl)
    (blind_deliver env .enter 255 cur {}))
    (blind_dep (g := fun s0 => deliver env .enter s0.core.active cur {}) (fun s0 => blind_deliver env .enter _ cur {}) (fun _ => rfl))

theorem planClearCore_strip (c : Core) : planClearCore (strip c) = strip (planClearCore c) := rfl
theorem planDataClear_strip (c : Core) : planDataClear (strip c) = strip (planDataClear c) := rfl

theorem blind_deepExit (env : Env) (cur : Tr) : Blind (deepExit env cur) := by
  unfold deepExit
  refine Blind.seq (Blind.seq (Blind.seq ?_ (blind_deliver env .exit 255 cur {}))
    (blind_modifyCore (m := fun c => { c with active := 255 }) fun _ => rfl))
    (blind_modifyCore (m := fun c => if env.cfg.plans then planClearCore c else c) fun c => by split <;> rfl)
  exact blind_dep (g := fun s0 => deliver env .exit s0.core.active cur {} ⋙ modifyCore (clearTaskStatus env.cfg s0.core.active))
    (fun s0 => Blind.seq (blind_deliver env .exit _ cur {}) (blind_modifyCore (clearTaskStatus_strip env.cfg _)))
    (fun _ => rfl)

theorem blind_finalExit (env : Env) : Blind (finalExit env) := by
  unfold finalExit
  refine Blind.seq (blind_deepExit env {}) (blind_modifyCore fun c => ?_)
  cases env.cfg.plans <;> cases env.cfg.history <;> rfl

theorem blind_guardRound (env : Env) (cur pend : Tr) : Blind (guardRound env cur pend) := by
  unfold guardRound
  refine Blind.seq (Blind.seq (blind_modify (m := fun s => { s with ts := .none, cancelled := false }) fun _ => rfl)
    (blind_dep (g := fun s0 => deliver env .exitGuard s0.core.active cur pend) (fun s0 => blind_deliver env .exitGuard _ cur pend) (fun _ => rfl))) ?_
  intro s
  have hc : (stripSt s).cancelled = s.cancelled := rfl
  have hr : (stripSt s).core.requested = s.core.requested := rfl
  simp only [hc, hr]
  split
  · exact ⟨rfl, rfl⟩
  · exact blind_deliver env .entryGuard _ cur pend s

theorem blind_entryGuardRound (env : Env) (cur pend : Tr) : Blind (entryGuardRound env cur pend) := by
  unfold entryGuardRound
  refine Blind.seq (Blind.seq (blind_modify (m := fun s => { s with ts := .none, cancelled := false }) fun _ => rfl)
    (blind_deliver env .entryGuard 255 cur pend)) ?_
  intro s
  have hc : (stripSt s).cancelled = s.cancelled := rfl
  have hr : (stripSt s).core.requested = s.core.requested := rfl
  simp only [hc, hr]
  split
  · exact ⟨rfl, rfl⟩
  · exact blind_deliver env .entryGuard _ cur pend s

theorem applyRequest_strip (cur : Tr) (d : Nat) (c : Core) :
    applyRequest cur d (strip c) = (strip (applyRequest cur d c).1, (applyRequest cur d c).2) := by
  unfold applyRequest; split <;> rfl

/-- the substitution loop is logger-blind (same survivor, same final state up to the flag, same
    non-log events) -/
theorem blind_substLoop (round : Tr → Tr → Step) (hr : ∀ c p, Blind (round c p)) :
    ∀ (fuel : Nat) (cur : Tr) (s : St),
      (substLoop round fuel cur (stripSt s)).1 = (stripSt (substLoop round fuel cur s).1.1, (substLoop round fuel cur s).1.2) ∧
      nolog (substLoop round fuel cur (stripSt s)).2 = nolog (substLoop round fuel cur s).2 := by
  intro fuel
  induction fuel with
  | zero => intro cur s; exact ⟨rfl, rfl⟩
  | succ fuel ih =>
    intro cur s
    simp only [substLoop]
    have hreq : (stripSt s).core.request = s.core.request := rfl
    simp only [hreq]
    split
    · have har := applyRequest_strip cur s.core.request.dest s.core
      have hcore : (stripSt s).core = strip s.core := rfl
      simp only [hcore, har]
      split
      · obtain ⟨r1, r2⟩ := hr cur s.core.request
          { s with core := { (applyRequest cur s.core.request.dest s.core).1 with
                             request := (applyRequest cur s.core.request.dest s.core).1.request.clear } }
        have hs1 : ({ stripSt s with core := { strip (applyRequest cur s.core.request.dest s.core).1 with
              request := (strip (applyRequest cur s.core.request.dest s.core).1).request.clear } } : St)
            = stripSt { s with core := { (applyRequest cur s.core.request.dest s.core).1 with
                             request := (applyRequest cur s.core.request.dest s.core).1.request.clear } } := rfl
        rw [hs1, r1]
        have hcanc : (stripSt (round cur s.core.request { s with core := { (applyRequest cur s.core.request.dest s.core).1 with
                             request := (applyRequest cur s.core.request.dest s.core).1.request.clear } }).1).cancelled
            = (round cur s.core.request { s with core := { (applyRequest cur s.core.request.dest s.core).1 with
                             request := (applyRequest cur s.core.request.dest s.core).1.request.clear } }).1.cancelled := rfl
        rw [hcanc]
        obtain ⟨i1, i2⟩ := ih (if (round cur s.core.request { s with core := { (applyRequest cur s.core.request.dest s.core).1 with
                             request := (applyRequest cur s.core.request.dest s.core).1.request.clear } }).1.cancelled then cur else s.core.request)
          (round cur s.core.request { s with core := { (applyRequest cur s.core.request.dest s.core).1 with
                             request := (applyRequest cur s.core.request.dest s.core).1.request.clear } }).1
        exact ⟨i1, by rw [nolog_append, nolog_append, r2, i2]⟩
      · exact ih cur { s with core := { s.core with request := s.core.request.clear } }
    · exact ⟨rfl, rfl⟩

end FFSM2

namespace FFSM2
open Step Ancestors

theorem blind_applySurvivor (env : Env) (cur : Tr) : Blind (applySurvivor env cur) := by
  unfold applySurvivor
  intro s
  split
  · exact (Blind.seq (blind_modifyCore (m := fun c => { c with requested := cur.dest }) fun _ => rfl)
      (blind_changeToRequested env cur)) s
  · exact ⟨rfl, rfl⟩

theorem blind_finishProcessing (env : Env) (cur : Tr) : Blind (finishProcessing env cur) := by
  unfold finishProcessing
  exact blind_modifyCore fun c => by cases env.cfg.history <;> rfl

theorem blind_processRequest (env : Env) : Blind (processRequest env) := by
  intro s
  unfold processRequest
  have hreq : (stripSt s).core.request = s.core.request := rfl
  simp only [hreq]
  split
  · obtain ⟨l1, l2⟩ := blind_substLoop (guardRound env) (blind_guardRound env) (substFuel env.cfg.L) {} s
    rw [l1]
    obtain ⟨a1, a2⟩ := (Blind.seq (blind_applySurvivor env (substLoop (guardRound env) (substFuel env.cfg.L) {} s).1.2)
      (blind_finishProcessing env (substLoop (guardRound env) (substFuel env.cfg.L) {} s).1.2))
      (substLoop (guardRound env) (substFuel env.cfg.L) {} s).1.1
    exact ⟨a1, by rw [nolog_append, nolog_append, l2, a2]⟩
  · exact blind_finishProcessing env {} s

theorem blind_enterSurvivor (env : Env) (cur : Tr) : Blind (enterSurvivor env cur) := by
  unfold enterSurvivor
  exact Blind.seq (Blind.seq (blind_modifyCore fun c => by cases env.cfg.history <;> rfl) (blind_deepEnter env cur))
    (blind_modifyCore (m := fun c => { c with requested := 255 }) fun _ => rfl)

theorem blind_initialEnter (env : Env) : Blind (initialEnter env) := by
  intro s
  unfold initialEnter
  simp only
  have h0 : ({ stripSt s with core := (applyRequest {} 0 (stripSt s).core).1 } : St)
      = stripSt { s with core := (applyRequest {} 0 s.core).1 } := by
    show _ = _
    simp only [stripSt, applyRequest_strip]
  rw [h0]
  obtain ⟨e1, e2⟩ := blind_entryGuardRound env {} {} { s with core := (applyRequest {} 0 s.core).1 }
  rw [e1]
  obtain ⟨l1, l2⟩ := blind_substLoop (entryGuardRound env) (blind_entryGuardRound env) (substFuel env.cfg.L) {}
    (entryGuardRound env {} {} { s with core := (applyRequest {} 0 s.core).1 }).1
  rw [l1]
  obtain ⟨a1, a2⟩ := blind_enterSurvivor env
    (substLoop (entryGuardRound env) (substFuel env.cfg.L) {} (entryGuardRound env {} {} { s with core := (applyRequest {} 0 s.core).1 }).1).1.2
    (substLoop (entryGuardRound env) (substFuel env.cfg.L) {} (entryGuardRound env {} {} { s with core := (applyRequest {} 0 s.core).1 }).1).1.1
  exact ⟨a1, by simp only [nolog_append, e2, l2, a2]⟩

theorem blind_phase (env : Env) (m : Method) (hf : Bool) : Blind (phase env m hf) := by
  unfold phase
  intro s
  have ha : (stripSt s).core.active = s.core.active := rfl
  simp only [ha]
  have hsub : Blind (deliver env m s.core.active {} {} ⋙
      Step.modify (fun s => { s with core := { s.core with subStatus := s.core.subStatus.or s.ts } })) :=
    Blind.seq (blind_deliver _ _ _ _ _) (blind_modify fun _ => rfl)
  have hhead : Blind (deliver env m 255 {} {}) := blind_deliver _ _ _ _ _
  have hreset : Blind (Step.modify (fun s => { s with ts := Status.none })) := blind_modify fun _ => rfl
  split
  · exact (Blind.seq (Blind.seq hhead hsub) hreset) s
  · exact (Blind.seq (Blind.seq hsub hhead) hreset) s

theorem blind_firePlan (env : Env) : ∀ (tasks : List Task) (s : St) (clr : List Nat),
    (firePlan env tasks (stripSt s) clr).1 = (stripSt (firePlan env tasks s clr).1.1, (firePlan env tasks s clr).1.2) ∧
    nolog (firePlan env tasks (stripSt s) clr).2 = nolog (firePlan env tasks s clr).2 := by
  intro tasks
  induction tasks with
  | nil => intro s clr; exact ⟨rfl, rfl⟩
  | cons t ts ih =>
    intro s clr
    simp only [firePlan]
    have hc : ctlIsActive (stripSt s).core t.origin = ctlIsActive s.core t.origin := rfl
    have hb : getBit (stripSt s).core.succ t.origin = getBit s.core.succ t.origin := rfl
    have hlog : nolog (logEv env (stripSt s).core (.transition t.origin t.dest)) = nolog (logEv env s.core (.transition t.origin t.dest)) := by
      rw [nolog_logEv, nolog_logEv]
    simp only [hc, hb]
    split
    · split
      · by_cases hcyc : (t.origin == t.dest) = true
        · simp only [hcyc, if_true]
          obtain ⟨i1, i2⟩ := ih { s with core := { ({ s.core with request := ⟨t.origin, t.dest, t.payload⟩ } : Core) with
              succ := setBit s.core.succ t.origin false } } clr
          refine ⟨?_, ?_⟩
          · exact i1
          · rw [nolog_append, nolog_append, hlog]
            exact congrArg _ i2
        · have hcyc' : (t.origin == t.dest) = false := by simpa using hcyc
          simp only [hcyc', Bool.false_eq_true, if_false]
          obtain ⟨i1, i2⟩ := ih { s with core := { s.core with request := ⟨t.origin, t.dest, t.payload⟩ } } (t.origin :: clr)
          refine ⟨?_, ?_⟩
          · exact i1
          · rw [nolog_append, nolog_append, hlog]
            exact congrArg _ i2
      · obtain ⟨i1, i2⟩ := ih s clr
        rw [i1]; exact ⟨rfl, i2⟩
    · exact ⟨rfl, rfl⟩

theorem blind_planStep (env : Env) : Blind (planStep env) := by
  intro s
  unfold planStep
  have h1 : (stripSt s).core.subStatus = s.core.subStatus := rfl
  have h2 : stateStatus (stripSt s).core = stateStatus s.core := rfl
  have h3 : (stripSt s).core.planExists = s.core.planExists := rfl
  have h4 : (stripSt s).core.plan = s.core.plan := rfl
  simp only [h1, h2, h3, h4]
  have hfail : Blind (Step.modify (fun s => { s with ts := Status.failure }) ⋙ deliver env .planFailed 255 {} {} ⋙
      modifyCore planClearCore) :=
    Blind.seq (Blind.seq (blind_modify fun _ => rfl) (blind_deliver _ _ _ _ _)) (blind_modifyCore planClearCore_strip)
  have hsucc : Blind (Step.modify (fun s => { s with ts := Status.success }) ⋙ deliver env .planSucceeded 255 {} {} ⋙
      modifyCore planClearCore) :=
    Blind.seq (Blind.seq (blind_modify fun _ => rfl) (blind_deliver _ _ _ _ _)) (blind_modifyCore planClearCore_strip)
  split
  · split
    · obtain ⟨a, b⟩ := hfail s
      exact ⟨by rw [a]; rfl, b⟩
    · split
      · obtain ⟨f1, f2⟩ := blind_firePlan env s.core.plan s []
        rw [f1]
        exact ⟨rfl, f2⟩
      · obtain ⟨a, b⟩ := hsucc s
        exact ⟨by rw [a]; rfl, b⟩
  · exact ⟨rfl, rfl⟩

theorem blind_cycle (env : Env) (pre mid post : Method) : Blind (cycle env pre mid post) := by
  unfold cycle
  refine Blind.seq (Blind.seq (Blind.seq (Blind.seq (Blind.seq (blind_modify fun _ => rfl) (blind_phase _ _ _)) (blind_phase _ _ _))
    (blind_phase _ _ _)) ?_) (blind_processRequest env)
  split
  · exact blind_planStep env
  · exact blind_skip

theorem blind_query (env : Env) : Blind (query env) := by
  unfold query
  intro s
  have ha : (stripSt s).core.active = s.core.active := rfl
  simp only [ha]
  generalize headFirst Method.query = hfq
  cases hfq <;> simp only [if_true, if_false, Bool.false_eq_true]
  · exact (Blind.seq (blind_deliver env .query s.core.active {} {}) (blind_deliver env .query 255 {} {})) s
  · exact (Blind.seq (blind_deliver env .query 255 {} {}) (blind_deliver env .query s.core.active {} {})) s

theorem blind_replayTransition (env : Env) (d : Nat) : Blind (replayTransition env d) := by
  unfold replayTransition
  refine Blind.seq (Blind.seq (Blind.seq (blind_modifyCore fun _ => rfl) (blind_modifyCore fun c => ?_))
    (blind_changeToRequested env {})) (blind_modifyCore (m := fun c => { c with requested := 255 }) fun _ => rfl)
  rw [applyRequest_strip]; rfl

theorem blind_loadActive (env : Env) (r : Nat) : Blind (loadActive env r) := by
  unfold loadActive
  refine Blind.seq (blind_modifyCore fun c => ?_) (blind_changeToRequested env {})
  cases env.cfg.plans <;> cases env.cfg.history <;> rfl

theorem blind_load (env : Env) (buf : List Nat) : Blind (load env buf) := by
  intro s
  unfold load
  have ha : (stripSt s).core.active = s.core.active := rfl
  simp only [ha]
  split
  · split
    · exact blind_loadActive env _ s
    · split
      · exact (Blind.seq (blind_modifyCore (m := fun c => { c with requested := (BitStream.read (Gen.widthBits env.cfg.n) buf (BitStream.read 1 buf 0).2).1 }) fun _ => rfl)
          (blind_deepEnter env {})) s
      · exact ⟨rfl, rfl⟩
  · split
    · exact blind_finalExit env s
    · exact ⟨rfl, rfl⟩

end FFSM2
