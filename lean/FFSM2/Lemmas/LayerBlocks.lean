import FFSM2.Lemmas.World
import FFSM2.Lemmas.Lifecycle
/-! Every delivery of every trace is a whole block: the callbacks of the injected bases and of the state itself, each
    exactly once, in the order of the (translated) call-order tables `Ancestors.deep`.  `Blocks cfg sig`: the sequence of
    `(method, state, layer)` of all delivery events of a trace is a concatenation of such blocks. -/
namespace FFSM2
open Step Ancestors

def layerSigEv : Ev → Option (Method × Nat × Layer)
  | .cb k _ _ => some (k.method, k.sid, k.layer)
  | _ => none

/-- `(method, state, layer)` of every delivery event, in order -/
def layerSig (es : List Ev) : List (Method × Nat × Layer) := es.filterMap layerSigEv

@[simp] theorem layerSig_nil : layerSig [] = [] := rfl
theorem layerSig_append (a b : List Ev) : layerSig (a ++ b) = layerSig a ++ layerSig b := by simp [layerSig]

/-- one whole delivery of `m` to `sid` -/
def block (cfg : Cfg) (m : Method) (sid : Nat) : List (Method × Nat × Layer) :=
  (deep (cfg.injections sid) m).map (fun l => (m, sid, l))

/-- a concatenation of whole deliveries -/
inductive Blocks (cfg : Cfg) : List (Method × Nat × Layer) → Prop
  | nil : Blocks cfg []
  | cons (m : Method) (sid : Nat) {rest : List (Method × Nat × Layer)} : Blocks cfg rest → Blocks cfg (block cfg m sid ++ rest)

theorem Blocks.append {cfg : Cfg} {a b : List (Method × Nat × Layer)} (ha : Blocks cfg a) (hb : Blocks cfg b) : Blocks cfg (a ++ b) := by
  induction ha with
  | nil => exact hb
  | cons m sid _ ih => rw [List.append_assoc]; exact Blocks.cons m sid ih

theorem layerSig_noCb {es : List Ev} (h : ∀ e ∈ es, e.isCb = false) : layerSig es = [] := by
  induction es with
  | nil => rfl
  | cons e es ih =>
    have he := h e (by simp)
    show layerSig ([e] ++ es) = []
    rw [layerSig_append, ih fun x hx => h x (by simp [hx]), List.append_nil]
    cases e <;> first | rfl | (simp [Ev.isCb] at he)

def BlockStep (env : Env) (f : Step) : Prop := ∀ s, Blocks env.cfg (layerSig (f s).2)
/-- a step without deliveries -/
def NoCb (f : Step) : Prop := ∀ s, ∀ e ∈ (f s).2, e.isCb = false

theorem NoCb.block {env : Env} {f : Step} (h : NoCb f) : BlockStep env f := fun s => by rw [layerSig_noCb (h s)]; exact Blocks.nil

theorem BlockStep.seq {env : Env} {f g : Step} (hf : BlockStep env f) (hg : BlockStep env g) : BlockStep env (f ⋙ g) := by
  intro s; simp only [Step.seq]; rw [layerSig_append]; exact Blocks.append (hf s) (hg _)
theorem NoCb.seq {f g : Step} (hf : NoCb f) (hg : NoCb g) : NoCb (f ⋙ g) := by
  intro s e he
  simp only [Step.seq, List.mem_append] at he
  rcases he with he | he
  · exact hf s e he
  · exact hg _ e he

theorem noCb_skip : NoCb skip := by intro s e he; cases he
theorem noCb_modify (m : St → St) : NoCb (Step.modify m) := by intro s e he; cases he
theorem noCb_modifyCore (m : Core → Core) : NoCb (modifyCore m) := by intro s e he; cases he
theorem noCb_emit {e : St → List Ev} (h : ∀ s, ∀ x ∈ e s, x.isCb = false) : NoCb (emit e) := fun s x hx => h s x hx
theorem block_skip (env : Env) : BlockStep env skip := noCb_skip.block
theorem block_modify (env : Env) (m : St → St) : BlockStep env (Step.modify m) := (noCb_modify m).block
theorem block_modifyCore (env : Env) (m : Core → Core) : BlockStep env (modifyCore m) := (noCb_modifyCore m).block
theorem block_dep {env : Env} {g : St → Step} (h : ∀ s0, BlockStep env (g s0)) : BlockStep env (fun s => g s s) := fun s => h s s

theorem noCb_logEv (env : Env) (c : Core) (r : LogRec) : ∀ e ∈ logEv env c r, e.isCb = false := by
  intro e he
  unfold logEv at he
  split at he
  · simp only [List.mem_singleton] at he; rw [he]; rfl
  · cases he

theorem noCb_applyAction (env : Env) (sid : Nat) (a : Action) : NoCb (applyAction env sid a) := by
  intro s e he
  cases a with
  | changeTo d => exact noCb_logEv env _ _ e he
  | changeWith d p => exact noCb_logEv env _ _ e he
  | cancel => exact noCb_logEv env _ _ e he
  | succeed id => exact noCb_logEv env _ _ e he
  | fail id => exact noCb_logEv env _ _ e he
  | planAppend o d p =>
    cases p with
    | none => simp only [applyAction] at he; split at he <;> cases he
    | some p => simp only [applyAction] at he; split at he <;> cases he
  | planClear => cases he
  | planRemove m => cases he

theorem noCb_runActions (env : Env) (fl : Flavour) (sid : Nat) (key : Key) : ∀ as : List Action, NoCb (runActions env fl sid key as)
  | [] => noCb_skip
  | a :: as => by
    unfold runActions
    refine NoCb.seq ?_ (noCb_runActions env fl sid key as)
    split
    · refine NoCb.seq (noCb_emit fun s x hx => ?_) (noCb_applyAction env sid a)
      simp only [List.mem_singleton] at hx; rw [hx]; rfl
    · exact noCb_skip

/-- one layer: exactly its own delivery event -/
theorem layerSig_deliverLayer (env : Env) (m : Method) (sid : Nat) (cur pend : Tr) (layer : Layer) (s : St) :
    layerSig (deliverLayer env m sid cur pend layer s).2 = [(m, sid, layer)] := by
  rw [deliverLayer_eq]
  unfold layerBody
  simp only [Step.seq, emit, List.singleton_append]
  show layerSig ([_] ++ _) = _
  rw [layerSig_append]
  have h2 : ∀ (t : Step), NoCb t → layerSig (t { s with seen := (m, sid, layer) :: s.seen }).2 = [] := fun t ht => layerSig_noCb (ht _)
  split
  · rw [h2 _ (noCb_runActions env _ _ _ _)]; rfl
  · rw [h2 _ noCb_skip]; rfl

theorem layerSig_seqList_layers (env : Env) (m : Method) (sid : Nat) (cur pend : Tr) : ∀ (ls : List Layer) (s : St),
    layerSig (seqList (ls.map (deliverLayer env m sid cur pend)) s).2 = ls.map (fun l => (m, sid, l))
  | [], _ => rfl
  | l :: ls, s => by
    simp only [List.map_cons, seqList, Step.seq]
    rw [layerSig_append, layerSig_deliverLayer, layerSig_seqList_layers env m sid cur pend ls]
    rfl

/-- **a delivery is one whole block**: every layer of `deep`, once, in that order -/
theorem layerSig_deliver (env : Env) (m : Method) (sid : Nat) (cur pend : Tr) (s : St) :
    layerSig (deliver env m sid cur pend s).2 = block env.cfg m sid := by
  unfold deliver
  simp only [Step.seq, emit]
  rw [layerSig_append, layerSig_seqList_layers]
  have : layerSig (if recorded env.cfg sid m = true then logEv env s.core (LogRec.method sid m) else []) = [] := by
    apply layerSig_noCb
    split
    · exact noCb_logEv env _ _
    · intro e he; cases he
  rw [this]; rfl

theorem block_deliver (env : Env) (m : Method) (sid : Nat) (cur pend : Tr) : BlockStep env (deliver env m sid cur pend) := by
  intro s
  rw [layerSig_deliver]
  have := Blocks.cons (cfg := env.cfg) m sid Blocks.nil
  rwa [List.append_nil] at this

local macro "bmc" : term => `((by apply block_modifyCore))
local macro "bmd" : term => `((by apply block_modify))

theorem block_deepEnter (env : Env) (cur : Tr) : BlockStep env (deepEnter env cur) := by
  unfold deepEnter
  exact BlockStep.seq (BlockStep.seq bmc (block_deliver env .enter _ _ _)) (block_dep fun s0 => block_deliver env .enter _ _ _)

theorem block_deepExit (env : Env) (cur : Tr) : BlockStep env (deepExit env cur) := by
  unfold deepExit
  refine BlockStep.seq (BlockStep.seq (BlockStep.seq ?_ (block_deliver env .exit _ _ _)) bmc) bmc
  exact block_dep fun s0 => BlockStep.seq (block_deliver env .exit _ _ _) bmc

theorem block_changeToRequested (env : Env) (cur : Tr) : BlockStep env (changeToRequested env cur) := by
  unfold changeToRequested
  intro s
  dsimp only
  split
  · exact (BlockStep.seq (BlockStep.seq (BlockStep.seq (block_deliver env .exit _ _ _) bmc) bmc)
      (block_dep fun s0 => block_deliver env .enter _ _ _)) s
  · exact (BlockStep.seq bmc (block_deliver env .reenter _ _ _)) s

theorem block_guardRound (env : Env) (cur pend : Tr) : BlockStep env (guardRound env cur pend) := by
  unfold guardRound
  refine BlockStep.seq (BlockStep.seq bmd (block_dep fun s0 => block_deliver env .exitGuard _ _ _)) ?_
  intro s
  dsimp only
  split
  · exact Blocks.nil
  · exact block_deliver env .entryGuard _ _ _ s

theorem block_entryGuardRound (env : Env) (cur pend : Tr) : BlockStep env (entryGuardRound env cur pend) := by
  unfold entryGuardRound
  refine BlockStep.seq (BlockStep.seq bmd (block_deliver env .entryGuard _ _ _)) ?_
  intro s
  dsimp only
  split
  · exact Blocks.nil
  · exact block_deliver env .entryGuard _ _ _ s

theorem block_substLoop (env : Env) (round : Tr → Tr → Step) (hr : ∀ c q, BlockStep env (round c q)) :
    ∀ (fuel : Nat) (cur : Tr) (s : St), Blocks env.cfg (layerSig (substLoop round fuel cur s).2) := by
  intro fuel
  induction fuel with
  | zero => intro _ _; exact Blocks.nil
  | succ fuel ih =>
    intro cur s
    simp only [substLoop]
    split
    · split
      · rw [layerSig_append]; exact Blocks.append (hr _ _ _) (ih _ _)
      · exact ih _ _
    · exact Blocks.nil

theorem block_applySurvivor (env : Env) (cur : Tr) : BlockStep env (applySurvivor env cur) := by
  unfold applySurvivor
  intro s
  dsimp only
  split
  · exact (BlockStep.seq bmc (block_changeToRequested env cur)) s
  · exact Blocks.nil

theorem block_finishProcessing (env : Env) (cur : Tr) : BlockStep env (finishProcessing env cur) := by
  unfold finishProcessing; exact bmc

theorem block_processRequest (env : Env) : BlockStep env (processRequest env) := by
  unfold processRequest
  intro s
  dsimp only
  split
  · rw [layerSig_append]
    exact Blocks.append (block_substLoop env _ (block_guardRound env) _ _ _)
      ((BlockStep.seq (block_applySurvivor env _) (block_finishProcessing env _)) _)
  · exact block_finishProcessing env _ s

theorem block_enterSurvivor (env : Env) (cur : Tr) : BlockStep env (enterSurvivor env cur) := by
  unfold enterSurvivor
  exact BlockStep.seq (BlockStep.seq bmc (block_deepEnter env cur)) bmc

theorem block_initialEnter (env : Env) : BlockStep env (initialEnter env) := by
  unfold initialEnter
  intro s
  dsimp only
  rw [layerSig_append, layerSig_append]
  exact Blocks.append (Blocks.append (block_entryGuardRound env {} {} _) (block_substLoop env _ (block_entryGuardRound env) _ _ _))
    (block_enterSurvivor env _ _)

theorem block_finalExit (env : Env) : BlockStep env (finalExit env) := by
  unfold finalExit; exact BlockStep.seq (block_deepExit env {}) bmc

theorem block_phase (env : Env) (m : Method) (hf : Bool) : BlockStep env (phase env m hf) := by
  unfold phase
  intro s
  dsimp only
  have hsub : BlockStep env (deliver env m s.core.active {} {} ⋙
      modify (fun s => { s with core := { s.core with subStatus := s.core.subStatus.or s.ts } })) :=
    BlockStep.seq (block_deliver _ _ _ _ _) bmd
  have hhead : BlockStep env (deliver env m 255 {} {}) := block_deliver _ _ _ _ _
  have hreset : BlockStep env (modify (fun s => { s with ts := Status.none })) := bmd
  split
  · exact (BlockStep.seq (BlockStep.seq hhead hsub) hreset) s
  · exact (BlockStep.seq (BlockStep.seq hsub hhead) hreset) s

theorem noCb_firePlan (env : Env) : ∀ (tasks : List Task) (s : St) (clr : List Nat),
    ∀ e ∈ (firePlan env tasks s clr).2, e.isCb = false := by
  intro tasks
  induction tasks with
  | nil => intro s clr e he; cases he
  | cons t ts ih =>
    intro s clr e he
    simp only [firePlan] at he
    split at he
    · split at he
      · rcases List.mem_append.mp he with he | he
        · exact noCb_logEv env _ _ e he
        · exact ih _ _ e he
      · exact ih _ _ e he
    · cases he

theorem block_planStep (env : Env) : BlockStep env (planStep env) := by
  unfold planStep
  intro s
  dsimp only
  have hfail : BlockStep env (modify (fun s => { s with ts := Status.failure }) ⋙ deliver env .planFailed 255 {} {} ⋙
      modifyCore planClearCore) := BlockStep.seq (BlockStep.seq bmd (block_deliver env _ _ _ _)) bmc
  have hsucc : BlockStep env (modify (fun s => { s with ts := Status.success }) ⋙ deliver env .planSucceeded 255 {} {} ⋙
      modifyCore planClearCore) := BlockStep.seq (BlockStep.seq bmd (block_deliver env _ _ _ _)) bmc
  split
  · split
    · exact hfail s
    · split
      · rw [layerSig_noCb (noCb_firePlan env s.core.plan s [])]; exact Blocks.nil
      · exact hsucc s
  · exact Blocks.nil

theorem block_cycle (env : Env) (pre mid post : Method) : BlockStep env (cycle env pre mid post) := by
  unfold cycle
  refine BlockStep.seq (BlockStep.seq (BlockStep.seq (BlockStep.seq (BlockStep.seq bmd (block_phase env _ _))
    (block_phase env _ _)) (block_phase env _ _)) ?_) (block_processRequest env)
  split
  · exact block_planStep env
  · exact block_skip env

theorem block_query (env : Env) : BlockStep env (query env) := by
  unfold query
  generalize headFirst Method.query = hfq
  cases hfq <;> simp only [if_true, if_false, Bool.false_eq_true] <;>
  exact block_dep fun s0 => BlockStep.seq (block_deliver env .query _ {} {}) (block_deliver env .query _ {} {})

theorem block_extChange (env : Env) (d : Nat) (q : Option Nat) : BlockStep env (extChange env d q) := fun s => by
  simp only [extChange]; rw [layerSig_noCb (noCb_logEv env _ _)]; exact Blocks.nil

theorem block_extStatus (env : Env) (id : Nat) (ok : Bool) : BlockStep env (extStatus env id ok) := fun s => by
  simp only [extStatus]; rw [layerSig_noCb (noCb_logEv env _ _)]; exact Blocks.nil

theorem block_replayTransition (env : Env) (d : Nat) : BlockStep env (replayTransition env d) := by
  unfold replayTransition
  exact BlockStep.seq (BlockStep.seq (BlockStep.seq bmc bmc) (block_changeToRequested env {})) bmc

theorem block_replayEnter (env : Env) (d : Nat) : BlockStep env (replayEnter env d) := by
  unfold replayEnter
  exact BlockStep.seq (BlockStep.seq bmc (block_deepEnter env {})) bmc

theorem block_loadActive (env : Env) (r : Nat) : BlockStep env (loadActive env r) := by
  unfold loadActive; exact BlockStep.seq bmc (block_changeToRequested env {})

theorem block_load (env : Env) (buf : List Nat) : BlockStep env (load env buf) := by
  unfold load
  intro s
  dsimp only
  split
  · split
    · exact block_loadActive env _ s
    · split
      · exact (BlockStep.seq bmc (block_deepEnter env {})) s
      · exact Blocks.nil
  · split
    · exact block_finalExit env s
    · exact Blocks.nil

theorem apiStep_block {cfg : Cfg} {w : World} {env : Env} {tag : ApiTag} {slot : Option Core} {c : Core} {f : Step}
    (h : ApiStep cfg w env tag slot c f) : BlockStep env f := by
  cases h with
  | constructManual => exact block_skip env
  | constructAuto => exact block_initialEnter env
  | enter => exact block_initialEnter env
  | exit => exact block_finalExit env
  | update => exact block_cycle env _ _ _
  | react => exact block_cycle env _ _ _
  | query => exact block_query env
  | change => exact block_extChange env _ _
  | immediate => exact BlockStep.seq (block_extChange env _ _) (block_processRequest env)
  | status => exact block_extStatus env _ _
  | planAppend => exact (noCb_applyAction env _ _).block
  | planEdit => exact (noCb_applyAction env _ _).block
  | load => exact block_load env _
  | replayEnter => exact block_replayEnter env _
  | replayClear => exact block_modifyCore env _
  | replayTransition => exact block_replayTransition env _
  | attachLogger => exact block_modifyCore env _

theorem layerSig_single {e : Ev} (h : e.isCb = false) : layerSig [e] = [] :=
  layerSig_noCb (by intro x hx; simp only [List.mem_singleton] at hx; rw [hx]; exact h)

theorem stepAll_blocks (cfg : Cfg) (beh : Beh) (w : World) (k : Nat) (op : Op) : Blocks cfg (layerSig (stepAll cfg beh w k op).2) := by
  have h := stepAll_shape cfg beh w k op
  generalize stepAll cfg beh w k op = r at h
  cases h with
  | copy src sc _ h1 h2 => rw [layerSig_single rfl]; exact Blocks.nil
  | step op' hs _ =>
    cases hs with
    | rejected name => rw [layerSig_single rfl]; exact Blocks.nil
    | call tag slot c f ret name htag hget hf =>
      rw [onCore_snd, layerSig_append, layerSig_single rfl, List.append_nil]
      exact apiStep_block (env := ⟨cfg, beh, op.inst, k⟩) hf _
    | destroyManual c name _ hm hget => rw [layerSig_single rfl]; exact Blocks.nil
    | destroyAuto c name _ hm hget =>
      rw [layerSig_append, layerSig_single rfl, List.append_nil]
      exact block_finalExit ⟨cfg, beh, op.inst, k⟩ _
    | save c name o hget => rw [layerSig_single rfl]; exact Blocks.nil

theorem runFrom_blocks (cfg : Cfg) (beh : Beh) : ∀ (ops : List Op) (w : World) (k : Nat), Blocks cfg (layerSig (runFrom cfg beh w k ops).2)
  | [], _, _ => Blocks.nil
  | op :: ops, w, k => by
    simp only [runFrom]
    rw [layerSig_append]
    exact Blocks.append (stepAll_blocks cfg beh w k op) (runFrom_blocks cfg beh ops _ _)

end FFSM2
