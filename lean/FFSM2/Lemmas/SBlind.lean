import FFSM2.Lemmas.Steps
import FFSM2.Lemmas.World
/-!
# Serialization-blindness: compiling SERIALIZATION out changes nothing for a program that never calls `save()` / `load()`

No step of the model mentions the switch; only the guards of the `save` / `load` calls do.
-/
namespace FFSM2
open Step Ancestors

def cfgS (cfg : Cfg) : Cfg := { cfg with serialization := false }
def envS (env : Env) : Env := { env with cfg := cfgS env.cfg }

theorem runActions_S (env : Env) (fl : Flavour) (sid : Nat) (key : Key) :
    ∀ as : List Action, runActions (envS env) fl sid key as = runActions env fl sid key as
  | [] => rfl
  | a :: as => by
    simp only [runActions]
    rw [runActions_S env fl sid key as]
    have hp : permitted (envS env).cfg fl sid a = permitted env.cfg fl sid a := by cases a <;> rfl
    have ha : applyAction (envS env) sid a = applyAction env sid a := by cases a <;> rfl
    rw [hp, ha]

theorem deliverLayer_S (env : Env) (m : Method) (sid : Nat) (cur pend : Tr) (layer : Layer) :
    deliverLayer (envS env) m sid cur pend layer = deliverLayer env m sid cur pend layer := by
  funext s
  simp only [deliverLayer, runActions_S]
  rfl

theorem deliver_S (env : Env) (m : Method) (sid : Nat) (cur pend : Tr) :
    deliver (envS env) m sid cur pend = deliver env m sid cur pend := by
  unfold deliver
  have : deliverLayer (envS env) m sid cur pend = deliverLayer env m sid cur pend := by
    funext l; exact deliverLayer_S env m sid cur pend l
  rw [this]
  rfl

theorem changeToRequested_S (env : Env) (cur : Tr) : changeToRequested (envS env) cur = changeToRequested env cur := by
  funext s
  simp only [changeToRequested, deliver_S]
  rfl

theorem deepEnter_S (env : Env) (cur : Tr) : deepEnter (envS env) cur = deepEnter env cur := by
  unfold deepEnter
  simp only [deliver_S]

theorem deepExit_S (env : Env) (cur : Tr) : deepExit (envS env) cur = deepExit env cur := by
  unfold deepExit
  simp only [deliver_S]
  rfl

theorem guardRound_S (env : Env) : guardRound (envS env) = guardRound env := by
  funext cur pend
  unfold guardRound
  simp only [deliver_S]

theorem entryGuardRound_S (env : Env) : entryGuardRound (envS env) = entryGuardRound env := by
  funext cur pend
  unfold entryGuardRound
  simp only [deliver_S]

theorem applySurvivor_S (env : Env) (cur : Tr) : applySurvivor (envS env) cur = applySurvivor env cur := by
  funext s
  simp only [applySurvivor, changeToRequested_S]

theorem phase_S (env : Env) (m : Method) (hf : Bool) : phase (envS env) m hf = phase env m hf := by
  funext s
  simp only [phase, deliver_S]

theorem firePlan_S (env : Env) : ∀ (tasks : List Task) (s : St) (clr : List Nat),
    firePlan (envS env) tasks s clr = firePlan env tasks s clr
  | [], _, _ => rfl
  | t :: ts, s, clr => by
    simp only [firePlan]
    have hl : ∀ c r, logEv (envS env) c r = logEv env c r := fun _ _ => rfl
    simp only [hl, firePlan_S env ts]

theorem planStep_S (env : Env) : planStep (envS env) = planStep env := by
  funext s
  simp only [planStep, deliver_S, firePlan_S]

theorem query_S (env : Env) : query (envS env) = query env := by
  funext s
  simp only [query, deliver_S]

theorem finishProcessing_S (env : Env) (cur : Tr) : finishProcessing (envS env) cur = finishProcessing env cur := rfl

theorem processRequest_S (env : Env) : processRequest (envS env) = processRequest env := by
  funext s
  have hL : (envS env).cfg.L = env.cfg.L := rfl
  simp only [processRequest, guardRound_S, applySurvivor_S, finishProcessing_S, hL]

theorem enterSurvivor_S (env : Env) (cur : Tr) : enterSurvivor (envS env) cur = enterSurvivor env cur := by
  unfold enterSurvivor
  simp only [deepEnter_S]
  rfl

theorem initialEnter_S (env : Env) : initialEnter (envS env) = initialEnter env := by
  funext s
  have hL : (envS env).cfg.L = env.cfg.L := rfl
  simp only [initialEnter, entryGuardRound_S, enterSurvivor_S, hL]

theorem finalExit_S (env : Env) : finalExit (envS env) = finalExit env := by
  unfold finalExit
  simp only [deepExit_S]
  rfl

theorem cycle_S (env : Env) (pre mid post : Method) : cycle (envS env) pre mid post = cycle env pre mid post := by
  unfold cycle
  have hp : (envS env).cfg.plans = env.cfg.plans := rfl
  simp only [phase_S, planStep_S, processRequest_S, hp]

theorem replayTransition_S (env : Env) (d : Nat) : replayTransition (envS env) d = replayTransition env d := by
  unfold replayTransition
  simp only [changeToRequested_S]

theorem replayEnter_S (env : Env) (d : Nat) : replayEnter (envS env) d = replayEnter env d := by
  unfold replayEnter
  simp only [deepEnter_S]

/-- the calls that exist only with the feature -/
def Op.usesSerialization : Op → Bool
  | .save .. | .load .. => true
  | _ => false

theorem envS_mk (cfg : Cfg) (beh : Beh) (i k : Nat) : (⟨cfgS cfg, beh, i, k⟩ : Env) = envS ⟨cfg, beh, i, k⟩ := rfl
theorem onCore_S (cfg : Cfg) (w : World) (i k : Nat) (name : String) (c : Core) (f : Step) (ret : Core → Option Bool) :
    onCore (cfgS cfg) w i k name c f ret = onCore cfg w i k name c f ret := rfl

end FFSM2

namespace FFSM2
open Step

theorem cfgS_permitted (cfg : Cfg) (fl : Flavour) (sid : Nat) (a : Action) : permitted (cfgS cfg) fl sid a = permitted cfg fl sid a := by
  cases a <;> rfl
theorem applyAction_S (env : Env) (sid : Nat) (a : Action) : applyAction (envS env) sid a = applyAction env sid a := by
  cases a <;> rfl
theorem extChange_S (env : Env) (d : Nat) (p : Option Nat) : extChange (envS env) d p = extChange env d p := rfl
theorem extStatus_S (env : Env) (id : Nat) (ok : Bool) : extStatus (envS env) id ok = extStatus env id ok := rfl
theorem update_S (env : Env) : update (envS env) = update env := cycle_S env _ _ _
theorem react_S (env : Env) : react (envS env) = react env := cycle_S env _ _ _

/-- **one call with SERIALIZATION compiled out is the same call** (every call but `save()` / `load()`) -/
theorem step_S (cfg : Cfg) (beh : Beh) (w : World) (k : Nat) (op : Op) (hop : op.usesSerialization = false) :
    step (cfgS cfg) beh w k op = step cfg beh w k op := by
  cases op <;> first
    | (simp [Op.usesSerialization] at hop; done)
    | (unfold step
       simp only [Op.inst, Op.name, envS_mk, initialEnter_S, finalExit_S, update_S, react_S, query_S, extChange_S, extStatus_S,
         processRequest_S, applyAction_S, cfgS_permitted, replayEnter_S, replayTransition_S]
       cases w.get _ <;> rfl)

theorem stepAll_S (cfg : Cfg) (beh : Beh) (w : World) (k : Nat) (op : Op) (hop : op.usesSerialization = false) :
    stepAll (cfgS cfg) beh w k op = stepAll cfg beh w k op := by
  cases op with
  | copy i src =>
    simp only [stepAll]
    cases w.get i <;> cases w.get src <;> rfl
  | replayFrom i src =>
    simp only [stepAll]
    cases w.get src
    · rfl
    · exact step_S cfg beh w k (.replayTransition i _) rfl
  | replayEnterFrom i src =>
    simp only [stepAll]
    cases w.get src
    · rfl
    · exact step_S cfg beh w k (.replayEnter i _) rfl
  | save i => simp [Op.usesSerialization] at hop
  | load i src => simp [Op.usesSerialization] at hop
  | construct i lg => exact step_S cfg beh w k (.construct i lg) rfl
  | destroy i => exact step_S cfg beh w k (.destroy i) rfl
  | enter i => exact step_S cfg beh w k (.enter i) rfl
  | exit i => exact step_S cfg beh w k (.exit i) rfl
  | update i => exact step_S cfg beh w k (.update i) rfl
  | react i => exact step_S cfg beh w k (.react i) rfl
  | query i => exact step_S cfg beh w k (.query i) rfl
  | changeTo i d => exact step_S cfg beh w k (.changeTo i d) rfl
  | changeWith i d p => exact step_S cfg beh w k (.changeWith i d p) rfl
  | immediateChangeTo i d => exact step_S cfg beh w k (.immediateChangeTo i d) rfl
  | immediateChangeWith i d p => exact step_S cfg beh w k (.immediateChangeWith i d p) rfl
  | succeed i id => exact step_S cfg beh w k (.succeed i id) rfl
  | fail i id => exact step_S cfg beh w k (.fail i id) rfl
  | planAppend i o d p => exact step_S cfg beh w k (.planAppend i o d p) rfl
  | planClear i => exact step_S cfg beh w k (.planClear i) rfl
  | planRemove i m => exact step_S cfg beh w k (.planRemove i m) rfl
  | replayEnter i d => exact step_S cfg beh w k (.replayEnter i d) rfl
  | replayTransition i d => exact step_S cfg beh w k (.replayTransition i d) rfl
  | attachLogger i on => exact step_S cfg beh w k (.attachLogger i on) rfl

theorem runFrom_S (cfg : Cfg) (beh : Beh) : ∀ (ops : List Op) (w : World) (k : Nat), (∀ op ∈ ops, op.usesSerialization = false) →
    runFrom (cfgS cfg) beh w k ops = runFrom cfg beh w k ops
  | [], _, _, _ => rfl
  | op :: ops, w, k, h => by
    simp only [runFrom]
    rw [stepAll_S cfg beh w k op (h op (by simp)), runFrom_S cfg beh ops _ _ (fun o ho => h o (by simp [ho]))]

end FFSM2
