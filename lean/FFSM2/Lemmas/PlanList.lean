import FFSM2.PlanList
import FFSM2.Lemmas.TaskList
/-! Representation invariant of `PlanT` over `TaskListT` + `taskLinks` + `tasksBounds`, and the
    specification of append / remove / clear / iteration under it (C10). -/
namespace FFSM2
namespace PlanList
open TaskList

/-- the doubly linked chain of plan order: `prev` of the first is `pv`, `next` of the last is 255 -/
def LC (links : List Link) : Nat → List Nat → Prop
  | _, [] => True
  | pv, x :: rest => (linkAt links x).prev = pv ∧ (linkAt links x).next = rest.head?.getD 255 ∧ LC links x rest

structure PInv (p : Plan) (vac order : List Nat) : Prop where
  tl : TaskList.Inv p.tasks vac
  linksLen : p.links.length = p.tasks.cap
  nodup : order.Nodup
  occIff : ∀ j, j ∈ order ↔ Occ p.tasks vac j
  cntEq : order.length = p.tasks.count
  firstEq : p.first = order.head?.getD 255
  lastEq : p.last = order.getLast?.getD 255
  lc : LC p.links 255 order
  clean : ∀ j, j < p.tasks.cap → j ∉ order → linkAt p.links j = Link.none

/-- the abstract plan: the tasks in append order -/
def absPlan (p : Plan) (order : List Nat) : List Item := order.map (at' p.tasks.items)

theorem linkAt_set (links : List Link) (k j : Nat) (x : Link) :
    linkAt (links.set k x) j = if k = j ∧ k < links.length then x else linkAt links j := by
  unfold linkAt
  simp only [List.getD_eq_getElem?_getD, List.getElem?_set]
  by_cases h : k = j
  · subst h
    by_cases h2 : k < links.length <;> simp [h2]
  · simp [h]

theorem LC_congr {links links' : List Link} : ∀ {l : List Nat} {pv : Nat},
    (∀ x ∈ l, linkAt links' x = linkAt links x) → LC links pv l → LC links' pv l
  | [], _, _, _ => trivial
  | x :: rest, pv, h, hc => by
    refine ⟨?_, ?_, LC_congr (fun z hz => h z (by simp [hz])) hc.2.2⟩
    · rw [h x (by simp)]; exact hc.1
    · rw [h x (by simp)]; exact hc.2.1

theorem order_lt_cap {p : Plan} {vac order : List Nat} (h : PInv p vac order) : ∀ j ∈ order, j < p.tasks.cap := by
  intro j hj
  exact Nat.lt_of_lt_of_le ((h.occIff j).mp hj).1 (bound_le _ h.tl.lastLe)

theorem pinv_init (cap : Nat) (h1 : 1 ≤ cap) (h2 : cap ≤ 255) : PInv (init cap) [0] [] where
  tl := inv_init cap h1 h2
  linksLen := by simp [init, TaskList.init]
  nodup := by simp
  occIff := by
    intro j
    simp only [List.not_mem_nil, false_iff]
    intro ⟨a, b⟩
    have hc : 0 < cap := h1
    simp [bound, init, TaskList.init, hc] at a b
    omega
  cntEq := rfl
  firstEq := rfl
  lastEq := rfl
  lc := trivial
  clean := by
    intro j hj _
    have hj' : j < cap := hj
    unfold linkAt init
    simp [List.getD_eq_getElem?_getD, hj']

/-- appending `idx` at the end of a non-empty chain -/
theorem LC_snoc (links : List Link) (idx : Nat) (hidx : idx < links.length) (hnone : linkAt links idx = Link.none) :
    ∀ (order : List Nat) (pv : Nat), order ≠ [] → order.Nodup → idx ∉ order → (∀ z ∈ order, z < links.length) →
      LC links pv order →
      LC ((links.set (order.getLast?.getD 255) { linkAt links (order.getLast?.getD 255) with next := idx }).set idx
            { linkAt (links.set (order.getLast?.getD 255) { linkAt links (order.getLast?.getD 255) with next := idx }) idx with
              prev := order.getLast?.getD 255 }) pv (order ++ [idx]) := by
  intro order
  induction order with
  | nil => intro pv h; exact absurd rfl h
  | cons x rest ih =>
    intro pv _ hnd hni hlt hlc
    have hxi : x ≠ idx := by intro e; exact hni (by simp [e])
    have hxlt : x < links.length := hlt x (by simp)
    cases rest with
    | nil =>
      simp only [List.getLast?_singleton, Option.getD_some, List.cons_append, List.nil_append]
      refine ⟨?_, ?_, ?_, ?_, trivial⟩
      · rw [linkAt_set, if_neg (by omega), linkAt_set]; simp [hxlt]; exact hlc.1
      · rw [linkAt_set, if_neg (by omega), linkAt_set]; simp [hxlt]
      · rw [linkAt_set]; simp [hidx]
      · rw [linkAt_set]; simp only [List.length_set, hidx, and_self, if_true, List.head?_nil, Option.getD_none]
        rw [linkAt_set, if_neg (by omega), hnone]; rfl
    | cons y r =>
      have hl : (x :: y :: r).getLast?.getD 255 = (y :: r).getLast?.getD 255 := by rw [List.getLast?_cons_cons]
      rw [hl]
      have hnd' : (y :: r).Nodup := (List.nodup_cons.mp hnd).2
      have hxn : x ∉ y :: r := (List.nodup_cons.mp hnd).1
      have hlast_mem : (y :: r).getLast?.getD 255 ∈ y :: r := by
        have : (y :: r).getLast? = some ((y :: r).getLast (by simp)) := List.getLast?_eq_some_getLast (by simp)
        rw [this]; simp only [Option.getD_some]; exact List.getLast_mem _
      have hxl : (y :: r).getLast?.getD 255 ≠ x := by intro e; exact hxn (e ▸ hlast_mem)
      have ih' := ih x (by simp) hnd' (fun hm => hni (by simp [hm])) (fun z hz => hlt z (by simp [hz])) hlc.2.2
      refine ⟨?_, ?_, ih'⟩
      · rw [linkAt_set, if_neg (by omega), linkAt_set, if_neg (by omega)]; exact hlc.1
      · rw [linkAt_set, if_neg (by omega), linkAt_set, if_neg (by omega)]
        have := hlc.2.1; simpa using this

end PlanList
end FFSM2

namespace FFSM2
namespace PlanList
open TaskList

theorem getLast_mem_of_ne_nil {l : List Nat} (h : l ≠ []) : l.getLast?.getD 255 ∈ l := by
  rw [List.getLast?_eq_some_getLast h]; simp only [Option.getD_some]; exact List.getLast_mem _

theorem head_getD_ne_nil {l : List Nat} (h : l ≠ []) : l.head?.getD 255 ∈ l := by
  cases l with
  | nil => exact absurd rfl h
  | cons x r => simp

/-- emplace a task and link it at the end (the common core of `append` / `appendWith` below capacity) -/
theorem append_core_spec {p : Plan} {vac order : List Nat} (h : PInv p vac order) (t : Item)
    (hc : p.tasks.count < p.tasks.cap) :
    (linkTask { p with tasks := (emplace p.tasks t).1 } (emplace p.tasks t).2).2 = true ∧
    ∃ vac', PInv (linkTask { p with tasks := (emplace p.tasks t).1 } (emplace p.tasks t).2).1 vac' (order ++ [p.tasks.head]) ∧
      absPlan (linkTask { p with tasks := (emplace p.tasks t).1 } (emplace p.tasks t).2).1 (order ++ [p.tasks.head])
        = absPlan p order ++ [t] := by
  obtain ⟨vac', hinv, hidx, hmem, hlt, hcnt, hcap, hocc, hat, hkeep⟩ := emplace_spec h.tl hc t
  have hcapLe := h.tl.capLe
  have hne255 : p.tasks.head ≠ 255 := by omega
  have hnotin : p.tasks.head ∉ order := by
    intro hm; exact ((h.occIff _).mp hm).2 hmem
  have habs : ∀ (q : Plan), q.tasks = (emplace p.tasks t).1 →
      absPlan q (order ++ [p.tasks.head]) = absPlan p order ++ [t] := by
    intro q hq
    unfold absPlan
    rw [List.map_append, hq]
    congr 1
    · apply List.map_congr_left
      intro j hj
      exact hkeep j ((h.occIff j).mp hj)
    · simp [hat]
  rw [hidx]
  by_cases hemp : order = []
  · subst hemp
    have hfirst : p.first = 255 := by rw [h.firstEq]; rfl
    have hq : linkTask { p with tasks := (emplace p.tasks t).1 } p.tasks.head
        = ({ p with tasks := (emplace p.tasks t).1, first := p.tasks.head, last := p.tasks.head }, true) := by
      simp [linkTask, hne255, hfirst]
    rw [hq]
    refine ⟨rfl, vac', ?_, habs _ rfl⟩
    exact {
      tl := hinv
      linksLen := by show p.links.length = (emplace p.tasks t).1.cap; rw [hcap]; exact h.linksLen
      nodup := by simp
      occIff := by
        intro j
        show j ∈ [] ++ [p.tasks.head] ↔ Occ (emplace p.tasks t).1 vac' j
        rw [hocc j]
        have : ¬ Occ p.tasks vac j := fun ho => by have := (h.occIff j).mpr ho; cases this
        simp [this]
      cntEq := by show ([] ++ [p.tasks.head]).length = (emplace p.tasks t).1.count; rw [hcnt]; have := h.cntEq; simp at this ⊢; omega
      firstEq := by simp
      lastEq := by simp
      lc := by
        have hcl := h.clean p.tasks.head hlt (by simp)
        show LC p.links 255 ([] ++ [p.tasks.head])
        simp only [List.nil_append]
        exact ⟨by rw [hcl]; rfl, by rw [hcl]; rfl, trivial⟩
      clean := by
        intro j hj hn
        show linkAt p.links j = Link.none
        have hj' : j < p.tasks.cap := by rw [← hcap]; exact hj
        exact h.clean j hj' (by simp) }
  · have hlastmem := getLast_mem_of_ne_nil hemp
    have hfirstmem := head_getD_ne_nil hemp
    have hfirst : p.first ≠ 255 := by
      rw [h.firstEq]; have := order_lt_cap h _ hfirstmem; omega
    have hlastlt : p.last < p.links.length := by
      rw [h.lastEq, h.linksLen]; exact order_lt_cap h _ hlastmem
    have hidxlt : p.tasks.head < p.links.length := by rw [h.linksLen]; exact hlt
    have hq : linkTask { p with tasks := (emplace p.tasks t).1 } p.tasks.head
        = ({ p with tasks := (emplace p.tasks t).1,
                    links := (p.links.set p.last { linkAt p.links p.last with next := p.tasks.head }).set p.tasks.head
                      { linkAt (p.links.set p.last { linkAt p.links p.last with next := p.tasks.head }) p.tasks.head with prev := p.last },
                    last := p.tasks.head }, true) := by
      simp [linkTask, hne255, hfirst]
    rw [hq]
    refine ⟨rfl, vac', ?_, habs _ rfl⟩
    have hnone := h.clean p.tasks.head hlt hnotin
    have hsn := LC_snoc p.links p.tasks.head hidxlt hnone order 255 hemp h.nodup hnotin
      (fun z hz => by rw [h.linksLen]; exact order_lt_cap h z hz) h.lc
    rw [← h.lastEq] at hsn
    exact {
      tl := hinv
      linksLen := by show ((p.links.set _ _).set _ _).length = (emplace p.tasks t).1.cap; simp [hcap, h.linksLen]
      nodup := by
        rw [List.nodup_append]
        refine ⟨h.nodup, by simp, ?_⟩
        intro a ha b hb
        simp at hb; subst hb
        intro e; subst e; exact hnotin ha
      occIff := by
        intro j
        show j ∈ order ++ [p.tasks.head] ↔ Occ (emplace p.tasks t).1 vac' j
        rw [hocc j, List.mem_append, h.occIff j]
        simp only [List.mem_singleton]
        constructor
        · intro h1; rcases h1 with h1 | h1; exact Or.inr h1; exact Or.inl h1
        · intro h1; rcases h1 with h1 | h1; exact Or.inr h1; exact Or.inl h1
      cntEq := by
        show (order ++ [p.tasks.head]).length = (emplace p.tasks t).1.count
        rw [hcnt]; have := h.cntEq; simp; omega
      firstEq := by
        show p.first = (order ++ [p.tasks.head]).head?.getD 255
        rw [h.firstEq]
        cases order with
        | nil => exact absurd rfl hemp
        | cons x r => rfl
      lastEq := by show p.tasks.head = (order ++ [p.tasks.head]).getLast?.getD 255; simp
      lc := hsn
      clean := by
        intro j hj hn
        have hj' : j < p.tasks.cap := by rw [← hcap]; exact hj
        have hn1 : j ∉ order := fun hm => hn (List.mem_append_left _ hm)
        have hn2 : j ≠ p.tasks.head := fun e => hn (by simp [e])
        have hn3 : p.last ≠ j := by intro e; apply hn1; rw [← e, h.lastEq]; exact hlastmem
        show linkAt ((p.links.set _ _).set _ _) j = Link.none
        rw [linkAt_set, if_neg (by intro e; exact hn2 e.1.symm), linkAt_set, if_neg (by intro e; exact hn3 e.1)]
        exact h.clean j hj' hn1 }

/-- **`PlanT::append`** (payload-free: capacity test first): succeeds exactly when fewer than capacity
    tasks are present — then the abstract plan grows by that task at the end — and otherwise returns
    false and leaves the plan untouched -/
theorem append_spec {p : Plan} {vac order : List Nat} (h : PInv p vac order) (o d : Nat) :
    (p.tasks.count < p.tasks.cap →
      (append p o d).2 = true ∧ ∃ vac' idx, PInv (append p o d).1 vac' (order ++ [idx]) ∧
        absPlan (append p o d).1 (order ++ [idx]) = absPlan p order ++ [⟨o, d, none⟩]) ∧
    (¬ p.tasks.count < p.tasks.cap → append p o d = (p, false)) := by
  constructor
  · intro hc
    obtain ⟨h1, vac', h2, h3⟩ := append_core_spec h ⟨o, d, none⟩ hc
    simp only [append, hc, if_true]
    exact ⟨h1, vac', _, h2, h3⟩
  · intro hc; simp [append, hc]

/-- **`PayloadPlanT::append`** (no capacity test of its own): same contract through `emplace`
    returning INVALID and `linkTask` rejecting it -/
theorem appendWith_spec {p : Plan} {vac order : List Nat} (h : PInv p vac order) (o d pl : Nat) :
    (p.tasks.count < p.tasks.cap →
      (appendWith p o d pl).2 = true ∧ ∃ vac' idx, PInv (appendWith p o d pl).1 vac' (order ++ [idx]) ∧
        absPlan (appendWith p o d pl).1 (order ++ [idx]) = absPlan p order ++ [⟨o, d, some pl⟩]) ∧
    (¬ p.tasks.count < p.tasks.cap → appendWith p o d pl = (p, false)) := by
  constructor
  · intro hc
    obtain ⟨h1, vac', h2, h3⟩ := append_core_spec h ⟨o, d, some pl⟩ hc
    exact ⟨h1, vac', _, h2, h3⟩
  · intro hc
    unfold appendWith
    rw [emplace_full _ _ hc]
    simp [linkTask]

end PlanList
end FFSM2

namespace FFSM2
namespace PlanList
open TaskList

/-- the link surgery of `PlanT::remove(index)` -/
def unlink (links : List Link) (cap x : Nat) : List Link :=
  let link := linkAt links x
  let links1 := if link.prev < cap then links.set link.prev { linkAt links link.prev with next := link.next } else links
  let links2 := if link.next < cap then links1.set link.next { linkAt links1 link.next with prev := link.prev } else links1
  links2.set x Link.none

theorem remove_links (p : Plan) (x : Nat) : (remove p x).links = unlink p.links p.tasks.cap x := by
  unfold remove unlink
  simp only
  split <;> split <;> rfl

theorem unlink_length (links : List Link) (cap x : Nat) : (unlink links cap x).length = links.length := by
  unfold unlink; simp only; split <;> split <;> simp

theorem unlink_other (links : List Link) (cap x z : Nat)
    (h1 : z ≠ (linkAt links x).prev) (h2 : z ≠ (linkAt links x).next) (h3 : z ≠ x) :
    linkAt (unlink links cap x) z = linkAt links z := by
  unfold unlink
  simp only
  rw [linkAt_set, if_neg (by intro e; exact h3 e.1.symm)]
  split
  · rw [linkAt_set, if_neg (by intro e; exact h2 e.1.symm)]
    split
    · rw [linkAt_set, if_neg (by intro e; exact h1 e.1.symm)]
    · rfl
  · split
    · rw [linkAt_set, if_neg (by intro e; exact h1 e.1.symm)]
    · rfl

theorem unlink_self (links : List Link) (cap x : Nat) (hx : x < links.length) : linkAt (unlink links cap x) x = Link.none := by
  unfold unlink
  simp only
  rw [linkAt_set]
  have : x < (if (linkAt links x).next < cap then
      (if (linkAt links x).prev < cap then links.set (linkAt links x).prev { linkAt links (linkAt links x).prev with next := (linkAt links x).next } else links).set
        (linkAt links x).next { linkAt (if (linkAt links x).prev < cap then links.set (linkAt links x).prev { linkAt links (linkAt links x).prev with next := (linkAt links x).next } else links) (linkAt links x).next with prev := (linkAt links x).prev }
      else (if (linkAt links x).prev < cap then links.set (linkAt links x).prev { linkAt links (linkAt links x).prev with next := (linkAt links x).next } else links)).length := by
    split <;> split <;> simp [hx]
  simp [this]

/-- what `LC` says about an element in the middle -/
theorem LC_mid (links : List Link) (x : Nat) (post : List Nat) : ∀ (pre : List Nat) (pv : Nat),
    LC links pv (pre ++ x :: post) →
    (linkAt links x).prev = pre.getLast?.getD pv ∧ (linkAt links x).next = post.head?.getD 255 := by
  intro pre
  induction pre with
  | nil => intro pv h; exact ⟨h.1, h.2.1⟩
  | cons p1 pre' ih =>
    intro pv h
    obtain ⟨i1, i2⟩ := ih p1 h.2.2
    refine ⟨?_, i2⟩
    rw [i1]
    cases pre' with
    | nil => rfl
    | cons q r =>
      have : (q :: r).getLast? = some ((q :: r).getLast (by simp)) := List.getLast?_eq_some_getLast (by simp)
      rw [List.getLast?_cons_cons, this]; rfl

/-- `unlink` turns the chain of `pre ++ x :: post` into the chain of `pre ++ post` -/
theorem LC_unlink (links : List Link) (cap x : Nat) (post : List Nat) (hlen : links.length = cap) (hcap : cap ≤ 255) :
    ∀ (pre : List Nat) (pv : Nat), LC links pv (pre ++ x :: post) → (pre ++ x :: post).Nodup →
      (∀ z ∈ pre ++ x :: post, z < cap) → (pv = 255 ∨ (pv < cap ∧ pv ∉ pre ++ x :: post)) →
      LC (unlink links cap x) pv (pre ++ post) ∧
      (pre = [] → pv < cap → (linkAt (unlink links cap x) pv).next = post.head?.getD 255 ∧
                             (linkAt (unlink links cap x) pv).prev = (linkAt links pv).prev) := by
  intro pre
  induction pre with
  | nil =>
    intro pv hlc hnd hlt hpv
    simp only [List.nil_append] at hlc hnd hlt hpv ⊢
    have hxlt : x < cap := hlt x (by simp)
    have hprev : (linkAt links x).prev = pv := hlc.1
    have hnext : (linkAt links x).next = post.head?.getD 255 := hlc.2.1
    have hxn : x ∉ post := (List.nodup_cons.mp hnd).1
    have hpvx : pv ≠ x := by
      rcases hpv with e | e
      · omega
      · intro e2; exact e.2 (by simp [e2])
    constructor
    · -- LC over post
      cases post with
      | nil => trivial
      | cons y r =>
        have hy : y < cap := hlt y (by simp)
        have hyx : y ≠ x := by intro e; exact hxn (by simp [e])
        have hnext' : (linkAt links x).next = y := by rw [hnext]; rfl
        have hpvy : pv ≠ y := by
          rcases hpv with e | e
          · omega
          · intro e2; exact e.2 (by simp [e2])
        have hlcy := hlc.2.2
        refine ⟨?_, ?_, ?_⟩
        · -- prev of y becomes pv
          unfold unlink; simp only
          rw [linkAt_set, if_neg (by intro e; exact hyx e.1.symm), hnext', if_pos hy, linkAt_set]
          have : y < (if (linkAt links x).prev < cap then links.set (linkAt links x).prev { linkAt links (linkAt links x).prev with next := y } else links).length := by
            split <;> simp [hlen, hy]
          rw [if_pos ⟨rfl, this⟩, hprev]
        · -- next of y unchanged
          unfold unlink; simp only
          rw [linkAt_set, if_neg (by intro e; exact hyx e.1.symm), hnext', if_pos hy, linkAt_set]
          have : y < (if (linkAt links x).prev < cap then links.set (linkAt links x).prev { linkAt links (linkAt links x).prev with next := y } else links).length := by
            split <;> simp [hlen, hy]
          rw [if_pos ⟨rfl, this⟩]
          show (linkAt (if (linkAt links x).prev < cap then links.set (linkAt links x).prev { linkAt links (linkAt links x).prev with next := y } else links) y).next = _
          rw [hprev]
          split
          · rw [linkAt_set, if_neg (by intro e; exact hpvy e.1)]; exact hlcy.2.1
          · exact hlcy.2.1
        · apply LC_congr _ hlcy.2.2
          intro z hz
          have hnd2 := (List.nodup_cons.mp hnd).2
          have hzy : z ≠ y := by intro e; exact (List.nodup_cons.mp hnd2).1 (e ▸ hz)
          have hzx : z ≠ x := by intro e; exact hxn (by simp [e ▸ hz])
          have hzpv : z ≠ pv := by
            rcases hpv with e | e
            · have := hlt z (by simp [hz]); omega
            · intro e2; exact e.2 (by simp [e2 ▸ hz])
          exact unlink_other links cap x z (by rw [hprev]; exact hzpv) (by rw [hnext']; exact hzy) hzx
    · intro _ hpvlt
      have hnx : pv ≠ (linkAt links x).next := by
        rw [hnext]
        cases post with
        | nil => simp; omega
        | cons y r =>
          simp
          rcases hpv with e | e
          · omega
          · intro e2; exact e.2 (by simp [e2])
      unfold unlink; simp only
      rw [linkAt_set, if_neg (by intro e; exact hpvx e.1.symm)]
      have hl1 : (if (linkAt links x).prev < cap then links.set (linkAt links x).prev { linkAt links (linkAt links x).prev with next := (linkAt links x).next } else links)
          = links.set pv { linkAt links pv with next := (linkAt links x).next } := by
        rw [hprev, if_pos hpvlt]
      rw [hl1]
      split
      · rw [linkAt_set, if_neg (by intro e; exact hnx e.1.symm), linkAt_set]
        simp [hlen, hpvlt, hnext]
      · rw [linkAt_set]; simp [hlen, hpvlt, hnext]
  | cons p1 pre' ih =>
    intro pv hlc hnd hlt hpv
    simp only [List.cons_append] at hlc hnd hlt hpv ⊢
    have hp1 : p1 < cap := hlt p1 (by simp)
    have hnd' := (List.nodup_cons.mp hnd).2
    have hp1n : p1 ∉ pre' ++ x :: post := (List.nodup_cons.mp hnd).1
    obtain ⟨ih1, ih2⟩ := ih p1 hlc.2.2 hnd' (fun z hz => hlt z (by simp [hz])) (Or.inr ⟨hp1, hp1n⟩)
    obtain ⟨m1, m2⟩ := LC_mid links x post pre' p1 hlc.2.2
    refine ⟨⟨?_, ?_, ih1⟩, fun e => by cases e⟩
    · -- prev of p1 is still pv
      cases hpre : pre' with
      | nil =>
        rw [(ih2 hpre hp1).2]; exact hlc.1
      | cons q r =>
        have hne1 : p1 ≠ (linkAt links x).prev := by
          rw [m1, hpre, List.getLast?_eq_some_getLast (by simp)]; simp only [Option.getD_some]
          intro e; apply hp1n; rw [hpre, e]; exact List.mem_append_left _ (List.getLast_mem _)
        have hne2 : p1 ≠ (linkAt links x).next := by
          rw [m2]
          cases post with
          | nil => simp; omega
          | cons y s => simp; intro e; apply hp1n; rw [e]; simp
        have hne3 : p1 ≠ x := by intro e; apply hp1n; rw [e]; simp
        rw [unlink_other links cap x p1 hne1 hne2 hne3]; exact hlc.1
    · cases hpre : pre' with
      | nil =>
        rw [(ih2 hpre hp1).1]; rfl
      | cons q r =>
        have hne1 : p1 ≠ (linkAt links x).prev := by
          rw [m1, hpre, List.getLast?_eq_some_getLast (by simp)]; simp only [Option.getD_some]
          intro e; apply hp1n; rw [hpre, e]; exact List.mem_append_left _ (List.getLast_mem _)
        have hne2 : p1 ≠ (linkAt links x).next := by
          rw [m2]
          cases post with
          | nil => simp; omega
          | cons y s => simp; intro e; apply hp1n; rw [e]; simp
        have hne3 : p1 ≠ x := by intro e; apply hp1n; rw [e]; simp
        rw [unlink_other links cap x p1 hne1 hne2 hne3]
        have := hlc.2.1; rw [hpre] at this; simpa using this

end PlanList
end FFSM2

namespace FFSM2
namespace PlanList
open TaskList

theorem remove_first (p : Plan) (x : Nat) :
    (remove p x).first = if (linkAt p.links x).prev < p.tasks.cap then p.first else (linkAt p.links x).next := by
  unfold remove; simp only; repeat' split
  all_goals rfl

theorem remove_last (p : Plan) (x : Nat) :
    (remove p x).last = if (linkAt p.links x).next < p.tasks.cap then p.last else (linkAt p.links x).prev := by
  unfold remove; simp only; repeat' split
  all_goals rfl

theorem remove_tasks (p : Plan) (x : Nat) : (remove p x).tasks = TaskList.remove p.tasks x := by
  unfold remove; simp only; repeat' split
  all_goals rfl

/-- **`PlanT::remove(index)`** (iterator removal, consumption by firing, `clearTasks`): the task leaves
    the plan, every other task keeps its place and its contents, the slot returns to the free list -/
theorem remove_spec {p : Plan} {vac pre post : List Nat} {x : Nat} (h : PInv p vac (pre ++ x :: post)) :
    ∃ vac', PInv (remove p x) vac' (pre ++ post) ∧
      absPlan (remove p x) (pre ++ post) = absPlan p pre ++ absPlan p post ∧
      (∀ j ∈ pre ++ post, at' (remove p x).tasks.items j = at' p.tasks.items j) := by
  have hxmem : x ∈ pre ++ x :: post := by simp
  have hxocc := (h.occIff x).mp hxmem
  have hcap := h.tl.capLe
  have hxlt : x < p.tasks.cap := order_lt_cap h x hxmem
  have hpos : 0 < p.tasks.count := by rw [← h.cntEq]; simp; omega
  obtain ⟨vac', hinv, hcnt, hcapeq, hocc, hkeep⟩ := TaskList.remove_spec h.tl x hxocc hpos
  obtain ⟨m1, m2⟩ := LC_mid p.links x post pre 255 h.lc
  obtain ⟨lc', _⟩ := LC_unlink p.links p.tasks.cap x post h.linksLen hcap pre 255 h.lc h.nodup
    (fun z hz => order_lt_cap h z hz) (Or.inl rfl)
  have hnd := h.nodup
  have hxnot : x ∉ pre ++ post := by
    intro hm
    rw [List.nodup_append] at hnd
    rcases List.mem_append.mp hm with hm | hm
    · exact hnd.2.2 x hm x (by simp) rfl
    · exact (List.nodup_cons.mp hnd.2.1).1 hm
  have hsub : ∀ j, j ∈ pre ++ post → j ∈ pre ++ x :: post := by
    intro j hj; rcases List.mem_append.mp hj with hj | hj
    · exact List.mem_append_left _ hj
    · exact List.mem_append_right _ (by simp [hj])
  have hpoint : ∀ j ∈ pre ++ post, at' (remove p x).tasks.items j = at' p.tasks.items j := by
    intro j hj
    rw [remove_tasks]
    exact hkeep j ((h.occIff j).mp (hsub j hj)) (fun e => hxnot (e ▸ hj))
  refine ⟨vac', ?_, ?_, hpoint⟩
  · exact {
      tl := by rw [remove_tasks]; exact hinv
      linksLen := by rw [remove_links, unlink_length, remove_tasks, hcapeq]; exact h.linksLen
      nodup := by
        rw [List.nodup_append] at hnd ⊢
        exact ⟨hnd.1, (List.nodup_cons.mp hnd.2.1).2, fun a ha b hb => hnd.2.2 a ha b (by simp [hb])⟩
      occIff := by
        intro j
        rw [remove_tasks, hocc j, ← h.occIff j]
        constructor
        · intro hj; exact ⟨hsub j hj, fun e => hxnot (e ▸ hj)⟩
        · intro ⟨hj, hne⟩
          rcases List.mem_append.mp hj with hj | hj
          · exact List.mem_append_left _ hj
          · rcases List.mem_cons.mp hj with e | hj
            · exact absurd e hne
            · exact List.mem_append_right _ hj
      cntEq := by rw [remove_tasks, hcnt, ← h.cntEq]; simp
      firstEq := by
        rw [remove_first]
        cases pre with
        | nil =>
          have hp : ¬ (linkAt p.links x).prev < p.tasks.cap := by rw [m1]; simp; omega
          rw [if_neg hp, m2]; rfl
        | cons a r =>
          have hl : (linkAt p.links x).prev < p.tasks.cap := by
            rw [m1, List.getLast?_eq_some_getLast (by simp)]; simp only [Option.getD_some]
            exact order_lt_cap h _ (List.mem_append_left _ (List.getLast_mem _))
          rw [if_pos hl, h.firstEq]; rfl
      lastEq := by
        rw [remove_last]
        cases post with
        | nil =>
          have hp : ¬ (linkAt p.links x).next < p.tasks.cap := by rw [m2]; simp; omega
          rw [if_neg hp, m1]; simp
        | cons a r =>
          have hl : (linkAt p.links x).next < p.tasks.cap := by
            rw [m2]; simp only [List.head?_cons, Option.getD_some]
            exact order_lt_cap h _ (List.mem_append_right _ (by simp))
          rw [if_pos hl, h.lastEq]
          simp [List.getLast?_append, List.getLast?_cons_cons]
      lc := by rw [remove_links]; exact lc'
      clean := by
        intro j hj hn
        rw [remove_tasks, hcapeq] at hj
        rw [remove_links]
        by_cases hjx : j = x
        · subst hjx; exact unlink_self _ _ _ (by rw [h.linksLen]; exact hj)
        · have hjn : j ∉ pre ++ x :: post := by
            intro hm
            rcases List.mem_append.mp hm with hm | hm
            · exact hn (List.mem_append_left _ hm)
            · rcases List.mem_cons.mp hm with e | hm
              · exact hjx e
              · exact hn (List.mem_append_right _ hm)
          have h1 : j ≠ (linkAt p.links x).prev := by
            rw [m1]
            cases pre with
            | nil => simp; omega
            | cons a r =>
              rw [List.getLast?_eq_some_getLast (by simp)]; simp only [Option.getD_some]
              intro e; exact hjn (e ▸ List.mem_append_left _ (List.getLast_mem _))
          have h2 : j ≠ (linkAt p.links x).next := by
            rw [m2]
            cases post with
            | nil => simp; omega
            | cons a r => simp; intro e; exact hjn (by rw [e]; simp)
          rw [unlink_other _ _ _ _ h1 h2 hjx]
          exact h.clean j hj hjn }
  · unfold absPlan
    rw [List.map_append, remove_tasks]
    congr 1
    · apply List.map_congr_left
      intro j hj
      exact hkeep j ((h.occIff j).mp (List.mem_append_left _ hj)) (fun e => hxnot (e ▸ List.mem_append_left _ hj))
    · apply List.map_congr_left
      intro j hj
      exact hkeep j ((h.occIff j).mp (List.mem_append_right _ (by simp [hj]))) (fun e => hxnot (e ▸ List.mem_append_right _ hj))

end PlanList
end FFSM2

namespace FFSM2
namespace PlanList
open TaskList

/-- which plan positions survive an iteration that removes where the mask says so -/
def keepMask : List Nat → List Bool → List Nat
  | [], _ => []
  | x :: xs, [] => x :: xs
  | x :: xs, m :: ms => if m then keepMask xs ms else x :: keepMask xs ms

@[simp] theorem keepMask_nil (l : List Nat) : keepMask l [] = l := by cases l <;> rfl

theorem order_length_le {p : Plan} {vac order : List Nat} (h : PInv p vac order) : order.length ≤ p.tasks.cap := by
  rw [h.cntEq]; have := h.tl.cnt; have := bound_le _ h.tl.lastLe; omega

theorem iterNext_spec {p : Plan} {vac done rest : List Nat} {y : Nat} (h : PInv p vac (done ++ y :: rest)) :
    iterNext p y = rest.head?.getD 255 := by
  have hy : y < p.tasks.cap := order_lt_cap h y (by simp)
  unfold iterNext
  rw [if_pos hy]
  exact (LC_mid p.links y rest done 255 h.lc).2

theorem iterNext_invalid (p : Plan) (hc : p.tasks.cap ≤ 255) : iterNext p 255 = 255 := by
  unfold iterNext; rw [if_neg (by omega)]

/-- **iteration with removal through the iterator**: visits every remaining task exactly once, in plan
    order, with its original contents — removing the current task does not disturb the rest — and
    leaves exactly the tasks the mask kept, in their original order -/
theorem iterLoop_spec : ∀ (todo : List Nat) (fuel : Nat) (p : Plan) (vac done : List Nat) (it : Iter) (mask : List Bool),
    PInv p vac (done ++ todo) → todo.length ≤ fuel →
    it.curr = todo.head?.getD 255 → it.next = todo.tail.head?.getD 255 →
    (iterLoop fuel p it mask).1 = todo.map (fun j => (j, at' p.tasks.items j)) ∧
    ∃ vac', PInv (iterLoop fuel p it mask).2 vac' (done ++ keepMask todo mask) ∧
      (∀ j ∈ done ++ keepMask todo mask, at' (iterLoop fuel p it mask).2.tasks.items j = at' p.tasks.items j) := by
  intro todo
  induction todo with
  | nil =>
    intro fuel p vac done it mask h _ hc _
    have hcap := h.tl.capLe
    have hinv : iterValid p it = false := by
      unfold iterValid; simp only [List.head?_nil, Option.getD_none] at hc; rw [hc]; simp; omega
    have hres : iterLoop fuel p it mask = ([], p) := by
      cases fuel with
      | zero => rfl
      | succ f => simp only [iterLoop, hinv, Bool.false_eq_true, if_false]
    rw [hres]
    exact ⟨rfl, vac, by simpa [keepMask] using h, fun _ _ => rfl⟩
  | cons x rest ih =>
    intro fuel p vac done it mask h hf hc hn
    have hcap := h.tl.capLe
    have hx : x < p.tasks.cap := order_lt_cap h x (by simp)
    simp only [List.head?_cons, Option.getD_some] at hc
    simp only [List.tail_cons] at hn
    cases fuel with
    | zero => simp at hf
    | succ f =>
      have hval : iterValid p it = true := by unfold iterValid; rw [hc]; simpa using hx
      simp only [iterLoop, hval, if_true, hc]
      -- the mask decision
      cases mask with
      | nil =>
        -- no removal
        simp only [Bool.false_eq_true, if_false]
        have h' : PInv p vac ((done ++ [x]) ++ rest) := by simpa using h
        have hnext : iterNext p it.next = rest.tail.head?.getD 255 := by
          rw [hn]
          cases rest with
          | nil => exact iterNext_invalid p hcap
          | cons y r => exact iterNext_spec (done := done ++ [x]) (by simpa using h)
        obtain ⟨i1, vac', i2, i3⟩ := ih f p vac (done ++ [x]) (iterAdvance p it) [] h' (by simpa using hf)
          (by simp [iterAdvance, hn]) (by simp [iterAdvance, hnext])
        refine ⟨by rw [i1]; rfl, vac', by simpa [keepMask] using i2, ?_⟩
        intro j hj; exact i3 j (by simpa [keepMask] using hj)
      | cons m ms =>
        cases m with
        | false =>
          simp only [Bool.false_eq_true, if_false]
          have h' : PInv p vac ((done ++ [x]) ++ rest) := by simpa using h
          have hnext : iterNext p it.next = rest.tail.head?.getD 255 := by
            rw [hn]
            cases rest with
            | nil => exact iterNext_invalid p hcap
            | cons y r => exact iterNext_spec (done := done ++ [x]) (by simpa using h)
          obtain ⟨i1, vac', i2, i3⟩ := ih f p vac (done ++ [x]) (iterAdvance p it) ms h' (by simpa using hf)
            (by simp [iterAdvance, hn]) (by simp [iterAdvance, hnext])
          refine ⟨by rw [i1]; rfl, vac', by simpa [keepMask] using i2, ?_⟩
          intro j hj; exact i3 j (by simpa [keepMask] using hj)
        | true =>
          simp only [if_true]
          obtain ⟨vac1, r1, _, r3⟩ := remove_spec h
          have hcap' : (remove p x).tasks.cap ≤ 255 := r1.tl.capLe
          have hnext : iterNext (remove p x) it.next = rest.tail.head?.getD 255 := by
            rw [hn]
            cases rest with
            | nil => exact iterNext_invalid _ hcap'
            | cons y r => exact iterNext_spec (done := done) r1
          obtain ⟨i1, vac', i2, i3⟩ := ih f (remove p x) vac1 done (iterAdvance (remove p x) it) ms r1 (by simpa using hf)
            (by simp [iterAdvance, hn]) (by simp [iterAdvance, hnext])
          refine ⟨?_, vac', by simpa [keepMask] using i2, ?_⟩
          · rw [i1]
            simp only [List.map_cons, List.cons.injEq, true_and]
            apply List.map_congr_left
            intro j hj
            rw [r3 j (List.mem_append_right _ hj)]
          · intro j hj
            have hj' : j ∈ done ++ keepMask rest ms := by simpa [keepMask] using hj
            rw [i3 j hj']
            have hsub : ∀ (l : List Nat) (mk : List Bool), ∀ z ∈ keepMask l mk, z ∈ l := by
              intro l
              induction l with
              | nil => intro mk z hz; simp [keepMask] at hz
              | cons a r ihl =>
                intro mk z hz
                cases mk with
                | nil => simpa [keepMask] using hz
                | cons b bs =>
                  simp only [keepMask] at hz
                  split at hz
                  · exact List.mem_cons_of_mem _ (ihl bs z hz)
                  · rcases List.mem_cons.mp hz with e | hz
                    · simp [e]
                    · exact List.mem_cons_of_mem _ (ihl bs z hz)
            apply r3 j
            rcases List.mem_append.mp hj' with hm | hm
            · exact List.mem_append_left _ hm
            · exact List.mem_append_right _ (hsub rest ms j hm)

end PlanList
end FFSM2

namespace FFSM2
namespace PlanList
open TaskList

/-- the loop of `clearTasks`: removes every task from the front, following `next` read before removal -/
theorem clearLoop_spec : ∀ (todo : List Nat) (fuel : Nat) (p : Plan) (vac : List Nat),
    PInv p vac todo → todo.length ≤ fuel →
    ∃ vac', PInv (clearLoop fuel p (todo.head?.getD 255)) vac' [] := by
  intro todo
  induction todo with
  | nil =>
    intro fuel p vac h _
    cases fuel with
    | zero => exact ⟨vac, h⟩
    | succ f => exact ⟨vac, by simpa [clearLoop] using h⟩
  | cons x rest ih =>
    intro fuel p vac h hf
    cases fuel with
    | zero => simp at hf
    | succ f =>
      have hx : x < p.tasks.cap := order_lt_cap h x (by simp)
      have hcap := h.tl.capLe
      have hne : x ≠ 255 := by omega
      simp only [List.head?_cons, Option.getD_some, clearLoop, ne_eq, hne, not_false_eq_true, if_true]
      have hnext : (linkAt p.links x).next = rest.head?.getD 255 := (LC_mid p.links x rest [] 255 (by simpa using h.lc)).2
      obtain ⟨vac1, r1, _, _⟩ := remove_spec (pre := []) (by simpa using h)
      rw [hnext]
      exact ih f (remove p x) vac1 (by simpa using r1) (by simpa using hf)

/-- **`PlanT::clearTasks()`**: the plan is empty afterwards and the invariant holds (every slot is back
    on the free list: `count = 0`) -/
theorem clearTasks_spec {p : Plan} {vac order : List Nat} (h : PInv p vac order) :
    ∃ vac', PInv (clearTasks p) vac' [] := by
  unfold clearTasks
  by_cases hf : p.first < p.tasks.cap
  · simp only [hf, if_true]
    have hfe : p.first = order.head?.getD 255 := h.firstEq
    obtain ⟨vac', r⟩ := clearLoop_spec order p.tasks.cap p vac h (order_length_le h)
    rw [← hfe] at r
    refine ⟨vac', { r with firstEq := rfl, lastEq := rfl }⟩
  · simp only [hf, if_false]
    have hcap := h.tl.capLe
    have : order = [] := by
      cases order with
      | nil => rfl
      | cons x r =>
        exfalso; apply hf; rw [h.firstEq]; simp; exact order_lt_cap h x (by simp)
    subst this
    exact ⟨vac, h⟩

end PlanList
end FFSM2
