import FFSM2.Lemmas.Keeps
/-! Provenance of transitions (C07): every transition the machine holds or shows to user code — the
    outstanding request, the pending / current transition of a guard or lifecycle callback, the previous
    transition, every task of the plan — is, field for field (origin, destination, payload), one that somebody
    requested.  `M` is the set of requested transitions; a step keeps the invariant provided the requests its
    own callbacks make (its `act` events) are in `M`. -/
namespace FFSM2
open Step Ancestors

/-- the transition (or task, as the transition it becomes when it fires) a callback action requests -/
def Ev.made : Ev → Option Tr
  | .act k (.changeTo d) => some ⟨k.sid, d, none⟩
  | .act k (.changeWith d p) => some ⟨k.sid, d, some p⟩
  | .act _ (.planAppend o d p) => some ⟨o, d, p⟩
  | _ => none

/-- a present transition is a requested one -/
def TrOk (M : Tr → Prop) (t : Tr) : Prop := t.valid = true → M t

theorem trOk_default (M : Tr → Prop) : TrOk M {} := by intro h; simp [Tr.valid] at h
theorem trOk_clear (M : Tr → Prop) (t : Tr) : TrOk M t.clear := by intro h; simp [Tr.clear, Tr.valid] at h
theorem trOk_canon {M : Tr → Prop} {t : Tr} (h : TrOk M t) : TrOk M t.canon := by
  unfold Tr.canon; split
  · exact h
  · exact trOk_default M

structure Prov (M : Tr → Prop) (c : Core) : Prop where
  request : TrOk M c.request
  prev : TrOk M c.prev
  plan : ∀ t ∈ c.plan, M ⟨t.origin, t.dest, t.payload⟩

/-- what a callback can read is requested too -/
def ObsProv (M : Tr → Prop) (o : Obs) : Prop :=
  TrOk M o.request ∧ (∀ t, o.current = some t → TrOk M t) ∧ (∀ t, o.pending = some t → TrOk M t) ∧
  (∀ l, o.plan = some l → ∀ t ∈ l, M ⟨t.origin, t.dest, t.payload⟩)

def ActsIn (M : Tr → Prop) (es : List Ev) : Prop := ∀ e ∈ es, ∀ t, e.made = some t → M t
def ObsAll (M : Tr → Prop) (es : List Ev) : Prop := ∀ e ∈ es, ∀ k vis o, e = Ev.cb k vis o → ObsProv M o

theorem actsIn_append {M : Tr → Prop} {a b : List Ev} (h : ActsIn M (a ++ b)) : ActsIn M a ∧ ActsIn M b :=
  ⟨fun e he => h e (List.mem_append_left _ he), fun e he => h e (List.mem_append_right _ he)⟩

theorem obsAll_append {M : Tr → Prop} {a b : List Ev} (ha : ObsAll M a) (hb : ObsAll M b) : ObsAll M (a ++ b) := by
  intro e he
  rcases List.mem_append.mp he with h | h
  · exact ha e h
  · exact hb e h

theorem obsAll_nil (M : Tr → Prop) : ObsAll M [] := by intro e he; cases he

/-- the step keeps provenance, and every observation it hands out is of requested transitions — given that
    what its own callbacks request is in `M` -/
def KeepsM (M : Tr → Prop) (f : Step) : Prop :=
  ∀ s, ActsIn M (f s).2 → Prov M s.core → Prov M (f s).1.core ∧ ObsAll M (f s).2

theorem KeepsM.seq {M} {f g : Step} (hf : KeepsM M f) (hg : KeepsM M g) : KeepsM M (f ⋙ g) := by
  intro s ha hp
  simp only [Step.seq] at ha ⊢
  obtain ⟨a1, a2⟩ := actsIn_append ha
  obtain ⟨p1, o1⟩ := hf s a1 hp
  obtain ⟨p2, o2⟩ := hg _ a2 p1
  exact ⟨p2, obsAll_append o1 o2⟩

theorem keepsM_skip (M) : KeepsM M skip := fun _ _ h => ⟨h, obsAll_nil M⟩
theorem keepsM_modify {M} {m : St → St} (h : ∀ s, (m s).core = s.core) : KeepsM M (Step.modify m) := by
  intro s _ hp
  refine ⟨?_, obsAll_nil M⟩
  show Prov M (m s).core
  rw [h]; exact hp
theorem keepsM_modifyCore {M} {m : Core → Core} (h : ∀ c, Prov M c → Prov M (m c)) : KeepsM M (modifyCore m) :=
  fun _ _ hp => ⟨h _ hp, obsAll_nil M⟩
theorem keepsM_dep {M} {g : St → Step} (h : ∀ s0, KeepsM M (g s0)) : KeepsM M (fun s => g s s) := fun s => h s s
theorem keepsM_seqList {M} {l : List Step} (h : ∀ f ∈ l, KeepsM M f) : KeepsM M (seqList l) := by
  induction l with
  | nil => exact keepsM_skip M
  | cons f fs ih => exact KeepsM.seq (h f (by simp)) (ih fun g hg => h g (by simp [hg]))
/-- log records request nothing and are no observations -/
theorem keepsM_logs {M} {e : St → List Ev} (h : ∀ s, ∀ x ∈ e s, x.isCb = false) : KeepsM M (emit e) := by
  intro s _ hp
  refine ⟨hp, ?_⟩
  intro x hx k vis o hk
  have := h s x hx
  rw [hk] at this; cases this

theorem logEv_noCb (env : Env) (c : Core) (r : LogRec) : ∀ x ∈ logEv env c r, x.isCb = false := by
  intro x hx
  unfold logEv at hx
  split at hx
  · simp only [List.mem_singleton] at hx; rw [hx]; rfl
  · cases hx

theorem obsProv_observe {M : Tr → Prop} (env : Env) (fl : Flavour) (sid : Nat) (cur pend : Tr) (c : Core)
    (hc : Prov M c) (hcur : TrOk M cur) (hpend : TrOk M pend) : ObsProv M (observe env fl sid cur pend c) := by
  refine ⟨trOk_canon hc.request, ?_, ?_, ?_⟩
  · intro t ht
    simp only [observe] at ht
    split at ht
    · cases ht
    · cases ht; exact trOk_canon hcur
  · intro t ht
    simp only [observe] at ht
    split at ht
    · cases ht; exact trOk_canon hpend
    · cases ht
  · intro l hl
    simp only [observe] at hl
    split at hl
    · cases hl
    · cases hl; exact hc.plan

/-- one permitted action whose request is in `M` -/
theorem prov_applyAction {M : Tr → Prop} (env : Env) (sid : Nat) (key : Key) (hk : key.sid = sid) (a : Action)
    (hM : ∀ t, (Ev.act key a).made = some t → M t) (s : St) (h : Prov M s.core) :
    Prov M (applyAction env sid a s).1.core := by
  cases a with
  | changeTo d => exact ⟨fun _ => hM ⟨sid, d, none⟩ (by simp [Ev.made, hk]), h.prev, h.plan⟩
  | changeWith d p => exact ⟨fun _ => hM ⟨sid, d, some p⟩ (by simp [Ev.made, hk]), h.prev, h.plan⟩
  | cancel => exact h
  | succeed id => exact ⟨h.request, h.prev, h.plan⟩
  | fail id => exact ⟨h.request, h.prev, h.plan⟩
  | planAppend o d p =>
    have hm : M ⟨o, d, p⟩ := hM _ rfl
    cases p with
    | none =>
      simp only [applyAction]
      split
      · refine ⟨h.request, h.prev, ?_⟩
        intro t ht
        simp only [List.mem_append, List.mem_singleton] at ht
        rcases ht with ht | rfl
        · exact h.plan t ht
        · exact hm
      · exact h
    | some p =>
      simp only [applyAction]
      split
      · refine ⟨h.request, h.prev, ?_⟩
        intro t ht
        simp only [List.mem_append, List.mem_singleton] at ht
        rcases ht with ht | rfl
        · exact h.plan t ht
        · exact hm
      · exact ⟨h.request, h.prev, h.plan⟩
  | planClear => exact ⟨h.request, h.prev, by intro t ht; cases ht⟩
  | planRemove m => exact ⟨h.request, h.prev, fun t ht => h.plan t (removeMasked_sub _ _ t ht)⟩

theorem applyAction_noCb (env : Env) (sid : Nat) (a : Action) (s : St) : ∀ x ∈ (applyAction env sid a s).2, x.isCb = false := by
  cases a with
  | planAppend o d p => cases p <;> simp only [applyAction] <;> split <;> (intro x hx; cases hx)
  | planClear => intro x hx; cases hx
  | planRemove m => intro x hx; cases hx
  | _ => exact logEv_noCb env _ _

theorem applyAction_made_none (env : Env) (sid : Nat) (a : Action) (s : St) : ∀ x ∈ (applyAction env sid a s).2, x.made = none := by
  have : ∀ c r, ∀ x ∈ logEv env c r, x.made = none := by
    intro c r x hx
    unfold logEv at hx
    split at hx
    · simp only [List.mem_singleton] at hx; rw [hx]; rfl
    · cases hx
  cases a with
  | planAppend o d p => cases p <;> simp only [applyAction] <;> split <;> (intro x hx; cases hx)
  | planClear => intro x hx; cases hx
  | planRemove m => intro x hx; cases hx
  | _ => exact this _ _

theorem keepsM_runActions {M : Tr → Prop} (env : Env) (fl : Flavour) (sid : Nat) (key : Key) (hk : key.sid = sid) :
    ∀ as : List Action, KeepsM M (runActions env fl sid key as)
  | [] => keepsM_skip M
  | a :: as => by
    unfold runActions
    refine KeepsM.seq ?_ (keepsM_runActions env fl sid key hk as)
    split
    · intro s ha hp
      simp only [Step.seq, emit] at ha ⊢
      have hM : ∀ t, (Ev.act key a).made = some t → M t := fun t ht => ha (Ev.act key a) (by simp) t ht
      refine ⟨prov_applyAction env sid key hk a hM s hp, ?_⟩
      intro x hx k vis o hxk
      simp only [List.singleton_append, List.mem_cons] at hx
      rcases hx with rfl | hx
      · cases hxk
      · have := applyAction_noCb env sid a s x hx
        rw [hxk] at this; cases this
    · exact keepsM_skip M

theorem keepsM_deliverLayer {M : Tr → Prop} (env : Env) (m : Method) (sid : Nat) (cur pend : Tr) (layer : Layer)
    (hcur : TrOk M cur) (hpend : TrOk M pend) : KeepsM M (deliverLayer env m sid cur pend layer) := by
  intro s
  rw [deliverLayer_eq]
  have hb : KeepsM M (layerBody env m sid cur pend layer (occOf s.seen (m, sid, layer))) := by
    unfold layerBody
    refine KeepsM.seq ?_ ?_
    · intro s' _ hp
      refine ⟨hp, ?_⟩
      intro x hx k vis o hk
      simp only [emit, List.mem_singleton] at hx
      rw [hk] at hx; cases hx
      exact obsProv_observe env _ sid cur pend _ hp hcur hpend
    · split
      · exact keepsM_runActions env _ sid _ rfl _
      · exact keepsM_skip M
  exact hb _

theorem keepsM_deliver {M : Tr → Prop} (env : Env) (m : Method) (sid : Nat) (cur pend : Tr)
    (hcur : TrOk M cur) (hpend : TrOk M pend) : KeepsM M (deliver env m sid cur pend) := by
  unfold deliver
  refine KeepsM.seq (keepsM_logs fun s x hx => ?_) (keepsM_seqList ?_)
  · split at hx
    · exact logEv_noCb env _ _ x hx
    · cases hx
  · intro f hf
    obtain ⟨l, _, rfl⟩ := List.mem_map.mp hf
    exact keepsM_deliverLayer env m sid cur pend l hcur hpend

/-! ### the building blocks -/

/-- leaves: core updates that leave request / previous transition / plan alone, or clear them -/
local macro "pm" : term => `((by apply keepsM_modifyCore; intro c h; exact ⟨h.request, h.prev, h.plan⟩))

theorem prov_clearTaskStatus {M : Tr → Prop} (cfg : Cfg) (id : Nat) {c : Core} (h : Prov M c) : Prov M (clearTaskStatus cfg id c) := by
  unfold clearTaskStatus; split
  · exact ⟨h.request, h.prev, h.plan⟩
  · exact h

theorem prov_planClearCore {M : Tr → Prop} {c : Core} (h : Prov M c) : Prov M (planClearCore c) :=
  ⟨h.request, h.prev, (by intro t ht; cases ht)⟩

theorem prov_planDataClear {M : Tr → Prop} {c : Core} (h : Prov M c) : Prov M (planDataClear c) :=
  ⟨h.request, h.prev, (by intro t ht; cases ht)⟩

theorem prov_wipe {M : Tr → Prop} {c : Core} (h : Prov M c) (plans history : Bool) :
    Prov M (let c2 := if plans then planDataClear c else c
            if history then { c2 with prev := c2.prev.clear } else c2) := by
  cases plans <;> cases history <;> simp only [if_true, if_false, Bool.false_eq_true]
  · exact h
  · exact ⟨h.request, trOk_clear M _, h.plan⟩
  · exact prov_planDataClear h
  · exact ⟨(prov_planDataClear h).request, trOk_clear M _, (prov_planDataClear h).plan⟩

theorem keepsM_deepEnter {M : Tr → Prop} (env : Env) (cur : Tr) (hcur : TrOk M cur) : KeepsM M (deepEnter env cur) := by
  unfold deepEnter
  exact KeepsM.seq (KeepsM.seq pm (keepsM_deliver env _ _ _ _ hcur (trOk_default M)))
    (keepsM_dep fun s0 => keepsM_deliver env _ _ _ _ hcur (trOk_default M))

theorem keepsM_deepExit {M : Tr → Prop} (env : Env) (cur : Tr) (hcur : TrOk M cur) : KeepsM M (deepExit env cur) := by
  unfold deepExit
  refine KeepsM.seq (KeepsM.seq (KeepsM.seq (keepsM_dep fun s0 => KeepsM.seq (keepsM_deliver env _ _ _ _ hcur (trOk_default M))
    (by apply keepsM_modifyCore; intro c h; exact prov_clearTaskStatus _ _ h)) (keepsM_deliver env _ _ _ _ hcur (trOk_default M))) pm) ?_
  apply keepsM_modifyCore
  intro c h
  split
  · exact prov_planClearCore h
  · exact h

theorem keepsM_changeToRequested {M : Tr → Prop} (env : Env) (cur : Tr) (hcur : TrOk M cur) : KeepsM M (changeToRequested env cur) := by
  unfold changeToRequested
  intro s
  dsimp only
  split
  · exact KeepsM.seq (KeepsM.seq (KeepsM.seq (keepsM_deliver env _ _ _ _ hcur (trOk_default M))
      (by apply keepsM_modifyCore; intro c h; exact prov_clearTaskStatus _ _ h)) pm)
      (keepsM_dep fun s0 => keepsM_deliver env _ _ _ _ hcur (trOk_default M)) s
  · exact KeepsM.seq pm (keepsM_deliver env _ _ _ _ hcur (trOk_default M)) s

theorem keepsM_guardRound {M : Tr → Prop} (env : Env) (cur pend : Tr) (hcur : TrOk M cur) (hpend : TrOk M pend) :
    KeepsM M (guardRound env cur pend) := by
  unfold guardRound
  refine KeepsM.seq (KeepsM.seq (keepsM_modify fun _ => rfl) (keepsM_dep fun s0 => keepsM_deliver env _ _ _ _ hcur hpend)) ?_
  intro s
  dsimp only
  split
  · exact fun _ h => ⟨h, obsAll_nil M⟩
  · exact keepsM_deliver env _ _ _ _ hcur hpend s

theorem keepsM_entryGuardRound {M : Tr → Prop} (env : Env) (cur pend : Tr) (hcur : TrOk M cur) (hpend : TrOk M pend) :
    KeepsM M (entryGuardRound env cur pend) := by
  unfold entryGuardRound
  refine KeepsM.seq (KeepsM.seq (keepsM_modify fun _ => rfl) (keepsM_deliver env _ _ _ _ hcur hpend)) ?_
  intro s
  dsimp only
  split
  · exact fun _ h => ⟨h, obsAll_nil M⟩
  · exact keepsM_deliver env _ _ _ _ hcur hpend s

theorem prov_applyRequest {M : Tr → Prop} (cur : Tr) (d : Nat) {c : Core} (h : Prov M c) : Prov M (applyRequest cur d c).1 := by
  unfold applyRequest; split
  · exact ⟨h.request, h.prev, h.plan⟩
  · exact h

/-- the substitution loop: provenance kept, the accepted transition is a requested one, every observation
    handed to a guard is of requested transitions -/
theorem keepsM_substLoop {M : Tr → Prop} (round : Tr → Tr → Step)
    (hr : ∀ c p, TrOk M c → TrOk M p → KeepsM M (round c p)) :
    ∀ (fuel : Nat) (cur : Tr) (s : St), ActsIn M (substLoop round fuel cur s).2 → Prov M s.core → TrOk M cur →
      Prov M (substLoop round fuel cur s).1.1.core ∧ TrOk M (substLoop round fuel cur s).1.2 ∧ ObsAll M (substLoop round fuel cur s).2
  | 0, _, _ => fun _ h hc => ⟨h, hc, obsAll_nil M⟩
  | fuel + 1, cur, s => by
    intro ha h hc
    unfold substLoop at ha ⊢
    dsimp only at ha ⊢
    split
    · rename_i hv
      split
      · rename_i har
        simp only [hv, har, if_true] at ha
        obtain ⟨a1, a2⟩ := actsIn_append ha
        have h1 : Prov M ({ (applyRequest cur s.core.request.dest s.core).1 with
            request := (applyRequest cur s.core.request.dest s.core).1.request.clear } : Core) :=
          ⟨trOk_clear M _, (prov_applyRequest cur _ h).prev, (prov_applyRequest cur _ h).plan⟩
        have hpend : TrOk M s.core.request := h.request
        obtain ⟨p1, o1⟩ := hr cur s.core.request hc hpend { s with core := _ } a1 h1
        have hc' : TrOk M (if (round cur s.core.request { s with core := { (applyRequest cur s.core.request.dest s.core).1 with
            request := (applyRequest cur s.core.request.dest s.core).1.request.clear } }).1.cancelled then cur else s.core.request) := by
          split
          · exact hc
          · exact hpend
        obtain ⟨p2, c2, o2⟩ := keepsM_substLoop round hr fuel _ _ a2 p1 hc'
        exact ⟨p2, c2, obsAll_append o1 o2⟩
      · rename_i har
        simp only [hv, har, if_true, Bool.false_eq_true, if_false] at ha
        exact keepsM_substLoop round hr fuel _ _ ha ⟨trOk_clear M _, h.prev, h.plan⟩ hc
    · exact ⟨h, hc, obsAll_nil M⟩

theorem keepsM_applySurvivor {M : Tr → Prop} (env : Env) (cur : Tr) (hcur : TrOk M cur) : KeepsM M (applySurvivor env cur) := by
  unfold applySurvivor
  intro s
  dsimp only
  split
  · exact KeepsM.seq pm (keepsM_changeToRequested env cur hcur) s
  · exact fun _ h => ⟨h, obsAll_nil M⟩

theorem keepsM_finishProcessing {M : Tr → Prop} (env : Env) (cur : Tr) (hcur : TrOk M cur) : KeepsM M (finishProcessing env cur) := by
  unfold finishProcessing
  apply keepsM_modifyCore
  intro c h
  refine ⟨h.request, ?_, h.plan⟩
  dsimp only
  split
  · exact hcur
  · exact h.prev

theorem keepsM_processRequest {M : Tr → Prop} (env : Env) : KeepsM M (processRequest env) := by
  intro s ha h
  unfold processRequest at ha ⊢
  dsimp only at ha ⊢
  split
  · rename_i hv
    simp only [hv, if_true] at ha
    obtain ⟨a1, a2⟩ := actsIn_append ha
    obtain ⟨p1, c1, o1⟩ := keepsM_substLoop (guardRound env) (fun c p hc hp => keepsM_guardRound env c p hc hp)
      (substFuel env.cfg.L) {} s a1 h (trOk_default M)
    obtain ⟨p2, o2⟩ := KeepsM.seq (keepsM_applySurvivor env _ c1) (keepsM_finishProcessing env _ c1) _ a2 p1
    exact ⟨p2, obsAll_append o1 o2⟩
  · exact keepsM_finishProcessing env {} (trOk_default M) s (by rename_i hv; simpa [hv] using ha) h

theorem keepsM_enterSurvivor {M : Tr → Prop} (env : Env) (cur : Tr) (hcur : TrOk M cur) : KeepsM M (enterSurvivor env cur) := by
  unfold enterSurvivor
  refine KeepsM.seq (KeepsM.seq ?_ (keepsM_deepEnter env cur hcur)) pm
  apply keepsM_modifyCore
  intro c h
  refine ⟨h.request, ?_, h.plan⟩
  dsimp only
  split
  · exact hcur
  · exact h.prev

theorem keepsM_initialEnter {M : Tr → Prop} (env : Env) : KeepsM M (initialEnter env) := by
  intro s ha h
  unfold initialEnter at ha ⊢
  dsimp only at ha ⊢
  obtain ⟨a12, a3⟩ := actsIn_append ha
  obtain ⟨a1, a2⟩ := actsIn_append a12
  have h0 : Prov M (applyRequest {} 0 s.core).1 := prov_applyRequest {} 0 h
  obtain ⟨p1, o1⟩ := keepsM_entryGuardRound env {} {} (trOk_default M) (trOk_default M) { s with core := (applyRequest {} 0 s.core).1 } a1 h0
  obtain ⟨p2, c2, o2⟩ := keepsM_substLoop (entryGuardRound env) (fun c p hc hp => keepsM_entryGuardRound env c p hc hp)
    (substFuel env.cfg.L) {} _ a2 p1 (trOk_default M)
  obtain ⟨p3, o3⟩ := keepsM_enterSurvivor env _ c2 _ a3 p2
  exact ⟨p3, obsAll_append (obsAll_append o1 o2) o3⟩

theorem keepsM_finalExit {M : Tr → Prop} (env : Env) : KeepsM M (finalExit env) := by
  unfold finalExit
  refine KeepsM.seq (keepsM_deepExit env {} (trOk_default M)) ?_
  apply keepsM_modifyCore
  intro c h
  have h1 : Prov M { c with requested := 255, active := 255, request := c.request.clear } := ⟨trOk_clear M _, h.prev, h.plan⟩
  exact prov_wipe h1 _ _

theorem keepsM_phase {M : Tr → Prop} (env : Env) (m : Method) (hf : Bool) : KeepsM M (phase env m hf) := by
  unfold phase
  intro s
  refine KeepsM.seq ?_ (keepsM_modify fun _ => rfl) s
  have hd : ∀ sid, KeepsM M (deliver env m sid {} {}) := fun sid => keepsM_deliver env m sid {} {} (trOk_default M) (trOk_default M)
  have hsub : KeepsM M (deliver env m s.core.active {} {} ⋙
      Step.modify (fun s => { s with core := { s.core with subStatus := s.core.subStatus.or s.ts } })) := by
    refine KeepsM.seq (hd _) ?_
    intro s' _ hp
    exact ⟨⟨hp.request, hp.prev, hp.plan⟩, obsAll_nil M⟩
  split
  · exact KeepsM.seq (hd _) hsub
  · exact KeepsM.seq hsub (hd _)

/-- `firePlan`: the request it leaves is the fired task (a requested one), the tasks kept are tasks of the plan -/
theorem prov_firePlan {M : Tr → Prop} (env : Env) : ∀ (tasks : List Task) (s : St) (clr : List Nat),
    Prov M s.core → (∀ t ∈ tasks, M ⟨t.origin, t.dest, t.payload⟩) →
    Prov M (firePlan env tasks s clr).1.1.core ∧ (∀ t ∈ (firePlan env tasks s clr).1.2.1, t ∈ tasks) ∧
    (∀ x ∈ (firePlan env tasks s clr).2, x.isCb = false)
  | [], _, _ => fun h _ => ⟨h, (by intro t ht; simp [firePlan] at ht), (by intro x hx; simp [firePlan] at hx)⟩
  | t :: ts, s, clr => by
    intro h ht
    have hts : ∀ x ∈ ts, M ⟨x.origin, x.dest, x.payload⟩ := fun x hx => ht x (by simp [hx])
    unfold firePlan
    split
    · split
      · dsimp only
        have hc : Prov M (if (t.origin == t.dest) = true then
            { s.core with request := ⟨t.origin, t.dest, t.payload⟩, succ := setBit s.core.succ t.origin false }
            else { s.core with request := ⟨t.origin, t.dest, t.payload⟩ }) := by
          split
          · exact ⟨fun _ => ht t (by simp), h.prev, h.plan⟩
          · exact ⟨fun _ => ht t (by simp), h.prev, h.plan⟩
        obtain ⟨i1, i2, i3⟩ := prov_firePlan env ts { s with core := _ } (if (t.origin == t.dest) = true then clr else t.origin :: clr) hc hts
        refine ⟨i1, fun x hx => List.mem_cons_of_mem _ (i2 x hx), ?_⟩
        intro x hx
        rcases List.mem_append.mp hx with hx | hx
        · exact logEv_noCb env _ _ x hx
        · exact i3 x hx
      · dsimp only
        obtain ⟨i1, i2, i3⟩ := prov_firePlan env ts s clr h hts
        refine ⟨i1, ?_, i3⟩
        intro x hx
        simp only [List.mem_cons] at hx
        rcases hx with rfl | hx
        · simp
        · exact List.mem_cons_of_mem _ (i2 x hx)
    · exact ⟨h, fun x hx => hx, (by intro x hx; cases hx)⟩

theorem keepsM_planStepBody {M : Tr → Prop} (env : Env) : KeepsM M (planStepBody env) := by
  have hclr : KeepsM M (modifyCore planClearCore) := keepsM_modifyCore fun _ h => prov_planClearCore h
  have hfail : KeepsM M (modify (fun s => { s with ts := Status.failure }) ⋙ deliver env .planFailed 255 {} {} ⋙
      modifyCore planClearCore) :=
    KeepsM.seq (KeepsM.seq (keepsM_modify fun _ => rfl) (keepsM_deliver env _ _ _ _ (trOk_default M) (trOk_default M))) hclr
  have hsucc : KeepsM M (modify (fun s => { s with ts := Status.success }) ⋙ deliver env .planSucceeded 255 {} {} ⋙
      modifyCore planClearCore) :=
    KeepsM.seq (KeepsM.seq (keepsM_modify fun _ => rfl) (keepsM_deliver env _ _ _ _ (trOk_default M) (trOk_default M))) hclr
  intro s ha h
  unfold planStepBody at ha ⊢
  dsimp only at ha ⊢
  split
  · rename_i hc
    simp only [hc, if_true] at ha
    split
    · rename_i hst
      simp only [hst] at ha
      exact hfail s ha h
    · rename_i hst
      split
      · obtain ⟨i1, i2, i3⟩ := prov_firePlan env s.core.plan s [] h h.plan
        refine ⟨⟨i1.request, i1.prev, fun t ht => h.plan t (i2 t ht)⟩, ?_⟩
        intro x hx k vis o hk
        have := i3 x hx
        rw [hk] at this; cases this
      · rename_i hpl
        have ha' : ActsIn M ((modify (fun s => { s with ts := Status.success }) ⋙ deliver env .planSucceeded 255 {} {} ⋙
            modifyCore planClearCore) s).2 := by
          intro e he t hm
          refine ha e ?_ t hm
          cases hst' : s.core.subStatus.or (stateStatus s.core) <;> simp_all
        exact hsucc s ha' h
  · exact ⟨h, obsAll_nil M⟩

theorem keepsM_planStep {M : Tr → Prop} (env : Env) : KeepsM M (planStep env) := by
  intro s ha h
  rw [planStep_eq] at ha ⊢
  obtain ⟨p, o⟩ := keepsM_planStepBody env s ha h
  exact ⟨⟨p.request, p.prev, p.plan⟩, o⟩

theorem keepsM_cycle {M : Tr → Prop} (env : Env) (pre mid post : Method) : KeepsM M (cycle env pre mid post) := by
  unfold cycle
  refine KeepsM.seq (KeepsM.seq (KeepsM.seq (KeepsM.seq (KeepsM.seq (keepsM_modify fun _ => rfl) (keepsM_phase env _ _)) (keepsM_phase env _ _))
    (keepsM_phase env _ _)) ?_) (keepsM_processRequest env)
  split
  · exact keepsM_planStep env
  · exact keepsM_skip M

theorem keepsM_query {M : Tr → Prop} (env : Env) : KeepsM M (query env) := by
  unfold query
  generalize headFirst Method.query = hfq
  cases hfq <;> simp only [if_true, if_false, Bool.false_eq_true] <;>
  exact keepsM_dep fun s0 => KeepsM.seq (keepsM_deliver env _ _ _ _ (trOk_default M) (trOk_default M))
    (keepsM_deliver env _ _ _ _ (trOk_default M) (trOk_default M))

theorem keepsM_extChange {M : Tr → Prop} (env : Env) (d : Nat) (p : Option Nat) (hM : M ⟨255, d, p⟩) : KeepsM M (extChange env d p) := by
  intro s _ h
  refine ⟨⟨fun _ => hM, h.prev, h.plan⟩, ?_⟩
  intro x hx k vis o hk
  have := logEv_noCb env s.core _ x hx
  rw [hk] at this; cases this

theorem keepsM_extStatus {M : Tr → Prop} (env : Env) (id : Nat) (ok : Bool) : KeepsM M (extStatus env id ok) := by
  intro s _ h
  refine ⟨?_, ?_⟩
  · unfold extStatus
    dsimp only
    split
    · exact ⟨h.request, h.prev, h.plan⟩
    · exact ⟨h.request, h.prev, h.plan⟩
  · intro x hx k vis o hk
    have := logEv_noCb env s.core _ x hx
    rw [hk] at this; cases this

theorem keepsM_replayTransition {M : Tr → Prop} (env : Env) (d : Nat) (hM : M ⟨255, d, none⟩) : KeepsM M (replayTransition env d) := by
  unfold replayTransition
  refine KeepsM.seq (KeepsM.seq (KeepsM.seq ?_ ?_) (keepsM_changeToRequested env {} (trOk_default M))) pm
  · apply keepsM_modifyCore
    intro c h
    exact ⟨h.request, trOk_clear M _, h.plan⟩
  · apply keepsM_modifyCore
    intro c h
    exact ⟨(prov_applyRequest {} d h).request, fun _ => hM, (prov_applyRequest {} d h).plan⟩

theorem keepsM_replayEnter {M : Tr → Prop} (env : Env) (d : Nat) (hM : M ⟨255, d, none⟩) : KeepsM M (replayEnter env d) := by
  unfold replayEnter
  refine KeepsM.seq (KeepsM.seq ?_ (keepsM_deepEnter env {} (trOk_default M))) pm
  apply keepsM_modifyCore
  intro c h
  exact ⟨(prov_applyRequest {} d h).request, fun _ => hM, (prov_applyRequest {} d h).plan⟩

theorem keepsM_loadActive {M : Tr → Prop} (env : Env) (r : Nat) : KeepsM M (loadActive env r) := by
  unfold loadActive
  refine KeepsM.seq ?_ (keepsM_changeToRequested env {} (trOk_default M))
  apply keepsM_modifyCore
  intro c h
  have h1 : Prov M { c with requested := r, request := c.request.clear } := ⟨trOk_clear M _, h.prev, h.plan⟩
  exact prov_wipe h1 _ _

theorem keepsM_load {M : Tr → Prop} (env : Env) (buf : List Nat) : KeepsM M (load env buf) := by
  unfold load
  intro s
  dsimp only
  split
  · split
    · exact keepsM_loadActive env _ s
    · split
      · exact KeepsM.seq pm (keepsM_deepEnter env {} (trOk_default M)) s
      · exact fun _ h => ⟨h, obsAll_nil M⟩
  · split
    · exact keepsM_finalExit env s
    · exact fun _ h => ⟨h, obsAll_nil M⟩

end FFSM2
