import FFSM2.Lemmas.Steps
/-! "Every event this step emits satisfies P" for every building block of the machine model, given
    that P holds of the three kinds of events a step can emit under `env`: deliveries and actions keyed
    to `env.inst` / `env.op`, and log records of `env.inst`.  Used to attribute every event of an API
    call to the instance and the call that produced it (run-level theorems). -/
namespace FFSM2
open Step Ancestors

def AllEv (P : Ev → Prop) (f : Step) : Prop := ∀ s, ∀ e ∈ (f s).2, P e

/-- `P` holds of everything a step running under `env` can emit -/
structure EnvPred (env : Env) (P : Ev → Prop) : Prop where
  /-- every delivery event is emitted by `deliverLayer`: keyed to this instance and call, observing through `observe` -/
  cb : ∀ (m : Method) (sid occ : Nat) (layer : Layer) (cur pend : Tr) (c : Core),
    P (.cb ⟨env.inst, env.op, occ, m, sid, layer⟩ (observable env.cfg sid m layer) (observe env m.flavour sid cur pend c))
  act : ∀ (k : Key) a, k.inst = env.inst → k.op = env.op → P (.act k a)
  log : ∀ r, P (.log env.inst r)

theorem AllEv.seq {P} {f g : Step} (hf : AllEv P f) (hg : AllEv P g) : AllEv P (f ⋙ g) := by
  intro s e he
  simp only [Step.seq, List.mem_append] at he
  rcases he with he | he
  · exact hf s e he
  · exact hg _ e he

theorem allEv_skip (P) : AllEv P skip := by intro s e he; cases he
theorem allEv_modify (P) (m : St → St) : AllEv P (Step.modify m) := by intro s e he; cases he
theorem allEv_modifyCore (P) (m : Core → Core) : AllEv P (modifyCore m) := by intro s e he; cases he
theorem allEv_emit {P} {e : St → List Ev} (h : ∀ s, ∀ x ∈ e s, P x) : AllEv P (emit e) := fun s x hx => h s x hx
theorem allEv_dep {P} {g : St → Step} (h : ∀ s0, AllEv P (g s0)) : AllEv P (fun s => g s s) := fun s => h s s
theorem allEv_seqList {P} {l : List Step} (h : ∀ f ∈ l, AllEv P f) : AllEv P (seqList l) := by
  induction l with
  | nil => exact allEv_skip P
  | cons f fs ih => exact AllEv.seq (h f (by simp)) (ih fun g hg => h g (by simp [hg]))
theorem allEv_ite {P} {c : St → Prop} [DecidablePred c] {t e : Step} (ht : AllEv P t) (he : AllEv P e) :
    AllEv P (fun s => if c s then t s else e s) := by
  intro s x hx
  by_cases h : c s
  · simp only [h, if_true] at hx; exact ht s x hx
  · simp only [h, if_false] at hx; exact he s x hx

theorem mem_logEv {P} {env : Env} (hP : EnvPred env P) (c : Core) (r : LogRec) : ∀ e ∈ logEv env c r, P e := by
  intro e he
  unfold logEv at he
  split at he
  · simp only [List.mem_singleton] at he; rw [he]; exact hP.log r
  · cases he

theorem allEv_applyAction {P} {env : Env} (hP : EnvPred env P) (sid : Nat) (a : Action) : AllEv P (applyAction env sid a) := by
  intro s e he
  cases a with
  | changeTo d => exact mem_logEv hP _ _ e he
  | changeWith d p => exact mem_logEv hP _ _ e he
  | cancel => exact mem_logEv hP _ _ e he
  | succeed id => exact mem_logEv hP _ _ e he
  | fail id => exact mem_logEv hP _ _ e he
  | planAppend o d p =>
    cases p with
    | none => simp only [applyAction] at he; split at he <;> cases he
    | some p => simp only [applyAction] at he; split at he <;> cases he
  | planClear => cases he
  | planRemove m => cases he

theorem allEv_runActions {P} {env : Env} (hP : EnvPred env P) (fl : Flavour) (sid : Nat) (key : Key)
    (hk : key.inst = env.inst) (ho : key.op = env.op) : ∀ as : List Action, AllEv P (runActions env fl sid key as)
  | [] => allEv_skip P
  | a :: as => by
    unfold runActions
    refine AllEv.seq ?_ (allEv_runActions hP fl sid key hk ho as)
    split
    · refine AllEv.seq (allEv_emit fun s x hx => ?_) (allEv_applyAction hP sid a)
      simp only [List.mem_singleton] at hx; rw [hx]; exact hP.act key a hk ho
    · exact allEv_skip P

theorem allEv_deliverLayer {P} {env : Env} (hP : EnvPred env P) (m : Method) (sid : Nat) (cur pend : Tr) (layer : Layer) :
    AllEv P (deliverLayer env m sid cur pend layer) := by
  intro s
  rw [deliverLayer_eq]
  unfold layerBody
  refine AllEv.seq (allEv_emit fun s x hx => ?_) ?_ _
  · simp only [List.mem_singleton] at hx; rw [hx]; exact hP.cb _ _ _ _ _ _ _
  · split
    · exact allEv_runActions hP _ _ _ rfl rfl _
    · exact allEv_skip P

theorem allEv_deliver {P} {env : Env} (hP : EnvPred env P) (m : Method) (sid : Nat) (cur pend : Tr) :
    AllEv P (deliver env m sid cur pend) := by
  unfold deliver
  refine AllEv.seq (allEv_emit fun s x hx => ?_) (allEv_seqList ?_)
  · split at hx
    · exact mem_logEv hP _ _ x hx
    · cases hx
  · intro f hf
    obtain ⟨l, _, rfl⟩ := List.mem_map.mp hf
    exact allEv_deliverLayer hP m sid cur pend l

theorem allEv_deepEnter {P} {env : Env} (hP : EnvPred env P) (cur : Tr) : AllEv P (deepEnter env cur) := by
  unfold deepEnter
  exact AllEv.seq (AllEv.seq (allEv_modifyCore P _) (allEv_deliver hP _ _ _ _)) (allEv_dep fun s0 => allEv_deliver hP _ _ _ _)

theorem allEv_deepExit {P} {env : Env} (hP : EnvPred env P) (cur : Tr) : AllEv P (deepExit env cur) := by
  unfold deepExit
  refine AllEv.seq (AllEv.seq (AllEv.seq ?_ (allEv_deliver hP _ _ _ _)) (allEv_modifyCore P _)) (allEv_modifyCore P _)
  exact allEv_dep fun s0 => AllEv.seq (allEv_deliver hP _ _ _ _) (allEv_modifyCore P _)

theorem allEv_changeToRequested {P} {env : Env} (hP : EnvPred env P) (cur : Tr) : AllEv P (changeToRequested env cur) := by
  unfold changeToRequested
  intro s
  dsimp only
  split
  · exact AllEv.seq (AllEv.seq (AllEv.seq (allEv_deliver hP _ _ _ _) (allEv_modifyCore P _)) (allEv_modifyCore P _))
      (allEv_dep fun s0 => allEv_deliver hP _ _ _ _) s
  · exact AllEv.seq (allEv_modifyCore P _) (allEv_deliver hP _ _ _ _) s

theorem allEv_guardRound {P} {env : Env} (hP : EnvPred env P) (cur pend : Tr) : AllEv P (guardRound env cur pend) := by
  unfold guardRound
  refine AllEv.seq (AllEv.seq (allEv_modify P _) (allEv_dep fun s0 => allEv_deliver hP _ _ _ _)) ?_
  intro s
  dsimp only
  split
  · intro e he; cases he
  · exact allEv_deliver hP _ _ _ _ s

theorem allEv_entryGuardRound {P} {env : Env} (hP : EnvPred env P) (cur pend : Tr) : AllEv P (entryGuardRound env cur pend) := by
  unfold entryGuardRound
  refine AllEv.seq (AllEv.seq (allEv_modify P _) (allEv_deliver hP _ _ _ _)) ?_
  intro s
  dsimp only
  split
  · intro e he; cases he
  · exact allEv_deliver hP _ _ _ _ s

theorem allEv_substLoop {P} (round : Tr → Tr → Step) (h : ∀ c p, AllEv P (round c p)) :
    ∀ (fuel : Nat) (cur : Tr) (s : St), ∀ e ∈ (substLoop round fuel cur s).2, P e
  | 0, _, _ => by intro e he; cases he
  | fuel + 1, cur, s => by
    intro e he
    unfold substLoop at he
    dsimp only at he
    split at he
    · split at he
      · simp only [List.mem_append] at he
        rcases he with he | he
        · exact h _ _ _ e he
        · exact allEv_substLoop round h fuel _ _ e he
      · exact allEv_substLoop round h fuel _ _ e he
    · cases he

theorem allEv_applySurvivor {P} {env : Env} (hP : EnvPred env P) (cur : Tr) : AllEv P (applySurvivor env cur) := by
  unfold applySurvivor
  intro s
  split
  · exact AllEv.seq (allEv_modifyCore P _) (allEv_changeToRequested hP cur) s
  · intro e he; cases he

theorem allEv_finishProcessing {P} (env : Env) (cur : Tr) : AllEv P (finishProcessing env cur) := allEv_modifyCore P _

theorem allEv_processRequest {P} {env : Env} (hP : EnvPred env P) : AllEv P (processRequest env) := by
  unfold processRequest
  intro s
  dsimp only
  split
  · intro e he
    simp only [List.mem_append] at he
    rcases he with he | he
    · exact allEv_substLoop _ (allEv_guardRound hP) _ _ _ e he
    · exact AllEv.seq (allEv_applySurvivor hP _) (allEv_finishProcessing env _) _ e he
  · exact allEv_finishProcessing env _ s

theorem allEv_enterSurvivor {P} {env : Env} (hP : EnvPred env P) (cur : Tr) : AllEv P (enterSurvivor env cur) := by
  unfold enterSurvivor
  exact AllEv.seq (AllEv.seq (allEv_modifyCore P _) (allEv_deepEnter hP cur)) (allEv_modifyCore P _)

theorem allEv_initialEnter {P} {env : Env} (hP : EnvPred env P) : AllEv P (initialEnter env) := by
  unfold initialEnter
  intro s e he
  simp only [List.mem_append] at he
  rcases he with (he | he) | he
  · exact allEv_entryGuardRound hP _ _ _ e he
  · exact allEv_substLoop _ (allEv_entryGuardRound hP) _ _ _ e he
  · exact allEv_enterSurvivor hP _ _ e he

theorem allEv_finalExit {P} {env : Env} (hP : EnvPred env P) : AllEv P (finalExit env) := by
  unfold finalExit
  exact AllEv.seq (allEv_deepExit hP _) (allEv_modifyCore P _)

theorem allEv_phase {P} {env : Env} (hP : EnvPred env P) (m : Method) (hf : Bool) : AllEv P (phase env m hf) := by
  unfold phase
  intro s
  refine AllEv.seq ?_ (allEv_modify P _) s
  split
  · exact AllEv.seq (allEv_deliver hP _ _ _ _) (AllEv.seq (allEv_deliver hP _ _ _ _) (allEv_modify P _))
  · exact AllEv.seq (AllEv.seq (allEv_deliver hP _ _ _ _) (allEv_modify P _)) (allEv_deliver hP _ _ _ _)

theorem allEv_firePlan {P} {env : Env} (hP : EnvPred env P) : ∀ (tasks : List Task) (s : St) (clr : List Nat),
    ∀ e ∈ (firePlan env tasks s clr).2, P e
  | [], _, _ => by intro e he; cases he
  | t :: ts, s, clr => by
    intro e he
    unfold firePlan at he
    split at he
    · split at he
      · simp only [List.mem_append] at he
        rcases he with he | he
        · exact mem_logEv hP _ _ e he
        · exact allEv_firePlan hP ts _ _ e he
      · exact allEv_firePlan hP ts _ _ e he
    · cases he

theorem allEv_planStep {P} {env : Env} (hP : EnvPred env P) : AllEv P (planStep env) := by
  intro s e he
  unfold planStep at he
  simp only at he
  split at he
  · split at he
    · exact AllEv.seq (AllEv.seq (allEv_modify P _) (allEv_deliver hP _ _ _ _)) (allEv_modifyCore P _) s e he
    · split at he
      · exact allEv_firePlan hP _ _ _ e he
      · exact AllEv.seq (AllEv.seq (allEv_modify P _) (allEv_deliver hP _ _ _ _)) (allEv_modifyCore P _) s e he
  · cases he

theorem allEv_cycle {P} {env : Env} (hP : EnvPred env P) (pre mid post : Method) : AllEv P (cycle env pre mid post) := by
  unfold cycle
  refine AllEv.seq (AllEv.seq (AllEv.seq (AllEv.seq (AllEv.seq (allEv_modify P _) (allEv_phase hP _ _)) (allEv_phase hP _ _))
    (allEv_phase hP _ _)) ?_) (allEv_processRequest hP)
  split
  · exact allEv_planStep hP
  · exact allEv_skip P

theorem allEv_query {P} {env : Env} (hP : EnvPred env P) : AllEv P (query env) := by
  unfold query
  generalize headFirst Method.query = hfq
  cases hfq <;> simp only [if_true, if_false, Bool.false_eq_true] <;>
  exact fun s => AllEv.seq (allEv_deliver hP _ _ _ _) (allEv_deliver hP _ _ _ _) s

theorem allEv_extChange {P} {env : Env} (hP : EnvPred env P) (d : Nat) (p : Option Nat) : AllEv P (extChange env d p) :=
  fun _ e he => mem_logEv hP _ _ e he

theorem allEv_extStatus {P} {env : Env} (hP : EnvPred env P) (id : Nat) (ok : Bool) : AllEv P (extStatus env id ok) :=
  fun _ e he => mem_logEv hP _ _ e he

theorem allEv_replayTransition {P} {env : Env} (hP : EnvPred env P) (d : Nat) : AllEv P (replayTransition env d) := by
  unfold replayTransition
  exact AllEv.seq (AllEv.seq (AllEv.seq (allEv_modifyCore P _) (allEv_modifyCore P _)) (allEv_changeToRequested hP _)) (allEv_modifyCore P _)

theorem allEv_replayEnter {P} {env : Env} (hP : EnvPred env P) (d : Nat) : AllEv P (replayEnter env d) := by
  unfold replayEnter
  exact AllEv.seq (AllEv.seq (allEv_modifyCore P _) (allEv_deepEnter hP _)) (allEv_modifyCore P _)

theorem allEv_loadActive {P} {env : Env} (hP : EnvPred env P) (r : Nat) : AllEv P (loadActive env r) := by
  unfold loadActive
  exact AllEv.seq (allEv_modifyCore P _) (allEv_changeToRequested hP _)

theorem allEv_load {P} {env : Env} (hP : EnvPred env P) (buf : List Nat) : AllEv P (load env buf) := by
  unfold load
  intro s
  simp only
  split
  · split
    · exact allEv_loadActive hP _ s
    · split
      · exact AllEv.seq (allEv_modifyCore P _) (allEv_deepEnter hP _) s
      · intro e he; cases he
  · split
    · exact allEv_finalExit hP s
    · intro e he; cases he

end FFSM2
