import FFSM2.Lemmas.Processing
import FFSM2.Lemmas.AllCb
/-!
# The request a callback is shown is the request that is waiting

`ShowsReq f`: the step leaves the machine's outstanding request exactly as it found it and every delivery it
makes shows exactly that request.  It holds of every lifecycle delivery (`enter` / `exit` / `reenter` receive a
plan control, `query` a const control: neither can make a request) and therefore of the applied change of a
processing point, of the activation, of the final exit's deliveries and of everything `load()` delivers.
-/
namespace FFSM2
open Step Ancestors

def ShowsReq (f : Step) : Prop :=
  ∀ s, (f s).1.core.request = s.core.request ∧
    ∀ e ∈ (f s).2, ∀ k vis o, e = Ev.cb k vis o → o.request = s.core.request.canon

theorem ShowsReq.seq {f g : Step} (hf : ShowsReq f) (hg : ShowsReq g) : ShowsReq (f ⋙ g) := by
  intro s
  obtain ⟨f1, f2⟩ := hf s
  obtain ⟨g1, g2⟩ := hg (f s).1
  refine ⟨by simp only [Step.seq]; rw [g1, f1], ?_⟩
  intro e he k vis o hk
  simp only [Step.seq, List.mem_append] at he
  rcases he with he | he
  · exact f2 e he k vis o hk
  · rw [← f1]; exact g2 e he k vis o hk

theorem showsReq_skip : ShowsReq skip := fun _ => ⟨rfl, fun _ he => by cases he⟩
theorem showsReq_modify {m : St → St} (h : ∀ s, (m s).core.request = s.core.request) : ShowsReq (Step.modify m) :=
  fun s => ⟨h s, fun _ he => by cases he⟩
theorem showsReq_modifyCore {m : Core → Core} (h : ∀ c, (m c).request = c.request) : ShowsReq (modifyCore m) :=
  fun s => ⟨h s.core, fun _ he => by cases he⟩
local macro "rmc" : term => `((by apply showsReq_modifyCore; intro _; rfl))
theorem showsReq_dep {g : St → Step} (h : ∀ s0, ShowsReq (g s0)) : ShowsReq (fun s => g s s) := fun s => h s s
theorem showsReq_seqList {l : List Step} (h : ∀ f ∈ l, ShowsReq f) : ShowsReq (seqList l) := by
  induction l with
  | nil => exact showsReq_skip
  | cons f fs ih => exact ShowsReq.seq (h f (by simp)) (ih fun g hg => h g (by simp [hg]))

/-- a step that emits no delivery and keeps the request -/
theorem showsReq_of_noCb {f : Step} (h : Silent Ev.isCb f) (hr : ∀ s, (f s).1.core.request = s.core.request) : ShowsReq f := by
  intro s
  refine ⟨hr s, ?_⟩
  intro e he k vis o hk
  have : e ∈ (f s).2.filter Ev.isCb := by rw [List.mem_filter]; exact ⟨he, by rw [hk]; rfl⟩
  rw [h s] at this; cases this

/-- a control that is neither full nor guard cannot touch the request -/
theorem request_applyAction (env : Env) (fl : Flavour) (sid : Nat) (a : Action) (hfl : fl = .plan ∨ fl = .const)
    (hp : permitted env.cfg fl sid a = true) (s : St) : (applyAction env sid a s).1.core.request = s.core.request := by
  cases a with
  | changeTo d => rcases hfl with rfl | rfl <;> simp [permitted] at hp
  | changeWith d p => rcases hfl with rfl | rfl <;> simp [permitted] at hp
  | cancel => rfl
  | succeed id => rfl
  | fail id => rfl
  | planAppend o d p =>
    cases p with
    | none => simp only [applyAction]; split <;> rfl
    | some p => simp only [applyAction]; split <;> rfl
  | planClear => rfl
  | planRemove m => rfl

theorem request_runActions (env : Env) (fl : Flavour) (sid : Nat) (key : Key) (hfl : fl = .plan ∨ fl = .const) :
    ∀ (as : List Action) (s : St), (runActions env fl sid key as s).1.core.request = s.core.request
  | [], _ => rfl
  | a :: as, s => by
    simp only [runActions, Step.seq]
    rw [request_runActions env fl sid key hfl as]
    split
    · rename_i hp
      simp only [Step.seq, emit]
      exact request_applyAction env fl sid a hfl hp s
    · rfl

theorem showsReq_layerBody (env : Env) (m : Method) (hfl : m.flavour = .plan ∨ m.flavour = .const) (sid : Nat) (cur pend : Tr)
    (layer : Layer) (occ : Nat) : ShowsReq (layerBody env m sid cur pend layer occ) := by
  unfold layerBody
  refine ShowsReq.seq ?_ (showsReq_of_noCb ?_ ?_)
  · intro s
    refine ⟨rfl, ?_⟩
    intro e he k vis o hk
    simp only [emit, List.mem_singleton] at he
    rw [hk] at he; cases he; rfl
  · split
    · exact silent_runActions methodPred_isCb' _ _ _ _ _
    · exact silent_skip _
  · intro s
    split
    · exact request_runActions env _ sid _ hfl _ s
    · rfl

/-- every delivery of a lifecycle or query callback shows the waiting request and leaves it waiting -/
theorem showsReq_deliver (env : Env) (m : Method) (hfl : m.flavour = .plan ∨ m.flavour = .const) (sid : Nat) (cur pend : Tr) :
    ShowsReq (deliver env m sid cur pend) := by
  unfold deliver
  refine ShowsReq.seq (showsReq_of_noCb (silent_emit fun s => by split <;> simp [filter_logEv methodPred_isCb']) (fun _ => rfl))
    (showsReq_seqList ?_)
  intro f hf
  obtain ⟨l, _, rfl⟩ := List.mem_map.mp hf
  intro s
  rw [deliverLayer_eq]
  exact showsReq_layerBody env m hfl sid cur pend l _ _

theorem request_clearTaskStatus (cfg : Cfg) (id : Nat) (c : Core) : (clearTaskStatus cfg id c).request = c.request := by
  unfold clearTaskStatus; split <;> rfl

theorem showsReq_changeToRequested (env : Env) (cur : Tr) : ShowsReq (changeToRequested env cur) := by
  unfold changeToRequested
  intro s
  dsimp only
  split
  · exact (ShowsReq.seq (ShowsReq.seq (ShowsReq.seq (showsReq_deliver env .exit (Or.inl rfl) _ _ _)
      (showsReq_modifyCore (request_clearTaskStatus _ _))) rmc)
      (showsReq_dep fun s0 => showsReq_deliver env .enter (Or.inl rfl) _ _ _)) s
  · exact (ShowsReq.seq rmc (showsReq_deliver env .reenter (Or.inl rfl) _ _ _)) s

theorem showsReq_deepEnter (env : Env) (cur : Tr) : ShowsReq (deepEnter env cur) := by
  unfold deepEnter
  exact ShowsReq.seq (ShowsReq.seq rmc (showsReq_deliver env .enter (Or.inl rfl) _ _ _))
    (showsReq_dep fun s0 => showsReq_deliver env .enter (Or.inl rfl) _ _ _)

theorem showsReq_applySurvivor (env : Env) (cur : Tr) : ShowsReq (applySurvivor env cur) := by
  unfold applySurvivor
  intro s
  dsimp only
  split
  · exact (ShowsReq.seq rmc (showsReq_changeToRequested env cur)) s
  · exact ⟨rfl, fun _ he => by cases he⟩

/-! ### the first delivery of a step -/

/-- the step delivers something, and its first delivery shows the request the step started with -/
def Starts (f : Step) : Prop :=
  ∀ s, ∃ k vis o rest, (f s).2.filter Ev.isCb = Ev.cb k vis o :: rest ∧ o.request = s.core.request.canon

theorem Starts.seq_left {f : Step} (g : Step) (hf : Starts f) : Starts (f ⋙ g) := by
  intro s
  obtain ⟨k, vis, o, rest, h1, h2⟩ := hf s
  refine ⟨k, vis, o, rest ++ (g (f s).1).2.filter Ev.isCb, ?_, h2⟩
  simp only [Step.seq, List.filter_append, h1, List.cons_append]

/-- a silent prefix that keeps the request does not matter -/
theorem Starts.after {f g : Step} (hs : Silent Ev.isCb f) (hr : ∀ s, (f s).1.core.request = s.core.request) (hg : Starts g) :
    Starts (f ⋙ g) := by
  intro s
  obtain ⟨k, vis, o, rest, h1, h2⟩ := hg (f s).1
  refine ⟨k, vis, o, rest, ?_, by rw [h2, hr]⟩
  simp only [Step.seq, List.filter_append, hs s, List.nil_append, h1]

theorem starts_dep {g : St → Step} (h : ∀ s0, Starts (g s0)) : Starts (fun s => g s s) := fun s => h s s

theorem filter_isCb_cb (k : Key) (vis : Bool) (o : Obs) (l : List Ev) :
    (Ev.cb k vis o :: l).filter Ev.isCb = Ev.cb k vis o :: l.filter Ev.isCb := by
  simp [List.filter_cons, Ev.isCb]

theorem starts_layerBody (env : Env) (m : Method) (sid : Nat) (cur pend : Tr) (layer : Layer) (occ : Nat) :
    Starts (layerBody env m sid cur pend layer occ) := by
  intro s
  unfold layerBody
  refine ⟨⟨env.inst, env.op, occ, m, sid, layer⟩, observable env.cfg sid m layer, observe env m.flavour sid cur pend s.core,
    ((if observable env.cfg sid m layer = true then
        runActions env m.flavour sid ⟨env.inst, env.op, occ, m, sid, layer⟩ (env.beh ⟨env.inst, env.op, occ, m, sid, layer⟩)
      else skip) s).2.filter Ev.isCb, ?_, rfl⟩
  simp only [Step.seq, emit, List.cons_append, List.nil_append]
  rw [filter_isCb_cb]

theorem starts_deliverLayer (env : Env) (m : Method) (sid : Nat) (cur pend : Tr) (layer : Layer) :
    Starts (deliverLayer env m sid cur pend layer) := by
  intro s
  rw [deliverLayer_eq]
  exact starts_layerBody env m sid cur pend layer _ _

theorem deep_ne_nil (k : Nat) (m : Method) : deep k m ≠ [] := by
  unfold deep
  split
  · simp
  · simp
  · dsimp only
    split
    · simp
    · simp

/-- every delivery starts with a callback that shows the waiting request -/
theorem starts_deliver (env : Env) (m : Method) (sid : Nat) (cur pend : Tr) : Starts (deliver env m sid cur pend) := by
  unfold deliver
  refine Starts.after (silent_emit fun s => by split <;> simp [filter_logEv methodPred_isCb']) (fun _ => rfl) ?_
  have hne := deep_ne_nil (env.cfg.injections sid) m
  cases hd : deep (env.cfg.injections sid) m with
  | nil => exact absurd hd hne
  | cons l ls =>
    simp only [List.map_cons, seqList]
    exact Starts.seq_left _ (starts_deliverLayer env m sid cur pend l)

theorem starts_phase (env : Env) (m : Method) (hf : Bool) : Starts (phase env m hf) := by
  intro s
  unfold phase
  dsimp only
  cases hf
  · simp only [Bool.false_eq_true, if_false]
    exact (Starts.seq_left _ (Starts.seq_left _ (Starts.seq_left _ (starts_deliver env m _ {} {})))) s
  · simp only [if_true]
    exact (Starts.seq_left _ (Starts.seq_left _ (starts_deliver env m _ {} {}))) s

theorem starts_cycle (env : Env) (pre mid post : Method) : Starts (cycle env pre mid post) := by
  unfold cycle
  exact Starts.seq_left _ (Starts.seq_left _ (Starts.seq_left _ (Starts.seq_left _
    (Starts.after (silent_modify _ _) (fun _ => rfl) (starts_phase env pre _)))))

end FFSM2
