import FFSM2.Lemmas.HBlind
import FFSM2.Lemmas.World
/-! History-blindness lifted from API bodies (`HB`) to whole histories: running a history that never uses the
    replay calls with TRANSITION_HISTORY compiled out gives the same events (up to the `previousTransition()` field
    of the API observations) and the same world (up to the recorded transitions). -/
namespace FFSM2
open Step

def cfgOff (cfg : Cfg) : Cfg := { cfg with history := false }

/-- the world with every recorded transition forgotten -/
def eraseW (w : World) : World := w.map (Option.map erase)

/-- an event with the `previousTransition()` column of an API observation blanked -/
def Ev.noPrev : Ev → Ev
  | .api i k name o => .api i k name { o with prev := none }
  | e => e

def noPrev (es : List Ev) : List Ev := es.map Ev.noPrev

@[simp] theorem noPrev_append (a b : List Ev) : noPrev (a ++ b) = noPrev a ++ noPrev b := by simp [noPrev]

/-- the calls that exist only with the feature -/
def Op.usesHistory : Op → Bool
  | .replayEnter .. | .replayTransition .. | .replayFrom .. | .replayEnterFrom .. => true
  | _ => false

theorem eraseW_get (w : World) (i : Nat) : (eraseW w).get i = (w.get i).map erase := by
  unfold eraseW World.get
  rw [List.getD_eq_getElem?_getD, List.getD_eq_getElem?_getD, List.getElem?_map]
  cases w[i]? <;> rfl

theorem eraseW_put (w : World) (i : Nat) (c : Option Core) : eraseW (w.put i c) = (eraseW w).put i (c.map erase) := by
  unfold eraseW World.put
  rw [List.map_set, List.length_map]
  split
  · rfl
  · rw [List.map_append, List.map_replicate]; rfl

theorem apiObs_off (cfg : Cfg) (c : Core) (ret : Option Bool) (bytes : Option (List Nat)) :
    Ev.noPrev (.api i k name (apiObs (cfgOff cfg) (erase c) ret bytes)) = Ev.noPrev (.api i k name (apiObs cfg c ret bytes)) := rfl

theorem save_off (cfg : Cfg) (c : Core) : save (cfgOff cfg) (erase c) = save cfg c := rfl

theorem erase_active (c : Core) : (erase c).active = c.active := rfl
theorem erase_request (c : Core) : (erase c).request = c.request := rfl
theorem erase_plan (c : Core) : (erase c).plan = c.plan := rfl
theorem cfgOff_manual (cfg : Cfg) : (cfgOff cfg).manual = cfg.manual := rfl
theorem cfgOff_plans (cfg : Cfg) : (cfgOff cfg).plans = cfg.plans := rfl
theorem cfgOff_serialization (cfg : Cfg) : (cfgOff cfg).serialization = cfg.serialization := rfl
theorem cfgOff_logging (cfg : Cfg) : (cfgOff cfg).logging = cfg.logging := rfl
theorem cfgOff_hasPayload (cfg : Cfg) : (cfgOff cfg).hasPayload = cfg.hasPayload := rfl
theorem cfgOff_idOk (cfg : Cfg) (d : Nat) : idOk (cfgOff cfg) d = idOk cfg d := rfl
theorem cfgOff_permitted (cfg : Cfg) (fl : Flavour) (sid : Nat) (a : Action) : permitted (cfgOff cfg) fl sid a = permitted cfg fl sid a := by
  cases a <;> rfl
theorem envOff_mk (cfg : Cfg) (beh : Beh) (i k : Nat) : (⟨cfgOff cfg, beh, i, k⟩ : Env) = envOff ⟨cfg, beh, i, k⟩ := rfl

/-- an `HB` pair of bodies run through `onCore` -/
theorem onCore_hb (cfg : Cfg) (w : World) (i k : Nat) (name : String) (c : Core) {f f' : Step} (hf : HB f f')
    (ret : Core → Option Bool) (hret : ∀ c, ret (erase c) = ret c) :
    (onCore (cfgOff cfg) (eraseW w) i k name (erase c) f' ret).1 = eraseW (onCore cfg w i k name c f ret).1 ∧
    noPrev (onCore (cfgOff cfg) (eraseW w) i k name (erase c) f' ret).2 = noPrev (onCore cfg w i k name c f ret).2 := by
  have h := hf { core := c }
  have h' : f' { core := erase c } = (eraseSt (f { core := c }).1, (f { core := c }).2) := h
  rw [onCore_fst, onCore_fst, onCore_snd, onCore_snd, eraseW_put, noPrev_append, noPrev_append, h']
  refine ⟨rfl, ?_⟩
  show _ ++ [Ev.noPrev (.api i k name (apiObs (cfgOff cfg) (erase (f { core := c }).1.core) (ret (erase (f { core := c }).1.core))))] = _
  rw [hret]
  rfl

theorem eb_extChange (env : Env) (d : Nat) (p : Option Nat) : HB (extChange env d p) (extChange (envOff env) d p) := fun _ => rfl

theorem eb_extStatus (env : Env) (id : Nat) (ok : Bool) : HB (extStatus env id ok) (extStatus (envOff env) id ok) := by
  intro s; cases ok <;> rfl

theorem hb_applyAction (env : Env) (sid : Nat) (a : Action) : HB (applyAction env sid a) (applyAction (envOff env) sid a) := by
  have : applyAction (envOff env) sid a = applyAction env sid a := by cases a <;> rfl
  rw [this]; exact eb_applyAction env sid a

theorem hb_query (env : Env) : HB (query env) (query (envOff env)) := by
  rw [query_off]; exact eb_query env

theorem hb_immediate (env : Env) (d : Nat) (p : Option Nat) :
    HB (extChange env d p ⋙ processRequest env) (extChange (envOff env) d p ⋙ processRequest (envOff env)) :=
  HB.seq (eb_extChange env d p) (hb_processRequest env)

/-- one `if guard then onCore … body … else rejected` arm of `step`, on both sides -/
local macro "hb_arm " t:term : tactic =>
  `(tactic| (split <;> rename_i h <;> (try simp only [h, Bool.false_eq_true, ↓reduceIte, if_false, if_true]) <;>
      first
      | (refine onCore_hb _ _ _ _ _ _ $t _ ?_; intro _; rfl)
      | exact ⟨trivial, trivial⟩
      | exact ⟨rfl, rfl⟩))

/-- **one call with the feature compiled out mirrors the call with it compiled in** -/
theorem step_off (cfg : Cfg) (beh : Beh) (w : World) (k : Nat) (op : Op) (hop : op.usesHistory = false) :
    (step (cfgOff cfg) beh (eraseW w) k op).1 = eraseW (step cfg beh w k op).1 ∧
    noPrev (step (cfgOff cfg) beh (eraseW w) k op).2 = noPrev (step cfg beh w k op).2 := by
  cases op with
  | construct i lg =>
    unfold step
    simp only [Op.inst, Op.name, eraseW_get, envOff_mk, cfgOff_manual, cfgOff_logging]
    cases hg : w.get i <;> simp only [Option.map_none, Option.map_some]
    · have hinit : initCore (cfgOff cfg) (lg && cfg.logging) = erase (initCore cfg (lg && cfg.logging)) := rfl
      rw [hinit]
      by_cases hm : cfg.manual = true <;> simp only [hm, Bool.false_eq_true, ↓reduceIte]
      · refine onCore_hb cfg w i k _ _ (hb_of_eb eb_skip) _ ?_; intro _; rfl
      · refine onCore_hb cfg w i k _ _ (hb_initialEnter ⟨cfg, beh, i, k⟩) _ ?_; intro _; rfl
    · exact ⟨trivial, trivial⟩
  | destroy i =>
    unfold step
    simp only [Op.inst, Op.name, eraseW_get, envOff_mk, cfgOff_manual]
    cases hg : w.get i <;> simp only [Option.map_none, Option.map_some]
    · exact ⟨trivial, trivial⟩
    · rename_i c
      by_cases hm : cfg.manual = true <;> simp only [hm, Bool.false_eq_true, ↓reduceIte]
      · exact ⟨by rw [eraseW_put]; rfl, rfl⟩
      · have h := hb_finalExit ⟨cfg, beh, i, k⟩ { core := c }
        have h' : finalExit (envOff ⟨cfg, beh, i, k⟩) { core := erase c } =
            (eraseSt (finalExit ⟨cfg, beh, i, k⟩ { core := c }).1, (finalExit ⟨cfg, beh, i, k⟩ { core := c }).2) := h
        refine ⟨by rw [eraseW_put]; rfl, ?_⟩
        rw [noPrev_append, noPrev_append, h']
        rfl
  | copy i src =>
    unfold step
    simp only [Op.inst, Op.name, eraseW_get]
    cases hg : w.get i <;> simp only [Option.map_none, Option.map_some] <;> exact ⟨trivial, trivial⟩
  | enter i =>
    unfold step
    simp only [Op.inst, Op.name, eraseW_get, envOff_mk, cfgOff_manual]
    cases hg : w.get i <;> simp only [Option.map_none, Option.map_some]
    · exact ⟨trivial, trivial⟩
    · simp only [erase_active, erase_request]
      hb_arm (hb_initialEnter ⟨cfg, beh, i, k⟩)
  | exit i =>
    unfold step
    simp only [Op.inst, Op.name, eraseW_get, envOff_mk, cfgOff_manual]
    cases hg : w.get i <;> simp only [Option.map_none, Option.map_some]
    · exact ⟨trivial, trivial⟩
    · simp only [erase_active]
      hb_arm (hb_finalExit ⟨cfg, beh, i, k⟩)
  | update i =>
    unfold step
    simp only [Op.inst, Op.name, eraseW_get, envOff_mk]
    cases hg : w.get i <;> simp only [Option.map_none, Option.map_some]
    · exact ⟨trivial, trivial⟩
    · simp only [erase_active]
      hb_arm (hb_cycle ⟨cfg, beh, i, k⟩ _ _ _)
  | react i =>
    unfold step
    simp only [Op.inst, Op.name, eraseW_get, envOff_mk]
    cases hg : w.get i <;> simp only [Option.map_none, Option.map_some]
    · exact ⟨trivial, trivial⟩
    · simp only [erase_active]
      hb_arm (hb_cycle ⟨cfg, beh, i, k⟩ _ _ _)
  | query i =>
    unfold step
    simp only [Op.inst, Op.name, eraseW_get, envOff_mk]
    cases hg : w.get i <;> simp only [Option.map_none, Option.map_some]
    · exact ⟨trivial, trivial⟩
    · simp only [erase_active]
      hb_arm (hb_query ⟨cfg, beh, i, k⟩)
  | changeTo i d =>
    unfold step
    simp only [Op.inst, Op.name, eraseW_get, envOff_mk, cfgOff_idOk]
    cases hg : w.get i <;> simp only [Option.map_none, Option.map_some]
    · exact ⟨trivial, trivial⟩
    · simp only [erase_active]
      hb_arm (eb_extChange ⟨cfg, beh, i, k⟩ _ _)
  | changeWith i d p =>
    unfold step
    simp only [Op.inst, Op.name, eraseW_get, envOff_mk, cfgOff_idOk, cfgOff_hasPayload]
    cases hg : w.get i <;> simp only [Option.map_none, Option.map_some]
    · exact ⟨trivial, trivial⟩
    · simp only [erase_active]
      hb_arm (eb_extChange ⟨cfg, beh, i, k⟩ _ _)
  | immediateChangeTo i d =>
    unfold step
    simp only [Op.inst, Op.name, eraseW_get, envOff_mk, cfgOff_idOk]
    cases hg : w.get i <;> simp only [Option.map_none, Option.map_some]
    · exact ⟨trivial, trivial⟩
    · simp only [erase_active]
      hb_arm (hb_immediate ⟨cfg, beh, i, k⟩ _ _)
  | immediateChangeWith i d p =>
    unfold step
    simp only [Op.inst, Op.name, eraseW_get, envOff_mk, cfgOff_idOk, cfgOff_hasPayload]
    cases hg : w.get i <;> simp only [Option.map_none, Option.map_some]
    · exact ⟨trivial, trivial⟩
    · simp only [erase_active]
      hb_arm (hb_immediate ⟨cfg, beh, i, k⟩ _ _)
  | succeed i id =>
    unfold step
    simp only [Op.inst, Op.name, eraseW_get, envOff_mk, cfgOff_idOk, cfgOff_plans]
    cases hg : w.get i <;> simp only [Option.map_none, Option.map_some]
    · exact ⟨trivial, trivial⟩
    · hb_arm (eb_extStatus ⟨cfg, beh, i, k⟩ _ _)
  | fail i id =>
    unfold step
    simp only [Op.inst, Op.name, eraseW_get, envOff_mk, cfgOff_idOk, cfgOff_plans]
    cases hg : w.get i <;> simp only [Option.map_none, Option.map_some]
    · exact ⟨trivial, trivial⟩
    · hb_arm (eb_extStatus ⟨cfg, beh, i, k⟩ _ _)
  | planAppend i o d p =>
    unfold step
    simp only [Op.inst, Op.name, eraseW_get, envOff_mk, cfgOff_permitted]
    cases hg : w.get i <;> simp only [Option.map_none, Option.map_some]
    · exact ⟨trivial, trivial⟩
    · simp only [erase_plan]
      hb_arm (hb_applyAction ⟨cfg, beh, i, k⟩ _ _)
  | planClear i =>
    unfold step
    simp only [Op.inst, Op.name, eraseW_get, envOff_mk, cfgOff_plans]
    cases hg : w.get i <;> simp only [Option.map_none, Option.map_some]
    · exact ⟨trivial, trivial⟩
    · hb_arm (hb_applyAction ⟨cfg, beh, i, k⟩ _ _)
  | planRemove i mask =>
    unfold step
    simp only [Op.inst, Op.name, eraseW_get, envOff_mk, cfgOff_plans]
    cases hg : w.get i <;> simp only [Option.map_none, Option.map_some]
    · exact ⟨trivial, trivial⟩
    · hb_arm (hb_applyAction ⟨cfg, beh, i, k⟩ _ _)
  | save i =>
    unfold step
    simp only [Op.inst, Op.name, eraseW_get, cfgOff_manual, cfgOff_serialization]
    cases hg : w.get i <;> simp only [Option.map_none, Option.map_some]
    · exact ⟨trivial, trivial⟩
    · simp only [erase_active, save_off]
      split <;> rename_i h <;> (try simp only [h, Bool.false_eq_true, ↓reduceIte]) <;>
        first | exact ⟨trivial, trivial⟩ | exact ⟨rfl, rfl⟩ | exact ⟨trivial, rfl⟩ | exact ⟨rfl, trivial⟩
  | load i src =>
    unfold step
    simp only [Op.inst, Op.name, eraseW_get, envOff_mk, cfgOff_manual, cfgOff_serialization]
    cases hg : w.get i <;> simp only [Option.map_none, Option.map_some]
    · exact ⟨trivial, trivial⟩
    · cases hs : w.get src <;> simp only [Option.map_none, Option.map_some]
      · exact ⟨trivial, trivial⟩
      · simp only [erase_active, save_off]
        hb_arm (hb_load ⟨cfg, beh, i, k⟩ _)
  | replayEnter i d => simp [Op.usesHistory] at hop
  | replayTransition i d => simp [Op.usesHistory] at hop
  | attachLogger i on =>
    unfold step
    simp only [Op.inst, Op.name, eraseW_get, cfgOff_logging]
    cases hg : w.get i <;> simp only [Option.map_none, Option.map_some]
    · exact ⟨trivial, trivial⟩
    · hb_arm (hb_of_eb (eb_modifyCore (m := fun c => { c with logger := on }) fun _ => rfl))
  | replayFrom i src => simp [Op.usesHistory] at hop
  | replayEnterFrom i src => simp [Op.usesHistory] at hop

theorem stepAll_off (cfg : Cfg) (beh : Beh) (w : World) (k : Nat) (op : Op) (hop : op.usesHistory = false) :
    (stepAll (cfgOff cfg) beh (eraseW w) k op).1 = eraseW (stepAll cfg beh w k op).1 ∧
    noPrev (stepAll (cfgOff cfg) beh (eraseW w) k op).2 = noPrev (stepAll cfg beh w k op).2 := by
  cases op with
  | copy i src =>
    simp only [stepAll, eraseW_get]
    cases hg : w.get i <;> cases hs : w.get src <;> simp only [Option.map_none, Option.map_some]
    · first | exact ⟨trivial, trivial⟩ | exact ⟨rfl, rfl⟩
    · first | exact ⟨by rw [eraseW_put]; rfl, rfl⟩ | exact ⟨by rw [eraseW_put]; rfl, trivial⟩
    · first | exact ⟨trivial, trivial⟩ | exact ⟨rfl, rfl⟩
    · first | exact ⟨trivial, trivial⟩ | exact ⟨rfl, rfl⟩
  | replayFrom i src => simp [Op.usesHistory] at hop
  | replayEnterFrom i src => simp [Op.usesHistory] at hop
  | replayEnter i d => simp [Op.usesHistory] at hop
  | replayTransition i d => simp [Op.usesHistory] at hop
  | construct i lg => exact step_off cfg beh w k (.construct i lg) rfl
  | destroy i => exact step_off cfg beh w k (.destroy i) rfl
  | enter i => exact step_off cfg beh w k (.enter i) rfl
  | exit i => exact step_off cfg beh w k (.exit i) rfl
  | update i => exact step_off cfg beh w k (.update i) rfl
  | react i => exact step_off cfg beh w k (.react i) rfl
  | query i => exact step_off cfg beh w k (.query i) rfl
  | changeTo i d => exact step_off cfg beh w k (.changeTo i d) rfl
  | changeWith i d p => exact step_off cfg beh w k (.changeWith i d p) rfl
  | immediateChangeTo i d => exact step_off cfg beh w k (.immediateChangeTo i d) rfl
  | immediateChangeWith i d p => exact step_off cfg beh w k (.immediateChangeWith i d p) rfl
  | succeed i id => exact step_off cfg beh w k (.succeed i id) rfl
  | fail i id => exact step_off cfg beh w k (.fail i id) rfl
  | planAppend i o d p => exact step_off cfg beh w k (.planAppend i o d p) rfl
  | planClear i => exact step_off cfg beh w k (.planClear i) rfl
  | planRemove i m => exact step_off cfg beh w k (.planRemove i m) rfl
  | save i => exact step_off cfg beh w k (.save i) rfl
  | load i src => exact step_off cfg beh w k (.load i src) rfl
  | attachLogger i on => exact step_off cfg beh w k (.attachLogger i on) rfl

theorem runFrom_off (cfg : Cfg) (beh : Beh) : ∀ (ops : List Op) (w : World) (k : Nat), (∀ op ∈ ops, op.usesHistory = false) →
    (runFrom (cfgOff cfg) beh (eraseW w) k ops).1 = eraseW (runFrom cfg beh w k ops).1 ∧
    noPrev (runFrom (cfgOff cfg) beh (eraseW w) k ops).2 = noPrev (runFrom cfg beh w k ops).2
  | [], _, _, _ => ⟨rfl, rfl⟩
  | op :: ops, w, k, h => by
    obtain ⟨h1, h2⟩ := stepAll_off cfg beh w k op (h op (by simp))
    obtain ⟨i1, i2⟩ := runFrom_off cfg beh ops (stepAll cfg beh w k op).1 (k + 1) (fun o ho => h o (by simp [ho]))
    simp only [runFrom]
    rw [h1, noPrev_append, noPrev_append, h2, i2]
    exact ⟨i1, rfl⟩

end FFSM2
