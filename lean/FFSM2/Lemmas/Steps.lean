import FFSM2.Lemmas.Processing
/-! Registry / event facts for the remaining steps: phases, plan step, replay, load, query. -/
namespace FFSM2
open Step Ancestors

theorem silent_cond {p : Ev → Bool} {c : St → Bool} {t e : Step} (ht : Silent p t) (he : Silent p e) :
    Silent p (fun s => if c s then t s else e s) := by
  intro s; dsimp only; split
  · exact ht s
  · exact he s

theorem stable_cond {c : St → Bool} {t e : Step} (ht : Stable t) (he : Stable e) :
    Stable (fun s => if c s then t s else e s) := by
  intro s; dsimp only; split
  · exact ht s
  · exact he s

theorem guardFree_of_life {m : Method} (h : m.isLife = true) : m.isGuard = false := by
  cases m <;> simp [Method.isLife] at h <;> rfl

theorem noGuard_clear (env : Env) (a : Nat) : NoGuard (modifyCore (clearTaskStatus env.cfg a)) := silent_modifyCore _ _

/-- replaying / loading / entering / exiting never consults a guard -/
theorem noGuard_changeToRequested (env : Env) (cur : Tr) : NoGuard (changeToRequested env cur) := by
  unfold changeToRequested
  intro s
  dsimp only
  split
  · exact (Silent.seq (Silent.seq (Silent.seq (noGuard_deliver env .exit rfl _ _ _) (noGuard_clear env _))
      (silent_modifyCore _ _)) (silent_dep fun s0 => noGuard_deliver env .enter rfl _ _ _)) s
  · exact (Silent.seq (silent_modifyCore _ _) (noGuard_deliver env .reenter rfl _ _ _)) s

theorem noGuard_deepEnter (env : Env) (cur : Tr) : NoGuard (deepEnter env cur) := by
  unfold deepEnter
  exact Silent.seq (Silent.seq (silent_modifyCore _ _) (noGuard_deliver env .enter rfl _ _ _))
    (silent_dep fun s0 => noGuard_deliver env .enter rfl _ _ _)

theorem noGuard_deepExit (env : Env) (cur : Tr) : NoGuard (deepExit env cur) := by
  unfold deepExit
  refine Silent.seq (Silent.seq (Silent.seq ?_ (noGuard_deliver env .exit rfl _ _ _)) (silent_modifyCore _ _)) (silent_modifyCore _ _)
  exact silent_dep fun s0 => Silent.seq (noGuard_deliver env .exit rfl _ _ _) (noGuard_clear env _)

theorem noGuard_finalExit (env : Env) : NoGuard (finalExit env) := by
  unfold finalExit; exact Silent.seq (noGuard_deepExit env {}) (silent_modifyCore _ _)

theorem noGuard_replayTransition (env : Env) (d : Nat) : NoGuard (replayTransition env d) := by
  unfold replayTransition
  exact Silent.seq (Silent.seq (Silent.seq (silent_modifyCore _ _) (silent_modifyCore _ _)) (noGuard_changeToRequested env {}))
    (silent_modifyCore _ _)

theorem noGuard_replayEnter (env : Env) (d : Nat) : NoGuard (replayEnter env d) := by
  unfold replayEnter
  exact Silent.seq (Silent.seq (silent_modifyCore _ _) (noGuard_deepEnter env {})) (silent_modifyCore _ _)

theorem noGuard_loadActive (env : Env) (r : Nat) : NoGuard (loadActive env r) := by
  unfold loadActive; exact Silent.seq (silent_modifyCore _ _) (noGuard_changeToRequested env {})

theorem noGuard_load (env : Env) (buf : List Nat) : NoGuard (load env buf) := by
  unfold load
  intro s
  dsimp only
  split
  · split
    · exact noGuard_loadActive env _ s
    · split
      · exact (Silent.seq (silent_modifyCore _ _) (noGuard_deepEnter env {})) s
      · rfl
  · split
    · exact noGuard_finalExit env s
    · rfl

/-! ### phases and the plan step leave the registry and the lifecycle alone -/

theorem stable_phase (env : Env) (m : Method) (hf : Bool) : Stable (phase env m hf) := by
  unfold phase
  intro s
  dsimp only
  have hsub : Stable (deliver env m s.core.active {} {} ⋙
      modify (fun s => { s with core := { s.core with subStatus := s.core.subStatus.or s.ts } })) :=
    Stable.seq (stable_deliver _ _ _ _ _) (stable_modify fun _ => ⟨rfl, rfl⟩)
  have hhead : Stable (deliver env m 255 {} {}) := stable_deliver _ _ _ _ _
  have hreset : Stable (modify (fun s => { s with ts := Status.none })) := stable_modify fun _ => ⟨rfl, rfl⟩
  split
  · exact (Stable.seq (Stable.seq hhead hsub) hreset) s
  · exact (Stable.seq (Stable.seq hsub hhead) hreset) s

theorem silent_phase {p : Ev → Bool} (hp : MethodPred p) (env : Env) (m : Method)
    (hm : ∀ k vis o, k.method = m → p (.cb k vis o) = false) (hf : Bool) : Silent p (phase env m hf) := by
  unfold phase
  intro s
  dsimp only
  have hsub : Silent p (deliver env m s.core.active {} {} ⋙
      modify (fun s => { s with core := { s.core with subStatus := s.core.subStatus.or s.ts } })) :=
    Silent.seq (silent_deliver hp env m hm _ _ _) (silent_modify _ _)
  have hhead : Silent p (deliver env m 255 {} {}) := silent_deliver hp env m hm _ _ _
  have hreset : Silent p (modify (fun s => { s with ts := Status.none })) := silent_modify _ _
  split
  · exact (Silent.seq (Silent.seq hhead hsub) hreset) s
  · exact (Silent.seq (Silent.seq hsub hhead) hreset) s

theorem firePlan_quiet {p : Ev → Bool} (hp : MethodPred p) (env : Env) : ∀ (tasks : List Task) (s : St) (clr : List Nat),
    (firePlan env tasks s clr).1.1.core.active = s.core.active ∧
    (firePlan env tasks s clr).1.1.core.requested = s.core.requested ∧
    (firePlan env tasks s clr).2.filter p = [] := by
  intro tasks
  induction tasks with
  | nil => intro s clr; exact ⟨rfl, rfl, rfl⟩
  | cons t ts ih =>
    intro s clr
    simp only [firePlan]
    split
    · split
      · obtain ⟨h1, h2, h3⟩ := ih
          { s with core := (if (t.origin == t.dest) = true then
              { ({ s.core with request := ⟨t.origin, t.dest, t.payload⟩ } : Core) with
                succ := setBit ({ s.core with request := ⟨t.origin, t.dest, t.payload⟩ } : Core).succ t.origin false }
            else { s.core with request := ⟨t.origin, t.dest, t.payload⟩ }) }
          (if (t.origin == t.dest) = true then clr else t.origin :: clr)
        refine ⟨?_, ?_, ?_⟩
        · rw [h1]; split <;> rfl
        · rw [h2]; split <;> rfl
        · rw [List.filter_append, h3, filter_logEv hp]; rfl
      · obtain ⟨h1, h2, h3⟩ := ih s clr
        exact ⟨h1, h2, h3⟩
    · exact ⟨rfl, rfl, rfl⟩

theorem planClearCore_registry (c : Core) : (planClearCore c).active = c.active ∧ (planClearCore c).requested = c.requested :=
  ⟨rfl, rfl⟩

theorem stable_planStep (env : Env) : Stable (planStep env) := by
  unfold planStep
  intro s
  dsimp only
  have hfail : Stable (modify (fun s => { s with ts := Status.failure }) ⋙ deliver env .planFailed 255 {} {} ⋙
      modifyCore planClearCore) :=
    Stable.seq (Stable.seq (stable_modify fun _ => ⟨rfl, rfl⟩) (stable_deliver _ _ _ _ _)) (stable_modifyCore planClearCore_registry)
  have hsucc : Stable (modify (fun s => { s with ts := Status.success }) ⋙ deliver env .planSucceeded 255 {} {} ⋙
      modifyCore planClearCore) :=
    Stable.seq (Stable.seq (stable_modify fun _ => ⟨rfl, rfl⟩) (stable_deliver _ _ _ _ _)) (stable_modifyCore planClearCore_registry)
  split
  · split
    · exact hfail s
    · split
      · obtain ⟨h1, h2, _⟩ := firePlan_quiet methodPred_isLife env s.core.plan s []
        exact ⟨h1, h2⟩
      · exact hsucc s
  · exact ⟨rfl, rfl⟩

theorem silent_planStep {p : Ev → Bool} (hp : MethodPred p) (env : Env)
    (hm1 : ∀ k vis o, k.method = Method.planFailed → p (.cb k vis o) = false)
    (hm2 : ∀ k vis o, k.method = Method.planSucceeded → p (.cb k vis o) = false) : Silent p (planStep env) := by
  unfold planStep
  intro s
  dsimp only
  have hfail : Silent p (modify (fun s => { s with ts := Status.failure }) ⋙ deliver env .planFailed 255 {} {} ⋙
      modifyCore planClearCore) :=
    Silent.seq (Silent.seq (silent_modify _ _) (silent_deliver hp env _ hm1 _ _ _)) (silent_modifyCore _ _)
  have hsucc : Silent p (modify (fun s => { s with ts := Status.success }) ⋙ deliver env .planSucceeded 255 {} {} ⋙
      modifyCore planClearCore) :=
    Silent.seq (Silent.seq (silent_modify _ _) (silent_deliver hp env _ hm2 _ _ _)) (silent_modifyCore _ _)
  split
  · split
    · exact hfail s
    · split
      · exact (firePlan_quiet hp env s.core.plan s []).2.2
      · exact hsucc s
  · rfl

theorem noLife_planStep (env : Env) : NoLife (planStep env) :=
  silent_planStep methodPred_isLife env (life_excludes rfl) (life_excludes rfl)
theorem noGuard_planStep (env : Env) : NoGuard (planStep env) :=
  silent_planStep methodPred_isGuard env (guard_excludes rfl) (guard_excludes rfl)

/-- everything `update()` / `react()` does before `processRequest` -/
def prelude (env : Env) (pre mid post : Method) : Step :=
  modify (fun s => { s with ts := .none }) ⋙
  phase env pre (headFirst pre) ⋙ phase env mid (headFirst mid) ⋙ phase env post (headFirst post) ⋙
  (if env.cfg.plans then planStep env else skip)

theorem cycle_eq (env : Env) (pre mid post : Method) : cycle env pre mid post = prelude env pre mid post ⋙ processRequest env := rfl

theorem stable_prelude (env : Env) (pre mid post : Method) : Stable (prelude env pre mid post) := by
  unfold prelude
  refine Stable.seq (Stable.seq (Stable.seq (Stable.seq (stable_modify fun _ => ⟨rfl, rfl⟩) (stable_phase _ _ _))
    (stable_phase _ _ _)) (stable_phase _ _ _)) ?_
  split
  · exact stable_planStep env
  · exact stable_skip

theorem silent_prelude {p : Ev → Bool} (hp : MethodPred p) (env : Env) (pre mid post : Method)
    (h : ∀ m, m = pre ∨ m = mid ∨ m = post ∨ m = Method.planFailed ∨ m = Method.planSucceeded →
      ∀ k vis o, k.method = m → p (.cb k vis o) = false) : Silent p (prelude env pre mid post) := by
  unfold prelude
  refine Silent.seq (Silent.seq (Silent.seq (Silent.seq (silent_modify _ _)
    (silent_phase hp env pre (h pre (Or.inl rfl)) _)) (silent_phase hp env mid (h mid (Or.inr (Or.inl rfl))) _))
    (silent_phase hp env post (h post (Or.inr (Or.inr (Or.inl rfl)))) _)) ?_
  split
  · exact silent_planStep hp env (h _ (Or.inr (Or.inr (Or.inr (Or.inl rfl))))) (h _ (Or.inr (Or.inr (Or.inr (Or.inr rfl)))))
  · exact silent_skip p

end FFSM2
