import FFSM2.Lemmas.Prov
import FFSM2.Lemmas.World
/-! Provenance lifted to API calls and whole histories. -/
namespace FFSM2
open Step

/-- the transition (or task) an API call itself requests -/
def Op.ext : Op → List Tr
  | .changeTo _ d | .immediateChangeTo _ d | .replayTransition _ d | .replayEnter _ d => [⟨255, d, none⟩]
  | .changeWith _ d p | .immediateChangeWith _ d p => [⟨255, d, some p⟩]
  | .planAppend _ o d p => [⟨o, d, p⟩]
  | _ => []

/-- the test-harness conveniences whose argument is read from another instance -/
def Op.isReplayFrom : Op → Bool
  | .replayFrom .. | .replayEnterFrom .. => true
  | _ => false

def WProv (M : Tr → Prop) (w : World) : Prop := ∀ i c, w.get i = some c → Prov M c

theorem prov_init (M : Tr → Prop) (cfg : Cfg) (lg : Bool) : Prov M (initCore cfg lg) :=
  ⟨trOk_default M, trOk_default M, (by intro t ht; cases ht)⟩

theorem wprov_put {M : Tr → Prop} {w : World} (hw : WProv M w) (i : Nat) (c : Option Core) (hc : ∀ c0, c = some c0 → Prov M c0) :
    WProv M (w.put i c) := by
  intro j cj hj
  by_cases e : j = i
  · subst e; rw [World.get_put_same] at hj; exact hc cj hj
  · rw [World.get_put_ne _ _ _ _ e] at hj; exact hw j cj hj

theorem obsAll_api (M : Tr → Prop) (i k : Nat) (name : String) (o : ApiObs) : ObsAll M [Ev.api i k name o] := by
  intro e he k' vis o' hk; simp only [List.mem_singleton] at he; rw [he] at hk; cases hk
theorem obsAll_rejected (M : Tr → Prop) (i k : Nat) (name : String) : ObsAll M [Ev.rejected i k name] := by
  intro e he k' vis o' hk; simp only [List.mem_singleton] at he; rw [he] at hk; cases hk

/-- outcome of a call: if the requests its callbacks made are in `M`, the world keeps provenance and every
    observation handed out is of requested transitions -/
def Good (M : Tr → Prop) (r : World × List Ev) : Prop := ActsIn M r.2 → WProv M r.1 ∧ ObsAll M r.2

theorem good_rejected {M : Tr → Prop} {w : World} (hw : WProv M w) (i k : Nat) (name : String) : Good M (w, [Ev.rejected i k name]) :=
  fun _ => ⟨hw, obsAll_rejected M i k name⟩

/-- a body that keeps provenance, run through `onCore` -/
theorem onCore_prov {M : Tr → Prop} (cfg : Cfg) {w : World} (hw : WProv M w) (i k : Nat) (name : String) (c : Core) (hc : Prov M c)
    {f : Step} (hf : KeepsM M f) (ret : Core → Option Bool) : Good M (onCore cfg w i k name c f ret) := by
  intro ha
  rw [onCore_snd] at ha ⊢
  rw [onCore_fst]
  obtain ⟨p, o⟩ := hf { core := c } (actsIn_append ha).1 hc
  exact ⟨wprov_put hw _ _ (fun c0 e => by cases e; exact p), obsAll_append o (obsAll_api M _ _ _ _)⟩

-- one `if guard then onCore … body … else rejected` arm (refers to `hw`, `hg` of the enclosing proof)
set_option hygiene false in
local macro "prov_arm " t:term : tactic =>
  `(tactic| (split <;> first
      | exact good_rejected hw _ _ _
      | exact onCore_prov _ hw _ _ _ _ (hw _ _ hg) $t _))

theorem step_prov {M : Tr → Prop} (cfg : Cfg) (beh : Beh) (w : World) (k : Nat) (op : Op) (hw : WProv M w)
    (hext : ∀ t ∈ op.ext, M t) : Good M (step cfg beh w k op) := by
  cases op with
  | construct i lg =>
    unfold step
    simp only [Op.inst, Op.name]
    cases hg : w.get i with
    | none =>
      dsimp only
      split
      · exact onCore_prov _ hw _ _ _ _ (prov_init M _ _) (keepsM_skip M) _
      · exact onCore_prov _ hw _ _ _ _ (prov_init M _ _) (keepsM_initialEnter _) _
    | some c => exact good_rejected hw _ _ _
  | destroy i =>
    unfold step
    simp only [Op.inst, Op.name]
    cases hg : w.get i with
    | none => exact good_rejected hw _ _ _
    | some c =>
      dsimp only
      split
      · exact fun _ => ⟨wprov_put hw _ _ (fun c0 e => by cases e), obsAll_api M _ _ _ _⟩
      · intro ha
        obtain ⟨_, o⟩ := keepsM_finalExit (M := M) ⟨cfg, beh, i, k⟩ { core := c } (actsIn_append ha).1 (hw _ _ hg)
        exact ⟨wprov_put hw _ _ (fun c0 e => by cases e), obsAll_append o (obsAll_api M _ _ _ _)⟩
  | copy i src =>
    unfold step
    simp only [Op.inst, Op.name]
    cases hg : w.get i <;> exact good_rejected hw _ _ _
  | enter i =>
    unfold step
    simp only [Op.inst, Op.name]
    cases hg : w.get i with
    | none => exact good_rejected hw _ _ _
    | some c => dsimp only; prov_arm (keepsM_initialEnter _)
  | exit i =>
    unfold step
    simp only [Op.inst, Op.name]
    cases hg : w.get i with
    | none => exact good_rejected hw _ _ _
    | some c => dsimp only; prov_arm (keepsM_finalExit _)
  | update i =>
    unfold step
    simp only [Op.inst, Op.name]
    cases hg : w.get i with
    | none => exact good_rejected hw _ _ _
    | some c => dsimp only; prov_arm (keepsM_cycle _ _ _ _)
  | react i =>
    unfold step
    simp only [Op.inst, Op.name]
    cases hg : w.get i with
    | none => exact good_rejected hw _ _ _
    | some c => dsimp only; prov_arm (keepsM_cycle _ _ _ _)
  | query i =>
    unfold step
    simp only [Op.inst, Op.name]
    cases hg : w.get i with
    | none => exact good_rejected hw _ _ _
    | some c => dsimp only; prov_arm (keepsM_query _)
  | changeTo i d =>
    have hm : M ⟨255, d, none⟩ := hext _ (by simp [Op.ext])
    unfold step
    simp only [Op.inst, Op.name]
    cases hg : w.get i with
    | none => exact good_rejected hw _ _ _
    | some c => dsimp only; prov_arm (keepsM_extChange _ d none hm)
  | changeWith i d p =>
    have hm : M ⟨255, d, some p⟩ := hext _ (by simp [Op.ext])
    unfold step
    simp only [Op.inst, Op.name]
    cases hg : w.get i with
    | none => exact good_rejected hw _ _ _
    | some c => dsimp only; prov_arm (keepsM_extChange _ d (some p) hm)
  | immediateChangeTo i d =>
    have hm : M ⟨255, d, none⟩ := hext _ (by simp [Op.ext])
    unfold step
    simp only [Op.inst, Op.name]
    cases hg : w.get i with
    | none => exact good_rejected hw _ _ _
    | some c => dsimp only; prov_arm (KeepsM.seq (keepsM_extChange _ d none hm) (keepsM_processRequest _))
  | immediateChangeWith i d p =>
    have hm : M ⟨255, d, some p⟩ := hext _ (by simp [Op.ext])
    unfold step
    simp only [Op.inst, Op.name]
    cases hg : w.get i with
    | none => exact good_rejected hw _ _ _
    | some c => dsimp only; prov_arm (KeepsM.seq (keepsM_extChange _ d (some p) hm) (keepsM_processRequest _))
  | succeed i id =>
    unfold step
    simp only [Op.inst, Op.name]
    cases hg : w.get i with
    | none => exact good_rejected hw _ _ _
    | some c => dsimp only; prov_arm (keepsM_extStatus _ _ _)
  | fail i id =>
    unfold step
    simp only [Op.inst, Op.name]
    cases hg : w.get i with
    | none => exact good_rejected hw _ _ _
    | some c => dsimp only; prov_arm (keepsM_extStatus _ _ _)
  | planAppend i o d p =>
    have hm : M ⟨o, d, p⟩ := hext _ (by simp [Op.ext])
    have hk : KeepsM M (applyAction ⟨cfg, beh, i, k⟩ 255 (.planAppend o d p)) := by
      intro s _ h
      refine ⟨prov_applyAction _ 255 ⟨0, 0, 0, .update, 255, .own⟩ rfl _ (fun t ht => ?_) s h, ?_⟩
      · simp only [Ev.made, Option.some.injEq] at ht; rw [← ht]; exact hm
      · intro x hx k' vis o' hk'
        have := applyAction_noCb _ 255 _ s x hx
        rw [hk'] at this; cases this
    unfold step
    simp only [Op.inst, Op.name]
    cases hg : w.get i with
    | none => exact good_rejected hw _ _ _
    | some c => dsimp only; prov_arm hk
  | planClear i =>
    have hk : KeepsM M (applyAction ⟨cfg, beh, i, k⟩ 255 .planClear) := by
      intro s _ h
      exact ⟨⟨h.request, h.prev, (by intro t ht; cases ht)⟩, (by intro x hx; cases hx)⟩
    unfold step
    simp only [Op.inst, Op.name]
    cases hg : w.get i with
    | none => exact good_rejected hw _ _ _
    | some c => dsimp only; prov_arm hk
  | planRemove i mask =>
    have hk : KeepsM M (applyAction ⟨cfg, beh, i, k⟩ 255 (.planRemove mask)) := by
      intro s _ h
      exact ⟨⟨h.request, h.prev, fun t ht => h.plan t (removeMasked_sub _ _ t ht)⟩, (by intro x hx; cases hx)⟩
    unfold step
    simp only [Op.inst, Op.name]
    cases hg : w.get i with
    | none => exact good_rejected hw _ _ _
    | some c => dsimp only; prov_arm hk
  | save i =>
    unfold step
    simp only [Op.inst, Op.name]
    cases hg : w.get i with
    | none => exact good_rejected hw _ _ _
    | some c =>
      dsimp only
      split
      · exact fun _ => ⟨hw, obsAll_api M _ _ _ _⟩
      · exact good_rejected hw _ _ _
  | load i src =>
    unfold step
    simp only [Op.inst, Op.name]
    cases hg : w.get i with
    | none => exact good_rejected hw _ _ _
    | some c =>
      dsimp only
      cases hs : w.get src with
      | none => exact good_rejected hw _ _ _
      | some sc => dsimp only; prov_arm (keepsM_load _ _)
  | replayEnter i d =>
    have hm : M ⟨255, d, none⟩ := hext _ (by simp [Op.ext])
    unfold step
    simp only [Op.inst, Op.name]
    cases hg : w.get i with
    | none => exact good_rejected hw _ _ _
    | some c => dsimp only; prov_arm (keepsM_replayEnter _ d hm)
  | replayTransition i d =>
    have hm : M ⟨255, d, none⟩ := hext _ (by simp [Op.ext])
    have hclr : KeepsM M (modifyCore (fun c => { c with prev := c.prev.clear })) :=
      keepsM_modifyCore fun c h => ⟨h.request, trOk_clear M _, h.plan⟩
    unfold step
    simp only [Op.inst, Op.name]
    cases hg : w.get i with
    | none => exact good_rejected hw _ _ _
    | some c =>
      dsimp only
      split
      · split
        · exact onCore_prov _ hw _ _ _ _ (hw _ _ hg) hclr _
        · exact onCore_prov _ hw _ _ _ _ (hw _ _ hg) (keepsM_replayTransition _ d hm) _
      · exact good_rejected hw _ _ _
  | attachLogger i on =>
    have hk : KeepsM M (modifyCore (fun c => { c with logger := on })) :=
      keepsM_modifyCore fun c h => ⟨h.request, h.prev, h.plan⟩
    unfold step
    simp only [Op.inst, Op.name]
    cases hg : w.get i with
    | none => exact good_rejected hw _ _ _
    | some c => dsimp only; prov_arm hk
  | replayFrom i src =>
    unfold step
    simp only [Op.inst, Op.name]
    cases hg : w.get i <;> exact good_rejected hw _ _ _
  | replayEnterFrom i src =>
    unfold step
    simp only [Op.inst, Op.name]
    cases hg : w.get i <;> exact good_rejected hw _ _ _

theorem stepAll_prov {M : Tr → Prop} (cfg : Cfg) (beh : Beh) (w : World) (k : Nat) (op : Op) (hw : WProv M w)
    (hext : ∀ t ∈ op.ext, M t) (hnr : op.isReplayFrom = false) : Good M (stepAll cfg beh w k op) := by
  cases op with
  | copy i src =>
    unfold stepAll
    dsimp only
    split
    · rename_i sc h1 h2
      exact fun _ => ⟨wprov_put hw _ _ (fun c0 e => by cases e; exact hw src sc h2), obsAll_api M _ _ _ _⟩
    · exact good_rejected hw _ _ _
  | replayFrom i src => simp [Op.isReplayFrom] at hnr
  | replayEnterFrom i src => simp [Op.isReplayFrom] at hnr
  | construct i lg => exact step_prov cfg beh w k _ hw hext
  | destroy i => exact step_prov cfg beh w k _ hw hext
  | enter i => exact step_prov cfg beh w k _ hw hext
  | exit i => exact step_prov cfg beh w k _ hw hext
  | update i => exact step_prov cfg beh w k _ hw hext
  | react i => exact step_prov cfg beh w k _ hw hext
  | query i => exact step_prov cfg beh w k _ hw hext
  | changeTo i d => exact step_prov cfg beh w k _ hw hext
  | changeWith i d p => exact step_prov cfg beh w k _ hw hext
  | immediateChangeTo i d => exact step_prov cfg beh w k _ hw hext
  | immediateChangeWith i d p => exact step_prov cfg beh w k _ hw hext
  | succeed i id => exact step_prov cfg beh w k _ hw hext
  | fail i id => exact step_prov cfg beh w k _ hw hext
  | planAppend i o d p => exact step_prov cfg beh w k _ hw hext
  | planClear i => exact step_prov cfg beh w k _ hw hext
  | planRemove i m => exact step_prov cfg beh w k _ hw hext
  | save i => exact step_prov cfg beh w k _ hw hext
  | load i src => exact step_prov cfg beh w k _ hw hext
  | replayEnter i d => exact step_prov cfg beh w k _ hw hext
  | replayTransition i d => exact step_prov cfg beh w k _ hw hext
  | attachLogger i on => exact step_prov cfg beh w k _ hw hext

theorem runFrom_prov {M : Tr → Prop} (cfg : Cfg) (beh : Beh) : ∀ (ops : List Op) (w : World) (k : Nat), WProv M w →
    (∀ op ∈ ops, ∀ t ∈ op.ext, M t) → (∀ op ∈ ops, op.isReplayFrom = false) → Good M (runFrom cfg beh w k ops)
  | [], _, _, hw, _, _ => fun _ => ⟨hw, obsAll_nil M⟩
  | op :: ops, w, k, hw, hext, hnr => by
    intro ha
    simp only [runFrom] at ha ⊢
    obtain ⟨a1, a2⟩ := actsIn_append ha
    obtain ⟨w1, o1⟩ := stepAll_prov cfg beh w k op hw (hext op (by simp)) (hnr op (by simp)) a1
    obtain ⟨w2, o2⟩ := runFrom_prov cfg beh ops _ (k + 1) w1 (fun o ho => hext o (List.mem_cons_of_mem _ ho))
      (fun o ho => hnr o (List.mem_cons_of_mem _ ho)) a2
    exact ⟨w2, obsAll_append o1 o2⟩

/-- the transitions and tasks requested anywhere in a history: by its API calls, or by its callbacks -/
def MadeBy (ops : List Op) (evs : List Ev) (t : Tr) : Prop :=
  (∃ op ∈ ops, t ∈ op.ext) ∨ (∃ e ∈ evs, e.made = some t)

end FFSM2
