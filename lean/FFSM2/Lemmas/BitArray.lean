import FFSM2.BitArray
/-! Helper lemmas for the bit array (C20). -/
namespace FFSM2
namespace BitArray

/-- abstraction: is bit `j` set in the storage -/
def bit (units : List Nat) (j : Nat) : Bool := (units.getD (j / 8) 0).testBit (j % 8)

/-- representation invariant of `BitArrayT<cap>` -/
structure Inv (cap : Nat) (units : List Nat) : Prop where
  length : units.length = unitCount cap
  bytes  : ∀ b ∈ units, b < 256
  pad    : ∀ j, cap ≤ j → bit units j = false

theorem unitCount_ge (cap : Nat) : cap ≤ 8 * unitCount cap := by
  simp only [unitCount, Gen.unitCount, Gen.contain]; omega

theorem unitCount_lt (cap : Nat) : 8 * unitCount cap < cap + 8 := by
  simp only [unitCount, Gen.unitCount, Gen.contain]; omega

theorem getD_set (l : List Nat) (k k' x : Nat) :
    (l.set k x).getD k' 0 = if k = k' ∧ k < l.length then x else l.getD k' 0 := by
  simp only [List.getD_eq_getElem?_getD, List.getElem?_set]
  by_cases h : k = k'
  · subst h
    by_cases h2 : k < l.length
    · simp [h2]
    · simp [h2]
  · simp [h]

theorem mask_eq (i : Nat) : mask i = 2 ^ (i % 8) := by
  unfold mask
  rw [Nat.one_shiftLeft]
  apply Nat.mod_eq_of_lt
  have : 2 ^ (i % 8) ≤ 2 ^ 7 := Nat.pow_le_pow_right (by decide) (by omega)
  omega

theorem and_two_pow_ne_zero (b k : Nat) : ((b &&& 2 ^ k) != 0) = b.testBit k := by
  have h : b &&& 2 ^ k = if b.testBit k then 2 ^ k else 0 := by
    apply Nat.eq_of_testBit_eq
    intro i
    rw [Nat.testBit_and, Nat.testBit_two_pow]
    by_cases hk : k = i
    · subst hk; cases hb : b.testBit k <;> simp
    · cases hb : b.testBit k <;> simp [hk, Nat.testBit_two_pow]
  rw [h]
  cases hb : b.testBit k
  · simp
  · have : 0 < 2 ^ k := Nat.two_pow_pos k
    simp

theorem get_eq_bit (units : List Nat) (j : Nat) : get units j = bit units j := by
  unfold get bit; rw [mask_eq, and_two_pow_ne_zero]

theorem idx_eq_iff (i j : Nat) : (j / 8 = i / 8 ∧ j % 8 = i % 8) ↔ j = i := by omega

theorem testBit_255_sub (k i : Nat) (hk : k < 8) :
    (255 - 2 ^ k).testBit i = (decide (i < 8) && !decide (k = i)) := by
  have hlt : 2 ^ k < 2 ^ 8 := Nat.pow_lt_pow_right (by decide) hk
  have : 255 - 2 ^ k = 2 ^ 8 - (2 ^ k + 1) := by omega
  rw [this, Nat.testBit_two_pow_sub_succ hlt, Nat.testBit_two_pow]

theorem bit_set {units : List Nat} {i : Nat} (hi : i / 8 < units.length) (j : Nat) :
    bit (set units i) j = (decide (j = i) || bit units j) := by
  unfold bit set
  rw [getD_set, mask_eq]
  by_cases h : i / 8 = j / 8
  · simp only [h, true_and]
    rw [if_pos (by omega), Nat.testBit_or, Nat.testBit_two_pow, ← h]
    by_cases h2 : i % 8 = j % 8
    · have : j = i := by omega
      simp [this]
    · have : ¬ j = i := by omega
      simp [h2, this, Bool.or_comm]
  · have : ¬ j = i := by intro e; subst e; exact h rfl
    simp [h, this]

theorem bit_clear {units : List Nat} {i : Nat} (hi : i / 8 < units.length)
    (hb : ∀ b ∈ units, b < 256) (j : Nat) :
    bit (clear units i) j = (!decide (j = i) && bit units j) := by
  unfold bit clear
  rw [getD_set, mask_eq]
  by_cases h : i / 8 = j / 8
  · simp only [h, true_and]
    rw [if_pos (by omega), Nat.testBit_and, testBit_255_sub _ _ (Nat.mod_lt _ (by decide)), ← h]
    have hj : j % 8 < 8 := Nat.mod_lt _ (by decide)
    by_cases h2 : i % 8 = j % 8
    · have : j = i := by omega
      simp [this]
    · have : ¬ j = i := by omega
      simp [h2, this, hj, Bool.and_comm]
  · have : ¬ j = i := by intro e; subst e; exact h rfl
    simp [h, this]

theorem bytes_set {units : List Nat} {k x : Nat} (hb : ∀ b ∈ units, b < 256) (hx : x < 256) :
    ∀ b ∈ units.set k x, b < 256 := by
  intro b hbm
  rcases List.mem_or_eq_of_mem_set hbm with h | h
  · exact hb b h
  · exact h ▸ hx

theorem getD_lt {units : List Nat} (hb : ∀ b ∈ units, b < 256) (k : Nat) : units.getD k 0 < 256 := by
  rw [List.getD_eq_getElem?_getD]
  cases h : units[k]? with
  | none => simp
  | some v => simp; exact hb v (List.mem_of_getElem? h)

theorem inv_init (cap : Nat) : Inv cap (init cap) where
  length := by simp [init]
  bytes := by intro b hb; have := List.eq_of_mem_replicate hb; omega
  pad := by
    intro j _
    unfold bit init
    rw [List.getD_eq_getElem?_getD]
    cases h : (List.replicate (unitCount cap) 0)[j / 8]? with
    | none => simp
    | some v =>
      have := List.eq_of_mem_replicate (List.mem_of_getElem? h)
      simp [this]

theorem bit_init (cap j : Nat) : bit (init cap) j = false := by
  unfold bit init
  rw [List.getD_eq_getElem?_getD]
  cases h : (List.replicate (unitCount cap) 0)[j / 8]? with
  | none => simp
  | some v =>
    have := List.eq_of_mem_replicate (List.mem_of_getElem? h)
    simp [this]

theorem inv_set {cap : Nat} {units : List Nat} (h : Inv cap units) {i : Nat} (hi : i < cap) :
    Inv cap (set units i) where
  length := by unfold set; rw [List.length_set]; exact h.length
  bytes := by
    unfold set
    apply bytes_set h.bytes
    have h1 := getD_lt h.bytes (i / 8)
    have h2 : mask i < 2 ^ 8 := by
      rw [mask_eq]; exact Nat.pow_lt_pow_right (by decide) (Nat.mod_lt _ (by decide))
    exact Nat.or_lt_two_pow (n := 8) h1 h2
  pad := by
    intro j hj
    have hlen : i / 8 < units.length := by
      rw [h.length]; have := unitCount_ge cap; omega
    rw [bit_set hlen, h.pad j hj]
    have : ¬ j = i := by omega
    simp [this]

theorem inv_clear {cap : Nat} {units : List Nat} (h : Inv cap units) {i : Nat} (hi : i < cap) :
    Inv cap (clear units i) where
  length := by unfold clear; rw [List.length_set]; exact h.length
  bytes := by
    unfold clear
    apply bytes_set h.bytes
    have h1 := getD_lt h.bytes (i / 8)
    exact Nat.lt_of_le_of_lt Nat.and_le_left h1
  pad := by
    intro j hj
    have hlen : i / 8 < units.length := by
      rw [h.length]; have := unitCount_ge cap; omega
    rw [bit_clear hlen h.bytes, h.pad j hj]
    simp

end BitArray
end FFSM2

namespace FFSM2
namespace BitArray

theorem getD_map_const (l : List Nat) (c k : Nat) :
    (l.map (fun _ => c)).getD k 0 = if k < l.length then c else 0 := by
  rw [List.getD_eq_getElem?_getD, List.getElem?_map]
  by_cases h : k < l.length
  · simp [h]
  · simp [h]

theorem unitCount_eq_of_mod {cap : Nat} (h : cap % 8 = 0) : 8 * unitCount cap = cap := by
  have := unitCount_ge cap; have := unitCount_lt cap; omega

theorem unitCount_eq_of_mod_ne {cap : Nat} (h : cap % 8 ≠ 0) : unitCount cap = cap / 8 + 1 := by
  have := unitCount_ge cap; have := unitCount_lt cap; omega

theorem testBit_255 (t : Nat) : (255 : Nat).testBit t = decide (t < 8) := by
  have : (255 : Nat) = 2 ^ 8 - 1 := by decide
  rw [this, Nat.testBit_two_pow_sub_one]

theorem bit_setAll {cap : Nat} {units : List Nat} (hl : units.length = unitCount cap) (j : Nat) :
    bit (setAll cap units) j = decide (j < cap) := by
  have hj8 : j % 8 < 8 := Nat.mod_lt _ (by decide)
  unfold bit setAll
  by_cases hm : cap % 8 = 0
  · simp only [hm, ne_eq, not_true_eq_false, if_false]
    rw [getD_map_const, hl]
    have := unitCount_eq_of_mod hm
    by_cases h : j / 8 < unitCount cap
    · rw [if_pos h, testBit_255]
      have : j < cap := by omega
      simp [this, hj8]
    · rw [if_neg h]
      have : ¬ j < cap := by omega
      simp [this]
  · simp only [ne_eq, hm, not_false_eq_true, if_true]
    have huc := unitCount_eq_of_mod_ne hm
    have hmask : ((1 <<< (cap % 8)) - 1) % 256 = 2 ^ (cap % 8) - 1 := by
      rw [Nat.one_shiftLeft]
      apply Nat.mod_eq_of_lt
      have : 2 ^ (cap % 8) ≤ 2 ^ 7 := Nat.pow_le_pow_right (by decide) (by omega)
      omega
    rw [getD_set, List.length_map, hl, hmask, getD_map_const, hl, huc]
    by_cases h1 : cap / 8 + 1 - 1 = j / 8
    · rw [if_pos ⟨h1, by omega⟩, Nat.testBit_two_pow_sub_one]
      have : (j % 8 < cap % 8) ↔ j < cap := by omega
      simp [this]
    · have hne : ¬ (cap / 8 + 1 - 1 = j / 8 ∧ cap / 8 + 1 - 1 < cap / 8 + 1) := fun h => h1 h.1
      rw [if_neg hne]
      by_cases h : j / 8 < cap / 8 + 1
      · rw [if_pos h, testBit_255]
        have : j < cap := by omega
        simp [this, hj8]
      · rw [if_neg h]
        have : ¬ j < cap := by omega
        simp [this]

theorem inv_setAll {cap : Nat} {units : List Nat} (h : Inv cap units) : Inv cap (setAll cap units) where
  length := by
    unfold setAll; split
    · rw [List.length_set, List.length_map]; exact h.length
    · rw [List.length_map]; exact h.length
  bytes := by
    unfold setAll
    have hall : ∀ b ∈ units.map (fun _ => 255), b < 256 := by
      intro b hb; simp at hb; omega
    split
    · apply bytes_set hall; exact Nat.mod_lt _ (by decide)
    · exact hall
  pad := by
    intro j hj
    rw [bit_setAll h.length]
    simp; omega

theorem bit_clearAll (units : List Nat) (j : Nat) : bit (clearAll units) j = false := by
  unfold bit clearAll
  rw [getD_map_const]; split <;> simp

theorem inv_clearAll {cap : Nat} {units : List Nat} (h : Inv cap units) : Inv cap (clearAll units) where
  length := by unfold clearAll; rw [List.length_map]; exact h.length
  bytes := by intro b hb; simp [clearAll] at hb; omega
  pad := by intro j _; exact bit_clearAll units j

theorem getD_zipWith_and (a b : List Nat) (k : Nat) :
    (List.zipWith (· &&& ·) a b).getD k 0 = a.getD k 0 &&& b.getD k 0 := by
  simp only [List.getD_eq_getElem?_getD, List.getElem?_zipWith]
  cases ha : a[k]? <;> cases hb : b[k]? <;> simp

theorem bit_andAssign (a b : List Nat) (j : Nat) :
    bit (andAssign a b) j = (bit a j && bit b j) := by
  unfold bit andAssign
  rw [getD_zipWith_and, Nat.testBit_and]

theorem inv_andAssign {cap : Nat} {a b : List Nat} (ha : Inv cap a) (hb : Inv cap b) :
    Inv cap (andAssign a b) where
  length := by unfold andAssign; rw [List.length_zipWith, ha.length, hb.length]; simp
  bytes := by
    intro x hx
    unfold andAssign at hx
    obtain ⟨i, hi, rfl⟩ := List.getElem_of_mem hx
    rw [List.getElem_zipWith]
    have hi' : i < a.length := by rw [List.length_zipWith] at hi; omega
    exact Nat.lt_of_le_of_lt Nat.and_le_left (ha.bytes _ (List.getElem_mem hi'))
  pad := by intro j hj; rw [bit_andAssign, ha.pad j hj]; simp

/-- `empty()` is exactly "no in-range bit set" — this is where the padding invariant matters -/
theorem empty_iff {cap : Nat} {units : List Nat} (h : Inv cap units) :
    empty units = true ↔ ∀ j, j < cap → bit units j = false := by
  unfold empty
  rw [List.all_eq_true]
  constructor
  · intro hall j _
    unfold bit
    rw [List.getD_eq_getElem?_getD]
    cases hk : units[j / 8]? with
    | none => simp
    | some v =>
      have := hall v (List.mem_of_getElem? hk)
      simp at this
      simp [this]
  · intro hbits b hb
    obtain ⟨k, hk, rfl⟩ := List.getElem_of_mem hb
    have hz : units[k] = 0 := by
      apply Nat.eq_of_testBit_eq
      intro t
      rw [Nat.zero_testBit]
      by_cases ht : t < 8
      · have hbit : bit units (8 * k + t) = units[k].testBit t := by
          unfold bit
          have h1 : (8 * k + t) / 8 = k := by omega
          have h2 : (8 * k + t) % 8 = t := by omega
          rw [h1, h2, List.getD_eq_getElem?_getD, List.getElem?_eq_getElem hk]; rfl
        rw [← hbit]
        by_cases hc : 8 * k + t < cap
        · exact hbits _ hc
        · exact h.pad _ (by omega)
      · apply Nat.testBit_lt_two_pow
        have := h.bytes _ (List.getElem_mem hk)
        have : 2 ^ 8 ≤ 2 ^ t := Nat.pow_le_pow_right (by decide) (by omega)
        omega
    simp [hz]

end BitArray
end FFSM2
