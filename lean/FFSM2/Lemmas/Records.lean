import FFSM2.Lemmas.World
import FFSM2.Lemmas.Lifecycle
/-! Method records are faithful: in the trace of every building block — and so of every API call and every
    history — each method record `log i (method sid m)` is immediately followed by a delivery event of that very
    instance, state and method.  `Closed es`: a small automaton run over the trace accepts (no record is left
    pending at the end, none was followed by anything but its delivery); concatenation of closed traces is closed,
    which makes the property compositional. -/
namespace FFSM2
open Step Ancestors

def Ev.isMethodLog : Ev → Bool
  | .log _ (.method _ _) => true
  | _ => false

/-- the record waiting for its delivery (instance, state, method) and the verdict so far -/
abbrev RecSt := Option (Nat × Nat × Method) × Bool

def recStep : RecSt → Ev → RecSt
  | (some (i, sid, m), ok), .cb k _ _ => (none, ok && k.inst == i && k.sid == sid && k.method == m)
  | (some _, _), .log i (.method sid m) => (some (i, sid, m), false)
  | (some _, _), _ => (none, false)
  | (none, ok), .log i (.method sid m) => (some (i, sid, m), ok)
  | (none, ok), _ => (none, ok)

/-- every method record of the trace is immediately followed by the delivery it names -/
def Closed (es : List Ev) : Prop := es.foldl recStep (none, true) = (none, true)

theorem closed_nil : Closed [] := rfl

theorem closed_append {a b : List Ev} (ha : Closed a) (hb : Closed b) : Closed (a ++ b) := by
  unfold Closed at *
  rw [List.foldl_append, ha, hb]

theorem recStep_noM {e : Ev} (h : e.isMethodLog = false) : recStep (none, true) e = (none, true) := by
  cases e with
  | log i r => cases r <;> first | rfl | (simp [Ev.isMethodLog] at h)
  | _ => rfl

theorem closed_noM : ∀ {es : List Ev}, (∀ e ∈ es, e.isMethodLog = false) → Closed es
  | [], _ => rfl
  | e :: es, h => by
    unfold Closed
    rw [List.foldl_cons, recStep_noM (h e (by simp))]
    exact closed_noM fun x hx => h x (by simp [hx])

/-- a record followed by its delivery and then by anything record-free -/
theorem closed_record (i sid : Nat) (m : Method) (k : Key) (vis : Bool) (o : Obs) (rest : List Ev)
    (hi : k.inst = i) (hs : k.sid = sid) (hm : k.method = m) (hr : ∀ e ∈ rest, e.isMethodLog = false) :
    Closed (Ev.log i (.method sid m) :: Ev.cb k vis o :: rest) := by
  unfold Closed
  simp only [List.foldl_cons, recStep, hi, hs, hm, beq_self_eq_true, Bool.and_self]
  exact closed_noM hr

/-! ### steps -/

def ClosedStep (f : Step) : Prop := ∀ s, Closed (f s).2
/-- a step that emits no method record at all -/
def NoM (f : Step) : Prop := ∀ s, ∀ e ∈ (f s).2, e.isMethodLog = false

theorem NoM.closed {f : Step} (h : NoM f) : ClosedStep f := fun s => closed_noM (h s)

theorem ClosedStep.seq {f g : Step} (hf : ClosedStep f) (hg : ClosedStep g) : ClosedStep (f ⋙ g) := by
  intro s; simp only [Step.seq]; exact closed_append (hf s) (hg _)
theorem NoM.seq {f g : Step} (hf : NoM f) (hg : NoM g) : NoM (f ⋙ g) := by
  intro s e he
  simp only [Step.seq, List.mem_append] at he
  rcases he with he | he
  · exact hf s e he
  · exact hg _ e he

theorem noM_skip : NoM skip := by intro s e he; cases he
theorem noM_modify (m : St → St) : NoM (Step.modify m) := by intro s e he; cases he
theorem noM_modifyCore (m : Core → Core) : NoM (modifyCore m) := by intro s e he; cases he
theorem noM_emit {e : St → List Ev} (h : ∀ s, ∀ x ∈ e s, x.isMethodLog = false) : NoM (emit e) := fun s x hx => h s x hx
theorem closed_skip : ClosedStep skip := noM_skip.closed
theorem closed_modify (m : St → St) : ClosedStep (Step.modify m) := (noM_modify m).closed
theorem closed_modifyCore (m : Core → Core) : ClosedStep (modifyCore m) := (noM_modifyCore m).closed
theorem closed_dep {g : St → Step} (h : ∀ s0, ClosedStep (g s0)) : ClosedStep (fun s => g s s) := fun s => h s s
theorem noM_seqList {l : List Step} (h : ∀ f ∈ l, NoM f) : NoM (seqList l) := by
  induction l with
  | nil => exact noM_skip
  | cons f fs ih => exact NoM.seq (h f (by simp)) (ih fun g hg => h g (by simp [hg]))

theorem noM_logEv (env : Env) (c : Core) (r : LogRec) (hr : ∀ sid m, r ≠ .method sid m) :
    ∀ e ∈ logEv env c r, e.isMethodLog = false := by
  intro e he
  unfold logEv at he
  split at he
  · simp only [List.mem_singleton] at he
    rw [he]
    cases r with
    | method sid m => exact absurd rfl (hr sid m)
    | _ => rfl
  · cases he

theorem noM_applyAction (env : Env) (sid : Nat) (a : Action) : NoM (applyAction env sid a) := by
  intro s e he
  cases a with
  | changeTo d => exact noM_logEv env _ _ (by intro _ _ h; cases h) e he
  | changeWith d p => exact noM_logEv env _ _ (by intro _ _ h; cases h) e he
  | cancel => exact noM_logEv env _ _ (by intro _ _ h; cases h) e he
  | succeed id => exact noM_logEv env _ _ (by intro _ _ h; cases h) e he
  | fail id => exact noM_logEv env _ _ (by intro _ _ h; cases h) e he
  | planAppend o d p =>
    cases p with
    | none => simp only [applyAction] at he; split at he <;> cases he
    | some p => simp only [applyAction] at he; split at he <;> cases he
  | planClear => cases he
  | planRemove m => cases he

theorem noM_runActions (env : Env) (fl : Flavour) (sid : Nat) (key : Key) : ∀ as : List Action, NoM (runActions env fl sid key as)
  | [] => noM_skip
  | a :: as => by
    unfold runActions
    refine NoM.seq ?_ (noM_runActions env fl sid key as)
    split
    · refine NoM.seq (noM_emit fun s x hx => ?_) (noM_applyAction env sid a)
      simp only [List.mem_singleton] at hx; rw [hx]; rfl
    · exact noM_skip

/-- one layer: its delivery event first, then record-free events -/
theorem deliverLayer_shape (env : Env) (m : Method) (sid : Nat) (cur pend : Tr) (layer : Layer) (s : St) :
    ∃ k vis o rest, (deliverLayer env m sid cur pend layer s).2 = Ev.cb k vis o :: rest ∧
      k.inst = env.inst ∧ k.sid = sid ∧ k.method = m ∧ ∀ e ∈ rest, e.isMethodLog = false := by
  rw [deliverLayer_eq]
  unfold layerBody
  simp only [Step.seq, emit, List.singleton_append]
  refine ⟨_, _, _, _, rfl, rfl, rfl, rfl, ?_⟩
  split
  · exact noM_runActions env _ _ _ _ _
  · intro e he; cases he

theorem noM_deliverLayer (env : Env) (m : Method) (sid : Nat) (cur pend : Tr) (layer : Layer) :
    NoM (deliverLayer env m sid cur pend layer) := by
  intro s e he
  obtain ⟨k, vis, o, rest, h, _, _, _, hr⟩ := deliverLayer_shape env m sid cur pend layer s
  rw [h] at he
  rcases List.mem_cons.mp he with rfl | he
  · rfl
  · exact hr e he

theorem deep_ne_nil (k : Nat) (m : Method) : deep k m ≠ [] := by
  intro h
  have := deep_own_any k m
  rw [h] at this
  cases this

/-- **a delivery**: its record (if any) is immediately followed by its first layer's delivery event -/
theorem closed_deliver (env : Env) (m : Method) (sid : Nat) (cur pend : Tr) : ClosedStep (deliver env m sid cur pend) := by
  intro s
  unfold deliver
  simp only [Step.seq, emit]
  cases hd : deep (env.cfg.injections sid) m with
  | nil => exact absurd hd (deep_ne_nil _ _)
  | cons l ls =>
    simp only [List.map_cons, seqList, Step.seq]
    obtain ⟨k, vis, o, rest, h, hi, hs, hm, hr⟩ := deliverLayer_shape env m sid cur pend l s
    have hrest : ∀ e ∈ (seqList (ls.map (deliverLayer env m sid cur pend)) (deliverLayer env m sid cur pend l s).1).2,
        e.isMethodLog = false :=
      noM_seqList (fun f hf => by
        obtain ⟨l', _, rfl⟩ := List.mem_map.mp hf
        exact noM_deliverLayer env m sid cur pend l') _
    rw [h]
    have hall : ∀ e ∈ rest ++ (seqList (ls.map (deliverLayer env m sid cur pend)) (deliverLayer env m sid cur pend l s).1).2,
        e.isMethodLog = false := by
      intro e he
      rcases List.mem_append.mp he with he | he
      · exact hr e he
      · exact hrest e he
    split
    · unfold logEv
      split
      · exact closed_record env.inst sid m k vis o _ hi hs hm hall
      · exact closed_noM (by
          intro e he
          rcases List.mem_cons.mp he with rfl | he
          · rfl
          · exact hall e he)
    · exact closed_noM (by
        intro e he
        rcases List.mem_cons.mp he with rfl | he
        · rfl
        · exact hall e he)

local macro "cmc" : term => `((by apply closed_modifyCore))
local macro "cmd" : term => `((by apply closed_modify))

theorem closed_deepEnter (env : Env) (cur : Tr) : ClosedStep (deepEnter env cur) := by
  unfold deepEnter
  exact ClosedStep.seq (ClosedStep.seq cmc (closed_deliver env .enter _ _ _)) (closed_dep fun s0 => closed_deliver env .enter _ _ _)

theorem closed_deepExit (env : Env) (cur : Tr) : ClosedStep (deepExit env cur) := by
  unfold deepExit
  refine ClosedStep.seq (ClosedStep.seq (ClosedStep.seq ?_ (closed_deliver env .exit _ _ _)) cmc) cmc
  exact closed_dep fun s0 => ClosedStep.seq (closed_deliver env .exit _ _ _) cmc

theorem closed_changeToRequested (env : Env) (cur : Tr) : ClosedStep (changeToRequested env cur) := by
  unfold changeToRequested
  intro s
  dsimp only
  split
  · exact (ClosedStep.seq (ClosedStep.seq (ClosedStep.seq (closed_deliver env .exit _ _ _) cmc) cmc)
      (closed_dep fun s0 => closed_deliver env .enter _ _ _)) s
  · exact (ClosedStep.seq cmc (closed_deliver env .reenter _ _ _)) s

theorem closed_guardRound (env : Env) (cur pend : Tr) : ClosedStep (guardRound env cur pend) := by
  unfold guardRound
  refine ClosedStep.seq (ClosedStep.seq cmd (closed_dep fun s0 => closed_deliver env .exitGuard _ _ _)) ?_
  intro s
  dsimp only
  split
  · exact closed_nil
  · exact closed_deliver env .entryGuard _ _ _ s

theorem closed_entryGuardRound (env : Env) (cur pend : Tr) : ClosedStep (entryGuardRound env cur pend) := by
  unfold entryGuardRound
  refine ClosedStep.seq (ClosedStep.seq cmd (closed_deliver env .entryGuard _ _ _)) ?_
  intro s
  dsimp only
  split
  · exact closed_nil
  · exact closed_deliver env .entryGuard _ _ _ s

theorem closed_substLoop (round : Tr → Tr → Step) (hr : ∀ c q, ClosedStep (round c q)) :
    ∀ (fuel : Nat) (cur : Tr) (s : St), Closed (substLoop round fuel cur s).2 := by
  intro fuel
  induction fuel with
  | zero => intro _ _; exact closed_nil
  | succ fuel ih =>
    intro cur s
    simp only [substLoop]
    split
    · split
      · exact closed_append (hr _ _ _) (ih _ _)
      · exact ih _ _
    · exact closed_nil

theorem closed_applySurvivor (env : Env) (cur : Tr) : ClosedStep (applySurvivor env cur) := by
  unfold applySurvivor
  intro s
  dsimp only
  split
  · exact (ClosedStep.seq cmc (closed_changeToRequested env cur)) s
  · exact closed_nil

theorem closed_finishProcessing (env : Env) (cur : Tr) : ClosedStep (finishProcessing env cur) := by
  unfold finishProcessing; exact cmc

theorem closed_processRequest (env : Env) : ClosedStep (processRequest env) := by
  unfold processRequest
  intro s
  dsimp only
  split
  · exact closed_append (closed_substLoop _ (closed_guardRound env) _ _ _)
      ((ClosedStep.seq (closed_applySurvivor env _) (closed_finishProcessing env _)) _)
  · exact closed_finishProcessing env _ s

theorem closed_enterSurvivor (env : Env) (cur : Tr) : ClosedStep (enterSurvivor env cur) := by
  unfold enterSurvivor
  exact ClosedStep.seq (ClosedStep.seq cmc (closed_deepEnter env cur)) cmc

theorem closed_initialEnter (env : Env) : ClosedStep (initialEnter env) := by
  unfold initialEnter
  intro s
  dsimp only
  exact closed_append (closed_append (closed_entryGuardRound env {} {} _) (closed_substLoop _ (closed_entryGuardRound env) _ _ _))
    (closed_enterSurvivor env _ _)

theorem closed_finalExit (env : Env) : ClosedStep (finalExit env) := by
  unfold finalExit; exact ClosedStep.seq (closed_deepExit env {}) cmc

theorem closed_phase (env : Env) (m : Method) (hf : Bool) : ClosedStep (phase env m hf) := by
  unfold phase
  intro s
  dsimp only
  have hsub : ClosedStep (deliver env m s.core.active {} {} ⋙
      modify (fun s => { s with core := { s.core with subStatus := s.core.subStatus.or s.ts } })) :=
    ClosedStep.seq (closed_deliver _ _ _ _ _) cmd
  have hhead : ClosedStep (deliver env m 255 {} {}) := closed_deliver _ _ _ _ _
  have hreset : ClosedStep (modify (fun s => { s with ts := Status.none })) := cmd
  split
  · exact (ClosedStep.seq (ClosedStep.seq hhead hsub) hreset) s
  · exact (ClosedStep.seq (ClosedStep.seq hsub hhead) hreset) s

theorem noM_firePlan (env : Env) : ∀ (tasks : List Task) (s : St) (clr : List Nat),
    ∀ e ∈ (firePlan env tasks s clr).2, e.isMethodLog = false := by
  intro tasks
  induction tasks with
  | nil => intro s clr e he; cases he
  | cons t ts ih =>
    intro s clr e he
    simp only [firePlan] at he
    split at he
    · split at he
      · rcases List.mem_append.mp he with he | he
        · exact noM_logEv env _ _ (by intro _ _ h; cases h) e he
        · exact ih _ _ e he
      · exact ih _ _ e he
    · cases he

theorem closed_planStep (env : Env) : ClosedStep (planStep env) := by
  unfold planStep
  intro s
  dsimp only
  have hfail : ClosedStep (modify (fun s => { s with ts := Status.failure }) ⋙ deliver env .planFailed 255 {} {} ⋙
      modifyCore planClearCore) := ClosedStep.seq (ClosedStep.seq cmd (closed_deliver env _ _ _ _)) cmc
  have hsucc : ClosedStep (modify (fun s => { s with ts := Status.success }) ⋙ deliver env .planSucceeded 255 {} {} ⋙
      modifyCore planClearCore) := ClosedStep.seq (ClosedStep.seq cmd (closed_deliver env _ _ _ _)) cmc
  split
  · split
    · exact hfail s
    · split
      · exact closed_noM (noM_firePlan env s.core.plan s [])
      · exact hsucc s
  · exact closed_nil

theorem closed_cycle (env : Env) (pre mid post : Method) : ClosedStep (cycle env pre mid post) := by
  unfold cycle
  refine ClosedStep.seq (ClosedStep.seq (ClosedStep.seq (ClosedStep.seq (ClosedStep.seq cmd (closed_phase env _ _))
    (closed_phase env _ _)) (closed_phase env _ _)) ?_) (closed_processRequest env)
  split
  · exact closed_planStep env
  · exact closed_skip

theorem closed_query (env : Env) : ClosedStep (query env) := by
  unfold query
  generalize headFirst Method.query = hfq
  cases hfq <;> simp only [if_true, if_false, Bool.false_eq_true] <;>
  exact closed_dep fun s0 => ClosedStep.seq (closed_deliver env .query _ {} {}) (closed_deliver env .query _ {} {})

theorem closed_extChange (env : Env) (d : Nat) (q : Option Nat) : ClosedStep (extChange env d q) := fun s =>
  closed_noM (noM_logEv env _ _ (by intro _ _ h; cases h))

theorem closed_extStatus (env : Env) (id : Nat) (ok : Bool) : ClosedStep (extStatus env id ok) := fun s =>
  closed_noM (noM_logEv env _ _ (by intro _ _ h; cases h))

theorem closed_replayTransition (env : Env) (d : Nat) : ClosedStep (replayTransition env d) := by
  unfold replayTransition
  exact ClosedStep.seq (ClosedStep.seq (ClosedStep.seq cmc cmc) (closed_changeToRequested env {})) cmc

theorem closed_replayEnter (env : Env) (d : Nat) : ClosedStep (replayEnter env d) := by
  unfold replayEnter
  exact ClosedStep.seq (ClosedStep.seq cmc (closed_deepEnter env {})) cmc

theorem closed_loadActive (env : Env) (r : Nat) : ClosedStep (loadActive env r) := by
  unfold loadActive; exact ClosedStep.seq cmc (closed_changeToRequested env {})

theorem closed_load (env : Env) (buf : List Nat) : ClosedStep (load env buf) := by
  unfold load
  intro s
  dsimp only
  split
  · split
    · exact closed_loadActive env _ s
    · split
      · exact (ClosedStep.seq cmc (closed_deepEnter env {})) s
      · exact closed_nil
  · split
    · exact closed_finalExit env s
    · exact closed_nil

theorem apiStep_closed {cfg : Cfg} {w : World} {env : Env} {tag : ApiTag} {slot : Option Core} {c : Core} {f : Step}
    (h : ApiStep cfg w env tag slot c f) : ClosedStep f := by
  cases h with
  | constructManual => exact closed_skip
  | constructAuto => exact closed_initialEnter env
  | enter => exact closed_initialEnter env
  | exit => exact closed_finalExit env
  | update => exact closed_cycle env _ _ _
  | react => exact closed_cycle env _ _ _
  | query => exact closed_query env
  | change => exact closed_extChange env _ _
  | immediate => exact ClosedStep.seq (closed_extChange env _ _) (closed_processRequest env)
  | status => exact closed_extStatus env _ _
  | planAppend => exact (noM_applyAction env _ _).closed
  | planEdit => exact (noM_applyAction env _ _).closed
  | load => exact closed_load env _
  | replayEnter => exact closed_replayEnter env _
  | replayClear => exact closed_modifyCore _
  | replayTransition => exact closed_replayTransition env _
  | attachLogger => exact closed_modifyCore _

theorem closed_single {e : Ev} (h : e.isMethodLog = false) : Closed [e] :=
  closed_noM (by intro x hx; simp only [List.mem_singleton] at hx; rw [hx]; exact h)

/-- one API call, any world -/
theorem stepAll_closed (cfg : Cfg) (beh : Beh) (w : World) (k : Nat) (op : Op) : Closed (stepAll cfg beh w k op).2 := by
  have h := stepAll_shape cfg beh w k op
  generalize stepAll cfg beh w k op = r at h
  cases h with
  | copy src sc _ h1 h2 => exact closed_single rfl
  | step op' hs _ =>
    cases hs with
    | rejected name => exact closed_single rfl
    | call tag slot c f ret name htag hget hf =>
      rw [onCore_snd]
      exact closed_append (apiStep_closed hf _) (closed_single rfl)
    | destroyManual c name _ hm hget => exact closed_single rfl
    | destroyAuto c name _ hm hget => exact closed_append (closed_finalExit _ _) (closed_single rfl)
    | save c name o hget => exact closed_single rfl

theorem runFrom_closed (cfg : Cfg) (beh : Beh) : ∀ (ops : List Op) (w : World) (k : Nat), Closed (runFrom cfg beh w k ops).2
  | [], _, _ => closed_nil
  | op :: ops, w, k => by
    simp only [runFrom]
    exact closed_append (stepAll_closed cfg beh w k op) (runFrom_closed cfg beh ops _ _)

end FFSM2
