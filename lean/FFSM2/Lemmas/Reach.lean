import FFSM2.Lemmas.World
import FFSM2.Props.C12
/-! Every core reachable by any history satisfies the range invariant `CoreOk` (ids handed to user code
    name real states, the plan is within capacity). -/
namespace FFSM2
open Step BitStream

def WorldOk (cfg : Cfg) (w : World) : Prop := ∀ i c, w.get i = some c → CoreOk cfg c

theorem coreOk_init (cfg : Cfg) (lg : Bool) : CoreOk cfg (initCore cfg lg) :=
  ⟨Or.inr rfl, Or.inr rfl, Or.inr rfl, (by intro t ht; cases ht), Nat.zero_le _⟩

theorem worldOk_nil (cfg : Cfg) : WorldOk cfg [] := by
  intro i c h
  simp [World.get] at h

theorem worldOk_put {cfg : Cfg} {w : World} (hw : WorldOk cfg w) (i : Nat) (c : Option Core)
    (hc : ∀ c0, c = some c0 → CoreOk cfg c0) : WorldOk cfg (w.put i c) := by
  intro j cj hj
  by_cases e : j = i
  · subst e
    rw [World.get_put_same] at hj
    exact hc cj hj
  · rw [World.get_put_ne _ _ _ _ e] at hj
    exact hw j cj hj

/-- `load` of what `save` wrote for a well-formed source keeps the invariant: the decoded id is the
    source's active state (C12 round trip), hence a real state -/
theorem keeps_load (env : Env) (hwf : env.cfg.WF) (sc : Core) (hsc : CoreOk env.cfg sc)
    (hm : env.cfg.manual = true ∨ sc.active ≠ 255) : Keeps (CoreOk env.cfg) (load env (save env.cfg sc)) := by
  intro s h
  rcases hsc.active with ha | ha
  · obtain ⟨d1, d2⟩ := load_decode_active env.cfg hwf sc ha
    unfold load
    simp only [d1, d2, show ((1 : Nat) != 0) = true from by decide, if_true]
    split
    · exact keeps_loadActive env _ (Or.inl ha) s h
    · split
      · refine Keeps.seq (keeps_modifyCore fun c hc => ?_) (keeps_deepEnter env _) s h
        exact ⟨hc.active, Or.inl ha, hc.request, hc.plan, hc.planLen⟩
      · exact h
  · have hman : env.cfg.manual = true := by
      rcases hm with hm | hm
      · exact hm
      · exact absurd ha hm
    have d := load_decode_inactive env.cfg hwf sc hman ha
    unfold load
    simp only [d, show ((0 : Nat) != 0) = false from by decide, Bool.false_eq_true, if_false]
    split
    · exact keeps_finalExit env s h
    · exact h

theorem apiStep_keeps {w : World} {env : Env} (hwf : env.cfg.WF) (hw : WorldOk env.cfg w) {tag : ApiTag} {slot : Option Core} {c : Core} {f : Step}
    (h : ApiStep env.cfg w env tag slot c f) (hs : ∀ c0, slot = some c0 → CoreOk env.cfg c0) :
    CoreOk env.cfg c ∧ Keeps (CoreOk env.cfg) f := by
  cases h with
  | constructManual lg => exact ⟨coreOk_init _ _, keeps_skip _⟩
  | constructAuto lg => exact ⟨coreOk_init _ _, keeps_initialEnter env hwf.n_pos⟩
  | enter => exact ⟨hs _ rfl, keeps_initialEnter env hwf.n_pos⟩
  | exit => exact ⟨hs _ rfl, keeps_finalExit env⟩
  | update => exact ⟨hs _ rfl, keeps_cycle env _ _ _⟩
  | react => exact ⟨hs _ rfl, keeps_cycle env _ _ _⟩
  | query => exact ⟨hs _ rfl, keeps_query env⟩
  | change c d p _ hd => exact ⟨hs _ rfl, keeps_extChange env d hd p⟩
  | immediate c d p _ hd => exact ⟨hs _ rfl, Keeps.seq (keeps_extChange env d hd p) (keeps_processRequest env)⟩
  | status c id ok => exact ⟨hs _ rfl, keeps_extStatus env id ok⟩
  | planAppend c o d p hp => exact ⟨hs _ rfl, keeps_applyAction env .plan 255 0 _ hp⟩
  | planEdit c a _ hp => exact ⟨hs _ rfl, keeps_applyAction env .plan 255 0 a hp⟩
  | load c sc src hsrc hm =>
    refine ⟨hs _ rfl, keeps_load env hwf sc (hw src sc hsrc) ?_⟩
    rcases hm with hm | ⟨_, hm⟩
    · exact Or.inl hm
    · exact Or.inr hm
  | replayEnter c d _ _ _ hd => exact ⟨hs _ rfl, keeps_replayEnter env d hd⟩
  | replayClear => exact ⟨hs _ rfl, keeps_modifyCore fun c h => coreOk_setPrev _ h⟩
  | replayTransition c d _ _ hd => exact ⟨hs _ rfl, keeps_replayTransition env d hd⟩
  | attachLogger c on => exact ⟨hs _ rfl, keeps_modifyCore fun c h => ⟨h.active, h.requested, h.request, h.plan, h.planLen⟩⟩

theorem stepAll_worldOk (cfg : Cfg) (hwf : cfg.WF) (beh : Beh) (w : World) (k : Nat) (op : Op) (hw : WorldOk cfg w) :
    WorldOk cfg (stepAll cfg beh w k op).1 := by
  have h := stepAll_shape cfg beh w k op
  generalize stepAll cfg beh w k op = r at h
  cases h with
  | copy src sc _ h1 h2 => exact worldOk_put hw _ _ (fun c0 e => by cases e; exact hw src sc h2)
  | step op' hs _ =>
    cases hs with
    | rejected name => exact hw
    | call tag slot c f ret name htag hget hf =>
      rw [onCore_fst]
      obtain ⟨hc, hk⟩ := apiStep_keeps (env := ⟨cfg, beh, op.inst, k⟩) hwf hw hf (fun c0 e => hw _ c0 (by rw [hget, e]))
      exact worldOk_put hw _ _ (fun c0 e => by cases e; exact hk _ hc)
    | destroyManual c name _ hm hget => exact worldOk_put hw _ _ (fun c0 e => by cases e)
    | destroyAuto c name _ hm hget => exact worldOk_put hw _ _ (fun c0 e => by cases e)
    | save c name o hget => exact hw

theorem runFrom_worldOk (cfg : Cfg) (hwf : cfg.WF) (beh : Beh) : ∀ (ops : List Op) (w : World) (k : Nat),
    WorldOk cfg w → WorldOk cfg (runFrom cfg beh w k ops).1
  | [], _, _, hw => hw
  | op :: ops, w, k, hw => runFrom_worldOk cfg hwf beh ops _ (k + 1) (stepAll_worldOk cfg hwf beh w k op hw)

/-- **reachability invariant**: after any history whatsoever, every instance's registry, outstanding
    request and plan name real states, and the plan is within the configured capacity -/
theorem run_worldOk (cfg : Cfg) (hwf : cfg.WF) (beh : Beh) (ops : List Op) : WorldOk cfg (run cfg beh ops).1 :=
  runFrom_worldOk cfg hwf beh ops [] 0 (worldOk_nil cfg)

end FFSM2
