import FFSM2.Lemmas.Steps
/-!
# Plan-blindness: compiling PLANS out changes nothing for a program that never touches a plan

`envP env` is `env` with the feature switched off.  A state is `Idle` when nothing of the feature is outstanding:
no task, no `planExists`, no success / failure report, no accumulated status.  `PB f f'`: from every idle state,
`f'` (feature off) does exactly what `f` (feature on) does — the same state, the same events up to the plan view
the feature adds to observations — and the state stays idle.  Holds for every step of the model when the
callbacks perform no plan action (`PlanFree`).
-/
namespace FFSM2
open Step Ancestors

def cfgP (cfg : Cfg) : Cfg := { cfg with plans := false }
def envP (env : Env) : Env := { env with cfg := cfgP env.cfg }

def Action.isPlan : Action → Bool
  | .succeed _ | .fail _ | .planAppend .. | .planClear | .planRemove _ => true
  | _ => false

/-- user code never reports a task status and never edits a plan -/
def PlanFree (beh : Beh) : Prop := ∀ key, ∀ a ∈ beh key, a.isPlan = false

def planPart (s : St) : List Task × Bool × List Bool × List Bool × Status × Status :=
  (s.core.plan, s.core.planExists, s.core.succ, s.core.fail, s.core.subStatus, s.ts)

def IdleP (p : List Task × Bool × List Bool × List Bool × Status × Status) : Prop :=
  p.1 = [] ∧ p.2.1 = false ∧ (∀ b ∈ p.2.2.1, b = false) ∧ (∀ b ∈ p.2.2.2.1, b = false) ∧
  p.2.2.2.2.1 = Status.none ∧ p.2.2.2.2.2 = Status.none

/-- nothing of the plan feature is outstanding -/
def Idle (s : St) : Prop := IdleP (planPart s)

theorem idle_of_eq {s s' : St} (h : planPart s' = planPart s) (hi : Idle s) : Idle s' := by
  unfold Idle; rw [h]; exact hi

/-- an event with the plan view of its observation blanked -/
def Ev.noPlan : Ev → Ev
  | .cb k v o => .cb k v { o with plan := none }
  | .api i k name o => .api i k name { o with plan := none }
  | e => e

def noPlan (es : List Ev) : List Ev := es.map Ev.noPlan

@[simp] theorem noPlan_nil : noPlan [] = [] := rfl
@[simp] theorem noPlan_append (a b : List Ev) : noPlan (a ++ b) = noPlan a ++ noPlan b := by simp [noPlan]

def PB (f f' : Step) : Prop := ∀ s, Idle s → f' s = ((f s).1, noPlan (f s).2) ∧ Idle (f s).1

theorem PB.seq {f g f' g' : Step} (hf : PB f f') (hg : PB g g') : PB (f ⋙ g) (f' ⋙ g') := by
  intro s hs
  obtain ⟨f1, f2⟩ := hf s hs
  obtain ⟨g1, g2⟩ := hg (f s).1 f2
  simp only [Step.seq]
  rw [f1]
  simp only
  rw [g1]
  exact ⟨by simp only [noPlan_append], g2⟩

theorem pb_skip : PB skip skip := fun _ hs => ⟨rfl, hs⟩

theorem pb_modify {m : St → St} (h : ∀ s, planPart (m s) = planPart s) : PB (Step.modify m) (Step.modify m) :=
  fun s hs => ⟨rfl, idle_of_eq (h s) hs⟩

theorem pb_modifyCore {m : Core → Core} (h : ∀ s : St, planPart { s with core := m s.core } = planPart s) :
    PB (modifyCore m) (modifyCore m) :=
  fun s hs => ⟨rfl, idle_of_eq (h s) hs⟩

/-- two core updates that agree on idle states -/
theorem pb_modifyCore' {m m' : Core → Core} (h : ∀ s : St, Idle s → m' s.core = m s.core ∧ Idle { s with core := m s.core }) :
    PB (modifyCore m) (modifyCore m') := by
  intro s hs
  obtain ⟨h1, h2⟩ := h s hs
  exact ⟨by simp only [modifyCore, h1, noPlan_nil], h2⟩

theorem pb_emit {e e' : St → List Ev} (h : ∀ s, e' s = noPlan (e s)) : PB (emit e) (emit e') :=
  fun s hs => ⟨by simp only [emit, h], hs⟩

theorem pb_dep {g g' : St → Step} (hg : ∀ s0, PB (g s0) (g' s0)) : PB (fun s => g s s) (fun s => g' s s) :=
  fun s hs => hg s s hs

theorem pb_seqList_map {α : Type} (l : List α) (g g' : α → Step) (h : ∀ x ∈ l, PB (g x) (g' x)) :
    PB (seqList (l.map g)) (seqList (l.map g')) := by
  induction l with
  | nil => exact pb_skip
  | cons x xs ih =>
    simp only [List.map_cons, seqList]
    exact PB.seq (h x (by simp)) (ih fun y hy => h y (by simp [hy]))

theorem noPlan_logEv (env : Env) (c : Core) (r : LogRec) : noPlan (logEv env c r) = logEv env c r := by
  unfold logEv; split <;> rfl

theorem logEv_P (env : Env) (c : Core) (r : LogRec) : logEv (envP env) c r = logEv env c r := rfl

/-! ### deliveries -/

theorem permitted_P (env : Env) (fl : Flavour) (sid : Nat) (a : Action) (ha : a.isPlan = false) :
    permitted (envP env).cfg fl sid a = permitted env.cfg fl sid a := by
  cases a <;> first | rfl | (simp [Action.isPlan] at ha)

theorem pb_applyAction (env : Env) (sid : Nat) (a : Action) (ha : a.isPlan = false) :
    PB (applyAction env sid a) (applyAction (envP env) sid a) := by
  intro s hs
  cases a with
  | changeTo d => exact ⟨by simp only [applyAction, logEv_P, noPlan_logEv], idle_of_eq rfl hs⟩
  | changeWith d p => exact ⟨by simp only [applyAction, logEv_P, noPlan_logEv], idle_of_eq rfl hs⟩
  | cancel => exact ⟨by simp only [applyAction, logEv_P, noPlan_logEv], idle_of_eq rfl hs⟩
  | succeed id => simp [Action.isPlan] at ha
  | fail id => simp [Action.isPlan] at ha
  | planAppend o d p => simp [Action.isPlan] at ha
  | planClear => simp [Action.isPlan] at ha
  | planRemove m => simp [Action.isPlan] at ha

theorem pb_runActions (env : Env) (fl : Flavour) (sid : Nat) (key : Key) :
    ∀ as : List Action, (∀ a ∈ as, a.isPlan = false) → PB (runActions env fl sid key as) (runActions (envP env) fl sid key as)
  | [], _ => pb_skip
  | a :: as, h => by
    simp only [runActions]
    have ha : a.isPlan = false := h a (by simp)
    rw [permitted_P env fl sid a ha]
    refine PB.seq ?_ (pb_runActions env fl sid key as fun b hb => h b (by simp [hb]))
    split
    · exact PB.seq (pb_emit fun _ => rfl) (pb_applyAction env sid a ha)
    · exact pb_skip

theorem observe_P (env : Env) (fl : Flavour) (sid : Nat) (cur pend : Tr) (c : Core) :
    observe (envP env) fl sid cur pend c = { observe env fl sid cur pend c with plan := none } := rfl

theorem pb_layerBody (env : Env) (hb : PlanFree env.beh) (m : Method) (sid : Nat) (cur pend : Tr) (layer : Layer) (occ : Nat) :
    PB (layerBody env m sid cur pend layer occ) (layerBody (envP env) m sid cur pend layer occ) := by
  unfold layerBody
  refine PB.seq (pb_emit fun _ => rfl) ?_
  have ho : observable (envP env).cfg sid m layer = observable env.cfg sid m layer := rfl
  rw [ho]
  split
  · exact pb_runActions env _ sid _ _ (hb _)
  · exact pb_skip

theorem pb_deliverLayer (env : Env) (hb : PlanFree env.beh) (m : Method) (sid : Nat) (cur pend : Tr) (layer : Layer) :
    PB (deliverLayer env m sid cur pend layer) (deliverLayer (envP env) m sid cur pend layer) := by
  intro s hs
  rw [deliverLayer_eq, deliverLayer_eq]
  exact pb_layerBody env hb m sid cur pend layer _ { s with seen := (m, sid, layer) :: s.seen } (idle_of_eq rfl hs)

theorem pb_deliver (env : Env) (hb : PlanFree env.beh) (m : Method) (sid : Nat) (cur pend : Tr) :
    PB (deliver env m sid cur pend) (deliver (envP env) m sid cur pend) := by
  unfold deliver
  refine PB.seq (pb_emit fun s => ?_) ?_
  · have hr : recorded (envP env).cfg sid m = recorded env.cfg sid m := rfl
    rw [hr]
    split
    · rw [logEv_P, noPlan_logEv]
    · rfl
  · have hi : (envP env).cfg.injections sid = env.cfg.injections sid := rfl
    rw [hi]
    exact pb_seqList_map _ _ _ fun l _ => pb_deliverLayer env hb m sid cur pend l

/-! ### idle states absorb the feature's bookkeeping -/

theorem set_false_of_all_false : ∀ (l : List Bool) (i : Nat), (∀ b ∈ l, b = false) → l.set i false = l
  | [], _, _ => rfl
  | b :: bs, 0, h => by
    have : b = false := h b (by simp)
    simp [this]
  | b :: bs, i + 1, h => by
    simp only [List.set_cons_succ]
    rw [set_false_of_all_false bs i fun x hx => h x (by simp [hx])]

theorem map_false_of_all_false : ∀ (l : List Bool), (∀ b ∈ l, b = false) → l.map (fun _ => false) = l
  | [], _ => rfl
  | b :: bs, h => by
    have : b = false := h b (by simp)
    simp only [List.map_cons]
    rw [map_false_of_all_false bs fun x hx => h x (by simp [hx]), this]

theorem core_eta (c : Core) : ({ c with plan := c.plan } : Core) = c := rfl

theorem clearTaskStatus_idle (cfg : Cfg) (id : Nat) (s : St) (hs : Idle s) : clearTaskStatus cfg id s.core = s.core := by
  obtain ⟨_, _, h3, h4, _, _⟩ := hs
  rcases s with ⟨⟨a, r, rq, pv, pl, pe, su, fa, ss, lg⟩, ts, cn, sn⟩
  simp only [planPart] at h3 h4
  unfold clearTaskStatus
  split
  · simp only [setBit, set_false_of_all_false _ _ h3, set_false_of_all_false _ _ h4]
  · rfl

theorem planClearCore_idle (s : St) (hs : Idle s) : planClearCore s.core = s.core := by
  obtain ⟨h1, _, h3, h4, _, _⟩ := hs
  rcases s with ⟨⟨a, r, rq, pv, pl, pe, su, fa, ss, lg⟩, ts, cn, sn⟩
  simp only [planPart] at h1 h3 h4
  subst h1
  simp only [planClearCore, map_false_of_all_false _ h3, map_false_of_all_false _ h4]

theorem planDataClear_idle (s : St) (hs : Idle s) : planDataClear s.core = s.core := by
  obtain ⟨h1, h2, h3, h4, h5, _⟩ := hs
  rcases s with ⟨⟨a, r, rq, pv, pl, pe, su, fa, ss, lg⟩, ts, cn, sn⟩
  simp only [planPart] at h1 h2 h3 h4 h5
  subst h1 h2 h5
  simp only [planDataClear, map_false_of_all_false _ h3, map_false_of_all_false _ h4]

theorem st_eta (s : St) : ({ s with core := s.core } : St) = s := rfl

theorem pb_clearTaskStatus (env : Env) (id : Nat) :
    PB (modifyCore (clearTaskStatus env.cfg id)) (modifyCore (clearTaskStatus (envP env).cfg id)) := by
  apply pb_modifyCore'
  intro s hs
  have h' : clearTaskStatus (envP env).cfg id s.core = s.core := by
    unfold clearTaskStatus
    have : (envP env).cfg.plans = false := rfl
    simp [this]
  rw [h', clearTaskStatus_idle env.cfg id s hs]
  exact ⟨rfl, hs⟩

/-! ### lifecycle, guards, the substitution loop -/

theorem pb_changeToRequested (env : Env) (hb : PlanFree env.beh) (cur : Tr) :
    PB (changeToRequested env cur) (changeToRequested (envP env) cur) := by
  unfold changeToRequested
  intro s hs
  dsimp only
  by_cases h : (s.core.requested != s.core.active) = true <;> simp only [h, Bool.false_eq_true, ↓reduceIte]
  · exact (PB.seq (PB.seq (PB.seq (pb_deliver env hb .exit _ cur {}) (pb_clearTaskStatus env _))
      (pb_modifyCore (m := fun c => { c with active := c.requested, requested := 255 }) fun _ => rfl))
      (pb_dep (g := fun s0 => deliver env .enter s0.core.active cur {}) (g' := fun s0 => deliver (envP env) .enter s0.core.active cur {})
        fun s0 => pb_deliver env hb .enter _ cur {})) s hs
  · exact (PB.seq (pb_modifyCore (m := fun c => { c with requested := 255 }) fun _ => rfl) (pb_deliver env hb .reenter _ cur {})) s hs

theorem pb_deepEnter (env : Env) (hb : PlanFree env.beh) (cur : Tr) : PB (deepEnter env cur) (deepEnter (envP env) cur) := by
  unfold deepEnter
  exact PB.seq (PB.seq (pb_modifyCore (m := fun c => { c with active := c.requested, requested := 255 }) fun _ => rfl)
    (pb_deliver env hb .enter 255 cur {}))
    (pb_dep (g := fun s0 => deliver env .enter s0.core.active cur {}) (g' := fun s0 => deliver (envP env) .enter s0.core.active cur {})
      fun s0 => pb_deliver env hb .enter _ cur {})

theorem pb_deepExit (env : Env) (hb : PlanFree env.beh) (cur : Tr) : PB (deepExit env cur) (deepExit (envP env) cur) := by
  unfold deepExit
  refine PB.seq (PB.seq (PB.seq ?_ (pb_deliver env hb .exit 255 cur {}))
    (pb_modifyCore (m := fun c => { c with active := 255 }) fun _ => rfl)) ?_
  · exact pb_dep (g := fun s0 => deliver env .exit s0.core.active cur {} ⋙ modifyCore (clearTaskStatus env.cfg s0.core.active))
      (g' := fun s0 => deliver (envP env) .exit s0.core.active cur {} ⋙ modifyCore (clearTaskStatus (envP env).cfg s0.core.active))
      fun s0 => PB.seq (pb_deliver env hb .exit _ cur {}) (pb_clearTaskStatus env _)
  · apply pb_modifyCore'
    intro s hs
    have hp : (envP env).cfg.plans = false := rfl
    simp only [hp, Bool.false_eq_true, if_false]
    split
    · rw [planClearCore_idle s hs]; exact ⟨rfl, hs⟩
    · exact ⟨rfl, hs⟩

theorem pb_guardRound (env : Env) (hb : PlanFree env.beh) (cur pend : Tr) :
    PB (guardRound env cur pend) (guardRound (envP env) cur pend) := by
  unfold guardRound
  refine PB.seq (PB.seq ?_ (pb_dep (g := fun s0 => deliver env .exitGuard s0.core.active cur pend)
    (g' := fun s0 => deliver (envP env) .exitGuard s0.core.active cur pend) fun s0 => pb_deliver env hb .exitGuard _ cur pend)) ?_
  · intro s hs
    refine ⟨rfl, ?_⟩
    obtain ⟨h1, h2, h3, h4, h5, _⟩ := hs
    exact ⟨h1, h2, h3, h4, h5, rfl⟩
  · intro s hs
    dsimp only
    by_cases h : s.cancelled = true <;> simp only [h, Bool.false_eq_true, ↓reduceIte]
    · exact ⟨rfl, hs⟩
    · exact pb_deliver env hb .entryGuard _ cur pend s hs

theorem pb_entryGuardRound (env : Env) (hb : PlanFree env.beh) (cur pend : Tr) :
    PB (entryGuardRound env cur pend) (entryGuardRound (envP env) cur pend) := by
  unfold entryGuardRound
  refine PB.seq (PB.seq ?_ (pb_deliver env hb .entryGuard 255 cur pend)) ?_
  · intro s hs
    refine ⟨rfl, ?_⟩
    obtain ⟨h1, h2, h3, h4, h5, _⟩ := hs
    exact ⟨h1, h2, h3, h4, h5, rfl⟩
  · intro s hs
    dsimp only
    by_cases h : s.cancelled = true <;> simp only [h, Bool.false_eq_true, ↓reduceIte]
    · exact ⟨rfl, hs⟩
    · exact pb_deliver env hb .entryGuard _ cur pend s hs

theorem applyRequest_planPart (cur : Tr) (d : Nat) (s : St) :
    planPart { s with core := { (applyRequest cur d s.core).1 with request := (applyRequest cur d s.core).1.request.clear } } = planPart s := by
  unfold applyRequest; split <;> rfl

theorem applyRequest_planPart' (cur : Tr) (d : Nat) (s : St) :
    planPart { s with core := (applyRequest cur d s.core).1 } = planPart s := by
  unfold applyRequest; split <;> rfl

theorem pb_substLoop (round round' : Tr → Tr → Step) (hr : ∀ c p, PB (round c p) (round' c p)) :
    ∀ (fuel : Nat) (cur : Tr) (s : St), Idle s →
      substLoop round' fuel cur s = ((substLoop round fuel cur s).1, noPlan (substLoop round fuel cur s).2) ∧
      Idle (substLoop round fuel cur s).1.1 := by
  intro fuel
  induction fuel with
  | zero => intro cur s hs; exact ⟨rfl, hs⟩
  | succ fuel ih =>
    intro cur s hs
    simp only [substLoop]
    split
    · split
      · have hs1 : Idle { s with core := { (applyRequest cur s.core.request.dest s.core).1 with
            request := (applyRequest cur s.core.request.dest s.core).1.request.clear } } :=
          idle_of_eq (applyRequest_planPart cur _ s) hs
        obtain ⟨r1, r2⟩ := hr cur s.core.request _ hs1
        rw [r1]
        simp only
        obtain ⟨i1, i2⟩ := ih (if (round cur s.core.request { s with core := { (applyRequest cur s.core.request.dest s.core).1 with
            request := (applyRequest cur s.core.request.dest s.core).1.request.clear } }).1.cancelled then cur else s.core.request) _ r2
        rw [i1]
        exact ⟨by simp only [noPlan_append], i2⟩
      · exact ih cur _ (idle_of_eq rfl hs)
    · exact ⟨rfl, hs⟩

theorem pb_applySurvivor (env : Env) (hb : PlanFree env.beh) (cur : Tr) :
    PB (applySurvivor env cur) (applySurvivor (envP env) cur) := by
  unfold applySurvivor
  intro s hs
  split
  · exact (PB.seq (pb_modifyCore (m := fun c => { c with requested := cur.dest }) fun _ => rfl)
      (pb_changeToRequested env hb cur)) s hs
  · exact ⟨rfl, hs⟩

theorem pb_finishProcessing (env : Env) (cur : Tr) : PB (finishProcessing env cur) (finishProcessing (envP env) cur) := by
  unfold finishProcessing
  exact pb_modifyCore fun _ => rfl

theorem pb_processRequest (env : Env) (hb : PlanFree env.beh) : PB (processRequest env) (processRequest (envP env)) := by
  intro s hs
  unfold processRequest
  have hL : (envP env).cfg.L = env.cfg.L := rfl
  simp only [hL]
  split
  · obtain ⟨l1, l2⟩ := pb_substLoop (guardRound env) (guardRound (envP env)) (pb_guardRound env hb) (substFuel env.cfg.L) {} s hs
    rw [l1]
    simp only
    obtain ⟨a1, a2⟩ := (PB.seq (pb_applySurvivor env hb (substLoop (guardRound env) (substFuel env.cfg.L) {} s).1.2)
      (pb_finishProcessing env (substLoop (guardRound env) (substFuel env.cfg.L) {} s).1.2))
      (substLoop (guardRound env) (substFuel env.cfg.L) {} s).1.1 l2
    rw [a1]
    exact ⟨by simp only [noPlan_append], a2⟩
  · exact pb_finishProcessing env {} s hs

theorem pb_enterSurvivor (env : Env) (hb : PlanFree env.beh) (cur : Tr) :
    PB (enterSurvivor env cur) (enterSurvivor (envP env) cur) := by
  unfold enterSurvivor
  exact PB.seq (PB.seq (pb_modifyCore fun _ => rfl) (pb_deepEnter env hb cur))
    (pb_modifyCore (m := fun c => { c with requested := 255 }) fun _ => rfl)

theorem pb_initialEnter (env : Env) (hb : PlanFree env.beh) : PB (initialEnter env) (initialEnter (envP env)) := by
  intro s hs
  unfold initialEnter
  have hL : (envP env).cfg.L = env.cfg.L := rfl
  simp only [hL]
  have hs0 : Idle { s with core := (applyRequest {} 0 s.core).1 } := idle_of_eq (applyRequest_planPart' {} 0 s) hs
  obtain ⟨e1, e2⟩ := pb_entryGuardRound env hb {} {} _ hs0
  rw [e1]
  simp only
  obtain ⟨l1, l2⟩ := pb_substLoop (entryGuardRound env) (entryGuardRound (envP env)) (pb_entryGuardRound env hb)
    (substFuel env.cfg.L) {} _ e2
  rw [l1]
  simp only
  obtain ⟨a1, a2⟩ := pb_enterSurvivor env hb
    (substLoop (entryGuardRound env) (substFuel env.cfg.L) {} (entryGuardRound env {} {} { s with core := (applyRequest {} 0 s.core).1 }).1).1.2 _ l2
  rw [a1]
  exact ⟨by simp only [noPlan_append], a2⟩

theorem pb_finalExit (env : Env) (hb : PlanFree env.beh) : PB (finalExit env) (finalExit (envP env)) := by
  unfold finalExit
  refine PB.seq (pb_deepExit env hb {}) ?_
  apply pb_modifyCore'
  intro s hs
  have hp : (envP env).cfg.plans = false := rfl
  have hh : (envP env).cfg.history = env.cfg.history := rfl
  simp only [hp, hh, Bool.false_eq_true, if_false]
  have hs1 : Idle { s with core := { s.core with requested := 255, active := 255, request := s.core.request.clear } } :=
    idle_of_eq rfl hs
  have hc := planDataClear_idle _ hs1
  simp only at hc
  cases hpl : env.cfg.plans <;> cases hhi : env.cfg.history <;> simp only [Bool.false_eq_true, if_false, if_true]
  · first | exact ⟨rfl, idle_of_eq rfl hs⟩ | exact ⟨trivial, idle_of_eq rfl hs⟩
  · first | exact ⟨rfl, idle_of_eq rfl hs⟩ | exact ⟨trivial, idle_of_eq rfl hs⟩
  · rw [hc]; first | exact ⟨rfl, idle_of_eq rfl hs⟩ | exact ⟨trivial, idle_of_eq rfl hs⟩
  · rw [hc]; first | exact ⟨rfl, idle_of_eq rfl hs⟩ | exact ⟨trivial, idle_of_eq rfl hs⟩

/-! ### cycles -/

theorem or_none (a : Status) : a.or Status.none = a := by cases a <;> rfl

theorem pb_phase (env : Env) (hb : PlanFree env.beh) (m : Method) (hf : Bool) : PB (phase env m hf) (phase (envP env) m hf) := by
  unfold phase
  intro s hs
  have hsub : PB (deliver env m s.core.active {} {} ⋙
      Step.modify (fun s => { s with core := { s.core with subStatus := s.core.subStatus.or s.ts } }))
      (deliver (envP env) m s.core.active {} {} ⋙
      Step.modify (fun s => { s with core := { s.core with subStatus := s.core.subStatus.or s.ts } })) := by
    refine PB.seq (pb_deliver env hb _ _ _ _) ?_
    intro t ht
    refine ⟨rfl, ?_⟩
    obtain ⟨h1, h2, h3, h4, h5, h6⟩ := ht
    have h5' : t.core.subStatus = Status.none := h5
    have h6' : t.ts = Status.none := h6
    refine ⟨h1, h2, h3, h4, ?_, h6⟩
    show t.core.subStatus.or t.ts = Status.none
    rw [h5', h6']; rfl
  have hhead : PB (deliver env m 255 {} {}) (deliver (envP env) m 255 {} {}) := pb_deliver env hb _ _ _ _
  have hreset : PB (Step.modify (fun s => { s with ts := Status.none })) (Step.modify (fun s => { s with ts := Status.none })) := by
    intro t ht
    obtain ⟨h1, h2, h3, h4, h5, _⟩ := ht
    exact ⟨rfl, h1, h2, h3, h4, h5, rfl⟩
  dsimp only
  split
  · exact (PB.seq (PB.seq hhead hsub) hreset) s hs
  · exact (PB.seq (PB.seq hsub hhead) hreset) s hs

/-- on an idle state the plan step does nothing -/
theorem planStep_idle (env : Env) (s : St) (hs : Idle s) : planStep env s = (s, []) := by
  obtain ⟨_, h2, _, _, h5, _⟩ := hs
  rcases s with ⟨⟨a, r, rq, pv, pl, pe, su, fa, ss, lg⟩, ts, cn, sn⟩
  simp only [planPart] at h2 h5
  subst h2 h5
  simp [planStep]

theorem pb_cycle (env : Env) (hb : PlanFree env.beh) (pre mid post : Method) :
    PB (cycle env pre mid post) (cycle (envP env) pre mid post) := by
  unfold cycle
  refine PB.seq (PB.seq (PB.seq (PB.seq (PB.seq ?_ (pb_phase env hb _ _)) (pb_phase env hb _ _)) (pb_phase env hb _ _)) ?_)
    (pb_processRequest env hb)
  · intro t ht
    obtain ⟨h1, h2, h3, h4, h5, _⟩ := ht
    exact ⟨rfl, h1, h2, h3, h4, h5, rfl⟩
  · intro t ht
    have hp : (envP env).cfg.plans = false := rfl
    simp only [hp, Bool.false_eq_true, if_false]
    split
    · rw [planStep_idle env t ht]; exact ⟨rfl, ht⟩
    · exact ⟨rfl, ht⟩

theorem pb_query (env : Env) (hb : PlanFree env.beh) : PB (query env) (query (envP env)) := by
  unfold query
  intro s hs
  generalize headFirst Method.query = hfq
  cases hfq <;> simp only [if_true, if_false, Bool.false_eq_true]
  · exact (PB.seq (pb_deliver env hb .query s.core.active {} {}) (pb_deliver env hb .query 255 {} {})) s hs
  · exact (PB.seq (pb_deliver env hb .query 255 {} {}) (pb_deliver env hb .query s.core.active {} {})) s hs

theorem pb_extChange (env : Env) (d : Nat) (p : Option Nat) : PB (extChange env d p) (extChange (envP env) d p) := by
  intro s hs
  exact ⟨by simp only [extChange, logEv_P, noPlan_logEv], idle_of_eq rfl hs⟩

theorem pb_replayTransition (env : Env) (hb : PlanFree env.beh) (d : Nat) :
    PB (replayTransition env d) (replayTransition (envP env) d) := by
  unfold replayTransition
  refine PB.seq (PB.seq (PB.seq (pb_modifyCore fun _ => rfl) ?_) (pb_changeToRequested env hb {}))
    (pb_modifyCore (m := fun c => { c with requested := 255 }) fun _ => rfl)
  apply pb_modifyCore
  intro s
  unfold applyRequest; split <;> rfl

theorem pb_replayEnter (env : Env) (hb : PlanFree env.beh) (d : Nat) : PB (replayEnter env d) (replayEnter (envP env) d) := by
  unfold replayEnter
  refine PB.seq (PB.seq ?_ (pb_deepEnter env hb {})) (pb_modifyCore (m := fun c => { c with requested := 255 }) fun _ => rfl)
  apply pb_modifyCore
  intro s
  unfold applyRequest; split <;> rfl

theorem pb_loadActive (env : Env) (hb : PlanFree env.beh) (r : Nat) : PB (loadActive env r) (loadActive (envP env) r) := by
  unfold loadActive
  refine PB.seq ?_ (pb_changeToRequested env hb {})
  apply pb_modifyCore'
  intro s hs
  have hp : (envP env).cfg.plans = false := rfl
  have hh : (envP env).cfg.history = env.cfg.history := rfl
  simp only [hp, hh, Bool.false_eq_true, if_false]
  have hs1 : Idle { s with core := { s.core with requested := r, request := s.core.request.clear } } := idle_of_eq rfl hs
  have hc := planDataClear_idle _ hs1
  simp only at hc
  cases hpl : env.cfg.plans <;> cases hhi : env.cfg.history <;> simp only [Bool.false_eq_true, if_false, if_true]
  · first | exact ⟨rfl, idle_of_eq rfl hs⟩ | exact ⟨trivial, idle_of_eq rfl hs⟩
  · first | exact ⟨rfl, idle_of_eq rfl hs⟩ | exact ⟨trivial, idle_of_eq rfl hs⟩
  · rw [hc]; first | exact ⟨rfl, idle_of_eq rfl hs⟩ | exact ⟨trivial, idle_of_eq rfl hs⟩
  · rw [hc]; first | exact ⟨rfl, idle_of_eq rfl hs⟩ | exact ⟨trivial, idle_of_eq rfl hs⟩

theorem pb_load (env : Env) (hb : PlanFree env.beh) (buf : List Nat) : PB (load env buf) (load (envP env) buf) := by
  intro s hs
  unfold load
  have hn : (envP env).cfg.n = env.cfg.n := rfl
  have hm : (envP env).cfg.manual = env.cfg.manual := rfl
  simp only [hn, hm]
  split
  · split
    · exact pb_loadActive env hb _ s hs
    · split
      · exact (PB.seq (pb_modifyCore (m := fun c => { c with requested := (BitStream.read (Gen.widthBits env.cfg.n) buf (BitStream.read 1 buf 0).2).1 }) fun _ => rfl)
          (pb_deepEnter env hb {})) s hs
      · exact ⟨rfl, hs⟩
  · split
    · exact pb_finalExit env hb s hs
    · exact ⟨rfl, hs⟩

end FFSM2
