import FFSM2.Lemmas.PBlind
import FFSM2.Lemmas.World
/-! Plan-blindness lifted from API bodies (`PB`) to whole histories. -/
namespace FFSM2
open Step

def IdleC (c : Core) : Prop := Idle { core := c }
def WorldIdle (w : World) : Prop := ∀ i c, w.get i = some c → IdleC c

/-- the calls that exist only with the feature -/
def Op.usesPlans : Op → Bool
  | .succeed .. | .fail .. | .planAppend .. | .planClear .. | .planRemove .. => true
  | _ => false

theorem worldIdle_nil : WorldIdle [] := by
  intro i c h
  simp [World.get] at h

theorem worldIdle_put {w : World} (hw : WorldIdle w) (i : Nat) (c : Option Core)
    (hc : ∀ c0, c = some c0 → IdleC c0) : WorldIdle (w.put i c) := by
  intro j cj hj
  by_cases e : j = i
  · subst e
    rw [World.get_put_same] at hj
    exact hc cj hj
  · rw [World.get_put_ne _ _ _ _ e] at hj
    exact hw j cj hj

theorem idleC_of_idle {s : St} (h : Idle s) : IdleC s.core := by
  obtain ⟨h1, h2, h3, h4, h5, _⟩ := h
  exact ⟨h1, h2, h3, h4, h5, rfl⟩

theorem envP_mk (cfg : Cfg) (beh : Beh) (i k : Nat) : (⟨cfgP cfg, beh, i, k⟩ : Env) = envP ⟨cfg, beh, i, k⟩ := rfl

theorem idleC_init (cfg : Cfg) (lg : Bool) : IdleC (initCore cfg lg) := by
  refine ⟨rfl, rfl, ?_, ?_, rfl, rfl⟩
  · intro b hb
    simp only [planPart, initCore] at hb
    exact (List.mem_replicate.mp hb).2
  · intro b hb
    simp only [planPart, initCore] at hb
    exact (List.mem_replicate.mp hb).2

/-- a `PB` pair of bodies run through `onCore` -/
theorem onCore_pb (cfg : Cfg) (w : World) (i k : Nat) (name : String) (c : Core) {f f' : Step} (hf : PB f f')
    (hc : IdleC c) (hw : WorldIdle w) (ret : Core → Option Bool) :
    onCore (cfgP cfg) w i k name c f' ret = ((onCore cfg w i k name c f ret).1, noPlan (onCore cfg w i k name c f ret).2) ∧
    WorldIdle (onCore cfg w i k name c f ret).1 := by
  obtain ⟨h1, h2⟩ := hf { core := c } hc
  refine ⟨?_, ?_⟩
  · show (w.put i (some (f' { core := c }).1.core),
        (f' { core := c }).2 ++ [Ev.api i k name (apiObs (cfgP cfg) (f' { core := c }).1.core (ret (f' { core := c }).1.core))]) = _
    rw [h1, onCore_fst, onCore_snd, noPlan_append]
    rfl
  · rw [onCore_fst]
    exact worldIdle_put hw i _ (fun c0 hc0 => by cases hc0; exact idleC_of_idle h2)

theorem rej_pb (w : World) (hw : WorldIdle w) (i k : Nat) (name : String) :
    ((w, [Ev.rejected i k name]) : World × List Ev) = (((w, [Ev.rejected i k name]) : World × List Ev).1,
      noPlan ((w, [Ev.rejected i k name]) : World × List Ev).2) ∧ WorldIdle ((w, [Ev.rejected i k name]) : World × List Ev).1 :=
  ⟨rfl, hw⟩

set_option hygiene false in
/-- one `if guard then onCore … body … else rejected` arm of `step`, on both sides -/
local macro "pb_arm " t:term : tactic =>
  `(tactic| (split <;> first
      | exact onCore_pb _ _ _ _ _ _ $t (hw _ _ hg) hw _
      | exact ⟨rfl, hw⟩))

/-- **one call with the feature compiled out does what the call does with it compiled in**, on a world where
    nothing of the feature is outstanding, for callbacks that perform no plan action -/
theorem step_P (cfg : Cfg) (beh : Beh) (hb : PlanFree beh) (w : World) (hw : WorldIdle w) (k : Nat) (op : Op)
    (hop : op.usesPlans = false) :
    step (cfgP cfg) beh w k op = ((step cfg beh w k op).1, noPlan (step cfg beh w k op).2) ∧
    WorldIdle (step cfg beh w k op).1 := by
  have hbe : ∀ i, PlanFree (⟨cfg, beh, i, k⟩ : Env).beh := fun _ => hb
  cases op with
  | construct i lg =>
    unfold step
    simp only [Op.inst, Op.name, envP_mk]
    cases hg : w.get i <;> simp only
    · have hm : (cfgP cfg).manual = cfg.manual := rfl
      have hl : (cfgP cfg).logging = cfg.logging := rfl
      have hi : initCore (cfgP cfg) (lg && cfg.logging) = initCore cfg (lg && cfg.logging) := rfl
      rw [hm, hl, hi]
      split
      · exact onCore_pb cfg w i k _ _ pb_skip (idleC_init _ _) hw _
      · exact onCore_pb cfg w i k _ _ (pb_initialEnter ⟨cfg, beh, i, k⟩ (hbe i)) (idleC_init _ _) hw _
    · exact ⟨rfl, hw⟩
  | destroy i =>
    unfold step
    simp only [Op.inst, Op.name, envP_mk]
    cases hg : w.get i <;> simp only
    · exact ⟨rfl, hw⟩
    · rename_i c
      have hm : (cfgP cfg).manual = cfg.manual := rfl
      rw [hm]
      split
      · exact ⟨rfl, worldIdle_put hw i none (fun _ h => by cases h)⟩
      · obtain ⟨h1, _⟩ := pb_finalExit ⟨cfg, beh, i, k⟩ (hbe i) { core := c } (hw i c hg)
        refine ⟨?_, worldIdle_put hw i none (fun _ h => by cases h)⟩
        rw [h1]
        simp only [noPlan_append]
        rfl
  | copy i src =>
    unfold step
    simp only [Op.inst, Op.name]
    cases hg : w.get i <;> exact ⟨rfl, hw⟩
  | enter i =>
    unfold step
    simp only [Op.inst, Op.name, envP_mk]
    cases hg : w.get i <;> simp only
    · exact ⟨rfl, hw⟩
    · have hm : (cfgP cfg).manual = cfg.manual := rfl
      rw [hm]
      pb_arm (pb_initialEnter ⟨cfg, beh, i, k⟩ (hbe i))
  | exit i =>
    unfold step
    simp only [Op.inst, Op.name, envP_mk]
    cases hg : w.get i <;> simp only
    · exact ⟨rfl, hw⟩
    · have hm : (cfgP cfg).manual = cfg.manual := rfl
      rw [hm]
      pb_arm (pb_finalExit ⟨cfg, beh, i, k⟩ (hbe i))
  | update i =>
    unfold step
    simp only [Op.inst, Op.name, envP_mk]
    cases hg : w.get i <;> simp only
    · exact ⟨rfl, hw⟩
    · pb_arm (pb_cycle ⟨cfg, beh, i, k⟩ (hbe i) _ _ _)
  | react i =>
    unfold step
    simp only [Op.inst, Op.name, envP_mk]
    cases hg : w.get i <;> simp only
    · exact ⟨rfl, hw⟩
    · pb_arm (pb_cycle ⟨cfg, beh, i, k⟩ (hbe i) _ _ _)
  | query i =>
    unfold step
    simp only [Op.inst, Op.name, envP_mk]
    cases hg : w.get i <;> simp only
    · exact ⟨rfl, hw⟩
    · pb_arm (pb_query ⟨cfg, beh, i, k⟩ (hbe i))
  | changeTo i d =>
    unfold step
    simp only [Op.inst, Op.name, envP_mk]
    cases hg : w.get i <;> simp only
    · exact ⟨rfl, hw⟩
    · have hid : idOk (cfgP cfg) d = idOk cfg d := rfl
      rw [hid]
      pb_arm (pb_extChange ⟨cfg, beh, i, k⟩ _ _)
  | changeWith i d p =>
    unfold step
    simp only [Op.inst, Op.name, envP_mk]
    cases hg : w.get i <;> simp only
    · exact ⟨rfl, hw⟩
    · have hid : idOk (cfgP cfg) d = idOk cfg d := rfl
      have hpl : (cfgP cfg).hasPayload = cfg.hasPayload := rfl
      rw [hid, hpl]
      pb_arm (pb_extChange ⟨cfg, beh, i, k⟩ _ _)
  | immediateChangeTo i d =>
    unfold step
    simp only [Op.inst, Op.name, envP_mk]
    cases hg : w.get i <;> simp only
    · exact ⟨rfl, hw⟩
    · have hid : idOk (cfgP cfg) d = idOk cfg d := rfl
      rw [hid]
      pb_arm (PB.seq (pb_extChange ⟨cfg, beh, i, k⟩ _ _) (pb_processRequest ⟨cfg, beh, i, k⟩ (hbe i)))
  | immediateChangeWith i d p =>
    unfold step
    simp only [Op.inst, Op.name, envP_mk]
    cases hg : w.get i <;> simp only
    · exact ⟨rfl, hw⟩
    · have hid : idOk (cfgP cfg) d = idOk cfg d := rfl
      have hpl : (cfgP cfg).hasPayload = cfg.hasPayload := rfl
      rw [hid, hpl]
      pb_arm (PB.seq (pb_extChange ⟨cfg, beh, i, k⟩ _ _) (pb_processRequest ⟨cfg, beh, i, k⟩ (hbe i)))
  | succeed i id => simp [Op.usesPlans] at hop
  | fail i id => simp [Op.usesPlans] at hop
  | planAppend i o d p => simp [Op.usesPlans] at hop
  | planClear i => simp [Op.usesPlans] at hop
  | planRemove i mask => simp [Op.usesPlans] at hop
  | save i =>
    unfold step
    simp only [Op.inst, Op.name]
    cases hg : w.get i <;> simp only
    · exact ⟨rfl, hw⟩
    · have hm : (cfgP cfg).manual = cfg.manual := rfl
      have hs : (cfgP cfg).serialization = cfg.serialization := rfl
      rw [hm, hs]
      split
      · exact ⟨rfl, hw⟩
      · exact ⟨rfl, hw⟩
  | load i src =>
    unfold step
    simp only [Op.inst, Op.name, envP_mk]
    cases hg : w.get i <;> simp only
    · exact ⟨rfl, hw⟩
    · cases hs : w.get src <;> simp only
      · exact ⟨rfl, hw⟩
      · have hm : (cfgP cfg).manual = cfg.manual := rfl
        have hse : (cfgP cfg).serialization = cfg.serialization := rfl
        have hsv : ∀ c, save (cfgP cfg) c = save cfg c := fun _ => rfl
        rw [hm, hse, hsv]
        pb_arm (pb_load ⟨cfg, beh, i, k⟩ (hbe i) _)
  | replayEnter i d =>
    unfold step
    simp only [Op.inst, Op.name, envP_mk]
    cases hg : w.get i <;> simp only
    · exact ⟨rfl, hw⟩
    · have hm : (cfgP cfg).manual = cfg.manual := rfl
      have hh : (cfgP cfg).history = cfg.history := rfl
      have hid : idOk (cfgP cfg) d = idOk cfg d := rfl
      rw [hm, hh, hid]
      pb_arm (pb_replayEnter ⟨cfg, beh, i, k⟩ (hbe i) _)
  | replayTransition i d =>
    unfold step
    simp only [Op.inst, Op.name, envP_mk]
    cases hg : w.get i <;> simp only
    · exact ⟨rfl, hw⟩
    · have hh : (cfgP cfg).history = cfg.history := rfl
      have hid : idOk (cfgP cfg) d = idOk cfg d := rfl
      rw [hh, hid]
      split
      · split
        · exact onCore_pb _ _ _ _ _ _ (pb_modifyCore (m := fun c => { c with prev := c.prev.clear }) fun _ => rfl) (hw _ _ hg) hw _
        · exact onCore_pb _ _ _ _ _ _ (pb_replayTransition ⟨cfg, beh, i, k⟩ (hbe i) _) (hw _ _ hg) hw _
      · exact ⟨rfl, hw⟩
  | attachLogger i on =>
    unfold step
    simp only [Op.inst, Op.name]
    cases hg : w.get i <;> simp only
    · exact ⟨rfl, hw⟩
    · have hl : (cfgP cfg).logging = cfg.logging := rfl
      rw [hl]
      pb_arm (pb_modifyCore (m := fun c => { c with logger := on }) fun _ => rfl)
  | replayFrom i src =>
    unfold step
    simp only [Op.inst, Op.name]
    cases hg : w.get i <;> exact ⟨rfl, hw⟩
  | replayEnterFrom i src =>
    unfold step
    simp only [Op.inst, Op.name]
    cases hg : w.get i <;> exact ⟨rfl, hw⟩

theorem stepAll_P (cfg : Cfg) (beh : Beh) (hb : PlanFree beh) (w : World) (hw : WorldIdle w) (k : Nat) (op : Op)
    (hop : op.usesPlans = false) :
    stepAll (cfgP cfg) beh w k op = ((stepAll cfg beh w k op).1, noPlan (stepAll cfg beh w k op).2) ∧
    WorldIdle (stepAll cfg beh w k op).1 := by
  cases op with
  | copy i src =>
    simp only [stepAll]
    cases hg : w.get i <;> cases hs : w.get src <;> simp only
    · exact ⟨rfl, hw⟩
    · rename_i sc
      exact ⟨rfl, worldIdle_put hw i _ (fun c0 h0 => by cases h0; exact hw src sc hs)⟩
    · exact ⟨rfl, hw⟩
    · exact ⟨rfl, hw⟩
  | replayFrom i src =>
    simp only [stepAll]
    cases hs : w.get src <;> simp only
    · exact ⟨rfl, hw⟩
    · exact step_P cfg beh hb w hw k (.replayTransition i _) rfl
  | replayEnterFrom i src =>
    simp only [stepAll]
    cases hs : w.get src <;> simp only
    · exact ⟨rfl, hw⟩
    · exact step_P cfg beh hb w hw k (.replayEnter i _) rfl
  | succeed i id => simp [Op.usesPlans] at hop
  | fail i id => simp [Op.usesPlans] at hop
  | planAppend i o d p => simp [Op.usesPlans] at hop
  | planClear i => simp [Op.usesPlans] at hop
  | planRemove i mask => simp [Op.usesPlans] at hop
  | construct i lg => exact step_P cfg beh hb w hw k (.construct i lg) rfl
  | destroy i => exact step_P cfg beh hb w hw k (.destroy i) rfl
  | enter i => exact step_P cfg beh hb w hw k (.enter i) rfl
  | exit i => exact step_P cfg beh hb w hw k (.exit i) rfl
  | update i => exact step_P cfg beh hb w hw k (.update i) rfl
  | react i => exact step_P cfg beh hb w hw k (.react i) rfl
  | query i => exact step_P cfg beh hb w hw k (.query i) rfl
  | changeTo i d => exact step_P cfg beh hb w hw k (.changeTo i d) rfl
  | changeWith i d p => exact step_P cfg beh hb w hw k (.changeWith i d p) rfl
  | immediateChangeTo i d => exact step_P cfg beh hb w hw k (.immediateChangeTo i d) rfl
  | immediateChangeWith i d p => exact step_P cfg beh hb w hw k (.immediateChangeWith i d p) rfl
  | save i => exact step_P cfg beh hb w hw k (.save i) rfl
  | load i src => exact step_P cfg beh hb w hw k (.load i src) rfl
  | replayEnter i d => exact step_P cfg beh hb w hw k (.replayEnter i d) rfl
  | replayTransition i d => exact step_P cfg beh hb w hw k (.replayTransition i d) rfl
  | attachLogger i on => exact step_P cfg beh hb w hw k (.attachLogger i on) rfl

theorem runFrom_P (cfg : Cfg) (beh : Beh) (hb : PlanFree beh) : ∀ (ops : List Op) (w : World) (k : Nat), WorldIdle w →
    (∀ op ∈ ops, op.usesPlans = false) →
    runFrom (cfgP cfg) beh w k ops = ((runFrom cfg beh w k ops).1, noPlan (runFrom cfg beh w k ops).2) ∧
    WorldIdle (runFrom cfg beh w k ops).1
  | [], _, _, hw, _ => ⟨rfl, hw⟩
  | op :: ops, w, k, hw, h => by
    obtain ⟨h1, h2⟩ := stepAll_P cfg beh hb w hw k op (h op (by simp))
    obtain ⟨i1, i2⟩ := runFrom_P cfg beh hb ops (stepAll cfg beh w k op).1 (k + 1) h2 (fun o ho => h o (by simp [ho]))
    simp only [runFrom]
    rw [h1]
    simp only
    rw [i1]
    exact ⟨by simp only [noPlan_append], i2⟩

end FFSM2
