import FFSM2.Lemmas.AllEv
import FFSM2.Lemmas.Keeps
/-! The world of instances and whole histories (`step`, `stepAll`, `runFrom`, `run`).

`step_shape` / `stepAll_shape` put every API call into a normal form once (which building block runs, from
which core, under which guard of the call); the run-level theorems — attribution of every event to the
instance it belongs to, independence of instances, the range invariant of every reachable core — are
then short inductions over the history. -/
namespace FFSM2
open Step

/-- the instance an event belongs to -/
def Ev.inst : Ev → Nat
  | .cb k _ _ => k.inst
  | .act k _ => k.inst
  | .log i _ => i
  | .api i _ _ _ => i
  | .rejected i _ _ => i

theorem envPred_inst (env : Env) : EnvPred env (fun e => e.inst = env.inst) :=
  ⟨fun _ _ _ _ _ _ _ => rfl, fun _ _ h _ => h, fun _ => rfl⟩

/-! ### slots -/

theorem World.get_put_same (w : World) (i : Nat) (c : Option Core) : (w.put i c).get i = c := by
  unfold World.put World.get
  rw [List.getD_eq_getElem?_getD]
  split
  · rename_i h; simp [h]
  · rename_i h
    have : i < (w ++ List.replicate (i + 1 - w.length) (none : Option Core)).length := by
      rw [List.length_append, List.length_replicate]; omega
    rw [List.getElem?_set_self this]; rfl

theorem World.get_put_ne (w : World) (i j : Nat) (c : Option Core) (h : j ≠ i) : (w.put i c).get j = w.get j := by
  unfold World.put World.get
  rw [List.getD_eq_getElem?_getD, List.getD_eq_getElem?_getD]
  have hne : i ≠ j := fun e => h e.symm
  split
  · simp [List.getElem?_set_ne hne]
  · rw [List.getElem?_set_ne hne]
    by_cases hj : j < w.length
    · rw [List.getElem?_append_left hj]
    · have hj' : w.length ≤ j := Nat.le_of_not_lt hj
      rw [List.getElem?_append_right hj', List.getElem?_eq_none_iff.mpr hj']
      by_cases hk : j - w.length < i + 1 - w.length
      · simp [hk]
      · simp [hk]

/-! ### normal form of one API call -/

def Action.isAppend : Action → Bool
  | .planAppend .. => true
  | _ => false

/-- which API entry point a call is -/
inductive ApiTag where
  | construct | enter | exit | update | react | query | change | immediate | status | planAppend | planEdit | load
  | replayEnter | replayTransition | attachLogger
  deriving DecidableEq, Repr

def Op.tag : Op → Option ApiTag
  | .construct .. => some .construct
  | .enter .. => some .enter
  | .exit .. => some .exit
  | .update .. => some .update
  | .react .. => some .react
  | .query .. => some .query
  | .changeTo .. | .changeWith .. => some .change
  | .immediateChangeTo .. | .immediateChangeWith .. => some .immediate
  | .succeed .. | .fail .. => some .status
  | .planAppend .. => some .planAppend
  | .planClear .. | .planRemove .. => some .planEdit
  | .load .. => some .load
  | .replayEnter .. => some .replayEnter
  | .replayTransition .. => some .replayTransition
  | .attachLogger .. => some .attachLogger
  | _ => none

/-- which building block an accepted call runs, from which core (`slot` = what the slot held before), and
    what the call's own guard established -/
inductive ApiStep (cfg : Cfg) (w : World) (env : Env) : ApiTag → Option Core → Core → Step → Prop
  | constructManual (lg : Bool) : cfg.manual = true → ApiStep cfg w env .construct none (initCore cfg lg) skip
  | constructAuto (lg : Bool) : cfg.manual = false → ApiStep cfg w env .construct none (initCore cfg lg) (initialEnter env)
  | enter (c : Core) : cfg.manual = true → c.active = 255 → c.request.valid = false → ApiStep cfg w env .enter (some c) c (initialEnter env)
  | exit (c : Core) : cfg.manual = true → c.active ≠ 255 → ApiStep cfg w env .exit (some c) c (finalExit env)
  | update (c : Core) : c.active ≠ 255 → ApiStep cfg w env .update (some c) c (update env)
  | react (c : Core) : c.active ≠ 255 → ApiStep cfg w env .react (some c) c (react env)
  | query (c : Core) : c.active ≠ 255 → ApiStep cfg w env .query (some c) c (query env)
  | change (c : Core) (d : Nat) (p : Option Nat) : c.active ≠ 255 → d < cfg.n → ApiStep cfg w env .change (some c) c (extChange env d p)
  | immediate (c : Core) (d : Nat) (p : Option Nat) : c.active ≠ 255 → d < cfg.n →
      ApiStep cfg w env .immediate (some c) c (extChange env d p ⋙ processRequest env)
  | status (c : Core) (id : Nat) (ok : Bool) : ApiStep cfg w env .status (some c) c (extStatus env id ok)
  | planAppend (c : Core) (o d : Nat) (p : Option Nat) : permitted cfg .plan 0 (.planAppend o d p) = true →
      ApiStep cfg w env .planAppend (some c) c (applyAction env 255 (.planAppend o d p))
  | planEdit (c : Core) (a : Action) : a.isAppend = false → permitted cfg .plan 0 a = true → ApiStep cfg w env .planEdit (some c) c (applyAction env 255 a)
  | load (c sc : Core) (src : Nat) : w.get src = some sc → (cfg.manual = true ∨ (c.active ≠ 255 ∧ sc.active ≠ 255)) →
      ApiStep cfg w env .load (some c) c (load env (save cfg sc))
  | replayEnter (c : Core) (d : Nat) : cfg.history = true → cfg.manual = true → c.active = 255 → d < cfg.n → ApiStep cfg w env .replayEnter (some c) c (replayEnter env d)
  | replayClear (c : Core) : cfg.history = true → c.active ≠ 255 → ApiStep cfg w env .replayTransition (some c) c (modifyCore (fun c => { c with prev := c.prev.clear }))
  | replayTransition (c : Core) (d : Nat) : cfg.history = true → c.active ≠ 255 → d < cfg.n → ApiStep cfg w env .replayTransition (some c) c (replayTransition env d)
  | attachLogger (c : Core) (on : Bool) : ApiStep cfg w env .attachLogger (some c) c (modifyCore (fun c => { c with logger := on }))

/-- the possible outcomes of `step` on instance `i` at history index `k` -/
inductive StepShape (cfg : Cfg) (beh : Beh) (w : World) (k i : Nat) (op : Op) : World × List Ev → Prop
  | rejected (name : String) : StepShape cfg beh w k i op (w, [.rejected i k name])
  | call (tag : ApiTag) (slot : Option Core) (c : Core) (f : Step) (ret : Core → Option Bool) (name : String) :
      op.tag = some tag → w.get i = slot → ApiStep cfg w ⟨cfg, beh, i, k⟩ tag slot c f →
      StepShape cfg beh w k i op (onCore cfg w i k name c f ret)
  | destroyManual (c : Core) (name : String) : op = .destroy i → cfg.manual = true → w.get i = some c →
      StepShape cfg beh w k i op (w.put i none, [.api i k name (apiObs cfg c)])
  | destroyAuto (c : Core) (name : String) : op = .destroy i → cfg.manual = false → w.get i = some c →
      StepShape cfg beh w k i op (w.put i none, (finalExit ⟨cfg, beh, i, k⟩ { core := c }).2 ++
        [.api i k name (apiObs cfg (finalExit ⟨cfg, beh, i, k⟩ { core := c }).1.core)])
  | save (c : Core) (name : String) (o : ApiObs) : w.get i = some c → StepShape cfg beh w k i op (w, [.api i k name o])

theorem ne255_of_active {c : Core} (h : (c.active != 255) = true) : c.active ≠ 255 := by simpa using h

theorem step_shape (cfg : Cfg) (beh : Beh) (w : World) (k : Nat) (op : Op) :
    StepShape cfg beh w k op.inst op (step cfg beh w k op) := by
  unfold step
  dsimp only
  split
  · -- construct, free slot
    rename_i lg hget
    split
    · rename_i hm; exact .call _ none _ _ _ _ rfl hget (.constructManual _ hm)
    · rename_i hm; exact .call _ none _ _ _ _ rfl hget (.constructAuto _ (by simpa using hm))
  · exact .rejected _
  · exact .rejected _
  · -- destroy
    rename_i c hget
    split
    · rename_i hm; exact .destroyManual c _ rfl hm hget
    · rename_i hm; exact .destroyAuto c _ rfl (by simpa using hm) hget
  · exact .rejected _
  · -- enter
    rename_i c hget
    split
    · rename_i h
      simp only [Bool.and_eq_true, Bool.not_eq_true', bne_eq_false_iff_eq] at h
      exact .call _ _ _ _ _ _ rfl hget (.enter c h.1.1 (by simpa using h.1.2) h.2)
    · exact .rejected _
  · -- exit
    rename_i c hget
    split
    · rename_i h
      simp only [Bool.and_eq_true] at h
      exact .call _ _ _ _ _ _ rfl hget (.exit c h.1 (ne255_of_active h.2))
    · exact .rejected _
  · rename_i c hget
    split
    · rename_i h; exact .call _ _ _ _ _ _ rfl hget (.update c (ne255_of_active h))
    · exact .rejected _
  · rename_i c hget
    split
    · rename_i h; exact .call _ _ _ _ _ _ rfl hget (.react c (ne255_of_active h))
    · exact .rejected _
  · rename_i c hget
    split
    · rename_i h; exact .call _ _ _ _ _ _ rfl hget (.query c (ne255_of_active h))
    · exact .rejected _
  · -- changeTo
    rename_i d c hget
    split
    · rename_i h
      simp only [Bool.and_eq_true, idOk, decide_eq_true_eq] at h
      exact .call _ _ _ _ _ _ rfl hget (.change c d none (ne255_of_active h.1) h.2)
    · exact .rejected _
  · rename_i d p c hget
    split
    · rename_i h
      simp only [Bool.and_eq_true, idOk, decide_eq_true_eq] at h
      exact .call _ _ _ _ _ _ rfl hget (.change c d (some p) (ne255_of_active h.1.1) h.1.2)
    · exact .rejected _
  · rename_i d c hget
    split
    · rename_i h
      simp only [Bool.and_eq_true, idOk, decide_eq_true_eq] at h
      exact .call _ _ _ _ _ _ rfl hget (.immediate c d none (ne255_of_active h.1) h.2)
    · exact .rejected _
  · rename_i d p c hget
    split
    · rename_i h
      simp only [Bool.and_eq_true, idOk, decide_eq_true_eq] at h
      exact .call _ _ _ _ _ _ rfl hget (.immediate c d (some p) (ne255_of_active h.1.1) h.1.2)
    · exact .rejected _
  · rename_i id c hget
    split
    · exact .call _ _ _ _ _ _ rfl hget (.status c id true)
    · exact .rejected _
  · rename_i id c hget
    split
    · exact .call _ _ _ _ _ _ rfl hget (.status c id false)
    · exact .rejected _
  · -- planAppend
    rename_i o d p c hget
    split
    · rename_i h; exact .call _ _ _ _ _ _ rfl hget (.planAppend c _ _ _ h)
    · exact .rejected _
  · rename_i c hget
    split
    · rename_i h; exact .call _ _ _ _ _ _ rfl hget (.planEdit c .planClear rfl (by simpa [permitted] using h))
    · exact .rejected _
  · rename_i mask c hget
    split
    · rename_i h; exact .call _ _ _ _ _ _ rfl hget (.planEdit c (.planRemove mask) rfl (by simpa [permitted] using h))
    · exact .rejected _
  · -- save
    rename_i c hget
    split
    · exact .save c _ _ hget
    · exact .rejected _
  · -- load
    rename_i src c hget
    split
    · rename_i sc hsrc
      split
      · rename_i h
        simp only [Bool.and_eq_true, Bool.or_eq_true] at h
        refine .call _ _ _ _ _ _ rfl hget (.load c sc src hsrc ?_)
        rcases h.2 with hm | ⟨h1, h2⟩
        · exact Or.inl hm
        · exact Or.inr ⟨ne255_of_active h1, ne255_of_active h2⟩
      · exact .rejected _
    · exact .rejected _
  · -- replayEnter
    rename_i d c hget
    split
    · rename_i h
      simp only [Bool.and_eq_true, idOk, decide_eq_true_eq, Bool.not_eq_true', bne_eq_false_iff_eq] at h
      exact .call _ _ _ _ _ _ rfl hget (.replayEnter c d h.1.1.1.1.1 h.1.1.1.1.2 (by simpa using h.1.1.1.2) h.2)
    · exact .rejected _
  · -- replayTransition
    rename_i d c hget
    split
    · rename_i h
      simp only [Bool.and_eq_true, Bool.or_eq_true, idOk, decide_eq_true_eq] at h
      split
      · exact .call _ _ _ _ _ _ rfl hget (.replayClear c h.1.1 (ne255_of_active h.1.2))
      · rename_i hd
        refine .call _ _ _ _ _ _ rfl hget (.replayTransition c d h.1.1 (ne255_of_active h.1.2) ?_)
        rcases h.2 with h2 | h2
        · exact h2
        · exact absurd h2 hd
    · exact .rejected _
  · rename_i on c hget
    split
    · exact .call _ _ _ _ _ _ rfl hget (.attachLogger c on)
    · exact .rejected _
  · exact .rejected _
  · exact .rejected _

/-- `stepAll`: a `step` on the same instance, or an accepted copy construction -/
inductive StepAllShape (cfg : Cfg) (beh : Beh) (w : World) (k i : Nat) (op : Op) : World × List Ev → Prop
  | step {r} (op' : Op) : StepShape cfg beh w k i op' r →
      (op' = op ∨ ((∀ j, op' ≠ .destroy j) ∧ (op'.tag = some .replayTransition ∨ op'.tag = some .replayEnter))) →
      StepAllShape cfg beh w k i op r
  | copy (src : Nat) (sc : Core) : op = .copy i src → w.get i = none → w.get src = some sc →
      StepAllShape cfg beh w k i op (w.put i (some sc), [.api i k "copy" (apiObs cfg sc)])

theorem stepAll_shape (cfg : Cfg) (beh : Beh) (w : World) (k : Nat) (op : Op) :
    StepAllShape cfg beh w k op.inst op (stepAll cfg beh w k op) := by
  unfold stepAll
  split
  · rename_i i src
    split
    · rename_i sc h1 h2; exact .copy src sc rfl h1 h2
    · exact .step _ (.rejected _) (Or.inl rfl)
  · rename_i i src
    split
    · exact .step _ (step_shape cfg beh w k (.replayTransition i _)) (Or.inr ⟨(fun j e => by cases e), (by simp [Op.tag])⟩)
    · exact .step _ (.rejected _) (Or.inl rfl)
  · rename_i i src
    split
    · exact .step _ (step_shape cfg beh w k (.replayEnter i _)) (Or.inr ⟨(fun j e => by cases e), (by simp [Op.tag])⟩)
    · exact .step _ (.rejected _) (Or.inl rfl)
  · exact .step _ (step_shape cfg beh w k op) (Or.inl rfl)

/-! ### attribution and independence -/

theorem onCore_fst (cfg : Cfg) (w : World) (i k : Nat) (name : String) (c : Core) (f : Step) (ret : Core → Option Bool) :
    (onCore cfg w i k name c f ret).1 = w.put i (some (f { core := c }).1.core) := rfl

theorem onCore_snd (cfg : Cfg) (w : World) (i k : Nat) (name : String) (c : Core) (f : Step) (ret : Core → Option Bool) :
    (onCore cfg w i k name c f ret).2 =
      (f { core := c }).2 ++ [.api i k name (apiObs cfg (f { core := c }).1.core (ret (f { core := c }).1.core))] := rfl

theorem apiStep_allEv {cfg : Cfg} {w : World} {env : Env} {P : Ev → Prop} (hP : EnvPred env P)
    {tag : ApiTag} {slot : Option Core} {c : Core} {f : Step} (h : ApiStep cfg w env tag slot c f) : AllEv P f := by
  cases h with
  | constructManual => exact allEv_skip P
  | constructAuto => exact allEv_initialEnter hP
  | enter => exact allEv_initialEnter hP
  | exit => exact allEv_finalExit hP
  | update => exact allEv_cycle hP _ _ _
  | react => exact allEv_cycle hP _ _ _
  | query => exact allEv_query hP
  | change => exact allEv_extChange hP _ _
  | immediate => exact AllEv.seq (allEv_extChange hP _ _) (allEv_processRequest hP)
  | status => exact allEv_extStatus hP _ _
  | planAppend => exact allEv_applyAction hP _ _
  | planEdit => exact allEv_applyAction hP _ _
  | load => exact allEv_load hP _
  | replayEnter => exact allEv_replayEnter hP _
  | replayClear => exact allEv_modifyCore P _
  | replayTransition => exact allEv_replayTransition hP _
  | attachLogger => exact allEv_modifyCore P _

/-- **every event of an API call belongs to the instance the call was made on** -/
theorem stepAll_events_inst (cfg : Cfg) (beh : Beh) (w : World) (k : Nat) (op : Op) :
    ∀ e ∈ (stepAll cfg beh w k op).2, e.inst = op.inst := by
  have h := stepAll_shape cfg beh w k op
  generalize stepAll cfg beh w k op = r at h
  intro e he
  cases h with
  | copy src sc _ h1 h2 => simp only [List.mem_singleton] at he; rw [he]; rfl
  | step op' hs _ =>
    cases hs with
    | rejected name => simp only [List.mem_singleton] at he; rw [he]; rfl
    | call tag slot c f ret name htag hget hf =>
      rw [onCore_snd, List.mem_append] at he
      rcases he with he | he
      · exact apiStep_allEv (envPred_inst ⟨cfg, beh, op.inst, k⟩) hf _ e he
      · simp only [List.mem_singleton] at he; rw [he]; rfl
    | destroyManual c name _ hm hget => simp only [List.mem_singleton] at he; rw [he]; rfl
    | destroyAuto c name _ hm hget =>
      rw [List.mem_append] at he
      rcases he with he | he
      · exact allEv_finalExit (envPred_inst ⟨cfg, beh, op.inst, k⟩) _ e he
      · simp only [List.mem_singleton] at he; rw [he]; rfl
    | save c name o hget => simp only [List.mem_singleton] at he; rw [he]; rfl

/-- **instances are independent**: a call on one instance leaves every other slot untouched -/
theorem stepAll_other (cfg : Cfg) (beh : Beh) (w : World) (k : Nat) (op : Op) (j : Nat) (hj : j ≠ op.inst) :
    (stepAll cfg beh w k op).1.get j = w.get j := by
  have h := stepAll_shape cfg beh w k op
  generalize stepAll cfg beh w k op = r at h
  cases h with
  | copy src sc _ h1 h2 => exact World.get_put_ne _ _ _ _ hj
  | step op' hs _ =>
    cases hs with
    | rejected name => rfl
    | call tag slot c f ret name htag hget hf => rw [onCore_fst]; exact World.get_put_ne _ _ _ _ hj
    | destroyManual c name _ hm hget => exact World.get_put_ne _ _ _ _ hj
    | destroyAuto c name _ hm hget => exact World.get_put_ne _ _ _ _ hj
    | save c name o hget => rfl

end FFSM2
