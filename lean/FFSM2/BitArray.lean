import FFSM2.Gen.Consts
/-
  FFSM2.BitArray — literal port of development/ffsm2/detail/containers/bit_array.{hpp,inl}
  (`BitArrayT<CAPACITY>`), C20.  Storage = `List Nat` of `UNIT_COUNT = contain(CAPACITY, 8)` bytes.
  `uint8_t` stores are written with explicit truncation: `mask = (1 << bit)` is `% 256`,
  `~mask` as a byte is `255 - mask`.
-/
namespace FFSM2
namespace BitArray

abbrev unitCount (cap : Nat) : Nat := Gen.unitCount cap

/-- `BitArrayT()` → `clear()` -/
def clearAll (units : List Nat) : List Nat := units.map (fun _ => 0)

def init (cap : Nat) : List Nat := List.replicate (unitCount cap) 0

/-- `set()` (set-all): every unit `UINT8_MAX`; then (post-F4 repair) the last unit is masked to
    the in-range bits when `CAPACITY % 8 != 0`. -/
def setAll (cap : Nat) (units : List Nat) : List Nat :=
  let all := units.map (fun _ => 255)
  if cap % 8 ≠ 0 then all.set (unitCount cap - 1) (((1 <<< (cap % 8)) - 1) % 256) else all

/-- `empty()` -/
def empty (units : List Nat) : Bool := units.all (· == 0)

def mask (index : Nat) : Nat := (1 <<< (index % 8)) % 256

/-- `get(index)` -/
def get (units : List Nat) (index : Nat) : Bool :=
  (units.getD (index / 8) 0 &&& mask index) != 0

/-- `set(index)` -/
def set (units : List Nat) (index : Nat) : List Nat :=
  units.set (index / 8) (units.getD (index / 8) 0 ||| mask index)

/-- `clear(index)`: `_storage[unit] &= ~mask` -/
def clear (units : List Nat) (index : Nat) : List Nat :=
  units.set (index / 8) (units.getD (index / 8) 0 &&& (255 - mask index))

/-- `operator &=` -/
def andAssign (units other : List Nat) : List Nat :=
  List.zipWith (· &&& ·) units other

/-- operations of the refinement statement -/
inductive Op where
  | set (i : Nat) | clear (i : Nat) | setAll | clearAll | andAssign (other : List Nat)

def step (cap : Nat) (units : List Nat) : Op → List Nat
  | .set i => set units i
  | .clear i => clear units i
  | .setAll => setAll cap units
  | .clearAll => clearAll units
  | .andAssign o => andAssign units o

def run (cap : Nat) (ops : List Op) : List Nat := ops.foldl (step cap) (init cap)

end BitArray
end FFSM2
