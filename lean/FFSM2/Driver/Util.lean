/- Driver utilities: parsing and canonical printing (executable glue; nothing here is proved). -/
namespace FFSM2.Driver

def hexDigit (n : Nat) : Char := "0123456789abcdef".toList.getD n '?'

def hexByte (b : Nat) : String := String.mk [hexDigit ((b / 16) % 16), hexDigit (b % 16)]

def hexBytes (bs : List Nat) : String := String.join (bs.map hexByte)

def bitStr (bs : List Bool) : String := String.mk (bs.map (fun b => if b then '1' else '0'))

def words (line : String) : List String :=
  (line.trimAscii.toString.splitOn " ").filter (· ≠ "")

def nat! (s : String) : Nat := s.toNat?.getD 0

def natList (s : String) : List Nat :=
  if s = "-" || s = "" then [] else (s.splitOn ",").map nat!

def joinWith (sep : String) (xs : List String) : String := sep.intercalate xs

end FFSM2.Driver
