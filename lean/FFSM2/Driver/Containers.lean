import FFSM2.BitStream
import FFSM2.BitArray
import FFSM2.Arrays
import FFSM2.TaskList
import FFSM2.PlanList
import FFSM2.Dispatch
import FFSM2.Ancestors
import FFSM2.Layout
import FFSM2.Driver.Util
/- Line-protocol engines for the container models (one output line per input line). -/
namespace FFSM2.Driver
open FFSM2

/-! ### bitstream -/
structure BSState where
  cap : Nat := 0
  buf : List Nat := []
  wc : Nat := 0
  rc : Nat := 0

def bsStep (s : BSState) (ws : List String) : BSState × String :=
  match ws with
  | ["new", c] =>
    let cap := nat! c
    ({ cap := cap, buf := BitStream.clearBuf cap, wc := 0, rc := 0 }, "ok")
  | ["new", c, _fill] =>
    -- the prior contents of the buffer are irrelevant: the write stream's constructor clears it
    let cap := nat! c
    ({ cap := cap, buf := BitStream.clearBuf cap, wc := 0, rc := 0 }, "ok")
  | ["w", w, v] =>
    let w := nat! w; let v := nat! v
    if w = 0 || w > 32 || s.wc + w > s.cap then (s, "rejected") else
    let r := BitStream.write w s.buf s.wc v
    ({ s with buf := r.1, wc := r.2 }, s!"w c={r.2} b={hexBytes r.1}")
  | ["rr"] => ({ s with rc := 0 }, "ok")
  | ["r", w] =>
    let w := nat! w
    if w = 0 || w > 32 || s.rc + w > s.cap then (s, "rejected") else
    let r := BitStream.read w s.buf s.rc
    ({ s with rc := r.2 }, s!"r v={r.1} c={r.2}")
  | ["bw", v] => (s, s!"bw {Gen.bitWidth (nat! v)}")
  | _ => (s, "bad-op")

/-! ### bitarray -/
structure BAState where
  cap : Nat := 0
  units : List Nat := []

def baShow (s : BAState) : String :=
  let g := (List.range s.cap).map (BitArray.get s.units)
  s!"b={hexBytes s.units} e={if BitArray.empty s.units then 1 else 0} g={bitStr g}"

def baStep (s : BAState) (ws : List String) : BAState × String :=
  let ok (i : Nat) := i < s.cap
  match ws with
  | ["new", c] => let s' : BAState := { cap := nat! c, units := BitArray.init (nat! c) }; (s', baShow s')
  | ["set", i] => if ok (nat! i) then let s' := { s with units := BitArray.set s.units (nat! i) }; (s', baShow s') else (s, "rejected")
  | ["clear", i] => if ok (nat! i) then let s' := { s with units := BitArray.clear s.units (nat! i) }; (s', baShow s') else (s, "rejected")
  | ["setall"] => let s' := { s with units := BitArray.setAll s.cap s.units }; (s', baShow s')
  | ["clearall"] => let s' := { s with units := BitArray.clearAll s.units }; (s', baShow s')
  | ["and", is] =>
    let idx := natList is
    if idx.all ok then
      let other := idx.foldl BitArray.set (BitArray.init s.cap)
      let s' := { s with units := BitArray.andAssign s.units other }; (s', baShow s')
    else (s, "rejected")
  | ["andall"] =>
      let other := BitArray.setAll s.cap (BitArray.init s.cap)
      let s' := { s with units := BitArray.andAssign s.units other }; (s', baShow s')
  | _ => (s, "bad-op")

/-! ### static / dynamic arrays (elements are naturals; `filler` is 255 for `Short`, 0 otherwise) -/
structure SAState where
  filler : Nat := 0
  items : List Nat := []

def showIter (l : List (Nat × Nat)) : String :=
  String.join (["iter"] ++ l.map (fun p => s!" {p.1}:{p.2}"))

def saStep (s : SAState) (ws : List String) : SAState × String :=
  match ws with
  | ["new", c, ty] => ({ filler := if ty = "u8" then 255 else 0, items := Arrays.Static.init (nat! c) 0 }, "ok")
  | ["put", i, v] => if nat! i < s.items.length then ({ s with items := Arrays.Static.put s.items (nat! i) (nat! v) }, "ok") else (s, "rejected")
  | ["get", i] => if nat! i < s.items.length then (s, s!"v={Arrays.Static.get s.items 0 (nat! i)}") else (s, "rejected")
  | ["fill", v] => ({ s with items := Arrays.Static.fill s.items (nat! v) }, "ok")
  | ["clear"] => ({ s with items := Arrays.Static.clear s.items s.filler }, "ok")
  | ["empty"] => (s, s!"e={if Arrays.Static.empty s.items s.filler then 1 else 0}")
  | ["iter"] => (s, showIter (Arrays.Static.iterate s.items 0))
  | _ => (s, "bad-op")

def daStep (s : Arrays.Dynamic.Arr Nat) (ws : List String) : Arrays.Dynamic.Arr Nat × String :=
  match ws with
  | ["new", c] => (Arrays.Dynamic.init (nat! c) 0, "ok")
  | ["emplace", v] =>
    if s.count < s.cap then let r := Arrays.Dynamic.emplace s (nat! v); (r.1, s!"i={r.2} n={r.1.count}") else (s, "rejected")
  | ["append", v] =>
    if s.count < s.cap then let r := Arrays.Dynamic.emplace s (nat! v); (r.1, s!"n={r.1.count}") else (s, "rejected")
  | ["appendmv", v] =>
    if s.count < s.cap then let r := Arrays.Dynamic.emplace s (nat! v); (r.1, s!"n={r.1.count}") else (s, "rejected")
  | "appendall" :: vs =>
    if s.count + vs.length ≤ s.cap then let r := Arrays.Dynamic.appendAll s (vs.map (fun v => nat! v)); (r, s!"n={r.count}") else (s, "rejected")
  | ["get", i] => if nat! i < s.count then (s, s!"v={Arrays.Dynamic.get s 0 (nat! i)}") else (s, "rejected")
  | ["clear"] => (Arrays.Dynamic.clear s, "ok")
  | ["empty"] => (s, s!"e={if Arrays.Dynamic.empty s then 1 else 0} n={s.count}")
  | ["iter"] => (s, showIter (Arrays.Dynamic.iterate s 0))
  | _ => (s, "bad-op")

/-! ### task list -/
structure TLState where
  tl : TaskList.TL := TaskList.init 0
  pay : Bool := false
  occ : List Nat := []      -- occupied slots, ascending (driver bookkeeping, mirrored by the C++ harness)

def insertSorted (x : Nat) : List Nat → List Nat
  | [] => [x]
  | y :: ys => if x ≤ y then x :: y :: ys else y :: insertSorted x ys

def showPayload : Option Nat → String
  | none => "-"
  | some p => toString p

def tlShow (s : TLState) : String :=
  let t := s.tl
  let occItems := s.occ.map (fun i => let it := TaskList.at' t.items i; s!"{i}:{it.a}>{it.b}:{showPayload it.p}")
  let raw := if s.pay then "-" else
    hexBytes ([t.head, t.tail, t.last, t.count] ++ (t.items.map (fun it => [it.a, it.b])).flatten)
  s!"n={t.count} occ=[{joinWith " " occItems}] raw={raw}"

def tlStep (s : TLState) (ws : List String) : TLState × String :=
  match ws with
  | ["new", c, ty] => let s' : TLState := { tl := TaskList.init (nat! c), pay := ty = "pay", occ := [] }; (s', tlShow s')
  | "emplace" :: o :: d :: rest =>
    let p : Option Nat := match rest with | [p] => some (nat! p) | _ => none
    let r := TaskList.emplace s.tl ⟨nat! o, nat! d, p⟩
    let s' := { s with tl := r.1, occ := if r.2 = 255 then s.occ else insertSorted r.2 s.occ }
    (s', s!"i={r.2} {tlShow s'}")
  | ["removeNth", k] =>
    if s.occ.isEmpty then (s, "rejected") else
    let i := s.occ.getD (nat! k % s.occ.length) 0
    let s' := { s with tl := TaskList.remove s.tl i, occ := s.occ.filter (· ≠ i) }
    (s', s!"rm={i} {tlShow s'}")
  | ["clear"] => let s' := { s with tl := TaskList.clear s.tl, occ := [] }; (s', tlShow s')
  | _ => (s, "bad-op")

/-! ### dispatch (C14) and ancestors (C15): pure tables -/
def dispatchLines (n : Nat) : List String :=
  let states := List.range n
  let tree := Dispatch.cs n states 0 0
  (List.range n).map (fun k =>
    match Dispatch.wide tree k with
    | some (sid, st) => s!"k={k} id={sid} state={st} index={Dispatch.index states k}"
    | none => s!"k={k} stuck")

def methodName : Method → String
  | .entryGuard => "entryGuard" | .enter => "enter" | .reenter => "reenter"
  | .preUpdate => "preUpdate" | .update => "update" | .postUpdate => "postUpdate"
  | .preReact => "preReact" | .react => "react" | .postReact => "postReact"
  | .query => "query" | .exitGuard => "exitGuard" | .exit => "exit"
  | .planSucceeded => "planSucceeded" | .planFailed => "planFailed"

def allMethods : List Method :=
  [.entryGuard, .enter, .reenter, .preUpdate, .update, .postUpdate, .preReact, .react, .postReact,
   .query, .exitGuard, .exit, .planSucceeded, .planFailed]

def layerName : Ancestors.Layer → String
  | .inj i => s!"I{i}"
  | .own => "S"

def ancestorLines (k : Nat) : List String :=
  allMethods.map (fun m => s!"{methodName m} " ++ joinWith "," ((Ancestors.deep k m).map layerName))

/-! ### layout (C18): offset / alignment / size of `TransitionT<P>` (base 3) and `TaskT<P>` (base 2) -/
def layoutLines : List String :=
  let payloads : List (Nat × Nat) := [(1, 1), (2, 2), (4, 4), (8, 16), (16, 32), (8, 8), (4, 12)]
  ([("Transition", 3), ("Task", 2)] : List (String × Nat)).flatMap (fun b =>
    payloads.map (fun pa =>
      let A := pa.1; let size := pa.2
      s!"{b.1} A={A} size={size} off={Layout.storageOffset b.2 A none} align={Layout.structAlign A none} sizeof={Layout.structSize b.2 A size none}"))

end FFSM2.Driver
