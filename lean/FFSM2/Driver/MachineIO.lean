import FFSM2.Machine
import FFSM2.Driver.Util
import FFSM2.Driver.Containers
/- Line protocol of the machine engine: parsing of `cfg` / `beh` / `op` lines, canonical printing of
   trace events (executable glue; nothing here is proved). -/
namespace FFSM2.Driver
open FFSM2

def parseMethod (s : String) : Option Method :=
  allMethods.find? (fun m => methodName m == s)

def methodIndex (m : Method) : Nat := (allMethods.findIdx? (· == m)).getD 0

def parseLayer (s : String) : Ancestors.Layer :=
  if s == "S" then .own else .inj (nat! (s.drop 1).toString)

def showTr (t : Tr) : String :=
  if !t.valid then "-" else s!"{t.origin}>{t.dest}:{showPayload t.payload}"

def showOTr : Option Tr → String
  | none => "~"
  | some t => showTr t

def showTask (t : Task) : String := s!"{t.origin}>{t.dest}:{showPayload t.payload}"

def showPlan : Option (List Task) → String
  | none => "~"
  | some l => "[" ++ joinWith " " (l.map showTask) ++ "]"

def showAction : Action → String
  | .changeTo d => s!"changeTo {d}"
  | .changeWith d p => s!"changeWith {d} {p}"
  | .cancel => "cancel"
  | .succeed none => "succeed"
  | .succeed (some k) => s!"succeed {k}"
  | .fail none => "fail"
  | .fail (some k) => s!"fail {k}"
  | .planAppend o d none => s!"planAppend {o} {d}"
  | .planAppend o d (some p) => s!"planAppend {o} {d} {p}"
  | .planClear => "planClear"
  | .planRemove m => s!"planRemove {bitStr m}"

def parseMask (s : String) : List Bool := s.toList.map (· == '1')

def parseAction (ws : List String) : Option Action :=
  match ws with
  | ["changeTo", d] => some (.changeTo (nat! d))
  | ["changeWith", d, p] => some (.changeWith (nat! d) (nat! p))
  | ["cancel"] => some .cancel
  | ["succeed"] => some (.succeed none)
  | ["succeed", k] => some (.succeed (some (nat! k)))
  | ["fail"] => some (.fail none)
  | ["fail", k] => some (.fail (some (nat! k)))
  | ["planAppend", o, d] => some (.planAppend (nat! o) (nat! d) none)
  | ["planAppend", o, d, p] => some (.planAppend (nat! o) (nat! d) (some (nat! p)))
  | ["planClear"] => some .planClear
  | ["planRemove", m] => some (.planRemove (parseMask m))
  | _ => none

def showKey (k : Key) : String :=
  s!"i{k.inst} op{k.op} occ{k.occ} {methodName k.method} s{k.sid} {layerName k.layer}"

def showEv : Ev → String
  | .cb k _ o =>
    s!"cb {showKey k} | id={o.stateId} act={bitStr o.ctlActive} mact={o.machActive} req={showTr o.request} cur={showOTr o.current} pend={showOTr o.pending} plan={showPlan o.plan}"
  | .act k a => s!"do {showKey k} | {showAction a}"
  | .log i (.method sid m) => s!"log i{i} method {sid} {methodName m}"
  | .log i (.transition o t) => s!"log i{i} trans {o} {t}"
  | .log i (.taskStatus sid ok) => s!"log i{i} task {sid} {if ok then "S" else "F"}"
  | .log i (.cancelled o) => s!"log i{i} cancel {o}"
  | .api i op name o =>
    let m := match o.mactive with | none => "~" | some b => if b then "1" else "0"
    let r := match o.ret with | none => "~" | some b => if b then "1" else "0"
    let b := match o.bytes with | none => "~" | some l => hexBytes l
    s!"api i{i} op{op} {name} | act={o.active} isA={bitStr o.isActive} mact={m} prev={showOTr o.prev} plan={showPlan o.plan} ret={r} bytes={b}"
  | .rejected i op name => s!"rejected i{i} op{op} {name}"

/-- `k=v` fields of a cfg line -/
def field (ws : List String) (k : String) : String :=
  match ws.find? (fun w => w.startsWith (k ++ "=")) with
  | some w => (w.drop (k.length + 1)).toString
  | none => ""

def parseCfg (ws : List String) : Cfg :=
  let n := nat! (field ws "n")
  let b (k : String) := field ws k == "1"
  let defs : List String := (field ws "defines").splitOn ","
  let inj := natList (field ws "inj")
  -- rows: states 0..n-1, then the head as the last row
  let row (sid : Nat) : Nat := if sid == 255 then n else sid
  -- `cap=` is what the program passes to `Config::TaskCapacityN<>`; the effective capacity follows the
  -- rule translated from the source (255 = INVALID_LONG means "not configured": the state count)
  { n := n, L := nat! (field ws "L"), cap := Gen.taskCapacity (nat! (field ws "cap")) n, hasHead := b "head", manual := b "manual",
    hasPayload := b "payload", plans := b "plans", history := b "history", serialization := b "serial",
    logging := b "log", verbose := b "verbose",
    defines := fun sid m => ((defs.getD (row sid) "").toList.getD (methodIndex m) '0') == '1',
    injections := fun sid => inj.getD (row sid) 0 }

def parseKeyPrefix (ws : List String) : Option Key :=
  match ws with
  | [i, op, occ, m, s, l] =>
    match parseMethod m with
    | some mm => some ⟨nat! (i.drop 1).toString, nat! (op.drop 2).toString, nat! (occ.drop 3).toString, mm,
                       nat! (s.drop 1).toString, parseLayer l⟩
    | none => none
  | _ => none

/-- `beh i0 op5 occ1 entryGuard s2 S : changeTo 1 ; cancel` -/
def parseBeh (ws : List String) : Option (Key × List Action) :=
  let pre := ws.takeWhile (· != ":")
  let post := (ws.dropWhile (· != ":")).drop 1
  match parseKeyPrefix pre with
  | none => none
  | some k =>
    let groups := (joinWith " " post).splitOn ";"
    some (k, groups.filterMap (fun g => parseAction (words g)))

def mkBeh (tbl : List (Key × List Action)) : Beh := fun k =>
  match tbl.find? (fun e => e.1 == k) with
  | some e => e.2
  | none => []

def parseOp (ws : List String) : Option Op :=
  match ws with
  | ["construct", i, lg] => some (.construct (nat! i) (lg == "1"))
  | ["construct", i, lg, _fill] => some (.construct (nat! i) (lg == "1"))   -- prior memory contents: no input of the model
  | ["destroy", i] => some (.destroy (nat! i))
  | ["copy", i, src] => some (.copy (nat! i) (nat! src))
  | ["copy", i, src, _fill] => some (.copy (nat! i) (nat! src))
  | ["enter", i] => some (.enter (nat! i))
  | ["exit", i] => some (.exit (nat! i))
  | ["update", i] => some (.update (nat! i))
  | ["react", i] => some (.react (nat! i))
  | ["query", i] => some (.query (nat! i))
  | ["changeTo", i, d] => some (.changeTo (nat! i) (nat! d))
  | ["changeWith", i, d, p] => some (.changeWith (nat! i) (nat! d) (nat! p))
  | ["immediateChangeTo", i, d] => some (.immediateChangeTo (nat! i) (nat! d))
  | ["immediateChangeWith", i, d, p] => some (.immediateChangeWith (nat! i) (nat! d) (nat! p))
  | ["succeed", i, k] => some (.succeed (nat! i) (nat! k))
  | ["fail", i, k] => some (.fail (nat! i) (nat! k))
  | ["planAppend", i, o, d] => some (.planAppend (nat! i) (nat! o) (nat! d) none)
  | ["planAppend", i, o, d, p] => some (.planAppend (nat! i) (nat! o) (nat! d) (some (nat! p)))
  | ["planClear", i] => some (.planClear (nat! i))
  | ["planRemove", i, m] => some (.planRemove (nat! i) (parseMask m))
  | ["save", i] => some (.save (nat! i))
  | ["load", i, src] => some (.load (nat! i) (nat! src))
  | ["replayEnter", i, d] => some (.replayEnter (nat! i) (nat! d))
  | ["replayTransition", i, d] => some (.replayTransition (nat! i) (nat! d))
  | ["attachLogger", i, on] => some (.attachLogger (nat! i) (on == "1"))
  | ["replayFrom", i, src] => some (.replayFrom (nat! i) (nat! src))
  | ["replayEnterFrom", i, src] => some (.replayEnterFrom (nat! i) (nat! src))
  | _ => none

/-- one case: cfg + behaviour table + ops, as parsed so far -/
structure Case where
  name : String := ""
  cfg : Cfg := { n := 1, L := 1, cap := 1 }
  beh : List (Key × List Action) := []
  ops : List Op := []

def runCase (c : Case) : List String :=
  let r := run c.cfg (mkBeh c.beh.reverse) c.ops.reverse
  s!"case {c.name}" :: (r.2.filter (fun e => match e with | .cb _ false _ => false | _ => true)).map showEv

end FFSM2.Driver
