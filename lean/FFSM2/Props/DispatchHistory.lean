import FFSM2.Props.OutcomeHistory
/-!
# C14 over whole histories: a request to id `k` activates exactly the `k`-th state

`C14_history_dispatch` — any configuration with `N` states (`1 ≤ N ≤ 255`), any world, any callback behaviour whose
*guards* stay passive (they neither cancel nor redirect; every other callback may do what it likes): for every state id
`d < N`, `immediateChangeTo(d)` on an active instance runs `exit(old)` then `enter(d)` — `reenter(d)` alone if `d` is
already active — and nothing else of the lifecycle, and the instance ends with state `d` active.  For every `d` and
every `N`, whatever world the call is made in.
-/
namespace FFSM2
open Step Ancestors

/-- guards that neither cancel nor redirect (nor do anything else) -/
def GuardsIdle (beh : Beh) : Prop := ∀ key : Key, key.method.isGuard = true → beh key = []

/-- a step that leaves the core and the veto flag alone -/
def Inert (f : Step) : Prop := ∀ s, (f s).1.core = s.core ∧ (f s).1.cancelled = s.cancelled

theorem Inert.seq {f g : Step} (hf : Inert f) (hg : Inert g) : Inert (f ⋙ g) := by
  intro s
  simp only [Step.seq]
  exact ⟨(hg _).1.trans (hf s).1, (hg _).2.trans (hf s).2⟩

theorem inert_skip : Inert skip := fun _ => ⟨rfl, rfl⟩
theorem inert_emit (e : St → List Ev) : Inert (emit e) := fun _ => ⟨rfl, rfl⟩
theorem inert_seqList {l : List Step} (h : ∀ f ∈ l, Inert f) : Inert (seqList l) := by
  induction l with
  | nil => exact inert_skip
  | cons f fs ih => exact Inert.seq (h f (by simp)) (ih fun g hg => h g (by simp [hg]))

theorem inert_deliverLayer (env : Env) (hb : GuardsIdle env.beh) (m : Method) (hm : m.isGuard = true)
    (sid : Nat) (cur pend : Tr) (layer : Layer) : Inert (deliverLayer env m sid cur pend layer) := by
  intro s
  rw [deliverLayer_eq]
  have hbody : Inert (layerBody env m sid cur pend layer (occOf s.seen (m, sid, layer))) := by
    unfold layerBody
    refine Inert.seq (inert_emit _) ?_
    split
    · rw [hb _ hm]; exact inert_skip
    · exact inert_skip
  exact hbody _

theorem inert_deliver (env : Env) (hb : GuardsIdle env.beh) (m : Method) (hm : m.isGuard = true)
    (sid : Nat) (cur pend : Tr) : Inert (deliver env m sid cur pend) := by
  unfold deliver
  refine Inert.seq (inert_emit _) (inert_seqList ?_)
  intro f hf
  obtain ⟨l, _, rfl⟩ := List.mem_map.mp hf
  exact inert_deliverLayer env hb m hm sid cur pend l

/-- with passive guards a round changes nothing and is not vetoed -/
theorem guardRound_idle (env : Env) (hb : GuardsIdle env.beh) (cur pend : Tr) (s : St) :
    (guardRound env cur pend s).1.core = s.core ∧ (guardRound env cur pend s).1.cancelled = false := by
  unfold guardRound
  simp only [Step.seq, Step.modify]
  have h1 := inert_deliver env hb .exitGuard rfl s.core.active cur pend { s with ts := .none, cancelled := false }
  simp only at h1
  simp only [h1.2, Bool.false_eq_true, if_false]
  have h2 := inert_deliver env hb .entryGuard rfl
    (deliver env .exitGuard s.core.active cur pend { s with ts := .none, cancelled := false }).1.core.requested cur pend
    (deliver env .exitGuard s.core.active cur pend { s with ts := .none, cancelled := false }).1
  exact ⟨h2.1.trans h1.1, h2.2.trans h1.2⟩

/-- with passive guards and a valid outstanding request, exactly one round is evaluated and it is accepted -/
theorem processRounds_idle (env : Env) (hb : GuardsIdle env.beh) (hL : 1 ≤ env.cfg.L) (hL2 : env.cfg.L ≤ 255) (s : St)
    (hv : s.core.request.valid = true) (hne : ({} : Tr).ne ⟨255, s.core.request.dest, none⟩ = true) :
    processRounds env s = [(s.core.request, false)] := by
  have hf : substFuel env.cfg.L = (env.cfg.L - 1) + 1 := by rw [(C04_loop_form _ hL2).1]; omega
  unfold processRounds
  rw [if_pos hv, hf]
  simp only [substRounds, hv, if_true, applyRequest, hne]
  have hg := guardRound_idle env hb {} s.core.request
    { s with core := { ({ s.core with requested := s.core.request.dest } : Core) with
                        request := ({ s.core with requested := s.core.request.dest } : Core).request.clear } }
  rw [hg.2]
  simp only [Bool.false_eq_true, if_false, List.cons.injEq, true_and]
  -- the remaining fuel finds no request
  have hreq : (guardRound env {} s.core.request
      { s with core := { ({ s.core with requested := s.core.request.dest } : Core) with
                          request := ({ s.core with requested := s.core.request.dest } : Core).request.clear } }).1.core.request.valid = false := by
    rw [hg.1]; simp [Tr.clear, Tr.valid]
  cases hk : env.cfg.L - 1 with
  | zero => rfl
  | succ k => simp only [substRounds, hreq, Bool.false_eq_true, if_false]

/-- **C14 over whole histories — dispatch reaches exactly the requested state**, for every `d`, every `N`, any world -/
theorem C14_history_dispatch (cfg : Cfg) (hwf : cfg.WF) (hL : cfg.L ≤ 255) (beh : Beh) (hb : GuardsIdle beh)
    (w : World) (k i d : Nat) (c : Core) (hg : w.get i = some c) (ha : c.active ≠ 255) (hd : d < cfg.n) :
    actOf ((stepAll cfg beh w k (.immediateChangeTo i d)).1.get i) = d ∧
    sig (stepAll cfg beh w k (.immediateChangeTo i d)).2 =
      if d != c.active then [(Method.exit, c.active), (Method.enter, d)] else [(Method.reenter, c.active)] := by
  have hcond : (c.active != 255 && idOk cfg d) = true := by simp [ha, idOk, hd]
  have hd255 : d ≠ 255 := by have := hwf.n_le; omega
  have ho := C02_history_immediate_outcome cfg beh w k i d c hg hcond
  simp only at ho
  have hr : processRounds ⟨cfg, beh, i, k⟩ { core := { c with request := ⟨255, d, none⟩ } } = [(⟨255, d, none⟩, false)] :=
    processRounds_idle ⟨cfg, beh, i, k⟩ hb hwf.L_pos hL _ (by simp [Tr.valid, hd255]) (by simp [Tr.ne]; exact fun h => hd255 h.symm)
  unfold OutcomeOf at ho
  rw [hr] at ho
  simp only [survivor, List.foldl_cons, List.foldl_nil, Bool.false_eq_true, if_false] at ho
  exact ho.2 (by simp [Tr.valid, hd255])

/-- non-vacuity: a 7-state machine; requesting state 5 from the initial state enters state 5 and nothing else -/
example :
    let cfg : Cfg := { n := 7, L := 3, cap := 2 }
    let beh : Beh := fun k => if k.method = .enter then [.planAppend 0 1 none] else []
    let w := (run cfg beh [.construct 0 false]).1
    actOf ((stepAll cfg beh w 1 (.immediateChangeTo 0 5)).1.get 0) = 5 ∧
    sig (stepAll cfg beh w 1 (.immediateChangeTo 0 5)).2 = [(.exit, 0), (.enter, 5)] := by
  decide

end FFSM2
