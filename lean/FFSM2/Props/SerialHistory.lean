import FFSM2.Props.History
import FFSM2.Props.C12
/-!
# C12 over whole histories: what `save()` / `load()` do in any world a history can reach

* `C12_history_load_lifecycle` — active loader, active saver: `load()` runs exactly `exit(old); enter(new)`, or
  `reenter()` alone when the loader is already in the saver's state, and consults no guard;
* `C12_history_load_final_exit` — manual activation, inactive saver, active loader: exactly the final exit;
* `C12_history_load_initial_enter` — manual activation, active saver, inactive loader: exactly the initial enter;
* `C12_history_load_inactive_noop` — manual activation, both inactive: nothing runs;
* `C12_history_save_inert` — `save()` changes nothing in the world and delivers no callback; its buffer has
  exactly the declared byte count;
* `C12_history_buffers_canonical` — any two existing instances for which `save()` is in contract produce equal
  buffers if and only if their activity is the same.
-/
namespace FFSM2
open Step BitStream

theorem load_step_eq (cfg : Cfg) (beh : Beh) (w : World) (k i src : Nat) (c sc : Core)
    (hi : w.get i = some c) (hs : w.get src = some sc)
    (hcond : (cfg.serialization && (cfg.manual || (c.active != 255 && sc.active != 255))) = true) :
    stepAll cfg beh w k (.load i src) = onCore cfg w i k "load" c (load ⟨cfg, beh, i, k⟩ (save cfg sc)) := by
  simp only [stepAll, step, Op.inst, Op.name, hi, hs]
  rw [if_pos hcond]

/-- **load performs exactly the lifecycle needed and consults no guards** (active loader, active saver) -/
theorem C12_history_load_lifecycle (cfg : Cfg) (hwf : cfg.WF) (beh : Beh) (ops : List Op) (k i src : Nat) (c sc : Core)
    (hi : (run cfg beh ops).1.get i = some c) (hs : (run cfg beh ops).1.get src = some sc)
    (hser : cfg.serialization = true) (ha : c.active ≠ 255) (hsa : sc.active ≠ 255) :
    sig (stepAll cfg beh (run cfg beh ops).1 k (.load i src)).2 =
      (if sc.active != c.active then [(.exit, c.active), (.enter, sc.active)] else [(.reenter, c.active)]) ∧
    (stepAll cfg beh (run cfg beh ops).1 k (.load i src)).2.filter Ev.isGuard = [] := by
  have hok := run_worldOk cfg hwf beh ops src sc hs
  generalize (run cfg beh ops).1 = w at hi hs
  have hcond : (cfg.serialization && (cfg.manual || (c.active != 255 && sc.active != 255))) = true := by
    simp [hser, ha, hsa]
  have hlt : sc.active < cfg.n := by
    rcases hok.active with h | h
    · exact h
    · exact absurd h hsa
  rw [load_step_eq cfg beh w k i src c sc hi hs hcond, onCore_snd]
  constructor
  · rw [sig_append, sig_api, List.append_nil]
    exact C12_load_lifecycle ⟨cfg, beh, i, k⟩ hwf sc hlt { core := c } ha
  · rw [List.filter_append, noGuard_load ⟨cfg, beh, i, k⟩ _ { core := c }]
    rfl

/-- **manual activation, inactive saver, active loader**: `load()` is the loader's final exit -/
theorem C12_history_load_final_exit (cfg : Cfg) (hwf : cfg.WF) (beh : Beh) (w : World) (k i src : Nat) (c sc : Core)
    (hi : w.get i = some c) (hs : w.get src = some sc)
    (hser : cfg.serialization = true) (hm : cfg.manual = true) (ha : c.active ≠ 255) (hsa : sc.active = 255) :
    sig (stepAll cfg beh w k (.load i src)).2 = [(.exit, c.active), (.exit, 255)] ∧
    actOf ((stepAll cfg beh w k (.load i src)).1.get i) = 255 := by
  have hcond : (cfg.serialization && (cfg.manual || (c.active != 255 && sc.active != 255))) = true := by
    simp [hser, hm]
  have hact : (c.active != 255) = true := by simpa using ha
  have d := load_decode_inactive cfg hwf sc hm hsa
  have hl : load ⟨cfg, beh, i, k⟩ (save cfg sc) { core := c } = finalExit ⟨cfg, beh, i, k⟩ { core := c } := by
    unfold load
    simp only [d, show ((0:Nat) != 0) = false from by decide, Bool.false_eq_true, if_false, hm, Bool.true_and, hact, if_true]
  rw [load_step_eq cfg beh w k i src c sc hi hs hcond, onCore_snd, onCore_fst, World.get_put_same, sig_append, sig_api,
    List.append_nil, hl]
  exact ⟨(C01_finalExit _ _).2, (C01_finalExit _ _).1⟩

/-- **manual activation, active saver, inactive loader**: `load()` is the initial enter into the saver's state -/
theorem C12_history_load_initial_enter (cfg : Cfg) (hwf : cfg.WF) (beh : Beh) (ops : List Op) (k i src : Nat) (c sc : Core)
    (hi : (run cfg beh ops).1.get i = some c) (hs : (run cfg beh ops).1.get src = some sc)
    (hser : cfg.serialization = true) (hm : cfg.manual = true) (ha : c.active = 255) (hsa : sc.active ≠ 255) :
    sig (stepAll cfg beh (run cfg beh ops).1 k (.load i src)).2 = [(.enter, 255), (.enter, sc.active)] ∧
    actOf ((stepAll cfg beh (run cfg beh ops).1 k (.load i src)).1.get i) = sc.active ∧
    (stepAll cfg beh (run cfg beh ops).1 k (.load i src)).2.filter Ev.isGuard = [] := by
  have hok := run_worldOk cfg hwf beh ops src sc hs
  generalize (run cfg beh ops).1 = w at hi hs
  have hcond : (cfg.serialization && (cfg.manual || (c.active != 255 && sc.active != 255))) = true := by
    simp [hser, hm]
  have hlt : sc.active < cfg.n := by
    rcases hok.active with h | h
    · exact h
    · exact absurd h hsa
  obtain ⟨d1, d2⟩ := load_decode_active cfg hwf sc hlt
  have hl : load ⟨cfg, beh, i, k⟩ (save cfg sc) { core := c } =
      (modifyCore (fun c => { c with requested := sc.active }) ⋙ deepEnter ⟨cfg, beh, i, k⟩ {}) { core := c } := by
    unfold load
    simp only [d1, d2, show ((1:Nat) != 0) = true from by decide, if_true, ha, bne_self_eq_false, Bool.false_eq_true, if_false, hm]
  rw [load_step_eq cfg beh w k i src c sc hi hs hcond, onCore_snd, onCore_fst, World.get_put_same, sig_append, sig_api,
    List.append_nil, List.filter_append, noGuard_load ⟨cfg, beh, i, k⟩ _ { core := c }, hl]
  simp only [Step.seq, modifyCore, List.nil_append]
  refine ⟨(deepEnter_spec _ {} _).2.2, (deepEnter_spec _ {} _).1, rfl⟩

/-- **manual activation, both inactive**: nothing runs, the loader stays inactive -/
theorem C12_history_load_inactive_noop (cfg : Cfg) (hwf : cfg.WF) (beh : Beh) (w : World) (k i src : Nat) (c sc : Core)
    (hi : w.get i = some c) (hs : w.get src = some sc)
    (hser : cfg.serialization = true) (hm : cfg.manual = true) (ha : c.active = 255) (hsa : sc.active = 255) :
    (stepAll cfg beh w k (.load i src)).2.filter Ev.isCb = [] ∧
    (stepAll cfg beh w k (.load i src)).1.get i = some c := by
  have hcond : (cfg.serialization && (cfg.manual || (c.active != 255 && sc.active != 255))) = true := by
    simp [hser, hm]
  have d := load_decode_inactive cfg hwf sc hm hsa
  have hl : load ⟨cfg, beh, i, k⟩ (save cfg sc) { core := c } = ({ core := c }, []) := by
    unfold load
    simp only [d, show ((0:Nat) != 0) = false from by decide, Bool.false_eq_true, if_false, hm, Bool.true_and, ha,
      bne_self_eq_false]
  rw [load_step_eq cfg beh w k i src c sc hi hs hcond, onCore_snd, onCore_fst, World.get_put_same, hl]
  exact ⟨rfl, rfl⟩

/-- **`save()` does not modify the machine** — nor any other instance — **and runs no user code**; the buffer
    it returns has exactly the declared byte count -/
theorem C12_history_save_inert (cfg : Cfg) (hwf : cfg.WF) (beh : Beh) (ops : List Op) (k i : Nat) (c : Core)
    (hi : (run cfg beh ops).1.get i = some c) (hser : cfg.serialization = true) (ha : c.active ≠ 255) :
    (stepAll cfg beh (run cfg beh ops).1 k (.save i)).1 = (run cfg beh ops).1 ∧
    (stepAll cfg beh (run cfg beh ops).1 k (.save i)).2 =
      [.api i k "save" (apiObs cfg c none (some (save cfg c)))] ∧
    (save cfg c).length = byteCount (serialBits cfg) := by
  have hok := run_worldOk cfg hwf beh ops i c hi
  generalize (run cfg beh ops).1 = w at hi
  have hlt : c.active < cfg.n := by
    rcases hok.active with h | h
    · exact h
    · exact absurd h ha
  have hcond : (cfg.serialization && (cfg.manual || c.active != 255)) = true := by
    simp [hser, ha]
  simp only [stepAll, step, Op.inst, Op.name, hi]
  rw [if_pos hcond]
  exact ⟨rfl, rfl, (C12_save_within_capacity cfg hwf c hlt).1⟩

theorem save_inactive_eq (cfg : Cfg) (hm : cfg.manual = true) (c1 c2 : Core) (h1 : c1.active = 255) (h2 : c2.active = 255) :
    save cfg c1 = save cfg c2 := by
  simp [save, hm, h1, h2]

/-- **two machines produce equal buffers if and only if their activity is equal** — for any two instances of a
    reachable world for which `save()` is in contract (manual activation, or both active) -/
theorem C12_history_buffers_canonical (cfg : Cfg) (hwf : cfg.WF) (beh : Beh) (ops : List Op) (i j : Nat) (ci cj : Core)
    (hi : (run cfg beh ops).1.get i = some ci) (hj : (run cfg beh ops).1.get j = some cj)
    (hc : cfg.manual = true ∨ (ci.active ≠ 255 ∧ cj.active ≠ 255)) :
    save cfg ci = save cfg cj ↔ ci.active = cj.active := by
  have oki := (run_worldOk cfg hwf beh ops i ci hi).active
  have okj := (run_worldOk cfg hwf beh ops j cj hj).active
  rcases oki with h1 | h1 <;> rcases okj with h2 | h2
  · exact C12_canonical cfg hwf ci cj h1 h2
  · have hm : cfg.manual = true := by
      rcases hc with h | ⟨_, h⟩
      · exact h
      · exact absurd h2 h
    constructor
    · intro e; exact absurd e.symm (C12_canonical_inactive cfg hwf hm cj ci h2 h1)
    · intro e; rw [h2] at e; rw [e] at h1; exact absurd h1 (by have := hwf.n_le; omega)
  · have hm : cfg.manual = true := by
      rcases hc with h | ⟨h, _⟩
      · exact h
      · exact absurd h1 h
    constructor
    · intro e; exact absurd e (C12_canonical_inactive cfg hwf hm ci cj h1 h2)
    · intro e; rw [h1] at e; rw [← e] at h2; exact absurd h2 (by have := hwf.n_le; omega)
  · have hm : cfg.manual = true := by
      rcases hc with h | ⟨h, _⟩
      · exact h
      · exact absurd h1 h
    exact ⟨fun _ => by rw [h1, h2], fun _ => save_inactive_eq cfg hm ci cj h1 h2⟩

/-- non-vacuity: instance 0 (state 0) loads instance 1's state 2, then its own state again -/
example :
    let cfg : Cfg := { n := 3, L := 2, cap := 2, serialization := true }
    let beh : Beh := fun _ => []
    let w := (run cfg beh [.construct 0 false, .construct 1 false, .immediateChangeTo 1 2]).1
    sig (stepAll cfg beh w 3 (.load 0 1)).2 = [(.exit, 0), (.enter, 2)] ∧
    sig (stepAll cfg beh w 3 (.load 0 0)).2 = [(.reenter, 0)] := by
  decide

end FFSM2
