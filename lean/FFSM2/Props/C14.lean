import FFSM2.Dispatch
/-!
# C14 — State ids follow declaration order and dispatch reaches exactly that state

The halving arithmetic comes from `FFSM2/Gen/Consts.lean`, regenerated from the C++ on every run:
if the split or the comparison changes in the source, these proofs are re-checked against it.
-/
namespace FFSM2
open Dispatch

variable {α : Type}

theorem lower_eq (half : Nat) (l : List α) : ∀ idx, lower half idx l = l.take (half - idx) := by
  induction l with
  | nil => intro idx; simp [lower]
  | cons x xs ih =>
    intro idx
    simp only [lower, Gen.lowerKeeps]
    by_cases h : idx < half
    · have : half - idx = (half - (idx + 1)) + 1 := by omega
      simp [h, ih, this]
    · have h0 : half - idx = 0 := by omega
      have h1 : half - (idx + 1) = 0 := by omega
      simp [h, ih, h0, h1]

theorem upper_eq (half : Nat) (l : List α) : ∀ idx, upper half idx l = l.drop (half - idx) := by
  induction l with
  | nil => intro idx; simp [upper]
  | cons x xs ih =>
    intro idx
    simp only [upper, Gen.upperSkips]
    by_cases h : idx < half
    · have : half - idx = (half - (idx + 1)) + 1 := by omega
      simp [h, ih, this]
    · have h0 : half - idx = 0 := by omega
      simp [h, h0]

theorem lHalf_eq (l : List α) : lHalf l = l.take (l.length / 2) := by
  simp [lHalf, lower_eq, Gen.halfL]

theorem rHalf_eq (l : List α) : rHalf l = l.drop (l.length / 2) := by
  simp [rHalf, upper_eq, Gen.halfR]

/-- general form: any sub-hierarchy `CS_<base, _, prong, l>` routes prong `prong + k` to the k-th
    state of its list, whose id is `base + k`. -/
theorem cs_dispatch : ∀ (fuel : Nat) (l : List α) (base prong k : Nat) (v : α),
    l.length ≤ fuel → l[k]? = some v → wide (cs fuel l base prong) (prong + k) = some (base + k, v) := by
  intro fuel
  induction fuel with
  | zero =>
    intro l base prong k v hl hk
    have : l = [] := List.eq_nil_of_length_eq_zero (by omega)
    subst this; simp at hk
  | succ fuel ih =>
    intro l base prong k v hl hk
    match l, hl, hk with
    | [], _, hk => simp at hk
    | [x], _, hk =>
      have hk0 : k = 0 := by
        cases k with
        | zero => rfl
        | succ k => simp at hk
      subst hk0
      simp at hk; subst hk
      simp [cs, wide]
    | x :: y :: rest, hl, hk =>
      have hn : (x :: y :: rest).length = rest.length + 2 := by simp
      simp only [cs, wide, Gen.rProng, Gen.lStateId, Gen.lProngIndex, Gen.rStateId,
        Gen.rProngIndex, lHalf_eq, rHalf_eq]
      generalize hL : x :: y :: rest = L at *
      have hh1 : 1 ≤ L.length / 2 := by omega
      have hh2 : L.length / 2 < L.length := by omega
      by_cases hlt : k < L.length / 2
      · have : Gen.goesLeft (prong + k) (prong + L.length / 2) = true := by
          simp [Gen.goesLeft]; omega
        rw [if_pos this]
        apply ih
        · rw [List.length_take]; omega
        · rw [List.getElem?_take]; simp [hlt, hk]
      · have : ¬ Gen.goesLeft (prong + k) (prong + L.length / 2) = true := by
          simp [Gen.goesLeft]; omega
        rw [if_neg this]
        have hkk : prong + k = (prong + L.length / 2) + (k - L.length / 2) := by omega
        have hbb : base + k = (base + L.length / 2) + (k - L.length / 2) := by omega
        rw [hkk, hbb]
        apply ih
        · rw [List.length_drop]; omega
        · rw [List.getElem?_drop]
          have : L.length / 2 + (k - L.length / 2) = k := by omega
          rw [this]; exact hk

/-- **C14 dispatch**: for a machine declared with the non-empty state list `l` (any length — no
    bound), requesting prong/id `k` reaches exactly the k-th declared state, and the id that state
    object was materialised with is `k`. -/
theorem C14_dispatch (l : List α) (k : Nat) (v : α) (hk : l[k]? = some v) :
    wide (cs l.length l 0 0) k = some (k, v) := by
  have := cs_dispatch l.length l 0 0 k v (Nat.le_refl _) hk
  simpa using this

theorem findImpl_spec [DecidableEq α] (x : α) : ∀ (l : List α) (i k : Nat),
    l[k]? = some x → (∀ j, j < k → l[j]? ≠ some x) → findImpl x i l = i + k := by
  intro l
  induction l with
  | nil => intro i k h; simp at h
  | cons y ys ih =>
    intro i k h hfirst
    cases k with
    | zero =>
      simp at h; subst h
      simp [findImpl, Gen.findHit]
    | succ k =>
      have hne : ¬ x = y := by
        intro e; exact hfirst 0 (by omega) (by simp [e])
      simp only [findImpl, hne, if_false, Gen.findStep]
      rw [ih (i + 1) k (by simpa using h) (fun j hj => by
        have := hfirst (j + 1) (by omega); simpa using this)]
      omega

theorem findImpl_miss [DecidableEq α] (x : α) : ∀ (l : List α) (i : Nat), x ∉ l → findImpl x i l = 255 := by
  intro l
  induction l with
  | nil => intro i _; simp [findImpl, Gen.findMiss, Gen.INVALID_LONG]
  | cons y ys ih =>
    intro i h
    have hne : ¬ x = y := by intro e; exact h (by simp [e])
    simp only [findImpl, hne, if_false]
    exact ih _ (by intro hm; exact h (by simp [hm]))

/-- **C14 ids**: in a duplicate-free declaration, `stateId<T>()` of the k-th declared state is `k`;
    a type that is not in the list (the root head) gets the invalid id 255. -/
theorem C14_find [DecidableEq α] (l : List α) (hnd : l.Nodup) (k : Nat) (x : α) (hk : l[k]? = some x) :
    index l x = k := by
  have hlt : k < l.length := by
    rcases Nat.lt_or_ge k l.length with h | h
    · exact h
    · rw [List.getElem?_eq_none h] at hk; cases hk
  unfold index
  rw [findImpl_spec x l Gen.findStart k hk]
  · simp [Gen.findStart]
  · intro j hj hj'
    have hjl : j < l.length := by omega
    rw [List.getElem?_eq_getElem hjl] at hj'
    rw [List.getElem?_eq_getElem hlt] at hk
    have e1 : l[j] = x := by simpa using hj'
    have e2 : l[k] = x := by simpa using hk
    have := (List.getElem_inj hnd).mp (e1.trans e2.symm)
    omega

theorem C14_find_head [DecidableEq α] (l : List α) (x : α) (h : x ∉ l) : index l x = 255 :=
  findImpl_miss x l _ h

/-- the merged state list is the declaration order -/
theorem C14_stateList_order (l : List α) : stateList l = l := by
  induction l with
  | nil => rfl
  | cons x xs ih => simp [stateList, ih]

/-- the first declared state has id 0 and prong 0: it is the one activation enters -/
theorem C14_initial_is_first (x : α) (xs : List α) :
    wide (cs (x :: xs).length (x :: xs) 0 0) 0 = some (0, x) :=
  C14_dispatch (x :: xs) 0 x (by simp)

/-- non-vacuity: 5 states — the tree splits 2|3, then 1|1 and 1|2 — every prong reaches its state -/
example : (List.range 5).map (wide (cs 5 ["a","b","c","d","e"] 0 0))
    = [some (0,"a"), some (1,"b"), some (2,"c"), some (3,"d"), some (4,"e")] := by decide

end FFSM2
