import FFSM2.Lemmas.Steps
/-!
# C01 — Exactly one active state; enter/exit strictly paired over the whole lifetime

`sig` is the lifecycle signature of a trace: which state's own `enter` / `exit` / `reenter` ran, in
order (deliveries to states that do not define the callback included).  `LifePath a sg a'` says that
`sg` is a correctly paired lifecycle starting with active state `a` (255 = inactive) and ending with `a'`.
-/
namespace FFSM2
open Step

/-- correctly paired lifecycle paths -/
inductive LifePath : Nat → List (Method × Nat) → Nat → Prop
  | nil (a : Nat) : LifePath a [] a
  | reenter {a a' : Nat} {rest} : a ≠ 255 → LifePath a rest a' → LifePath a ((.reenter, a) :: rest) a'
  | change {a d a' : Nat} {rest} : a ≠ 255 → d ≠ 255 → LifePath d rest a' →
      LifePath a ((.exit, a) :: (.enter, d) :: rest) a'
  | activate {d a' : Nat} {rest} : d ≠ 255 → LifePath d rest a' →
      LifePath 255 ((.enter, 255) :: (.enter, d) :: rest) a'
  | deactivate {a a' : Nat} {rest} : a ≠ 255 → LifePath 255 rest a' →
      LifePath a ((.exit, a) :: (.exit, 255) :: rest) a'

theorem LifePath.append {a b c : Nat} {s1 s2 : List (Method × Nat)} (h1 : LifePath a s1 b) (h2 : LifePath b s2 c) :
    LifePath a (s1 ++ s2) c := by
  induction h1 with
  | nil a => simpa using h2
  | reenter ha _ ih => exact LifePath.reenter ha (ih h2)
  | change ha hd _ ih => exact LifePath.change ha hd (ih h2)
  | activate hd _ ih => exact LifePath.activate hd (ih h2)
  | deactivate ha _ ih => exact LifePath.deactivate ha (ih h2)

/-- **processing** keeps the pairing: nothing, `reenter` of the active state, or `exit(old); enter(new)` -/
theorem C01_processRequest (env : Env) (s : St) (ha : s.core.active ≠ 255) :
    LifePath s.core.active (sig (processRequest env s).2) (processRequest env s).1.core.active ∧
    (processRequest env s).1.core.active ≠ 255 := by
  have h := processRequest_spec env s
  cases hv : (survivor {} (processRounds env s)).valid
  · obtain ⟨h1, h2⟩ := h.2.2.2.1 hv
    rw [h1, h2]; exact ⟨LifePath.nil _, ha⟩
  · obtain ⟨h1, h2⟩ := h.2.2.2.2 hv
    have hd : (survivor {} (processRounds env s)).dest ≠ 255 := by simpa [Tr.valid] using hv
    rw [h1, h2]
    refine ⟨?_, hd⟩
    split
    · exact LifePath.change ha hd (LifePath.nil _)
    · rename_i hne
      have : (survivor {} (processRounds env s)).dest = s.core.active := by simpa using hne
      rw [this]
      exact LifePath.reenter ha (LifePath.nil _)

/-- **update / react**: the phases and the plan step run no lifecycle callback; the call's lifecycle
    is that of its processing point -/
theorem C01_cycle (env : Env) (pre mid post : Method)
    (hpre : pre.isLife = false) (hmid : mid.isLife = false) (hpost : post.isLife = false)
    (s : St) (ha : s.core.active ≠ 255) :
    LifePath s.core.active (sig (cycle env pre mid post s).2) (cycle env pre mid post s).1.core.active ∧
    (cycle env pre mid post s).1.core.active ≠ 255 := by
  have hq : NoLife (prelude env pre mid post) := by
    apply silent_prelude methodPred_isLife
    intro m hm
    rcases hm with rfl | rfl | rfl | rfl | rfl
    · exact life_excludes hpre
    · exact life_excludes hmid
    · exact life_excludes hpost
    · exact life_excludes rfl
    · exact life_excludes rfl
  have hst := (stable_prelude env pre mid post s).1
  have hp := C01_processRequest env (prelude env pre mid post s).1 (by rw [hst]; exact ha)
  rw [cycle_eq, sig_seq, sig_of_noLife hq, List.nil_append]
  simp only [Step.seq]
  rw [hst] at hp
  exact hp

/-- `enterSurvivor`: the tail of activation enters the root, then exactly one state -/
theorem enterSurvivor_spec (env : Env) (cur : Tr) (s : St) :
    (enterSurvivor env cur s).1.core.active = (if cur.valid then cur.dest else 0) ∧
    sig (enterSurvivor env cur s).2 = [(.enter, 255), (.enter, if cur.valid then cur.dest else 0)] := by
  unfold enterSurvivor
  simp only [Step.seq, modifyCore]
  have h := deepEnter_spec env cur
    { s with core := { s.core with prev := if env.cfg.history then cur else s.core.prev,
                                   requested := if cur.valid then cur.dest else 0 } }
  refine ⟨h.1, ?_⟩
  simp only [sig_append, sig_nil, List.nil_append, List.append_nil]
  exact h.2.2

/-- **activation** (constructor, or `enter()` under manual activation): from the inactive machine,
    root `enter`, then `enter` of exactly one state — the surviving redirect's destination or state 0 —
    which is the active state afterwards; the guard rounds before it run no lifecycle callback -/
theorem C01_initialEnter (env : Env) (s : St) :
    ∃ d, (initialEnter env s).1.core.active = d ∧ sig (initialEnter env s).2 = [(.enter, 255), (.enter, d)] ∧
      (d = 0 ∨ ∃ r ∈ substRounds (entryGuardRound env) (substFuel env.cfg.L) {}
          (entryGuardRound env {} {} { s with core := (applyRequest {} 0 s.core).1 }).1, r.2 = false ∧ d = r.1.dest) := by
  unfold initialEnter
  simp only
  generalize hs0 : ({ s with core := (applyRequest {} 0 s.core).1 } : St) = s0
  generalize hr0 : entryGuardRound env {} {} s0 = r0
  have hq0 : sig r0.2 = [] := by rw [← hr0]; exact sig_of_noLife (noLife_entryGuardRound env {} {}) s0
  have hq := substLoop_sig (entryGuardRound env) (stable_entryGuardRound env) (noLife_entryGuardRound env)
    (substFuel env.cfg.L) {} r0.1
  have hcur := substLoop_current (entryGuardRound env) (substFuel env.cfg.L) {} r0.1
  generalize hS : substLoop (entryGuardRound env) (substFuel env.cfg.L) {} r0.1 = S at hq hcur
  obtain ⟨e1, e2⟩ := enterSurvivor_spec env S.1.2 S.1.1
  refine ⟨_, e1, ?_, ?_⟩
  · simp only [sig_append, hq0, hq, List.nil_append]; exact e2
  · cases hv : S.1.2.valid
    · left; simp
    · right
      simp only [if_true]
      rw [hcur] at hv ⊢
      have := survivor_cases {} (substRounds (entryGuardRound env) (substFuel env.cfg.L) {} r0.1)
      rcases this with e | ⟨r, hr, hr2, e⟩
      · rw [e] at hv; simp [Tr.valid] at hv
      · exact ⟨r, hr, hr2, by rw [e]⟩
where
  survivor_cases (cur0 : Tr) (rounds : List (Tr × Bool)) :
      survivor cur0 rounds = cur0 ∨ ∃ r ∈ rounds, r.2 = false ∧ survivor cur0 rounds = r.1 := by
    induction rounds generalizing cur0 with
    | nil => left; rfl
    | cons r rs ih =>
      simp only [survivor, List.foldl_cons]
      cases hc : r.2
      · simp only [Bool.false_eq_true, if_false]
        rcases ih r.1 with e | ⟨x, hx, hx2, e⟩
        · right; exact ⟨r, by simp, hc, e⟩
        · right; exact ⟨x, by simp [hx], hx2, e⟩
      · simp only [if_true]
        rcases ih cur0 with e | ⟨x, hx, hx2, e⟩
        · left; exact e
        · right; exact ⟨x, by simp [hx], hx2, e⟩

/-- **deactivation** (`exit()` / destruction): `exit` of the active state, then of the root; the
    machine is inactive afterwards — no `enter` is left unpaired -/
theorem C01_finalExit (env : Env) (s : St) :
    (finalExit env s).1.core.active = 255 ∧ sig (finalExit env s).2 = [(.exit, s.core.active), (.exit, 255)] := by
  unfold finalExit
  simp only [Step.seq, modifyCore]
  have h := deepExit_spec env {} s
  refine ⟨?_, by simp only [sig_append, sig_nil, List.append_nil]; exact h.2.2⟩
  cases h1 : env.cfg.history <;> cases h2 : env.cfg.plans <;> simp [planDataClear]

/-- replay: `reenter` only for the state that is active, otherwise `exit(old); enter(d)` -/
theorem C01_replayTransition (env : Env) (d : Nat) (hd : d ≠ 255) (s : St) (ha : s.core.active ≠ 255) :
    LifePath s.core.active (sig (replayTransition env d s).2) d ∧ (replayTransition env d s).1.core.active = d := by
  unfold replayTransition
  simp only [Step.seq, modifyCore, sig_append, sig_nil, List.nil_append, List.append_nil]
  have hne : (255 : Nat) ≠ d := fun e => hd e.symm
  have h := changeToRequested_spec env {} { s with core := { (applyRequest {} d { s.core with prev := s.core.prev.clear }).1 with prev := ⟨255, d, none⟩ } }
  have hreq : ({ s with core := { (applyRequest {} d { s.core with prev := s.core.prev.clear }).1 with prev := ⟨255, d, none⟩ } } : St).core.requested = d := by
    simp [applyRequest, Tr.ne, hne]
  have hact : ({ s with core := { (applyRequest {} d { s.core with prev := s.core.prev.clear }).1 with prev := ⟨255, d, none⟩ } } : St).core.active = s.core.active := by
    simp [applyRequest, Tr.ne, hne]
  refine ⟨?_, by rw [h.1, hreq]⟩
  rw [h.2.2, hreq, hact]
  split
  · exact LifePath.change ha hd (LifePath.nil _)
  · rename_i hne'
    have : d = s.core.active := by simpa using hne'
    subst this
    exact LifePath.reenter ha (LifePath.nil _)

/-- **what user code observes is the registry**: at every API boundary `activeStateId()` is the
    `active` field, `isActive(j)` is one-hot at it, an inactive machine reports no active state -/
theorem C01_active_observation (cfg : Cfg) (c : Core) (hc : c.active < cfg.n ∨ c.active = 255) (hn : cfg.n ≤ 255) :
    (apiObs cfg c).active = c.active ∧
    (∀ j, j < cfg.n → (apiObs cfg c).isActive.getD j false = decide (c.active = j)) ∧
    (c.active = 255 → ∀ j, (apiObs cfg c).isActive.getD j false = false) := by
  refine ⟨rfl, fun j hj => ?_, fun h j => ?_⟩
  · simp [apiObs, List.getD_eq_getElem?_getD, hj, BEq.beq]
  · simp only [apiObs, List.getD_eq_getElem?_getD]
    by_cases hj : j < cfg.n
    · simp [hj, h]; omega
    · simp [hj]

/-- non-vacuity: activation, a vetoed request, a surviving one, `reenter`, deactivation -/
example :
    let cfg : Cfg := { n := 3, L := 2, cap := 1, manual := true }
    let beh : Beh := fun k => if k.method = .exitGuard ∧ k.op = 2 then [.cancel] else []
    let r := run cfg beh [.construct 0 false, .enter 0, .immediateChangeTo 0 1, .immediateChangeTo 0 2,
                          .immediateChangeTo 0 2, .exit 0]
    sig r.2 = [(.enter, 255), (.enter, 0), (.exit, 0), (.enter, 2), (.reenter, 2), (.exit, 2), (.exit, 255)] ∧
    LifePath 255 (sig r.2) 255 := by
  refine ⟨by decide, ?_⟩
  have h : sig (run { n := 3, L := 2, cap := 1, manual := true }
      (fun k => if k.method = .exitGuard ∧ k.op = 2 then [.cancel] else [])
      [.construct 0 false, .enter 0, .immediateChangeTo 0 1, .immediateChangeTo 0 2, .immediateChangeTo 0 2, .exit 0]).2
      = [(.enter, 255), (.enter, 0), (.exit, 0), (.enter, 2), (.reenter, 2), (.exit, 2), (.exit, 255)] := by decide
  rw [h]
  exact .activate (by decide) (.change (by decide) (by decide) (.reenter (by decide) (.deactivate (by decide) (.nil _))))

end FFSM2
