import FFSM2.Lemmas.BitArray
import FFSM2.Arrays
/-!
# C20 — Bit sets and fixed arrays behave like their mathematical models

Property theorems only. Models: `FFSM2/BitArray.lean` (literal port of `BitArrayT`),
`FFSM2/Arrays.lean` (`StaticArrayT`, `DynamicArrayT`, `IteratorT`).
-/
namespace FFSM2
open BitArray

/-- the mathematical model: a set of integers below the capacity, as a predicate -/
def absStep (cap : Nat) (f : Nat → Bool) : Op → (Nat → Bool)
  | .set i => fun j => decide (j = i) || f j
  | .clear i => fun j => !decide (j = i) && f j
  | .setAll => fun j => decide (j < cap)
  | .clearAll => fun _ => false
  | .andAssign o => fun j => f j && bit o j

def absRun (cap : Nat) (ops : List Op) : Nat → Bool := ops.foldl (absStep cap) (fun _ => false)

/-- in-contract operations: indices below the capacity (`FFSM2_ASSERT(index < CAPACITY)`), and-assign
    operands are bit arrays of the same capacity -/
def OpOk (cap : Nat) : Op → Prop
  | .set i => i < cap
  | .clear i => i < cap
  | .setAll => True
  | .clearAll => True
  | .andAssign o => Inv cap o

theorem step_refines {cap : Nat} {units : List Nat} {f : Nat → Bool} (h : Inv cap units)
    (hf : ∀ j, bit units j = f j) (op : Op) (hop : OpOk cap op) :
    Inv cap (step cap units op) ∧ ∀ j, bit (step cap units op) j = absStep cap f op j := by
  have hlen : ∀ i, i < cap → i / 8 < units.length := by
    intro i hi; rw [h.length]; have := unitCount_ge cap; omega
  cases op with
  | set i => exact ⟨inv_set h hop, fun j => by simp only [step, absStep]; rw [bit_set (hlen i hop), hf]⟩
  | clear i => exact ⟨inv_clear h hop, fun j => by simp only [step, absStep]; rw [bit_clear (hlen i hop) h.bytes, hf]⟩
  | setAll => exact ⟨inv_setAll h, fun j => by simp only [step, absStep]; rw [bit_setAll h.length]⟩
  | clearAll => exact ⟨inv_clearAll h, fun j => by simp only [step, absStep]; rw [bit_clearAll]⟩
  | andAssign o => exact ⟨inv_andAssign h hop, fun j => by simp only [step, absStep]; rw [bit_andAssign, hf]⟩

theorem foldl_refines {cap : Nat} (ops : List Op) : ∀ {units : List Nat} {f : Nat → Bool},
    Inv cap units → (∀ j, bit units j = f j) → (∀ op ∈ ops, OpOk cap op) →
    Inv cap (ops.foldl (step cap) units) ∧
      ∀ j, bit (ops.foldl (step cap) units) j = ops.foldl (absStep cap) f j := by
  induction ops with
  | nil => intro units f h hf _; exact ⟨h, hf⟩
  | cons op ops ih =>
    intro units f h hf hok
    obtain ⟨h', hf'⟩ := step_refines h hf op (hok op (by simp))
    exact ih h' hf' (fun o ho => hok o (by simp [ho]))

/-- **C20 refinement**: for every capacity and every in-contract operation sequence from a fresh
    bit array, `get` answers exactly like the set-of-integers model, `empty` is true exactly when
    the model set is empty, and the representation invariant (length, byte-ness, clear padding
    bits) holds.  (Needs the F4 repair of `set()`.) -/
theorem C20_bitarray_refines (cap : Nat) (ops : List Op) (hok : ∀ op ∈ ops, OpOk cap op) :
    Inv cap (run cap ops) ∧
    (∀ j, get (run cap ops) j = absRun cap ops j) ∧
    (empty (run cap ops) = true ↔ ∀ j, j < cap → absRun cap ops j = false) := by
  obtain ⟨h1, h2⟩ := foldl_refines (cap := cap) ops (inv_init cap) (bit_init cap) hok
  change BitArray.Inv cap (run cap ops) at h1
  change ∀ j, bit (run cap ops) j = absRun cap ops j at h2
  refine ⟨h1, fun j => by rw [get_eq_bit]; exact h2 j, ?_⟩
  rw [empty_iff h1]
  constructor
  · intro h j hj; rw [← h j hj]; exact (h2 j).symm
  · intro h j hj; rw [← h j hj]; exact h2 j

/-- **independence**: `set(i)` / `clear(i)` never disturb another index -/
theorem C20_bitarray_independent {cap : Nat} {units : List Nat} (h : Inv cap units) {i j : Nat}
    (hi : i < cap) (hij : j ≠ i) :
    get (BitArray.set units i) j = get units j ∧ get (BitArray.clear units i) j = get units j := by
  have hlen : i / 8 < units.length := by
    rw [h.length]; have := unitCount_ge cap; omega
  simp only [get_eq_bit]
  rw [bit_set hlen, bit_clear hlen h.bytes]
  simp [hij]

/-- `set(i)` then `get(i)` is true, `clear(i)` then `get(i)` is false -/
theorem C20_bitarray_own_index {cap : Nat} {units : List Nat} (h : Inv cap units) {i : Nat}
    (hi : i < cap) :
    get (BitArray.set units i) i = true ∧ get (BitArray.clear units i) i = false := by
  have hlen : i / 8 < units.length := by
    rw [h.length]; have := unitCount_ge cap; omega
  simp only [get_eq_bit]
  rw [bit_set hlen, bit_clear hlen h.bytes]
  simp

/-- every unit index computed by get/set/clear is inside the storage (used by C18) -/
theorem C20_unit_index_in_range {cap i : Nat} (hi : i < cap) : i / 8 < unitCount cap := by
  have := unitCount_ge cap; omega

/-- non-vacuity and the F4 witness: capacity 12, set-all then clear every index → empty;
    without masking the padding (the pre-fix code) the same sequence is not empty. -/
example : empty (run 12 (Op.setAll :: (List.range 12).map Op.clear)) = true := by decide
example : empty (((List.range 12).map Op.clear).foldl (step 12) [255, 255]) = false := by decide

/-! ## Fixed and growable arrays -/
open Arrays

/-- `a[i] = v` then `a[j]`: the value last stored at `j` -/
theorem C20_static_get_set {α : Type} (items : List α) (dflt v : α) (i j : Nat) (hi : i < items.length) :
    Static.get (Static.put items i v) dflt j = if j = i then v else Static.get items dflt j := by
  unfold Static.get Static.put
  simp only [List.getD_eq_getElem?_getD, List.getElem?_set]
  by_cases h : i = j
  · subst h; simp [hi]
  · have : ¬ j = i := fun e => h e.symm
    simp [h, this]

/-- `fill(v)` / `clear()` overwrite every element and keep the element count -/
theorem C20_fill_clear {α : Type} (items : List α) (dflt v : α) :
    (Static.fill items v).length = items.length ∧
    ∀ j, j < items.length → Static.get (Static.fill items v) dflt j = v := by
  unfold Static.fill Static.get
  refine ⟨by simp, fun j hj => ?_⟩
  simp [List.getD_eq_getElem?_getD, List.getElem?_map, List.getElem?_eq_getElem hj]

/-- after `clear()`, `empty()` is true -/
theorem C20_clear_empty {α : Type} [BEq α] [ReflBEq α] (items : List α) (filler : α) :
    Static.empty (Static.clear items filler) filler = true := by
  unfold Static.empty Static.clear Static.fill
  simp [List.all_eq_true]

theorem iterLoop_spec {α : Type} (items : List α) (dflt : α) (limit : Nat) :
    ∀ (fuel cursor : Nat), cursor + fuel = limit →
      Static.iterLoop items dflt limit fuel cursor
        = (List.range' cursor fuel).map (fun i => (i, items.getD i dflt)) := by
  intro fuel
  induction fuel with
  | zero => intro cursor _; simp [Static.iterLoop]
  | succ fuel ih =>
    intro cursor h
    have hne : (cursor != limit) = true := by simp; omega
    simp only [Static.iterLoop, hne, if_true, List.range'_succ, List.map_cons]
    rw [ih (cursor + 1) (by omega)]

/-- iteration visits each element exactly once, in index order -/
theorem C20_iter_in_order {α : Type} (items : List α) (dflt : α) :
    Static.iterate items dflt = (List.range items.length).map (fun i => (i, items.getD i dflt)) := by
  unfold Static.iterate
  rw [iterLoop_spec items dflt items.length items.length 0 (by omega), List.range_eq_range']

/-- well-formedness of the growable array: count within capacity, storage of `cap` slots -/
structure DynInv {α : Type} (a : Dynamic.Arr α) : Prop where
  len : a.items.length = a.cap
  cnt : a.count ≤ a.cap

/-- abstraction: the first `count` slots -/
def dynAbs {α : Type} (a : Dynamic.Arr α) : List α := a.items.take a.count

/-- **growable array**: an in-contract `emplace` appends at the end (insertion order preserved),
    bumps the count by one and returns the old count as index -/
theorem C20_dynamic_order_count {α : Type} (a : Dynamic.Arr α) (v : α) (h : DynInv a)
    (hroom : a.count < a.cap) :
    dynAbs (Dynamic.emplace a v).1 = dynAbs a ++ [v] ∧
    (Dynamic.emplace a v).1.count = a.count + 1 ∧ (Dynamic.emplace a v).2 = a.count ∧
    DynInv (Dynamic.emplace a v).1 := by
  unfold dynAbs Dynamic.emplace
  refine ⟨?_, rfl, rfl, ⟨by simp [h.len], by simp; omega⟩⟩
  simp only
  have hc : a.count < a.items.length := by rw [h.len]; exact hroom
  rw [List.take_add_one, List.take_set_of_le (Nat.le_refl _)]
  simp [hc]

/-- **batch append** (`a += other`): with room for all of them, every item of `other` is appended, in
    order, the count grows by their number — up to and including exactly filling the array -/
theorem C20_dynamic_appendAll {α : Type} : ∀ (vs : List α) (a : Dynamic.Arr α), DynInv a → a.count + vs.length ≤ a.cap →
    dynAbs (Dynamic.appendAll a vs) = dynAbs a ++ vs ∧ (Dynamic.appendAll a vs).count = a.count + vs.length ∧
    DynInv (Dynamic.appendAll a vs)
  | [], a, h, _ => ⟨by simp [Dynamic.appendAll], by simp [Dynamic.appendAll], h⟩
  | v :: vs, a, h, hroom => by
    have hr : a.count < a.cap := by simp only [List.length_cons] at hroom; omega
    obtain ⟨e1, e2, _, e4⟩ := C20_dynamic_order_count a v h hr
    have hcap : (Dynamic.emplace a v).1.cap = a.cap := rfl
    obtain ⟨i1, i2, i3⟩ := C20_dynamic_appendAll vs (Dynamic.emplace a v).1 e4
      (by rw [e2, hcap]; simp only [List.length_cons] at hroom; omega)
    have hstep : Dynamic.appendAll a (v :: vs) = Dynamic.appendAll (Dynamic.emplace a v).1 vs := by
      simp [Dynamic.appendAll]
    rw [hstep]
    refine ⟨?_, ?_, i3⟩
    · rw [i1, e1]; simp
    · rw [i2, e2]; simp only [List.length_cons]; omega

/-- iteration over the growable array yields exactly the inserted items in order -/
theorem C20_dynamic_iter {α : Type} (a : Dynamic.Arr α) (dflt : α) (h : DynInv a) :
    (Dynamic.iterate a dflt).map Prod.snd = dynAbs a := by
  unfold Dynamic.iterate dynAbs
  rw [iterLoop_spec a.items dflt a.count a.count 0 (by omega)]
  have hc : a.count ≤ a.items.length := by rw [h.len]; exact h.cnt
  apply List.ext_getElem
  · simp; omega
  · intro i h1 h2
    simp at h1 h2
    simp [List.getD_eq_getElem?_getD, List.getElem?_eq_getElem (show i < a.items.length by omega)]

/-- `clear()` empties it; capacity is available again -/
theorem C20_dynamic_clear {α : Type} (a : Dynamic.Arr α) (h : DynInv a) :
    dynAbs (Dynamic.clear a) = [] ∧ Dynamic.empty (Dynamic.clear a) = true ∧ DynInv (Dynamic.clear a) := by
  unfold dynAbs Dynamic.clear Dynamic.empty
  exact ⟨by simp, by simp, ⟨h.len, Nat.zero_le _⟩⟩

end FFSM2
