import FFSM2.Lemmas.Steps
/-!
# C11 — Transition history mirrors what happened; replay keeps replicas in sync
-/
namespace FFSM2
open Step

/-- **history = applied transition**: after a processing step `previousTransition()` is the request
    that survived (origin, destination and payload are fields of the same `Tr` value), its
    destination is the now-active state, and it is empty iff the step applied none -/
theorem C11_history_is_applied (env : Env) (hh : env.cfg.history = true) (s : St) :
    let cur := survivor {} (processRounds env s)
    (processRequest env s).1.core.prev = cur ∧
    (cur.valid = true → (processRequest env s).1.core.active = cur.dest) ∧
    (cur.valid = false → (processRequest env s).1.core.active = s.core.active) := by
  intro cur
  have h := processRequest_spec env s
  exact ⟨h.2.2.1 hh, fun hv => (h.2.2.2.2 hv).1, fun hv => (h.2.2.2.1 hv).1⟩

/-- `replayTransition(d)` on any core: the replica ends in state `d`, records `d` as its history and
    consults no guard (its guards may be arbitrarily hostile: they are never delivered) -/
theorem C11_replay_spec (env : Env) (d : Nat) (hd : d ≠ 255) (s : St) :
    (replayTransition env d s).1.core.active = d ∧
    (replayTransition env d s).1.core.requested = 255 ∧
    (replayTransition env d s).2.filter Ev.isGuard = [] := by
  refine ⟨?_, ?_, noGuard_replayTransition env d s⟩
  · unfold replayTransition
    simp only [Step.seq, modifyCore]
    rw [(changeToRequested_spec env {} _).1]
    have : (255 : Nat) ≠ d := fun e => hd e.symm
    simp [applyRequest, Tr.ne, this]
  · unfold replayTransition
    simp only [Step.seq, modifyCore]

/-- `replayEnter(d)`: same for activation -/
theorem C11_replayEnter_spec (env : Env) (d : Nat) (hd : d ≠ 255) (s : St) :
    (replayEnter env d s).1.core.active = d ∧ (replayEnter env d s).2.filter Ev.isGuard = [] := by
  refine ⟨?_, noGuard_replayEnter env d s⟩
  unfold replayEnter
  simp only [Step.seq, modifyCore]
  rw [(deepEnter_spec env {} _).1]
  have : (255 : Nat) ≠ d := fun e => hd e.symm
  simp [applyRequest, Tr.ne, this]

/-- **replica in sync**: feed the authority's `previousTransition().destination` after a processing
    step that applied a transition to `replayTransition` on ANY replica (any state, any behaviour):
    both end in the same active state -/
theorem C11_replica_in_sync (envA envR : Env) (hh : envA.cfg.history = true) (sA sR : St)
    (hv : (survivor {} (processRounds envA sA)).valid = true) :
    let auth := (processRequest envA sA).1.core
    (replayTransition envR auth.prev.dest sR).1.core.active = auth.active := by
  intro auth
  obtain ⟨h1, h2, _⟩ := C11_history_is_applied envA hh sA
  have hd : auth.prev.dest ≠ 255 := by
    show (processRequest envA sA).1.core.prev.dest ≠ 255
    rw [h1]; simpa [Tr.valid] using hv
  rw [(C11_replay_spec envR _ hd sR).1]
  show (processRequest envA sA).1.core.prev.dest = (processRequest envA sA).1.core.active
  rw [h1, h2 hv]

/-- … and when the authority applied nothing its history is empty (destination 255): the replica is
    told nothing and both stay where they were -/
theorem C11_replica_idle (envA : Env) (hh : envA.cfg.history = true) (sA : St)
    (hv : (survivor {} (processRounds envA sA)).valid = false) :
    (processRequest envA sA).1.core.prev.valid = false ∧
    (processRequest envA sA).1.core.active = sA.core.active := by
  obtain ⟨h1, _, h3⟩ := C11_history_is_applied envA hh sA
  exact ⟨by rw [h1]; exact hv, h3 hv⟩

/-- **`replayTransition(INVALID)`** (Q4): returns false, runs no callback, leaves activity, plan and
    request untouched; it clears the history -/
theorem C11_replay_invalid (cfg : Cfg) (beh : Beh) (w : World) (k i : Nat) (c : Core)
    (hw : w.get i = some c) (hh : cfg.history = true) (ha : c.active ≠ 255) :
    step cfg beh w k (.replayTransition i 255) =
      (w.put i (some { c with prev := c.prev.clear }),
       [.api i k "replayTransition" (apiObs cfg { c with prev := c.prev.clear } (some false))]) := by
  have hact : (c.active != 255) = true := by simpa using ha
  simp [step, hw, hh, hact, Op.inst, onCore, modifyCore, Op.name]

end FFSM2
