import FFSM2.Lemmas.HBlindWorld
import FFSM2.Lemmas.SBlind
import FFSM2.Props.History
/-!
# C19 over whole histories — TRANSITION_HISTORY is neutral

For every configuration, every callback behaviour and every history of API calls that does not use the calls the
feature adds (`replayTransition` / `replayEnter`): running the history with the feature compiled out gives exactly
the same events — every callback with the same observation, every action, every log record, every API result —
except that API observations no longer carry `previousTransition()`, and leaves every instance in the same state
except for the recorded transition.  (`Lemmas/HBlind.lean`: no step reads the recorded transition; the four places
that mention the switch — `finishProcessing`, `enterSurvivor`, `finalExit`, `loadActive` — only write it.)
-/
namespace FFSM2
open Step

/-- **the feature switch changes nothing a program that does not use the feature can see** -/
theorem C19_history_neutral_transition_history (cfg : Cfg) (beh : Beh) (ops : List Op)
    (h : ∀ op ∈ ops, op.usesHistory = false) :
    (run (cfgOff cfg) beh ops).1 = eraseW (run cfg beh ops).1 ∧
    noPrev (run (cfgOff cfg) beh ops).2 = noPrev (run cfg beh ops).2 :=
  runFrom_off cfg beh ops [] 0 h

theorem filter_isCb_noPrev : ∀ es : List Ev, (noPrev es).filter Ev.isCb = es.filter Ev.isCb
  | [] => rfl
  | e :: es => by
    have ih := filter_isCb_noPrev es
    cases e <;> simp only [noPrev, List.map_cons, List.filter_cons, Ev.noPrev, Ev.isCb] at ih ⊢ <;> simp [ih]

/-- in particular: the same callbacks are delivered, in the same order, each with the same view -/
theorem C19_history_neutral_callbacks (cfg : Cfg) (beh : Beh) (ops : List Op) (h : ∀ op ∈ ops, op.usesHistory = false) :
    (run (cfgOff cfg) beh ops).2.filter Ev.isCb = (run cfg beh ops).2.filter Ev.isCb := by
  rw [← filter_isCb_noPrev, (C19_history_neutral_transition_history cfg beh ops h).2, filter_isCb_noPrev]

/-- … and every instance ends in the same activity, with the same request and the same plan -/
theorem C19_history_neutral_state (cfg : Cfg) (beh : Beh) (ops : List Op) (h : ∀ op ∈ ops, op.usesHistory = false) (i : Nat) :
    ((run (cfgOff cfg) beh ops).1.get i).map (fun c => (c.active, c.request, c.plan, c.succ, c.fail)) =
    ((run cfg beh ops).1.get i).map (fun c => (c.active, c.request, c.plan, c.succ, c.fail)) := by
  rw [(C19_history_neutral_transition_history cfg beh ops h).1, eraseW_get]
  cases (run cfg beh ops).1.get i <;> rfl

/-- non-vacuity: the history of seed C02f (request, load, update) — with and without the feature the same events
    up to the `previousTransition()` column, and here they do differ in that column -/
example :
    let cfg : Cfg := { n := 3, L := 2, cap := 2, serialization := true, history := true }
    let beh : Beh := fun _ => []
    let ops : List Op := [.construct 0 false, .construct 1 false, .immediateChangeTo 1 1, .changeTo 0 2, .load 0 1, .update 0]
    noPrev (run (cfgOff cfg) beh ops).2 = noPrev (run cfg beh ops).2 ∧
    (run (cfgOff cfg) beh ops).2 ≠ (run cfg beh ops).2 := by
  decide

/-! ### SERIALIZATION -/

/-- **C19 over whole histories — SERIALIZATION is neutral**: for every configuration, behaviour and history that
    never calls `save()` / `load()`, compiling the feature out changes nothing at all — the same events and the
    same world (no step of the model mentions the switch; only the two calls' guards do) -/
theorem C19_history_neutral_serialization (cfg : Cfg) (beh : Beh) (ops : List Op)
    (h : ∀ op ∈ ops, op.usesSerialization = false) :
    run (cfgS cfg) beh ops = run cfg beh ops :=
  runFrom_S cfg beh ops [] 0 h

/-- … and the two switches together: histories using neither feature -/
theorem C19_history_neutral_both (cfg : Cfg) (beh : Beh) (ops : List Op)
    (h1 : ∀ op ∈ ops, op.usesHistory = false) (h2 : ∀ op ∈ ops, op.usesSerialization = false) :
    noPrev (run (cfgOff (cfgS cfg)) beh ops).2 = noPrev (run cfg beh ops).2 := by
  rw [(C19_history_neutral_transition_history (cfgS cfg) beh ops h1).2, C19_history_neutral_serialization cfg beh ops h2]

end FFSM2
