import FFSM2.Lemmas.HBlindWorld
import FFSM2.Lemmas.SBlind
import FFSM2.Lemmas.PBlindWorld
import FFSM2.Lemmas.LBlindWorld
import FFSM2.Props.History
/-!
# C19 over whole histories — every behavioural feature switch is neutral for programs that do not use the feature

For every configuration, every callback behaviour and every history of API calls that does not use the calls the
feature adds (`replayTransition` / `replayEnter`): running the history with the feature compiled out gives exactly
the same events — every callback with the same observation, every action, every log record, every API result —
except that API observations no longer carry `previousTransition()`, and leaves every instance in the same state
except for the recorded transition.  (`Lemmas/HBlind.lean`: no step reads the recorded transition; the four places
that mention the switch — `finishProcessing`, `enterSurvivor`, `finalExit`, `loadActive` — only write it.)
-/
namespace FFSM2
open Step

/-- **the feature switch changes nothing a program that does not use the feature can see** -/
theorem C19_history_neutral_transition_history (cfg : Cfg) (beh : Beh) (ops : List Op)
    (h : ∀ op ∈ ops, op.usesHistory = false) :
    (run (cfgOff cfg) beh ops).1 = eraseW (run cfg beh ops).1 ∧
    noPrev (run (cfgOff cfg) beh ops).2 = noPrev (run cfg beh ops).2 :=
  runFrom_off cfg beh ops [] 0 h

theorem filter_isCb_noPrev : ∀ es : List Ev, (noPrev es).filter Ev.isCb = es.filter Ev.isCb
  | [] => rfl
  | e :: es => by
    have ih := filter_isCb_noPrev es
    cases e <;> simp only [noPrev, List.map_cons, List.filter_cons, Ev.noPrev, Ev.isCb] at ih ⊢ <;> simp [ih]

/-- in particular: the same callbacks are delivered, in the same order, each with the same view -/
theorem C19_history_neutral_callbacks (cfg : Cfg) (beh : Beh) (ops : List Op) (h : ∀ op ∈ ops, op.usesHistory = false) :
    (run (cfgOff cfg) beh ops).2.filter Ev.isCb = (run cfg beh ops).2.filter Ev.isCb := by
  rw [← filter_isCb_noPrev, (C19_history_neutral_transition_history cfg beh ops h).2, filter_isCb_noPrev]

/-- … and every instance ends in the same activity, with the same request and the same plan -/
theorem C19_history_neutral_state (cfg : Cfg) (beh : Beh) (ops : List Op) (h : ∀ op ∈ ops, op.usesHistory = false) (i : Nat) :
    ((run (cfgOff cfg) beh ops).1.get i).map (fun c => (c.active, c.request, c.plan, c.succ, c.fail)) =
    ((run cfg beh ops).1.get i).map (fun c => (c.active, c.request, c.plan, c.succ, c.fail)) := by
  rw [(C19_history_neutral_transition_history cfg beh ops h).1, eraseW_get]
  cases (run cfg beh ops).1.get i <;> rfl

/-- non-vacuity: the history of seed C02f (request, load, update) — with and without the feature the same events
    up to the `previousTransition()` column, and here they do differ in that column -/
example :
    let cfg : Cfg := { n := 3, L := 2, cap := 2, serialization := true, history := true }
    let beh : Beh := fun _ => []
    let ops : List Op := [.construct 0 false, .construct 1 false, .immediateChangeTo 1 1, .changeTo 0 2, .load 0 1, .update 0]
    noPrev (run (cfgOff cfg) beh ops).2 = noPrev (run cfg beh ops).2 ∧
    (run (cfgOff cfg) beh ops).2 ≠ (run cfg beh ops).2 := by
  decide

/-! ### SERIALIZATION -/

/-- **C19 over whole histories — SERIALIZATION is neutral**: for every configuration, behaviour and history that
    never calls `save()` / `load()`, compiling the feature out changes nothing at all — the same events and the
    same world (no step of the model mentions the switch; only the two calls' guards do) -/
theorem C19_history_neutral_serialization (cfg : Cfg) (beh : Beh) (ops : List Op)
    (h : ∀ op ∈ ops, op.usesSerialization = false) :
    run (cfgS cfg) beh ops = run cfg beh ops :=
  runFrom_S cfg beh ops [] 0 h

/-- … and the two switches together: histories using neither feature -/
theorem C19_history_neutral_both (cfg : Cfg) (beh : Beh) (ops : List Op)
    (h1 : ∀ op ∈ ops, op.usesHistory = false) (h2 : ∀ op ∈ ops, op.usesSerialization = false) :
    noPrev (run (cfgOff (cfgS cfg)) beh ops).2 = noPrev (run cfg beh ops).2 := by
  rw [(C19_history_neutral_transition_history (cfgS cfg) beh ops h1).2, C19_history_neutral_serialization cfg beh ops h2]

/-! ### PLANS -/

/-- **C19 over whole histories — PLANS is neutral**: for every configuration, every behaviour whose callbacks
    perform no plan action (no `succeed()` / `fail()`, no plan edit) and every history without the plan calls
    (`succeed` / `fail` / `plan().…` from outside): compiling the feature out leaves every instance in exactly the
    same state and produces exactly the same events, except that observations no longer carry a plan view.
    (`Lemmas/PBlind.lean`: from a state with nothing of the feature outstanding — `Idle` — every step does the same
    with and without the feature and stays idle; the plan step, `clearTaskStatus`, `planData.clear()` are no-ops
    there.) -/
theorem C19_history_neutral_plans (cfg : Cfg) (beh : Beh) (ops : List Op) (hb : PlanFree beh)
    (h : ∀ op ∈ ops, op.usesPlans = false) :
    run (cfgP cfg) beh ops = ((run cfg beh ops).1, noPlan (run cfg beh ops).2) :=
  (runFrom_P cfg beh hb ops [] 0 worldIdle_nil h).1

/-- … and such a program never has anything of the feature outstanding (so `planSucceeded` / `planFailed` have
    nothing to report, cf. `C09_history_never_without_task`) -/
theorem C19_history_plans_stay_idle (cfg : Cfg) (beh : Beh) (ops : List Op) (hb : PlanFree beh)
    (h : ∀ op ∈ ops, op.usesPlans = false) (i : Nat) (c : Core) (hg : (run cfg beh ops).1.get i = some c) :
    c.plan = [] ∧ c.planExists = false :=
  let hw := (runFrom_P cfg beh hb ops [] 0 worldIdle_nil h).2 i c hg
  ⟨hw.1, hw.2.1⟩

/-- non-vacuity: guards redirecting and cancelling, a load, updates — with and without PLANS -/
example :
    let cfg : Cfg := { n := 3, L := 2, cap := 2, serialization := true, plans := true }
    let beh : Beh := fun k => if k.method = .entryGuard ∧ k.sid = 1 then [.changeTo 2] else if k.method = .exitGuard ∧ k.sid = 2 then [.cancel] else []
    let ops : List Op := [.construct 0 false, .construct 1 false, .immediateChangeTo 1 1, .changeTo 0 2, .load 0 1, .update 0, .react 1]
    run (cfgP cfg) beh ops = ((run cfg beh ops).1, noPlan (run cfg beh ops).2) ∧
    (run (cfgP cfg) beh ops).2 ≠ (run cfg beh ops).2 := by
  decide

/-! ### all three switches -/

/-- **a program that uses none of the three features sees none of them**: callbacks without plan actions, a history
    without the plan, serialization and replay calls — the build with PLANS, SERIALIZATION and TRANSITION_HISTORY all
    compiled out produces the events of the build with all of them in, up to the two columns the features add to an
    observation (plan view, `previousTransition()`) -/
theorem C19_history_neutral_all (cfg : Cfg) (beh : Beh) (ops : List Op) (hb : PlanFree beh)
    (h1 : ∀ op ∈ ops, op.usesPlans = false) (h2 : ∀ op ∈ ops, op.usesSerialization = false)
    (h3 : ∀ op ∈ ops, op.usesHistory = false) :
    noPrev (run (cfgOff (cfgS (cfgP cfg))) beh ops).2 = noPrev (noPlan (run cfg beh ops).2) := by
  rw [(C19_history_neutral_transition_history (cfgS (cfgP cfg)) beh ops h3).2,
    C19_history_neutral_serialization (cfgP cfg) beh ops h2, C19_history_neutral_plans cfg beh ops hb h1]

/-! ### LOG_INTERFACE and VERBOSE_DEBUG_LOG -/

/-- **C19 over whole histories — the logging switches are neutral**: for every configuration, behaviour and history
    in which no logger is ever attached (no `attachLogger`, no instance constructed with one): whatever the two
    logging switches are set to, the run is the same — the same events and the same world.  (What an *attached*
    logger changes is `C16_history_noninterference`: log records only.) -/
theorem C19_history_neutral_logging (l v : Bool) (cfg : Cfg) (beh : Beh) (ops : List Op)
    (h : ∀ op ∈ ops, op.usesLogging = false) :
    run (cfgL l v cfg) beh ops = run cfg beh ops :=
  (runFrom_L l v cfg beh ops [] 0 worldNoLog_nil h).1

/-- **all five behavioural switches at once**: a program that uses none of the features (no logger, no plan action
    or plan call, no `save()` / `load()`, no replay call) behaves under the build with everything compiled out as
    under the build with everything compiled in, up to the two observation columns the features add -/
theorem C19_history_neutral_every_switch (l v : Bool) (cfg : Cfg) (beh : Beh) (ops : List Op) (hb : PlanFree beh)
    (h0 : ∀ op ∈ ops, op.usesLogging = false) (h1 : ∀ op ∈ ops, op.usesPlans = false)
    (h2 : ∀ op ∈ ops, op.usesSerialization = false) (h3 : ∀ op ∈ ops, op.usesHistory = false) :
    noPrev (run (cfgOff (cfgS (cfgP (cfgL l v cfg)))) beh ops).2 = noPrev (noPlan (run cfg beh ops).2) := by
  rw [C19_history_neutral_all (cfgL l v cfg) beh ops hb h1 h2 h3, C19_history_neutral_logging l v cfg beh ops h0]

end FFSM2
