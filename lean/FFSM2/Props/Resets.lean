import FFSM2.Machine
/-!
# What `load()` and the final exit reset — as the source says it, on every run

`Gen.loadSteps` / `Gen.exitSteps` are **regenerated from the source on every run** (`tools/translate.py`, group
`resets`): the reset statements of `R_::load(ReadStream&)` and `R_::finalExit()` in source order, each with the feature
switch it is compiled under, and the position of the lifecycle delivery among them.

    statement  0 `_core.request.clear()`   1 `_core.planData.clear()`   2 `_core.previousTransition.clear()`
               3 the delivery (`deepChangeToRequested` / `deepExit`)    4 `_core.registry.clear()`
    guard      0 unconditional   1 `FFSM2_PLANS_AVAILABLE()`   2 `FFSM2_TRANSITION_HISTORY_AVAILABLE()`   9 anything else

`runSteps` interprets such a list; the theorems state that the model's `loadActive` / `finalExit` are exactly the
interpretation of what the source says now.  Moving a reset under a different switch, or to the other side of the
delivery, changes the regenerated list and these proofs no longer check.
-/
namespace FFSM2
open Step

def guardOn (cfg : Cfg) : Nat → Bool
  | 0 => true
  | 1 => cfg.plans
  | 2 => cfg.history
  | _ => false

def resetStmt (cfg : Cfg) (st : Nat × Nat) (c : Core) : Core :=
  if guardOn cfg st.2 then
    match st.1 with
    | 0 => { c with request := c.request.clear }
    | 1 => planDataClear c
    | 2 => { c with prev := c.prev.clear }
    | 4 => { c with requested := 255, active := 255 }
    | _ => c
  else c

def runSteps (cfg : Cfg) (delivery : Step) : List (Nat × Nat) → Step
  | [] => skip
  | st :: rest =>
    (if st.1 = 3 then (if guardOn cfg st.2 then delivery else skip) else modifyCore (resetStmt cfg st)) ⋙
      runSteps cfg delivery rest

/-- **`load()` of an active machine is what the source says**: the registry receives the loaded state, then the
    statements of `Gen.loadSteps` run in their source order under their source switches -/
theorem C12_load_resets_as_in_source (env : Env) (r : Nat) :
    loadActive env r =
      modifyCore (fun c => { c with requested := r }) ⋙ runSteps env.cfg (changeToRequested env {}) Gen.loadSteps := by
  funext s
  cases hp : env.cfg.plans <;> cases hh : env.cfg.history <;>
    simp [loadActive, runSteps, Gen.loadSteps, resetStmt, guardOn, Step.seq, modifyCore, skip, hp, hh, planDataClear]

/-- **the final exit is what the source says**: the delivery first, then the resets of `Gen.exitSteps` -/
theorem C01_finalExit_resets_as_in_source (env : Env) :
    finalExit env = runSteps env.cfg (deepExit env {}) Gen.exitSteps := by
  funext s
  cases hp : env.cfg.plans <;> cases hh : env.cfg.history <;>
    simp [finalExit, runSteps, Gen.exitSteps, resetStmt, guardOn, Step.seq, modifyCore, skip, hp, hh, planDataClear]

/-- in the source, `load()` discards the waiting request unconditionally and before it delivers anything -/
theorem C06_load_discards_request_first_in_source :
    (Gen.loadSteps.takeWhile (fun st => st.1 != 3)).contains (0, 0) = true := by decide

/-- **each reset is compiled under exactly the switch of the feature whose state it resets** — the request and the
    registry unconditionally, the plan data under PLANS, the recorded transition under TRANSITION_HISTORY — in
    `load()` and in the final exit alike (no reset of one feature sits inside another feature's `#if`) -/
theorem C19_resets_guarded_by_own_feature :
    ∀ st ∈ Gen.loadSteps ++ Gen.exitSteps,
      (st.1 = 0 → st.2 = 0) ∧ (st.1 = 1 → st.2 = 1) ∧ (st.1 = 2 → st.2 = 2) ∧ (st.1 = 3 → st.2 = 0) ∧ (st.1 = 4 → st.2 = 0) := by
  decide

end FFSM2
