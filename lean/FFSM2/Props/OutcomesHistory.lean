import FFSM2.Props.History
import FFSM2.Lemmas.PlanStep
/-!
# C09 over whole histories: which plan outcome callback a call delivers, and why

`C09_history_update_outcomes` / `C09_history_react_outcomes` — any world, an active instance: the plan outcome
callbacks of the call are exactly those of its plan step, run from the state `s2` the three phases left
(`cyclePhases`); hence `planFailed` is delivered only if a failure is outstanding at that point (reported during this
call's phases, or the active state's failure bit), `planSucceeded` only if success is outstanding and no task remains,
and — when the plan is non-empty-or-not and the active state's failure bit is set with a plan in existence —
`planFailed` *is* delivered in that same call.
-/
namespace FFSM2
open Step

theorem outcomes_api (i k : Nat) (name : String) (o : ApiObs) : outcomes [Ev.api i k name o] = [] := rfl

/-- the outcome callbacks of a cycle are those of its plan step -/
theorem outcomes_cycle_eq (env : Env) (pre mid post : Method)
    (h1 : Excl Ev.isOutcome pre) (h2 : Excl Ev.isOutcome mid) (h3 : Excl Ev.isOutcome post) (s : St) :
    outcomes (cycle env pre mid post s).2 =
      if env.cfg.plans then outcomes (planStep env (cyclePhases env pre mid post s).1).2 else [] := by
  have hph : ∀ m hf, Excl Ev.isOutcome m → Silent Ev.isOutcome (phase env m hf) :=
    fun m hf hm => silent_phase methodPred_isOutcome env m hm hf
  have hphases : Silent Ev.isOutcome (cyclePhases env pre mid post) := by
    unfold cyclePhases
    exact Silent.seq (Silent.seq (Silent.seq (silent_modify _ _) (hph pre _ h1)) (hph mid _ h2)) (hph post _ h3)
  rw [cycle_eq_phases]
  simp only [Step.seq, outcomes_append]
  rw [outcomes_step_of_silent hphases, outcomes_step_of_silent (silentG_processRequest methodPred_isOutcome exclCore_isOutcome env),
    List.nil_append, List.append_nil]
  split
  · rfl
  · rfl

/-- what the outcome callbacks of a cycle say about the state the phases left -/
def Warranted (env : Env) (s2 : St) (outs : List Method) : Prop :=
  outs.length ≤ 1 ∧
  (Method.planFailed ∈ outs → s2.core.subStatus = .failure ∨ getBit s2.core.fail s2.core.active = true) ∧
  (Method.planSucceeded ∈ outs → cycleStatus s2 = .success ∧ s2.core.plan = []) ∧
  (env.cfg.plans = true → getBit s2.core.fail s2.core.active = true → s2.core.planExists = true → outs = [.planFailed])

theorem warranted_cycle (env : Env) (pre mid post : Method)
    (h1 : Excl Ev.isOutcome pre) (h2 : Excl Ev.isOutcome mid) (h3 : Excl Ev.isOutcome post) (s : St) :
    Warranted env (cyclePhases env pre mid post s).1 (outcomes (cycle env pre mid post s).2) := by
  rw [outcomes_cycle_eq env pre mid post h1 h2 h3 s]
  by_cases hp : env.cfg.plans = true
  · simp only [hp, if_true]
    exact ⟨C09_exclusive env _, (C09_only_if env _).1, (C09_only_if env _).2, fun _ hf he => C09_failed_if env _ hf he⟩
  · simp only [hp, if_false, Bool.false_eq_true]
    exact ⟨Nat.zero_le _, (fun h => by cases h), (fun h => by cases h), (fun h => absurd h hp)⟩

/-- **C09 over whole histories — `update()`** -/
theorem C09_history_update_outcomes (cfg : Cfg) (beh : Beh) (w : World) (k i : Nat) (c : Core)
    (hg : w.get i = some c) (ha : c.active ≠ 255) :
    Warranted ⟨cfg, beh, i, k⟩ (cyclePhases ⟨cfg, beh, i, k⟩ .preUpdate .update .postUpdate { core := c }).1
      (outcomes (stepAll cfg beh w k (.update i)).2) := by
  have hact : (c.active != 255) = true := by simpa using ha
  simp only [stepAll, step, Op.inst, Op.name, hg]
  rw [if_pos hact, onCore_snd, outcomes_append, outcomes_api, List.append_nil]
  exact warranted_cycle ⟨cfg, beh, i, k⟩ .preUpdate .update .postUpdate
    (outcome_excl (by decide) (by decide)) (outcome_excl (by decide) (by decide)) (outcome_excl (by decide) (by decide)) _

/-- **C09 over whole histories — `react()`** -/
theorem C09_history_react_outcomes (cfg : Cfg) (beh : Beh) (w : World) (k i : Nat) (c : Core)
    (hg : w.get i = some c) (ha : c.active ≠ 255) :
    Warranted ⟨cfg, beh, i, k⟩ (cyclePhases ⟨cfg, beh, i, k⟩ .preReact .react .postReact { core := c }).1
      (outcomes (stepAll cfg beh w k (.react i)).2) := by
  have hact : (c.active != 255) = true := by simpa using ha
  simp only [stepAll, step, Op.inst, Op.name, hg]
  rw [if_pos hact, onCore_snd, outcomes_append, outcomes_api, List.append_nil]
  exact warranted_cycle ⟨cfg, beh, i, k⟩ .preReact .react .postReact
    (outcome_excl (by decide) (by decide)) (outcome_excl (by decide) (by decide)) (outcome_excl (by decide) (by decide)) _

/-- an outcome callback leaves the plan empty: whenever the plan step delivers one, the plan is empty right after it -/
theorem planStep_outcome_empties (env : Env) (s : St) (h : outcomes (planStep env s).2 ≠ []) :
    (planStep env s).1.core.plan = [] := by
  have hc := C09_planStep_cases env s
  by_cases hp : s.core.planExists = true
  · cases hst : cycleStatus s with
    | none => exact absurd (hc.1 (Or.inl hst)).1 h
    | failure => exact (hc.2.1 hst hp).2
    | success =>
      by_cases hpl : s.core.plan = []
      · exact (hc.2.2.2 hst hp hpl).2
      · exact absurd (hc.2.2.1 hst hp hpl) h
  · have hp' : s.core.planExists = false := by simpa using hp
    exact absurd (hc.1 (Or.inr hp')).1 h

/-- **C09 over whole histories — after an outcome callback the plan is empty.**  Any world, `update()` on an active
    instance: if the call delivers `planSucceeded()` or `planFailed()`, the plan at the end of the call consists of
    nothing but what user code appended *after* the plan step (during request processing): it is the edit trace of the
    events of that last part of the call applied to the empty plan. -/
theorem C09_history_plan_empty_after_outcome (cfg : Cfg) (beh : Beh) (w : World) (k i : Nat) (c : Core)
    (hg : w.get i = some c) (ha : c.active ≠ 255)
    (ho : outcomes (stepAll cfg beh w k (.update i)).2 ≠ []) :
    ∃ es12 es3, (stepAll cfg beh w k (.update i)).2 = es12 ++ es3 ∧
      ∀ c', (stepAll cfg beh w k (.update i)).1.get i = some c' → c'.plan = editsPlan cfg.cap es3 [] := by
  have hact : (c.active != 255) = true := by simpa using ha
  simp only [stepAll, step, Op.inst, Op.name, hg] at ho ⊢
  rw [if_pos hact] at ho ⊢
  rw [onCore_snd, outcomes_append, outcomes_api, List.append_nil] at ho
  -- decomposition of the cycle
  let e : Env := ⟨cfg, beh, i, k⟩
  let r1 := cyclePhases e .preUpdate .update .postUpdate { core := c }
  let r2 := (if e.cfg.plans then planStep e else skip) r1.1
  let r3 := processRequest e r2.1
  have hcyc : update e { core := c } = (r3.1, (r1.2 ++ r2.2) ++ r3.2) := by
    show cycle e .preUpdate .update .postUpdate { core := c } = _
    rw [cycle_eq_phases]; rfl
  have hout : outcomes (update e { core := c }).2 = if e.cfg.plans then outcomes (planStep e r1.1).2 else [] :=
    outcomes_cycle_eq e .preUpdate .update .postUpdate (outcome_excl (by decide) (by decide))
      (outcome_excl (by decide) (by decide)) (outcome_excl (by decide) (by decide)) { core := c }
  have hplans : e.cfg.plans = true := by
    by_cases hp : e.cfg.plans = true
    · exact hp
    · rw [hout] at ho; simp only [hp, if_false, Bool.false_eq_true] at ho; exact absurd rfl ho
  have hr2 : r2 = planStep e r1.1 := by simp only [r2, hplans, if_true]
  have hempty : r2.1.core.plan = [] := by
    rw [hr2]
    apply planStep_outcome_empties
    rw [hout] at ho
    simpa only [hplans, if_true] using ho
  refine ⟨r1.2 ++ r2.2, r3.2 ++ [.api i k "update" (apiObs cfg r3.1.core none)], ?_, ?_⟩
  · rw [onCore_snd, hcyc]; simp only [List.append_assoc]
  · intro c' hc'
    rw [onCore_fst, World.get_put_same, hcyc] at hc'
    cases hc'
    rw [editsPlan_append, editsPlan_noEdit _ [_] _ (by intro x hx; simp only [List.mem_singleton] at hx; rw [hx]; rfl)]
    have := planTrace_processRequest e r2.1
    rw [hempty] at this
    exact this


/-- the phases leave the active state and the failure bits of states that did not report alone only as far as user
    code says; in particular the active state seen by the plan step is the one the call began in -/
theorem C09_history_phases_keep_active (env : Env) (pre mid post : Method) (s : St) :
    (cyclePhases env pre mid post s).1.core.active = s.core.active := (stable_phases env pre mid post s).1

/-- non-vacuity: a failure reported during `update` with a task in the plan delivers `planFailed` in that call -/
example :
    let cfg : Cfg := { n := 2, L := 2, cap := 2, plans := true }
    let beh : Beh := fun k => if k.method = .update ∧ k.sid = 0 then [.fail none] else []
    let w := (run cfg beh [.construct 0 false, .planAppend 0 0 1 none]).1
    outcomes (stepAll cfg beh w 2 (.update 0)).2 = [.planFailed] := by
  decide

end FFSM2
