import FFSM2.Props.History
import FFSM2.Lemmas.PlanStep
/-!
# C09 over whole histories: which plan outcome callback a call delivers, and why

`C09_history_update_outcomes` / `C09_history_react_outcomes` — any world, an active instance: the plan outcome
callbacks of the call are exactly those of its plan step, run from the state `s2` the three phases left
(`cyclePhases`); hence `planFailed` is delivered only if a failure is outstanding at that point (reported during this
call's phases, or the active state's failure bit), `planSucceeded` only if success is outstanding and no task remains,
and — when the plan is non-empty-or-not and the active state's failure bit is set with a plan in existence —
`planFailed` *is* delivered in that same call.
-/
namespace FFSM2
open Step

theorem outcomes_api (i k : Nat) (name : String) (o : ApiObs) : outcomes [Ev.api i k name o] = [] := rfl

/-- the outcome callbacks of a cycle are those of its plan step -/
theorem outcomes_cycle_eq (env : Env) (pre mid post : Method)
    (h1 : Excl Ev.isOutcome pre) (h2 : Excl Ev.isOutcome mid) (h3 : Excl Ev.isOutcome post) (s : St) :
    outcomes (cycle env pre mid post s).2 =
      if env.cfg.plans then outcomes (planStep env (cyclePhases env pre mid post s).1).2 else [] := by
  have hph : ∀ m hf, Excl Ev.isOutcome m → Silent Ev.isOutcome (phase env m hf) :=
    fun m hf hm => silent_phase methodPred_isOutcome env m hm hf
  have hphases : Silent Ev.isOutcome (cyclePhases env pre mid post) := by
    unfold cyclePhases
    exact Silent.seq (Silent.seq (Silent.seq (silent_modify _ _) (hph pre _ h1)) (hph mid _ h2)) (hph post _ h3)
  rw [cycle_eq_phases]
  simp only [Step.seq, outcomes_append]
  rw [outcomes_step_of_silent hphases, outcomes_step_of_silent (silentG_processRequest methodPred_isOutcome exclCore_isOutcome env),
    List.nil_append, List.append_nil]
  split
  · rfl
  · rfl

/-- what the outcome callbacks of a cycle say about the state the phases left -/
def Warranted (env : Env) (s2 : St) (outs : List Method) : Prop :=
  outs.length ≤ 1 ∧
  (Method.planFailed ∈ outs → s2.core.subStatus = .failure ∨ getBit s2.core.fail s2.core.active = true) ∧
  (Method.planSucceeded ∈ outs → cycleStatus s2 = .success ∧ s2.core.plan = []) ∧
  (env.cfg.plans = true → getBit s2.core.fail s2.core.active = true → s2.core.planExists = true → outs = [.planFailed])

theorem warranted_cycle (env : Env) (pre mid post : Method)
    (h1 : Excl Ev.isOutcome pre) (h2 : Excl Ev.isOutcome mid) (h3 : Excl Ev.isOutcome post) (s : St) :
    Warranted env (cyclePhases env pre mid post s).1 (outcomes (cycle env pre mid post s).2) := by
  rw [outcomes_cycle_eq env pre mid post h1 h2 h3 s]
  by_cases hp : env.cfg.plans = true
  · simp only [hp, if_true]
    exact ⟨C09_exclusive env _, (C09_only_if env _).1, (C09_only_if env _).2, fun _ hf he => C09_failed_if env _ hf he⟩
  · simp only [hp, if_false, Bool.false_eq_true]
    exact ⟨Nat.zero_le _, (fun h => by cases h), (fun h => by cases h), (fun h => absurd h hp)⟩

/-- **C09 over whole histories — `update()`** -/
theorem C09_history_update_outcomes (cfg : Cfg) (beh : Beh) (w : World) (k i : Nat) (c : Core)
    (hg : w.get i = some c) (ha : c.active ≠ 255) :
    Warranted ⟨cfg, beh, i, k⟩ (cyclePhases ⟨cfg, beh, i, k⟩ .preUpdate .update .postUpdate { core := c }).1
      (outcomes (stepAll cfg beh w k (.update i)).2) := by
  have hact : (c.active != 255) = true := by simpa using ha
  simp only [stepAll, step, Op.inst, Op.name, hg]
  rw [if_pos hact, onCore_snd, outcomes_append, outcomes_api, List.append_nil]
  exact warranted_cycle ⟨cfg, beh, i, k⟩ .preUpdate .update .postUpdate
    (outcome_excl (by decide) (by decide)) (outcome_excl (by decide) (by decide)) (outcome_excl (by decide) (by decide)) _

/-- **C09 over whole histories — `react()`** -/
theorem C09_history_react_outcomes (cfg : Cfg) (beh : Beh) (w : World) (k i : Nat) (c : Core)
    (hg : w.get i = some c) (ha : c.active ≠ 255) :
    Warranted ⟨cfg, beh, i, k⟩ (cyclePhases ⟨cfg, beh, i, k⟩ .preReact .react .postReact { core := c }).1
      (outcomes (stepAll cfg beh w k (.react i)).2) := by
  have hact : (c.active != 255) = true := by simpa using ha
  simp only [stepAll, step, Op.inst, Op.name, hg]
  rw [if_pos hact, onCore_snd, outcomes_append, outcomes_api, List.append_nil]
  exact warranted_cycle ⟨cfg, beh, i, k⟩ .preReact .react .postReact
    (outcome_excl (by decide) (by decide)) (outcome_excl (by decide) (by decide)) (outcome_excl (by decide) (by decide)) _

/-- the phases leave the active state and the failure bits of states that did not report alone only as far as user
    code says; in particular the active state seen by the plan step is the one the call began in -/
theorem C09_history_phases_keep_active (env : Env) (pre mid post : Method) (s : St) :
    (cyclePhases env pre mid post s).1.core.active = s.core.active := (stable_phases env pre mid post s).1

/-- non-vacuity: a failure reported during `update` with a task in the plan delivers `planFailed` in that call -/
example :
    let cfg : Cfg := { n := 2, L := 2, cap := 2, plans := true }
    let beh : Beh := fun k => if k.method = .update ∧ k.sid = 0 then [.fail none] else []
    let w := (run cfg beh [.construct 0 false, .planAppend 0 0 1 none]).1
    outcomes (stepAll cfg beh w 2 (.update 0)).2 = [.planFailed] := by
  decide

end FFSM2
