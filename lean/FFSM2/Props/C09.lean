import FFSM2.Props.C08
/-!
# C09 — planSucceeded / planFailed are delivered exactly when warranted

The plan step of a cycle (`C_::deepUpdatePlans` + `FullControlT::updatePlan` + `clearRegionStatuses`).
`cycleStatus s` is the status the step acts on: what the phase callbacks of this cycle reported
(`subStatus`, Q6) combined with the active state's outstanding failure / success bit.
-/
namespace FFSM2
open Step

/-- the status the plan step acts on -/
def cycleStatus (s : St) : Status := s.core.subStatus.or (stateStatus s.core)

/-- plan-outcome deliveries of a trace, in order -/
def outcomes (es : List Ev) : List Method :=
  (ownSig es).filterMap (fun p => if p.1 == .planFailed || p.1 == .planSucceeded then some p.1 else none)

theorem outcomes_deliver (env : Env) (m : Method) (h : m = .planFailed ∨ m = .planSucceeded) (s : St) :
    outcomes (deliver env m 255 {} {} s).2 = [m] := by
  unfold outcomes
  rw [ownSig_deliver]
  rcases h with rfl | rfl <;> rfl

theorem firePlan_no_cb (env : Env) (tasks : List Task) (s : St) (clr : List Nat) :
    ownSig (firePlan env tasks s clr).2 = [] :=
  ownSig_eq_nil_of_noCb (firePlan_quiet methodPred_isCb env tasks s clr).2.2

/-- **the four cases of the plan step**, for every configuration, behaviour and state:
    * nothing outstanding, or no task ever appended since activation/load ⇒ no callback, plan untouched;
    * failure outstanding ⇒ exactly `planFailed`, no task fires, plan empty afterwards;
    * success outstanding, plan non-empty ⇒ no outcome callback (tasks may fire);
    * success outstanding, plan empty ⇒ exactly `planSucceeded`, plan empty afterwards. -/
theorem C09_planStep_cases (env : Env) (s : St) :
    ((cycleStatus s = .none ∨ s.core.planExists = false) →
        outcomes (planStep env s).2 = [] ∧ (planStep env s).1.core.plan = s.core.plan ∧
        (planStep env s).1.core.request = s.core.request) ∧
    (cycleStatus s = .failure → s.core.planExists = true →
        outcomes (planStep env s).2 = [.planFailed] ∧ (planStep env s).1.core.plan = []) ∧
    (cycleStatus s = .success → s.core.planExists = true → s.core.plan ≠ [] →
        outcomes (planStep env s).2 = []) ∧
    (cycleStatus s = .success → s.core.planExists = true → s.core.plan = [] →
        outcomes (planStep env s).2 = [.planSucceeded] ∧ (planStep env s).1.core.plan = []) := by
  unfold cycleStatus
  refine ⟨?_, ?_, ?_, ?_⟩
  · intro h
    have hc : (s.core.subStatus.or (stateStatus s.core) != Status.none && s.core.planExists) = false := by
      rcases h with h | h
      · simp [h]
      · simp [h]
    simp only [planStep, hc, Bool.false_eq_true, if_false]
    exact ⟨rfl, trivial, trivial⟩
  · intro hf hp
    simp only [planStep, hf, hp]
    simp only [show (Status.failure != Status.none && true) = true from by decide, if_true, Step.seq, Step.modify, modifyCore,
      List.append_nil]
    refine ⟨?_, rfl⟩
    unfold outcomes
    simp only [ownSig_append, ownSig_nil, List.nil_append, List.append_nil]
    exact outcomes_deliver env .planFailed (Or.inl rfl) _
  · intro hs hp hne
    have hemp : s.core.plan.isEmpty = false := by
      cases hpl : s.core.plan with
      | nil => exact absurd hpl hne
      | cons _ _ => rfl
    simp only [planStep, hs, hp, hemp]
    simp only [show (Status.success != Status.none && true) = true from by decide, if_true, Bool.not_false]
    unfold outcomes
    rw [firePlan_no_cb]; rfl
  · intro hs hp hnil
    simp only [planStep, hs, hp, hnil]
    simp only [show (Status.success != Status.none && true) = true from by decide, if_true, List.isEmpty_nil,
      Bool.not_true, Bool.false_eq_true, if_false, Step.seq, Step.modify, modifyCore, List.append_nil]
    refine ⟨?_, rfl⟩
    unfold outcomes
    simp only [ownSig_append, ownSig_nil, List.nil_append, List.append_nil]
    exact outcomes_deliver env .planSucceeded (Or.inr rfl) _

/-- **at most one of them per cycle** -/
theorem C09_exclusive (env : Env) (s : St) : (outcomes (planStep env s).2).length ≤ 1 := by
  have h := C09_planStep_cases env s
  by_cases hp : s.core.planExists = true
  · cases hst : cycleStatus s
    · rw [(h.1 (Or.inl hst)).1]; simp
    · by_cases hpl : s.core.plan = []
      · rw [(h.2.2.2 hst hp hpl).1]; simp
      · rw [h.2.2.1 hst hp hpl]; simp
    · rw [(h.2.1 hst hp).1]; simp
  · have hp' : s.core.planExists = false := by simpa using hp
    rw [(h.1 (Or.inr hp')).1]; simp

/-- **never on a machine to which no task has been added since activation / load**: `planExists` is
    false in the initial core, after `finalExit` and after `load`; only an append sets it -/
theorem C09_never_without_plan (cfg : Cfg) (lg : Bool) :
    (initCore cfg lg).planExists = false ∧ ∀ c, (planDataClear c).planExists = false := ⟨rfl, fun _ => rfl⟩

/-- the status the step acts on is failure whenever the active state's failure report is outstanding,
    so with a plan in existence `planFailed` is delivered in that same cycle -/
theorem C09_failed_if (env : Env) (s : St) (hf : getBit s.core.fail s.core.active = true) (hp : s.core.planExists = true) :
    outcomes (planStep env s).2 = [.planFailed] := by
  have hst : cycleStatus s = .failure := by
    unfold cycleStatus stateStatus
    simp only [hf, if_true]
    cases s.core.subStatus <;> rfl
  exact ((C09_planStep_cases env s).2.1 hst hp).1

/-- `planFailed` only if a failure is outstanding: reported by this cycle's callbacks or by the
    active state's failure bit; `planSucceeded` only if success is outstanding and no task remains -/
theorem C09_only_if (env : Env) (s : St) :
    (Method.planFailed ∈ outcomes (planStep env s).2 →
        s.core.subStatus = .failure ∨ getBit s.core.fail s.core.active = true) ∧
    (Method.planSucceeded ∈ outcomes (planStep env s).2 → cycleStatus s = .success ∧ s.core.plan = []) := by
  have h := C09_planStep_cases env s
  constructor
  · intro hm
    by_cases hp : s.core.planExists = true
    · cases hst : cycleStatus s
      · rw [(h.1 (Or.inl hst)).1] at hm; cases hm
      · by_cases hpl : s.core.plan = []
        · rw [(h.2.2.2 hst hp hpl).1] at hm; simp at hm
        · rw [h.2.2.1 hst hp hpl] at hm; cases hm
      · unfold cycleStatus stateStatus at hst
        by_cases hb : getBit s.core.fail s.core.active = true
        · right; exact hb
        · left
          simp only [hb, Bool.false_eq_true, if_false] at hst
          cases hs : s.core.subStatus <;> rw [hs] at hst <;> first | rfl | (split at hst <;> simp [Status.or, Status.rank] at hst)
    · have hp' : s.core.planExists = false := by simpa using hp
      rw [(h.1 (Or.inr hp')).1] at hm; cases hm
  · intro hm
    by_cases hp : s.core.planExists = true
    · cases hst : cycleStatus s
      · rw [(h.1 (Or.inl hst)).1] at hm; cases hm
      · by_cases hpl : s.core.plan = []
        · exact ⟨rfl, hpl⟩
        · rw [h.2.2.1 hst hp hpl] at hm; cases hm
      · rw [(h.2.1 hst hp).1] at hm; simp at hm
    · have hp' : s.core.planExists = false := by simpa using hp
      rw [(h.1 (Or.inr hp')).1] at hm; cases hm

end FFSM2
