import FFSM2.Lemmas.AllCb
/-!
# C07 — Payloads travel intact with the transition they were attached to

Payload values are abstract naturals in the model; a transition is one value `Tr` that is copied as
a whole (request → pending → current → previous), so "equal in value" is equality of the `payload`
field.  The byte-level half (placement copy of arbitrary trivially copyable types, sizes 1/16/32,
alignments 1/8/16) is C++ truth and is carried by the correspondence: the harness spreads the payload
integer over every byte of the payload object and decodes it back at every observation point.
-/
namespace FFSM2
open Step

/-- a request carries exactly the payload it was made with, or none -/
theorem C07_request_payload (env : Env) (sid d p : Nat) (s : St) :
    (applyAction env sid (.changeWith d p) s).1.core.request.payload = some p ∧
    (applyAction env sid (.changeTo d) s).1.core.request.payload = none ∧
    (extChange env d (some p) s).1.core.request.payload = some p ∧
    (extChange env d none s).1.core.request.payload = none := ⟨rfl, rfl, rfl, rfl⟩

/-- **pending = the request as made**: the first round of a processing step evaluates exactly the
    outstanding request — origin, destination and payload — unless Q1's duplicate suppression drops it -/
theorem C07_pending_payload (round : Tr → Tr → Step) (fuel : Nat) (cur : Tr) (s : St)
    (hv : s.core.request.valid = true) (hacc : (applyRequest cur s.core.request.dest s.core).2 = true) :
    (substRounds round (fuel + 1) cur s).head?.map (·.1) = some s.core.request := by
  simp [substRounds, hv, hacc]

theorem observe_current (env : Env) (m : Method) (hm : m.flavour ≠ .const) (sid : Nat) (cur pend : Tr) (c : Core) :
    (observe env m.flavour sid cur pend c).current = some cur.canon := by
  simp only [observe]
  cases hfl : m.flavour <;> simp_all

/-- **applied = survivor, payload included**: `exit` / `enter` / `reenter` caused by processing are
    delivered with the surviving transition (origin, destination, payload) as `currentTransition()`,
    and the history records the same value -/
theorem C07_applied_payload (env : Env) (cur : Tr) (s : St) (hh : env.cfg.history = true) :
    ((applySurvivor env cur ⋙ finishProcessing env cur) s).1.core.prev = cur ∧
    AllCb (fun _ _ o => o.current = some cur.canon) (changeToRequested env cur) := by
  constructor
  · exact (finishProcessing_spec env cur _).2.2.1 hh
  · have key : ∀ (m : Method) (hm : m.flavour ≠ .const) (sid : Nat),
        AllCb (fun _ _ o => o.current = some cur.canon) (deliver env m sid cur {}) :=
      fun m hm sid => allCb_deliver env m sid cur {} (fun _ _ c => observe_current env m hm sid cur {} c)
    unfold changeToRequested
    intro s
    dsimp only
    split
    · exact (AllCb.seq (AllCb.seq (AllCb.seq (key .exit (by decide) _) (allCb_modifyCore _ _)) (allCb_modifyCore _ _))
        (allCb_dep fun s0 => key .enter (by decide) _)) s
    · exact (AllCb.seq (allCb_modifyCore _ _) (key .reenter (by decide) _)) s

/-- … and every guard of a round sees that round's pending transition — payload included — as
    `pendingTransition()` -/
theorem C07_guards_see_pending (env : Env) (cur pend : Tr) :
    AllCb (fun _ _ o => o.pending = some pend.canon) (guardRound env cur pend) := by
  have key : ∀ (m : Method) (hm : m.flavour = .guard) (sid : Nat),
      AllCb (fun _ _ o => o.pending = some pend.canon) (deliver env m sid cur pend) :=
    fun m hm sid => allCb_deliver env m sid cur pend (fun _ _ c => by simp [observe, hm])
  unfold guardRound
  refine AllCb.seq (AllCb.seq (allCb_modify _ _) (allCb_dep fun s0 => key .exitGuard rfl _)) ?_
  intro s
  dsimp only
  split
  · intro e he; cases he
  · exact key .entryGuard rfl _ s

/-- **no cross-talk**: a payload-free request exposes none, whatever payload the previous request or
    the previous applied transition carried -/
theorem C07_no_cross_talk (env : Env) (sid d : Nat) (s : St) :
    (applyAction env sid (.changeTo d) s).1.core.request.payload = none := rfl

end FFSM2
