import FFSM2.Lemmas.PlanList
/-!
# C10 — Plan capacity is exact, order-preserving and never leaks

`TaskListT` (`FFSM2/TaskList.lean`) and `PlanT` (`FFSM2/PlanList.lean`) are literal ports: fixed arrays,
the intrusive free list threaded through the `origin/prev` – `destination/next` unions, `taskLinks`,
`tasksBounds`, iterators that cache `_next`.  `PInv p vac order` is the representation invariant with
the ghost free list `vac` and ghost plan order `order`; `absPlan p order` is the plan users see.
The machine model (`Machine.lean`) uses exactly the list-with-capacity these theorems refine to.
-/
namespace FFSM2
open PlanList TaskList

/-- operations on a plan -/
inductive PlanOp where
  | append (o d : Nat)                    -- plan.change(o, d)
  | appendWith (o d pl : Nat)             -- plan.changeWith(o, d, payload)
  | iterRemove (mask : List Bool)         -- for (it = begin(); it; ++it) if (mask) it.remove()   (also: consumption by firing)
  | clear                                 -- plan.clear() / plan-outcome clearing
  deriving Repr

/-- the concrete step -/
def planStepC (p : Plan) : PlanOp → Plan
  | .append o d => (PlanList.append p o d).1
  | .appendWith o d pl => (PlanList.appendWith p o d pl).1
  | .iterRemove mask => (PlanList.iterate p mask).2
  | .clear => PlanList.clearTasks p

/-- the abstract step: a list with a capacity -/
def removeMaskedItems : List Item → List Bool → List Item
  | [], _ => []
  | x :: xs, [] => x :: xs
  | x :: xs, m :: ms => if m then removeMaskedItems xs ms else x :: removeMaskedItems xs ms

def planStepA (cap : Nat) (l : List Item) : PlanOp → List Item
  | .append o d => if l.length < cap then l ++ [⟨o, d, none⟩] else l
  | .appendWith o d pl => if l.length < cap then l ++ [⟨o, d, some pl⟩] else l
  | .iterRemove mask => removeMaskedItems l mask
  | .clear => []

theorem map_keepMask (f : Nat → Item) : ∀ (l : List Nat) (m : List Bool), (keepMask l m).map f = removeMaskedItems (l.map f) m
  | [], _ => rfl
  | x :: xs, [] => rfl
  | x :: xs, b :: bs => by
    simp only [keepMask, List.map_cons, removeMaskedItems]
    split
    · exact map_keepMask f xs bs
    · simp [map_keepMask f xs bs]

theorem emplace_cap (s : TL) (t : Item) : (emplace s t).1.cap = s.cap := by
  unfold emplace; repeat' split
  all_goals rfl

theorem linkTask_tasks (p : Plan) (i : Nat) : (linkTask p i).1.tasks = p.tasks := by
  unfold linkTask; repeat' split
  all_goals rfl

theorem append_cap (p : Plan) (o d : Nat) : (PlanList.append p o d).1.tasks.cap = p.tasks.cap := by
  unfold PlanList.append; split
  · rw [linkTask_tasks]; exact emplace_cap _ _
  · rfl

theorem appendWith_cap (p : Plan) (o d pl : Nat) : (PlanList.appendWith p o d pl).1.tasks.cap = p.tasks.cap := by
  unfold PlanList.appendWith; rw [linkTask_tasks]; exact emplace_cap _ _

/-- one step preserves the invariant and commutes with the abstraction; the capacity never changes -/
theorem planStep_refines {p : Plan} {vac order : List Nat} (h : PInv p vac order) (op : PlanOp) :
    ∃ vac' order', PInv (planStepC p op) vac' order' ∧ (planStepC p op).tasks.cap = p.tasks.cap ∧
      absPlan (planStepC p op) order' = planStepA p.tasks.cap (absPlan p order) op := by
  have hlen : (absPlan p order).length = p.tasks.count := by simp [absPlan, h.cntEq]
  cases op with
  | append o d =>
    obtain ⟨a1, a2⟩ := append_spec h o d
    simp only [planStepC, planStepA, hlen]
    by_cases hc : p.tasks.count < p.tasks.cap
    · obtain ⟨_, vac', idx, i1, i2⟩ := a1 hc
      rw [if_pos hc]
      exact ⟨vac', _, i1, append_cap p o d, i2⟩
    · rw [a2 hc, if_neg hc]; exact ⟨vac, order, h, rfl, rfl⟩
  | appendWith o d pl =>
    obtain ⟨a1, a2⟩ := appendWith_spec h o d pl
    simp only [planStepC, planStepA, hlen]
    by_cases hc : p.tasks.count < p.tasks.cap
    · obtain ⟨_, vac', idx, i1, i2⟩ := a1 hc
      rw [if_pos hc]
      exact ⟨vac', _, i1, appendWith_cap p o d pl, i2⟩
    · rw [a2 hc, if_neg hc]; exact ⟨vac, order, h, rfl, rfl⟩
  | iterRemove mask =>
    have hit := iterLoop_spec order p.tasks.cap p vac [] (iterBegin p) mask (by simpa using h) (order_length_le h)
      (by simp [iterBegin, h.firstEq])
      (by
        simp only [iterBegin]
        cases order with
        | nil => rw [h.firstEq]; exact iterNext_invalid p h.tl.capLe
        | cons x r =>
          have : p.first = x := by rw [h.firstEq]; rfl
          rw [this]; exact iterNext_spec (done := []) (by simpa using h))
    obtain ⟨_, vac', i2, i3⟩ := hit
    simp only [List.nil_append] at i2 i3
    refine ⟨vac', keepMask order mask, i2, ?_, ?_⟩
    · have := i2.linksLen
      show (iterate p mask).2.tasks.cap = p.tasks.cap
      have key : ∀ (fuel : Nat) (q : Plan) (it : Iter) (m : List Bool), (iterLoop fuel q it m).2.tasks.cap = q.tasks.cap := by
        intro fuel
        induction fuel with
        | zero => intro q it m; rfl
        | succ f ih =>
          intro q it m
          simp only [iterLoop]
          split
          · cases m with
            | nil => simp only [Bool.false_eq_true, if_false]; exact ih _ _ _
            | cons b bs =>
              cases b
              · simp only [Bool.false_eq_true, if_false]; exact ih _ _ _
              · simp only [if_true]
                rw [ih]
                rw [remove_tasks]
                unfold TaskList.remove; split <;> rfl
          · rfl
      exact key _ _ _ _
    · show absPlan (iterate p mask).2 (keepMask order mask) = removeMaskedItems (absPlan p order) mask
      unfold absPlan
      rw [← map_keepMask]
      apply List.map_congr_left
      intro j hj; exact i3 j hj
  | clear =>
    obtain ⟨vac', r⟩ := clearTasks_spec h
    refine ⟨vac', [], r, ?_, rfl⟩
    have h1 := r.linksLen
    have key : ∀ (fuel : Nat) (q : Plan) (i : Nat), (clearLoop fuel q i).tasks.cap = q.tasks.cap := by
      intro fuel
      induction fuel with
      | zero => intro q i; rfl
      | succ f ih =>
        intro q i
        simp only [clearLoop]
        split
        · rw [ih, remove_tasks]; unfold TaskList.remove; split <;> rfl
        · rfl
    show (clearTasks p).tasks.cap = p.tasks.cap
    unfold clearTasks
    split
    · exact key _ _ _
    · rfl

/-- **C10 refinement**: for every capacity `1 ≤ C ≤ 255` and every sequence of append /
    append-with-payload / iterator-remove / clear operations of any length, from the initial state:
    the concrete containers satisfy the representation invariant and present exactly the abstract
    list-with-capacity — so appending succeeds exactly when fewer than `C` tasks are present and
    otherwise leaves the plan untouched, order is append order, removal through an iterator does not
    disturb the rest, and no slot is ever leaked -/
theorem C10_refines (cap : Nat) (h1 : 1 ≤ cap) (h2 : cap ≤ 255) (ops : List PlanOp) :
    ∃ vac order, PInv (ops.foldl planStepC (PlanList.init cap)) vac order ∧
      (ops.foldl planStepC (PlanList.init cap)).tasks.cap = cap ∧
      absPlan (ops.foldl planStepC (PlanList.init cap)) order = ops.foldl (planStepA cap) [] := by
  have gen : ∀ (ops : List PlanOp) (p : Plan) (vac order : List Nat), PInv p vac order → p.tasks.cap = cap →
      ∃ vac' order', PInv (ops.foldl planStepC p) vac' order' ∧ (ops.foldl planStepC p).tasks.cap = cap ∧
        absPlan (ops.foldl planStepC p) order' = ops.foldl (planStepA cap) (absPlan p order) := by
    intro ops
    induction ops with
    | nil => intro p vac order h hc; exact ⟨vac, order, h, hc, rfl⟩
    | cons op ops ih =>
      intro p vac order h hc
      obtain ⟨vac1, order1, r1, r2, r3⟩ := planStep_refines h op
      obtain ⟨vac2, order2, s1, s2, s3⟩ := ih _ vac1 order1 r1 (by rw [r2, hc])
      refine ⟨vac2, order2, s1, s2, ?_⟩
      simp only [List.foldl_cons]
      rw [s3, r3, hc]
  have := gen ops (PlanList.init cap) [0] [] (pinv_init cap h1 h2) (by simp [PlanList.init, TaskList.init])
  simpa [absPlan] using this

/-- **exact capacity** (single step, restated): append succeeds iff fewer than capacity tasks are present -/
theorem C10_append_exact {p : Plan} {vac order : List Nat} (h : PInv p vac order) (o d : Nat) :
    ((PlanList.append p o d).2 = true ↔ order.length < p.tasks.cap) ∧
    (¬ order.length < p.tasks.cap → (PlanList.append p o d).1 = p) := by
  obtain ⟨a1, a2⟩ := append_spec h o d
  rw [h.cntEq]
  constructor
  · constructor
    · intro ht
      by_cases hc : p.tasks.count < p.tasks.cap
      · exact hc
      · rw [a2 hc] at ht; cases ht
    · intro hc; exact (a1 hc).1
  · intro hc; rw [a2 hc]

/-- **iteration, first(), last(), emptiness test are consistent with the abstract sequence** -/
theorem C10_observers {p : Plan} {vac order : List Nat} (h : PInv p vac order) :
    ((iterate p []).1.map Prod.snd = absPlan p order) ∧
    (nonEmpty p = !order.isEmpty) ∧
    (order ≠ [] → (absPlan p order).head? = some (firstTask p) ∧ (absPlan p order).getLast? = some (lastTask p)) := by
  have hit := iterLoop_spec order p.tasks.cap p vac [] (iterBegin p) [] (by simpa using h) (order_length_le h)
    (by simp [iterBegin, h.firstEq])
    (by
      simp only [iterBegin]
      cases order with
      | nil => rw [h.firstEq]; exact iterNext_invalid p h.tl.capLe
      | cons x r =>
        have : p.first = x := by rw [h.firstEq]; rfl
        rw [this]; exact iterNext_spec (done := []) (by simpa using h))
  refine ⟨?_, ?_, ?_⟩
  · show ((iterLoop p.tasks.cap p (iterBegin p) []).1).map Prod.snd = _
    rw [hit.1]; simp [absPlan]
  · unfold nonEmpty
    rw [h.firstEq]
    cases order with
    | nil =>
      have hc := h.tl.capLe
      have : ¬ (255 < p.tasks.cap) := by omega
      simp [this]
    | cons x r =>
      have := order_lt_cap h x (by simp)
      simp [this]
  · intro hne
    unfold absPlan firstTask lastTask
    rw [h.firstEq, h.lastEq]
    cases order with
    | nil => exact absurd rfl hne
    | cons x r =>
      constructor
      · simp
      · rw [List.getLast?_map, List.getLast?_eq_some_getLast (by simp)]; simp

/-- **slots are reusable indefinitely**: whatever the history, once the plan is empty the full
    capacity is available again — `cap` consecutive appends all succeed -/
theorem C10_capacity_recovers (cap : Nat) (h1 : 1 ≤ cap) (h2 : cap ≤ 255) (ops : List PlanOp)
    (hempty : ops.foldl (planStepA cap) [] = []) (k : Nat) (hk : k ≤ cap) (tasks : List (Nat × Nat)) (hl : tasks.length = k) :
    (tasks.foldl (fun l t => planStepA cap l (.append t.1 t.2)) (ops.foldl (planStepA cap) [])).length = k := by
  rw [hempty]
  have gen : ∀ (tasks : List (Nat × Nat)) (l : List Item), l.length + tasks.length ≤ cap →
      (tasks.foldl (fun l t => planStepA cap l (.append t.1 t.2)) l).length = l.length + tasks.length := by
    intro tasks
    induction tasks with
    | nil => intro l _; rfl
    | cons t ts ih =>
      intro l hle
      simp only [List.foldl_cons, List.length_cons] at hle ⊢
      have hlt : l.length < cap := by omega
      rw [ih]
      · simp [planStepA, hlt]; omega
      · simp [planStepA, hlt]; omega
  have := gen tasks [] (by simp; omega)
  simpa [hl] using this

/-- non-vacuity: capacity 3 — fill, drop the middle task through an iterator, refill: slot 1 is reused
    and the plan order is append order -/
example :
    let p := [PlanOp.append 1 2, .appendWith 2 3 7, .append 3 4, .append 9 9, .iterRemove [false, true], .append 5 6].foldl planStepC (PlanList.init 3)
    (iterate p []).1 = [(0, ⟨1, 2, none⟩), (2, ⟨3, 4, none⟩), (1, ⟨5, 6, none⟩)] ∧ p.tasks.count = 3 := by decide

end FFSM2
