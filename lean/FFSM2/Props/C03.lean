import FFSM2.Lemmas.Steps
/-!
# C03 — Guards can veto: a cancelled transition is never applied
-/
namespace FFSM2
open Step

/-- **guard evaluation is pure**: a round of guards (processing or activation) never writes the
    registry and never runs enter/exit/reenter, whatever the guards do with their control -/
theorem C03_guards_pure (env : Env) (cur pend : Tr) :
    Stable (guardRound env cur pend) ∧ NoLife (guardRound env cur pend) ∧
    Stable (entryGuardRound env cur pend) ∧ NoLife (entryGuardRound env cur pend) :=
  ⟨stable_guardRound env cur pend, noLife_guardRound env cur pend,
   stable_entryGuardRound env cur pend, noLife_entryGuardRound env cur pend⟩

def Ev.isEntryGuard : Ev → Bool
  | .cb k _ _ => k.method == .entryGuard
  | _ => false

theorem methodPred_isEntryGuard : MethodPred Ev.isEntryGuard :=
  ⟨fun e h => by cases e <;> simp_all [Ev.isEntryGuard, Ev.isCb], fun k k' _ _ _ _ h => by simp [Ev.isEntryGuard, h]⟩

/-- the first half of a processing round: fresh guard control, exit guard of the active state -/
def exitHalf (env : Env) (cur pend : Tr) : Step :=
  Step.modify (fun s => { s with ts := .none, cancelled := false }) ⋙
    (fun s => deliver env .exitGuard s.core.active cur pend s)

/-- **once the exit guard has cancelled, the entry guard is not consulted**: the round then consists of
    the exit-guard half alone, which delivers no `entryGuard` -/
theorem C03_exit_veto_skips_entry (env : Env) (cur pend : Tr) (s : St)
    (h : (exitHalf env cur pend s).1.cancelled = true) :
    guardRound env cur pend s = exitHalf env cur pend s ∧
    (guardRound env cur pend s).2.filter Ev.isEntryGuard = [] := by
  have heq : guardRound env cur pend s = exitHalf env cur pend s := by
    unfold guardRound
    show (exitHalf env cur pend ⋙ _) s = _
    simp only [Step.seq]
    rw [if_pos h]
    simp
  refine ⟨heq, ?_⟩
  rw [heq]
  unfold exitHalf
  exact (Silent.seq (silent_modify _ _)
    (silent_dep fun s0 => silent_deliver methodPred_isEntryGuard env .exitGuard
      (fun k _ _ hk => by simp [Ev.isEntryGuard, hk]) _ _ _)) s

/-- **a vetoed request is never the one applied**: the transition applied by processing is the
    starting value (nothing) or the pending transition of a round that was *not* vetoed -/
theorem C03_veto_respected (cur0 : Tr) (rounds : List (Tr × Bool)) :
    survivor cur0 rounds = cur0 ∨ ∃ r ∈ rounds, r.2 = false ∧ survivor cur0 rounds = r.1 := by
  induction rounds generalizing cur0 with
  | nil => left; rfl
  | cons r rs ih =>
    simp only [survivor, List.foldl_cons]
    cases hc : r.2
    · simp only [Bool.false_eq_true, if_false]
      rcases ih r.1 with e | ⟨x, hx, hx2, e⟩
      · right; exact ⟨r, by simp, hc, e⟩
      · right; exact ⟨x, by simp [hx], hx2, e⟩
    · simp only [if_true]
      rcases ih cur0 with e | ⟨x, hx, hx2, e⟩
      · left; exact e
      · right; exact ⟨x, by simp [hx], hx2, e⟩

/-- a request made from inside a guard is evaluated by a fresh round (it becomes that round's pending
    transition) or is left over at the limit — it is never applied blindly: every pending transition
    the loop evaluates is the request outstanding at that moment, and only non-vetoed ones survive
    (`C03_veto_respected`); the loop itself runs no lifecycle callback -/
theorem C03_rounds_only (env : Env) (fuel : Nat) (cur : Tr) (s : St) :
    (substLoop (guardRound env) fuel cur s).1.1.core.active = s.core.active ∧
    sig (substLoop (guardRound env) fuel cur s).2 = [] :=
  ⟨(substLoop_quiet _ (stable_guardRound env) (noLife_guardRound env) fuel cur s).1,
   substLoop_sig _ (stable_guardRound env) (noLife_guardRound env) fuel cur s⟩

/-- **replayEnter / replayTransition / load consult no guard**, by design -/
theorem C03_replay_no_guards (env : Env) (d : Nat) (buf : List Nat) :
    NoGuard (replayTransition env d) ∧ NoGuard (replayEnter env d) ∧ NoGuard (load env buf) ∧ NoGuard (finalExit env) :=
  ⟨noGuard_replayTransition env d, noGuard_replayEnter env d, noGuard_load env buf, noGuard_finalExit env⟩

end FFSM2
