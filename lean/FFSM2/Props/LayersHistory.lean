import FFSM2.Lemmas.LayerBlocks
import FFSM2.Props.C15
/-!
# C15 over whole histories: every delivery of every history is one whole, correctly ordered block

`C15_history_whole_deliveries` — the `(method, state, layer)` sequence of all delivery events of any history (any
configuration, behaviour, sequence of API calls on any number of instances) is a concatenation of *blocks*, and a block
of method `m` for a state with `k` injected bases is: `I1..Ik` then the state for `entryGuard`, `enter`, `reenter`,
`preUpdate`, `update`, `preReact`, `react`; the state then `Ik..I1` for `exit`, `postUpdate`, `postReact`
(`C15_block_pre`, `C15_block_post`) — every injection's callback and the state's own callback exactly once per lifecycle
event, in LIFO order, for every delivery that ever happens.
-/
namespace FFSM2
open Step Ancestors

theorem C15_history_whole_deliveries (cfg : Cfg) (beh : Beh) (ops : List Op) : Blocks cfg (layerSig (run cfg beh ops).2) :=
  runFrom_blocks cfg beh ops [] 0

theorem C15_history_call_whole_deliveries (cfg : Cfg) (beh : Beh) (w : World) (k : Nat) (op : Op) :
    Blocks cfg (layerSig (stepAll cfg beh w k op).2) := stepAll_blocks cfg beh w k op

/-- a block on the set-up side: `I1..Ik`, then the state -/
theorem C15_block_pre (cfg : Cfg) (m : Method) (sid : Nat) (hm : m ∈ preSide) :
    block cfg m sid = ((injections (cfg.injections sid)).map fun l => (m, sid, l)) ++ [(m, sid, Layer.own)] := by
  unfold block; rw [C15_pre_order _ m hm]; simp

/-- a block on the tear-down side: the state, then `Ik..I1` -/
theorem C15_block_post (cfg : Cfg) (m : Method) (sid : Nat) (hm : m ∈ postSide) :
    block cfg m sid = (m, sid, Layer.own) :: ((injections (cfg.injections sid)).reverse.map fun l => (m, sid, l)) := by
  unfold block; rw [C15_post_order _ m hm]; simp

/-- every block contains every layer exactly once -/
theorem C15_block_exactly_once (cfg : Cfg) (m : Method) (sid : Nat) (hm : m ∈ preSide ∨ m ∈ postSide) :
    (block cfg m sid).Nodup ∧ (block cfg m sid).length = cfg.injections sid + 1 := by
  have h := C15_exactly_once (cfg.injections sid) m hm
  unfold block
  refine ⟨?_, by rw [List.length_map]; exact h.2.2.2⟩
  exact List.Pairwise.map _ (fun a b hab heq => hab (by cases heq; rfl)) h.1

/-- non-vacuity: a state with two injected bases; one update delivers `I1, I2, S` for preUpdate / update and
    `S, I2, I1` for postUpdate -/
example :
    let cfg : Cfg := { n := 2, L := 2, cap := 1, injections := fun s => if s = 0 then 2 else 0 }
    let beh : Beh := fun _ => []
    (layerSig (stepAll cfg beh (run cfg beh [.construct 0 false]).1 1 (.update 0)).2).filter (fun x => x.2.1 == 0) =
      [(.preUpdate, 0, .inj 0), (.preUpdate, 0, .inj 1), (.preUpdate, 0, .own),
       (.update, 0, .inj 0), (.update, 0, .inj 1), (.update, 0, .own),
       (.postUpdate, 0, .own), (.postUpdate, 0, .inj 1), (.postUpdate, 0, .inj 0)] := by
  decide

end FFSM2
