import FFSM2.Lemmas.BitStream
/-!
# C13 — Bit stream: reads return exactly what was written, packed back to back

Property theorems only (helper lemmas: `FFSM2/Lemmas/BitStream.lean`).
The model (`FFSM2/BitStream.lean`) is a literal port of `write<N>` / `read<N>`; `bitWidth`,
`typeBits`, `byteCount` are regenerated from the C++ source on every run (`FFSM2/Gen/Consts.lean`).
-/
namespace FFSM2
open BitStream

/-- The write-stream invariant between calls: a buffer of `BYTE_COUNT` bytes, every byte a
    `uint8_t`, no bit at or above the cursor set, cursor within the declared bit capacity
    (which itself fits the `uint8_t` cursor). -/
structure StreamInv (cap : Nat) (buf : List Nat) (cursor : Nat) : Prop where
  cap_le  : cap ≤ 255
  bytes   : BytesOk buf
  length  : buf.length = byteCount cap
  tail    : bitsOf buf < 2 ^ cursor
  cursor  : cursor ≤ cap

/-- a freshly constructed write stream (`_buffer.clear()`, cursor 0) satisfies the invariant -/
theorem C13_init (cap : Nat) (h : cap ≤ 255) : StreamInv cap (clearBuf cap) 0 where
  cap_le := h
  bytes := bytesOk_replicate _
  length := by simp [clearBuf]
  tail := by simp [clearBuf, bitsOf_replicate_zero]
  cursor := Nat.zero_le _

theorem byteCount_ge (cap : Nat) : cap ≤ 8 * byteCount cap := by
  simp only [byteCount, Gen.byteCount, Gen.contain]; omega

theorem typeBits_ge {w : Nat} (h : w ≤ 32) : w ≤ typeBits w := by
  unfold typeBits Gen.typeBits; split
  · omega
  · split <;> omega

/-- **write spec**: for a field of width `1..32` whose value fits and which fits the capacity,
    `write` adds exactly `v · 2^cursor` to the buffer-as-number, advances the cursor by exactly
    `w`, keeps the buffer length and byte-ness, and re-establishes the invariant. -/
theorem C13_write_spec {cap : Nat} {buf : List Nat} {cursor w v : Nat}
    (inv : StreamInv cap buf cursor) (hw1 : 1 ≤ w) (hw : w ≤ 32) (hv : v < 2 ^ w)
    (hfit : cursor + w ≤ cap) :
    bitsOf (write w buf cursor v).1 = bitsOf buf + v * 2 ^ cursor ∧
    (write w buf cursor v).2 = cursor + w ∧
    StreamInv cap (write w buf cursor v).1 (write w buf cursor v).2 := by
  have hmod : v % 2 ^ typeBits w = v :=
    Nat.mod_eq_of_lt (Nat.lt_of_lt_of_le hv (Nat.pow_le_pow_right (by decide) (typeBits_ge hw)))
  have hcap : cursor + w ≤ 8 * buf.length := by
    rw [inv.length]; exact Nat.le_trans hfit (byteCount_ge cap)
  obtain ⟨h1, h2, h3, h4⟩ := writeLoop_spec w buf cursor v w inv.bytes inv.tail hv (Nat.le_refl _) hcap
  unfold BitStream.write
  rw [hmod]
  refine ⟨h4, h3, ⟨inv.cap_le, h1, by rw [h2, inv.length], ?_, by rw [h3]; exact hfit⟩⟩
  rw [h4, h3, Nat.pow_add, Nat.add_comm, Nat.mul_comm (2 ^ cursor)]
  exact mul_add_lt hv inv.tail

/-- **cursor**: the cursor advances by exactly the field width (never past the capacity, so the
    `uint8_t` cursor cannot wrap). -/
theorem C13_cursor {cap : Nat} {buf : List Nat} {cursor w v : Nat}
    (inv : StreamInv cap buf cursor) (hw1 : 1 ≤ w) (hw : w ≤ 32) (hv : v < 2 ^ w)
    (hfit : cursor + w ≤ cap) :
    (write w buf cursor v).2 = cursor + w ∧ (write w buf cursor v).2 ≤ 255 := by
  have := C13_write_spec inv hw1 hw hv hfit
  exact ⟨this.2.1, by rw [this.2.1]; exact Nat.le_trans hfit inv.cap_le⟩

/-- **frame**: a write alters only the bits of its own field — everything below the old cursor is
    unchanged, the field holds exactly `v`, nothing above the new cursor is set. -/
theorem C13_frame {cap : Nat} {buf : List Nat} {cursor w v : Nat}
    (inv : StreamInv cap buf cursor) (hw1 : 1 ≤ w) (hw : w ≤ 32) (hv : v < 2 ^ w)
    (hfit : cursor + w ≤ cap) :
    bitsOf (write w buf cursor v).1 % 2 ^ cursor = bitsOf buf ∧
    bitsOf (write w buf cursor v).1 / 2 ^ cursor = v := by
  have h := (C13_write_spec inv hw1 hw hv hfit).1
  have hpos : 0 < 2 ^ cursor := Nat.two_pow_pos _
  rw [h]
  constructor
  · rw [Nat.add_mul_mod_self_right, Nat.mod_eq_of_lt inv.tail]
  · rw [Nat.add_mul_div_right _ _ hpos, Nat.div_eq_of_lt inv.tail, Nat.zero_add]

/-- **tail zero**: bits past the cursor stay zero after any write. -/
theorem C13_tail_zero {cap : Nat} {buf : List Nat} {cursor w v : Nat}
    (inv : StreamInv cap buf cursor) (hw1 : 1 ≤ w) (hw : w ≤ 32) (hv : v < 2 ^ w)
    (hfit : cursor + w ≤ cap) :
    ∀ j, (write w buf cursor v).2 ≤ j → (bitsOf (write w buf cursor v).1).testBit j = false := by
  intro j hj
  have h := (C13_write_spec inv hw1 hw hv hfit).2.2
  exact Nat.testBit_lt_two_pow (Nat.lt_of_lt_of_le h.tail (Nat.pow_le_pow_right (by decide) hj))

/-- **read spec**: `read<w>` returns bits `[cursor, cursor+w)` of the buffer-as-number and advances
    the cursor by exactly `w` (no precondition on the buffer beyond byte-ness). -/
theorem C13_read_spec {buf : List Nat} {cursor w : Nat} (hok : BytesOk buf) (hw : w ≤ 32) :
    read w buf cursor = (bitsOf buf / 2 ^ cursor % 2 ^ w, cursor + w) := by
  obtain ⟨h1, h2⟩ := readLoop_spec w (typeBits w) buf cursor 0 0 w hok (Nat.le_refl _)
    (by simpa using typeBits_ge hw) (by simp)
  unfold BitStream.read
  ext
  · rw [h2]; simp
  · rw [h1]

/-- every byte index either loop touches is inside the buffer -/
theorem C13_byteIndex_in_range {cap cursor w : Nat} (hfit : cursor + w ≤ cap) :
    ∀ c, cursor ≤ c → c < cursor + w → c >>> 3 < byteCount cap := by
  intro c _ h2
  have := byteCount_ge cap
  rw [shiftRight3]; omega

end FFSM2

namespace FFSM2
open BitStream

/-- total width of a field sequence -/
def totalWidth : List (Nat × Nat) → Nat
  | [] => 0
  | (w, _) :: fs => w + totalWidth fs

/-- the field values packed back to back, least significant first -/
def packed : List (Nat × Nat) → Nat
  | [] => 0
  | (w, v) :: fs => v + 2 ^ w * packed fs

/-- every field has a width in `1..32` and a value that fits it -/
def FieldsOk (fs : List (Nat × Nat)) : Prop := ∀ f ∈ fs, 1 ≤ f.1 ∧ f.1 ≤ 32 ∧ f.2 < 2 ^ f.1

theorem packed_lt {fs : List (Nat × Nat)} (h : FieldsOk fs) : packed fs < 2 ^ totalWidth fs := by
  induction fs with
  | nil => simp [packed, totalWidth]
  | cons f fs ih =>
    obtain ⟨w, v⟩ := f
    have hf := h (w, v) (by simp)
    have := ih (fun g hg => h g (by simp [hg]))
    have hv : v < 2 ^ w := hf.2.2
    have key := mul_add_lt this hv
    simp only [packed, totalWidth, Nat.pow_add]
    grind

theorem writeAll_spec (fs : List (Nat × Nat)) : ∀ {cap : Nat} {buf : List Nat} {cursor : Nat},
    StreamInv cap buf cursor → FieldsOk fs → cursor + totalWidth fs ≤ cap →
    bitsOf (writeAll fs buf cursor).1 = bitsOf buf + packed fs * 2 ^ cursor ∧
    (writeAll fs buf cursor).2 = cursor + totalWidth fs ∧
    StreamInv cap (writeAll fs buf cursor).1 (writeAll fs buf cursor).2 := by
  induction fs with
  | nil => intro cap buf cursor inv _ _; simp [writeAll, packed, totalWidth, inv]
  | cons f fs ih =>
    intro cap buf cursor inv hok hfit
    obtain ⟨w, v⟩ := f
    have hf := hok (w, v) (by simp)
    simp only [totalWidth] at hfit
    obtain ⟨h1, h2, h3⟩ := C13_write_spec inv hf.1 hf.2.1 hf.2.2 (by omega)
    have := ih h3 (fun g hg => hok g (by simp [hg])) (by rw [h2]; omega)
    obtain ⟨r1, r2, r3⟩ := this
    simp only [writeAll, packed, totalWidth]
    refine ⟨?_, by rw [r2, h2]; omega, r3⟩
    rw [r1, h1, h2, Nat.pow_add]
    generalize packed fs = p
    grind

theorem split_unique {a b c d n : Nat} (ha : a < n) (hc : c < n) (h : a + n * b = c + n * d) :
    a = c ∧ b = d := by
  have h1 : (a + n * b) % n = (c + n * d) % n := by rw [h]
  rw [Nat.add_mul_mod_self_left, Nat.add_mul_mod_self_left, Nat.mod_eq_of_lt ha, Nat.mod_eq_of_lt hc] at h1
  subst h1
  have hn : 0 < n := by omega
  have h2 : n * b = n * d := by omega
  exact ⟨rfl, Nat.eq_of_mul_eq_mul_left hn h2⟩

theorem readAll_spec (fs : List (Nat × Nat)) : ∀ {buf : List Nat} {cursor : Nat},
    BytesOk buf → FieldsOk fs → bitsOf buf / 2 ^ cursor % 2 ^ totalWidth fs = packed fs →
    readAll (fs.map Prod.fst) buf cursor = (fs.map Prod.snd, cursor + totalWidth fs) := by
  induction fs with
  | nil => intro buf cursor _ _ _; simp [readAll, totalWidth]
  | cons f fs ih =>
    intro buf cursor hb hok hp
    obtain ⟨w, v⟩ := f
    have hf := hok (w, v) (by simp)
    simp only [totalWidth, packed, Nat.pow_add, Nat.mod_mul] at hp
    have hlt : bitsOf buf / 2 ^ cursor % 2 ^ w < 2 ^ w := Nat.mod_lt _ (Nat.two_pow_pos _)
    obtain ⟨e1, e2⟩ := split_unique hlt hf.2.2 hp
    rw [Nat.div_div_eq_div_mul, ← Nat.pow_add] at e2
    have := ih (cursor := cursor + w) hb (fun g hg => hok g (by simp [hg])) e2
    simp only [List.map_cons, readAll, C13_read_spec hb hf.2.1, this, e1, totalWidth]
    ext <;> simp <;> omega

/-- **C13 round trip**: for any sequence of fields with widths `1..32` whose values fit and whose
    total fits the capacity (≤ 255 bits), writing them into a fresh stream and reading the same
    widths back from cursor 0 returns the same values in order, and both cursors end at the total
    width. -/
theorem C13_read_write_seq (cap : Nat) (hcap : cap ≤ 255) (fs : List (Nat × Nat))
    (hok : FieldsOk fs) (hfit : totalWidth fs ≤ cap) :
    let w := writeAll fs (clearBuf cap) 0
    readAll (fs.map Prod.fst) w.1 0 = (fs.map Prod.snd, totalWidth fs) ∧ w.2 = totalWidth fs := by
  intro w
  obtain ⟨h1, h2, h3⟩ := writeAll_spec fs (C13_init cap hcap) hok (by omega)
  have hbits : bitsOf w.1 = packed fs := by
    show bitsOf (writeAll fs (clearBuf cap) 0).1 = packed fs
    rw [h1]; simp [clearBuf, bitsOf_replicate_zero]
  have := readAll_spec fs (buf := w.1) (cursor := 0) h3.bytes hok
    (by rw [hbits]; simp; exact Nat.mod_eq_of_lt (packed_lt hok))
  refine ⟨by simpa using this, by simpa using h2⟩

theorem ite_imp {c : Prop} [Decidable c] {a b k : Nat} {G : Prop}
    (h1 : c → a = k → G) (h2 : ¬c → b = k → G) : (if c then a else b) = k → G := by
  intro h; split at h
  · exact h1 ‹_› h
  · exact h2 ‹_› h

/-- **bitWidth** (on the chain as translated from the source this run): for every 32-bit argument
    the derived width suffices (`v < 2^(bitWidth v)`) and is minimal. -/
theorem C13_bitWidth_spec (v : Nat) (hv : v < 2 ^ 32) :
    v < 2 ^ Gen.bitWidth v ∧ (Gen.bitWidth v = 0 ∨ 2 ^ (Gen.bitWidth v - 1) ≤ v) := by
  generalize h : Gen.bitWidth v = k
  unfold Gen.bitWidth at h
  simp only [Nat.shiftRight_eq_div_pow, Nat.reducePow] at h
  revert h
  repeat' (refine ite_imp (fun hc h => ?_) (fun hc => ?_))
  all_goals first | (subst h; omega) | (intro h; subst h; omega)

/-- the width derived for a state count `n` encodes every state index of that count -/
theorem C13_bitWidth_suffices (n : Nat) (hn : n ≤ 255) (a : Nat) (ha : a < n) :
    a < 2 ^ Gen.bitWidth n :=
  Nat.lt_trans ha (C13_bitWidth_spec n (by omega)).1

/-- non-vacuity: a concrete three-field sequence meets the hypotheses, and the model computes the
    expected bytes (LSB-first packing: 5 in 3 bits, 0x1ff in 9 bits, 1 in 1 bit). -/
example : FieldsOk [(3, 5), (9, 511), (1, 1)] ∧ totalWidth [(3, 5), (9, 511), (1, 1)] ≤ 16 ∧
    (writeAll [(3, 5), (9, 511), (1, 1)] (clearBuf 16) 0) = ([0xFD, 0x1F], 13) := by
  refine ⟨?_, by decide, by decide⟩
  intro f hf
  simp at hf
  rcases hf with rfl | rfl | rfl <;> decide

end FFSM2
