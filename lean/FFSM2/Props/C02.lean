import FFSM2.Lemmas.Steps
/-!
# C02 — Transition outcome: last surviving request wins, applied only when processed

All statements quantify over every configuration `env.cfg`, every callback behaviour `env.beh`
(a universally quantified function `Key → List Action`) and every machine state `s`.
-/
namespace FFSM2
open Step

/-- **a request made through a control never changes the active state when it is made** and runs no
    enter/exit/reenter: true of every action of every control flavour -/
theorem C02_request_inert_control (env : Env) (sid : Nat) (a : Action) :
    Stable (applyAction env sid a) ∧ NoLife (applyAction env sid a) :=
  ⟨stable_applyAction env sid a, silent_applyAction methodPred_isLife env sid a⟩

/-- … and the same for `machine.changeTo / changeWith` from outside -/
theorem C02_request_inert_external (env : Env) (d : Nat) (p : Option Nat) (s : St) :
    (extChange env d p s).1.core.active = s.core.active ∧ (extChange env d p s).2.filter Ev.isLife = [] :=
  ⟨rfl, filter_logEv methodPred_isLife env s.core _⟩

/-- **a later request replaces an earlier unprocessed one**: whatever request was outstanding, after
    `changeTo d` from state `sid` the outstanding request is exactly `sid → d` -/
theorem C02_later_replaces_earlier (env : Env) (sid d : Nat) (s : St) :
    (applyAction env sid (.changeTo d) s).1.core.request = ⟨sid, d, none⟩ ∧
    ∀ p, (applyAction env sid (.changeWith d p) s).1.core.request = ⟨sid, d, some p⟩ :=
  ⟨rfl, fun _ => rfl⟩

/-- **outcome of processing** (`immediateChangeTo/With`, end of `update()/react()`): with `cur` the
    most recent request that was not cancelled by a guard —
    none ⇒ the active state is unchanged and no enter/exit/reenter runs;
    `cur.dest` active already ⇒ `reenter` alone; otherwise `exit(old)` then `enter(cur.dest)`. -/
theorem C02_outcome (env : Env) (s : St) :
    let cur := survivor {} (processRounds env s)
    (cur.valid = false → (processRequest env s).1.core.active = s.core.active ∧ sig (processRequest env s).2 = []) ∧
    (cur.valid = true → (processRequest env s).1.core.active = cur.dest ∧
      sig (processRequest env s).2 =
        if cur.dest != s.core.active then [(Method.exit, s.core.active), (Method.enter, cur.dest)]
        else [(Method.reenter, s.core.active)]) :=
  ⟨(processRequest_spec env s).2.2.2.1, (processRequest_spec env s).2.2.2.2⟩

/-- the whole `update()` / `react()`: nothing before the processing point touches the active state or
    runs a lifecycle callback, so the call's lifecycle is exactly that of its processing point -/
theorem C02_cycle_outcome (env : Env) (pre mid post : Method)
    (hpre : pre.isLife = false) (hmid : mid.isLife = false) (hpost : post.isLife = false) (s : St) :
    let s1 := (prelude env pre mid post s).1
    s1.core.active = s.core.active ∧
    (cycle env pre mid post s).1.core.active = (processRequest env s1).1.core.active ∧
    sig (cycle env pre mid post s).2 = sig (processRequest env s1).2 := by
  intro s1
  have hq : NoLife (prelude env pre mid post) := by
    apply silent_prelude methodPred_isLife
    intro m hm
    rcases hm with rfl | rfl | rfl | rfl | rfl
    · exact life_excludes hpre
    · exact life_excludes hmid
    · exact life_excludes hpost
    · exact life_excludes rfl
    · exact life_excludes rfl
  refine ⟨(stable_prelude env pre mid post s).1, ?_, ?_⟩
  · rw [cycle_eq]; rfl
  · rw [cycle_eq, sig_seq, sig_of_noLife hq, List.nil_append]

/-- non-vacuity: a two-round history — request to 1, its entry guard redirects to 2 and the redirect
    is vetoed — leaves the machine in state 1 (the survivor), entered exactly once -/
example :
    let cfg : Cfg := { n := 3, L := 4, cap := 3 }
    let beh : Beh := fun k =>
      if k.method = .entryGuard ∧ k.sid = 1 then [.changeTo 2]
      else if k.method = .entryGuard ∧ k.sid = 2 then [.cancel] else []
    let r := run cfg beh [.construct 0 false, .immediateChangeTo 0 1]
    (r.1.get 0).map (·.active) = some 1 ∧ sig r.2 = [(.enter, 255), (.enter, 0), (.exit, 0), (.enter, 1)] := by
  decide

end FFSM2
