import FFSM2.Lemmas.World
import FFSM2.Lemmas.PlanStep
/-!
# C08 / C10 over whole histories: the plan is exactly what user code and the plan step made it

* `C10_history_plan_is_edit_trace` — for every API call other than `update` / `react` / `exit` / `load` / the
  plan's own API, from any world: the plan after the call is the plan before it with the edits user code
  performed during the call (`plan().change…`, `clear()`, `remove()` inside callbacks) applied in order, the
  append succeeding exactly when fewer than `capacity` tasks are present.  No task fires, none is lost, none
  appears.  (C08: *only during the plan step of update()/react()*; C10: *iterating yields precisely the tasks
  appended and not yet removed, in append order*.)
* `C08_history_cycle_plan` — for `update` / `react`: the events of the call split into three runs; before and
  after the plan step only user code's edits apply; the plan step leaves the plan alone, empties it, or removes
  exactly what `keptOf` does not keep for **the state that was active when the call began** — so
  (`C08_fire_sound`, `C08_once`) every task that fires has that state as its origin, lies in the leading run
  of its tasks, and the tasks that stay keep their order.
* `C10_history_api_append` — `plan().change…()` from outside: accepted, it appends exactly when the plan has
  room and reports exactly that; otherwise the plan is untouched.
-/
namespace FFSM2
open Step

/-- the plan of a slot (no machine: no plan) -/
def planOf : Option Core → List Task
  | some c => c.plan
  | none => []

/-- the API calls during which only user code's edits touch the plan -/
def ApiTag.tracesPlan : ApiTag → Bool
  | .update | .react | .exit | .load | .planAppend | .planEdit => false
  | _ => true

theorem apiStep_planTrace {w : World} {env : Env} {tag : ApiTag} {slot : Option Core} {c : Core} {f : Step}
    (h : ApiStep env.cfg w env tag slot c f) (ht : tag.tracesPlan = true) : PlanTrace env.cfg.cap f := by
  cases h with
  | constructManual => exact planTrace_skip
  | constructAuto => exact planTrace_initialEnter env
  | enter => exact planTrace_initialEnter env
  | exit => cases ht
  | update => cases ht
  | react => cases ht
  | query => exact planTrace_query env
  | change => exact planTrace_extChange env _ _
  | immediate => exact PlanTrace.seq (planTrace_extChange env _ _) (planTrace_processRequest env)
  | status => exact planTrace_extStatus env _ _
  | planAppend => cases ht
  | planEdit => cases ht
  | load => cases ht
  | replayEnter => exact planTrace_replayEnter env _
  | replayClear => exact (by apply planTrace_modifyCore; intro _; rfl)
  | replayTransition => exact planTrace_replayTransition env _
  | attachLogger => exact (by apply planTrace_modifyCore; intro _; rfl)

theorem apiStep_slot_plan {cfg : Cfg} {w : World} {env : Env} {tag : ApiTag} {slot : Option Core} {c : Core} {f : Step}
    (h : ApiStep cfg w env tag slot c f) : planOf slot = c.plan := by
  cases h <;> rfl

theorem noEdit_api (i k : Nat) (name : String) (o : ApiObs) : ∀ e ∈ [Ev.api i k name o], e.isPlanEdit = false := by
  intro e he; simp only [List.mem_singleton] at he; rw [he]; rfl

/-- **C10 / C08 over whole histories — outside `update()` / `react()` the plan is exactly the trace of user
    code's edits.**  Any world, any call other than a cycle, `exit()`, `load()`, a copy, a destruction or the
    plan's own API: the plan of the instance afterwards is its plan before with the plan edits performed by user
    callbacks during the call applied in order (an append taking effect exactly when there is room). -/
theorem C10_history_plan_is_edit_trace (cfg : Cfg) (beh : Beh) (w : World) (k : Nat) (op : Op)
    (ht : ∀ tag, op.tag = some tag → tag.tracesPlan = true)
    (hcopy : ∀ src, op ≠ .copy op.inst src) (hdes : op ≠ .destroy op.inst) :
    planOf ((stepAll cfg beh w k op).1.get op.inst) =
      editsPlan cfg.cap (stepAll cfg beh w k op).2 (planOf (w.get op.inst)) := by
  have h := stepAll_shape cfg beh w k op
  generalize stepAll cfg beh w k op = r at h
  cases h with
  | copy src sc hop h1 h2 => exact absurd hop (hcopy src)
  | step op' hs hd =>
    have ht' : ∀ tag, op'.tag = some tag → tag.tracesPlan = true := by
      intro tag h
      rcases hd with rfl | ⟨_, h2 | h2⟩
      · exact ht tag h
      · rw [h2] at h; cases h; rfl
      · rw [h2] at h; cases h; rfl
    have hdes' : op' ≠ .destroy op.inst := by
      rcases hd with rfl | ⟨h1, _⟩
      · exact hdes
      · exact h1 _
    cases hs with
    | rejected name => rfl
    | call tag slot c f ret name htag hget hf =>
      have hp := apiStep_planTrace (env := ⟨cfg, beh, op.inst, k⟩) hf (ht' tag htag) { core := c }
      rw [onCore_fst, onCore_snd, World.get_put_same, editsPlan_append, editsPlan_noEdit _ [_] _ (noEdit_api _ _ _ _),
        hget, apiStep_slot_plan hf]
      exact hp
    | destroyManual c name hop hm hget => exact absurd hop hdes'
    | destroyAuto c name hop hm hget => exact absurd hop hdes'
    | save c name o hget => rfl

/-- **C08 over whole histories — what `update()` / `react()` do to the plan.**  Any world, instance holding
    core `c`: the events of the call split into three runs `es1 ++ es2 ++ es3` (before, during, after the plan
    step) such that the plan afterwards is `es3`'s edits applied to `q`, where `q` is what the plan step left
    of `X` = the plan before the call with `es1`'s edits applied: all of it, nothing, or `keptOf X a b` for
    `a` = **the state active when the call began**. -/
theorem C08_history_cycle_plan (cfg : Cfg) (beh : Beh) (w : World) (k : Nat) (op : Op) (c : Core)
    (hg : w.get op.inst = some c) (ht : op.tag = some .update ∨ op.tag = some .react) :
    ∃ (es1 es2 es3 : List Ev) (q : List Task),
      (stepAll cfg beh w k op).2 = es1 ++ es2 ++ es3 ∧
      (q = editsPlan cfg.cap es1 c.plan ∨ q = [] ∨ ∃ b, q = keptOf (editsPlan cfg.cap es1 c.plan) c.active b) ∧
      planOf ((stepAll cfg beh w k op).1.get op.inst) = editsPlan cfg.cap es3 q := by
  have hs : StepShape cfg beh w k op.inst op (stepAll cfg beh w k op) := by
    rcases ht with ht | ht <;> cases op <;> simp [Op.tag] at ht <;> exact step_shape cfg beh w k _
  generalize stepAll cfg beh w k op = r at hs
  have hnodes : ∀ j, op ≠ .destroy j := by
    intro j e; rw [e] at ht; rcases ht with ht | ht <;> simp [Op.tag] at ht
  cases hs with
  | rejected name =>
    exact ⟨[], [], [.rejected op.inst k name], c.plan, rfl, Or.inl rfl, by rw [hg]; rfl⟩
  | call tag slot c0 f ret name htag hget hf =>
    have hcyc : ∃ pre mid post, f = cycle ⟨cfg, beh, op.inst, k⟩ pre mid post ∧ c0 = c := by
      rw [hg] at hget
      cases hf with
      | update c1 _ => cases hget; exact ⟨_, _, _, rfl, rfl⟩
      | react c1 _ => cases hget; exact ⟨_, _, _, rfl, rfl⟩
      | _ => rcases ht with ht | ht <;> rw [ht] at htag <;> cases htag
    obtain ⟨pre, mid, post, rfl, rfl⟩ := hcyc
    obtain ⟨es1, es2, es3, q, h1, h2, h3⟩ := cycle_plan ⟨cfg, beh, op.inst, k⟩ pre mid post { core := c0 }
    refine ⟨es1, es2, es3 ++ [.api op.inst k name (apiObs cfg (cycle ⟨cfg, beh, op.inst, k⟩ pre mid post { core := c0 }).1.core
        (ret (cycle ⟨cfg, beh, op.inst, k⟩ pre mid post { core := c0 }).1.core))], q, ?_, h2, ?_⟩
    · rw [onCore_snd, h1]; simp only [List.append_assoc]
    · rw [onCore_fst, World.get_put_same, editsPlan_append, editsPlan_noEdit _ [_] _ (noEdit_api _ _ _ _)]
      exact h3
  | destroyManual c1 name hop hm hget => exact absurd hop (hnodes _)
  | destroyAuto c1 name hop hm hget => exact absurd hop (hnodes _)
  | save c1 name o hget =>
    exact ⟨[], [], [.api op.inst k name o], c.plan, rfl, Or.inl rfl, by rw [hg]; rfl⟩

/-- consequence in the words of the property: whatever the plan step removed during an `update()` /
    `react()` are tasks of the state active at the start of the call, and what it kept is in the original order -/
theorem C08_history_cycle_kept_sublist (cfg : Cfg) (beh : Beh) (w : World) (k : Nat) (op : Op) (c : Core)
    (hg : w.get op.inst = some c) (ht : op.tag = some .update ∨ op.tag = some .react) :
    ∃ (es1 es2 es3 : List Ev) (q : List Task),
      (stepAll cfg beh w k op).2 = es1 ++ es2 ++ es3 ∧
      List.Sublist q (editsPlan cfg.cap es1 c.plan) ∧
      planOf ((stepAll cfg beh w k op).1.get op.inst) = editsPlan cfg.cap es3 q := by
  obtain ⟨es1, es2, es3, q, h1, h2, h3⟩ := C08_history_cycle_plan cfg beh w k op c hg ht
  refine ⟨es1, es2, es3, q, h1, ?_, h3⟩
  rcases h2 with rfl | rfl | ⟨b, rfl⟩
  · exact List.Sublist.refl _
  · exact List.nil_sublist _
  · exact (C08_once _ _ _).2

/-- **C10 over whole histories — `plan().change…()` from outside**: from any world, with the instance holding
    core `c`: the plan afterwards is the old plan with the task appended if the call was in contract and the plan
    had room, and the old plan otherwise. -/
theorem C10_history_api_append (cfg : Cfg) (beh : Beh) (w : World) (k i o d : Nat) (p : Option Nat) (c : Core)
    (hg : w.get i = some c) :
    planOf ((stepAll cfg beh w k (.planAppend i o d p)).1.get i) =
      (if permitted cfg .plan 0 (.planAppend o d p) = true ∧ c.plan.length < cfg.cap then c.plan ++ [⟨o, d, p⟩] else c.plan) := by
  simp only [stepAll, step, Op.inst, Op.name, hg]
  by_cases hperm : permitted cfg .plan 0 (.planAppend o d p) = true
  · rw [if_pos hperm, onCore_fst, World.get_put_same]
    simp only [hperm, true_and, planOf]
    cases p <;> simp only [applyAction] <;> split <;> rfl
  · rw [if_neg hperm, hg, if_neg (fun h => hperm h.1)]
    rfl

/-- non-vacuity: a plan `[0→1, 0→2, 1→2]` with capacity 3, state 0 active and succeeded: `update()` fires
    the two leading tasks (the later one wins: state 2 is entered) and keeps `1→2` -/
example :
    let cfg : Cfg := { n := 3, L := 2, cap := 3, plans := true }
    let beh : Beh := fun _ => []
    let ops : List Op := [.construct 0 false, .planAppend 0 0 1 none, .planAppend 0 0 2 none, .planAppend 0 1 2 none,
                          .planAppend 0 2 0 none, .succeed 0 0, .update 0]
    planOf ((run cfg beh ops).1.get 0) = [⟨1, 2, none⟩] ∧ ((run cfg beh ops).1.get 0).map (·.active) = some 2 := by
  decide

end FFSM2
